package main

// C20 — R20c (bounds of accesses to the parsed rune slice in the parse-only
// slice). A forward must-analysis on go/cfg with facts "base + K < len(S)"
// (S, base printed access paths; base "" = the constant 0) and "base >= L",
// generated on branch edges, shifted by ++/--/±const, killed by assignments
// and by calls whose (transitive) write set contains the field. Unguarded
// accesses at the receiver's own position become a precondition of the
// function, discharged at its call sites.

import (
	"fmt"
	"go/ast"
	"go/token"
	"go/types"
	"sort"
	"strings"

	"golang.org/x/tools/go/cfg"
)

type c20BKey struct{ s, base string }

type c20BState struct {
	dead   bool
	facts  map[c20BKey]int     // base + K < len(s)
	lo     map[string]int      // base >= L
	links  map[string]c20Link  // local rune variable -> helper result it holds (valid while the position is unchanged)
	bycall map[*types.Var]bool // this field was last changed by a callee (no test on it since)
	leneq  map[string]c20LenEq // local int variable == len(s) + k (valid while s and the variable are unchanged)
}

// c20LenEq: the local holds len(s)+k (`n := len(tree.expression)`, `last := len(tree.ast) - 1`).
type c20LenEq struct {
	s string
	k int
}

// c20Link: the variable holds owner.expression[owner.charPos+c] or 0.
type c20Link struct {
	owner string
	c     int
}

func c20NewBState() *c20BState {
	return &c20BState{facts: map[c20BKey]int{}, lo: map[string]int{}, links: map[string]c20Link{}, bycall: map[*types.Var]bool{}, leneq: map[string]c20LenEq{}}
}

func (s *c20BState) clone() *c20BState {
	n := c20NewBState()
	n.dead = s.dead
	for k, v := range s.facts {
		n.facts[k] = v
	}
	for k, v := range s.lo {
		n.lo[k] = v
	}
	for k, v := range s.links {
		n.links[k] = v
	}
	for k, v := range s.bycall {
		n.bycall[k] = v
	}
	for k, v := range s.leneq {
		n.leneq[k] = v
	}
	return n
}

// meet: must-information of both (dead states are neutral).
func c20Meet(a, b *c20BState) *c20BState {
	if a == nil || a.dead {
		if b == nil {
			return nil
		}
		return b.clone()
	}
	if b == nil || b.dead {
		return a.clone()
	}
	n := c20NewBState()
	for k, v := range a.facts {
		if w, ok := b.facts[k]; ok {
			if w < v {
				v = w
			}
			n.facts[k] = v
		}
	}
	for k, v := range a.lo {
		if w, ok := b.lo[k]; ok {
			if w < v {
				v = w
			}
			n.lo[k] = v
		}
	}
	for k, v := range a.links {
		if w, ok := b.links[k]; ok && w == v {
			n.links[k] = v
		}
	}
	for k := range a.bycall {
		n.bycall[k] = true
	}
	for k := range b.bycall {
		n.bycall[k] = true
	}
	for k, v := range a.leneq {
		if w, ok := b.leneq[k]; ok && w == v {
			n.leneq[k] = v
		}
	}
	return n
}

func c20BEqual(a, b *c20BState) bool {
	if a == nil || b == nil {
		return a == b
	}
	if a.dead != b.dead || len(a.facts) != len(b.facts) || len(a.lo) != len(b.lo) || len(a.links) != len(b.links) || len(a.bycall) != len(b.bycall) || len(a.leneq) != len(b.leneq) {
		return false
	}
	for k, v := range a.leneq {
		if w, ok := b.leneq[k]; !ok || w != v {
			return false
		}
	}
	for k, v := range a.facts {
		if w, ok := b.facts[k]; !ok || w != v {
			return false
		}
	}
	for k, v := range a.lo {
		if w, ok := b.lo[k]; !ok || w != v {
			return false
		}
	}
	for k, v := range a.links {
		if w, ok := b.links[k]; !ok || w != v {
			return false
		}
	}
	for k := range a.bycall {
		if !b.bycall[k] {
			return false
		}
	}
	return true
}

// c20Lin is a linear reading of an int expression: [len(lenOf)] + [base] + k.
type c20Lin struct {
	lenOf string
	base  string
	k     int
	ok    bool
}

type c20Bounds struct {
	c    *Ctx
	e    *c20Eng
	info *types.Info

	writes    map[*types.Func]map[*types.Var]bool // transitive field write sets
	dynAll    map[*types.Func]bool                // contains a dynamic call: may write anything
	ctors     map[*types.Func]map[string]int      // constructor summaries: field name -> param index
	isCtor    map[*types.Func]bool
	helpers   map[*types.Func]int  // receiver.expression[receiver.charPos+c] or 0
	zeroFalse map[*types.Func]bool // rune predicates with pred(0) == false
	tagOf     map[*ast.FuncDecl]map[ast.Expr]ast.Expr
	litWrites map[*ast.FuncLit]map[*types.Var]bool
	pathFld   map[string][]*types.Var        // printed path -> fields selected along it
	pre       map[*types.Func]map[string]int // owner path (callee names) -> required K at entry
	preStrict map[*types.Func]bool           // the requirement protects an element index (not only a re-slice)
	parents   map[*ast.FuncDecl]map[ast.Node]ast.Node
	cfgs      map[*ast.FuncDecl]*cfg.CFG
	tagged    map[*ast.FuncDecl]map[ast.Expr]bool
	alias     map[*ast.FuncDecl]map[string]string

	posFld map[*types.Var]bool // charPos fields
	expFld map[*types.Var]bool // expression fields

	// results of the final pass
	sites    []c20BSite
	diverged map[string]bool
}

type c20BSite struct {
	fd      *ast.FuncDecl
	node    ast.Node // IndexExpr / SliceExpr / CallExpr (precondition)
	what    string
	kind    string // index | slice | lenrel | pre
	ok      bool
	under   string // "" | "precondition"
	need    string
	und     bool // outside the recognised forms
	hadTest bool // a test on the same position exists here but is too weak: the function's own guard is wrong
}

func (b *c20Bounds) path(x ast.Expr) string {
	x = unparen(x)
	switch n := x.(type) {
	case *ast.Ident:
		return n.Name
	case *ast.SelectorExpr:
		q := b.path(n.X)
		if q == "" {
			return ""
		}
		p := q + "." + n.Sel.Name
		if _, ok := b.pathFld[p]; !ok {
			fl := append([]*types.Var(nil), b.pathFld[q]...)
			if v, _ := fieldOf(b.info, n); v != nil {
				fl = append(fl, v)
			}
			b.pathFld[p] = fl
		}
		return p
	}
	return ""
}

func (b *c20Bounds) norm(fd *ast.FuncDecl, p string) string {
	for from, to := range b.alias[fd] {
		if p == from || strings.HasPrefix(p, from+".") {
			q := to + p[len(from):]
			if _, ok := b.pathFld[q]; !ok {
				b.pathFld[q] = b.pathFld[p]
			}
			return q
		}
	}
	return p
}

func (b *c20Bounds) pathHas(p string, v *types.Var) bool {
	for _, f := range b.pathFld[strings.TrimPrefix(p, "-")] {
		if f == v {
			return true
		}
	}
	return false
}

func (b *c20Bounds) lastFld(p string) *types.Var {
	fl := b.pathFld[strings.TrimPrefix(p, "-")]
	if len(fl) == 0 {
		return nil
	}
	return fl[len(fl)-1]
}

func (b *c20Bounds) lin(fd *ast.FuncDecl, x ast.Expr) c20Lin {
	x = unparen(x)
	if v, ok := constInt(b.info, x); ok {
		return c20Lin{k: int(v), ok: true}
	}
	switch n := x.(type) {
	case *ast.Ident, *ast.SelectorExpr:
		if p := b.path(n.(ast.Expr)); p != "" {
			if t := b.info.TypeOf(n.(ast.Expr)); t != nil {
				if bt, ok := t.Underlying().(*types.Basic); ok && bt.Info()&types.IsInteger != 0 {
					return c20Lin{base: b.norm(fd, p), ok: true}
				}
			}
		}
	case *ast.CallExpr:
		if call, ok := isBuiltinCall(b.info, n, "len"); ok && len(call.Args) == 1 {
			if p := b.path(call.Args[0]); p != "" {
				return c20Lin{lenOf: b.norm(fd, p), ok: true}
			}
		}
		// int(x) conversions
		if tv, ok := b.info.Types[n.Fun]; ok && tv.IsType() && len(n.Args) == 1 {
			return b.lin(fd, n.Args[0])
		}
	case *ast.BinaryExpr:
		if n.Op == token.ADD || n.Op == token.SUB {
			l, r := b.lin(fd, n.X), b.lin(fd, n.Y)
			if !l.ok || !r.ok {
				return c20Lin{}
			}
			if n.Op == token.ADD {
				if (l.lenOf != "" && r.lenOf != "") || (l.base != "" && r.base != "") {
					return c20Lin{}
				}
				return c20Lin{lenOf: l.lenOf + r.lenOf, base: l.base + r.base, k: l.k + r.k, ok: true}
			}
			if r.lenOf != "" || r.base != "" {
				// len(X) - w : keep as special form lenOf=X, base="-w"
				if l.lenOf != "" && l.base == "" && r.lenOf == "" && r.base != "" {
					return c20Lin{lenOf: l.lenOf, base: "-" + r.base, k: l.k - r.k, ok: true}
				}
				return c20Lin{}
			}
			return c20Lin{lenOf: l.lenOf, base: l.base, k: l.k - r.k, ok: true}
		}
	}
	return c20Lin{}
}

// linSt is lin with the state's `local == len(S)+k` equalities substituted: a
// position compared with (or an index taken from) such a local reads like the
// len expression the local was defined by.
func (b *c20Bounds) linSt(fd *ast.FuncDecl, st *c20BState, x ast.Expr) c20Lin {
	l := b.lin(fd, x)
	if st == nil || !l.ok || l.lenOf != "" || l.base == "" || strings.HasPrefix(l.base, "-") {
		return l
	}
	if eq, ok := st.leneq[l.base]; ok {
		return c20Lin{lenOf: eq.s, k: l.k + eq.k, ok: true}
	}
	return l
}

// condFacts adds to st what `cond == truth` implies.
func (b *c20Bounds) condFacts(fd *ast.FuncDecl, st *c20BState, cond ast.Expr, truth bool) {
	cond = unparen(cond)
	b.nonZeroFacts(fd, st, cond, truth)
	switch n := cond.(type) {
	case *ast.UnaryExpr:
		if n.Op == token.NOT {
			b.condFacts(fd, st, n.X, !truth)
		}
		return
	case *ast.BinaryExpr:
		switch n.Op {
		case token.LAND:
			if truth {
				b.condFacts(fd, st, n.X, true)
				b.condFacts(fd, st, n.Y, true)
			}
			return
		case token.LOR:
			if !truth {
				b.condFacts(fd, st, n.X, false)
				b.condFacts(fd, st, n.Y, false)
			}
			return
		case token.LSS, token.LEQ, token.GTR, token.GEQ, token.EQL, token.NEQ:
		default:
			return
		}
		op := n.Op
		if !truth {
			op = map[token.Token]token.Token{token.LSS: token.GEQ, token.LEQ: token.GTR, token.GTR: token.LEQ, token.GEQ: token.LSS, token.EQL: token.NEQ, token.NEQ: token.EQL}[op]
		}
		l, r := b.linSt(fd, st, n.X), b.linSt(fd, st, n.Y)
		if !l.ok || !r.ok {
			return
		}
		// orient: A (no len) op B (len)
		A, B := l, r
		if l.lenOf != "" && r.lenOf == "" {
			A, B = r, l
			op = map[token.Token]token.Token{token.LSS: token.GTR, token.LEQ: token.GEQ, token.GTR: token.LSS, token.GEQ: token.LEQ, token.EQL: token.EQL, token.NEQ: token.NEQ}[op]
		}
		if B.lenOf != "" && A.lenOf == "" && !strings.HasPrefix(B.base, "-") && B.base == "" && !strings.HasPrefix(A.base, "-") {
			// A.base + A.k  op  len(S) + B.k
			add := func(K int) {
				k := c20BKey{B.lenOf, A.base}
				if old, ok := st.facts[k]; !ok || K > old {
					st.facts[k] = K
				}
				for _, p := range []string{B.lenOf, A.base} {
					if v := b.lastFld(p); v != nil {
						delete(st.bycall, v)
					}
				}
			}
			switch op {
			case token.LSS:
				add(A.k - B.k)
			case token.LEQ:
				add(A.k - B.k - 1)
			case token.NEQ:
				// len(S)+m != c with the only smaller values excluded: len(S) != 0 → 0 < len(S)
				if A.base == "" && A.k-B.k == 0 {
					add(0)
				}
			case token.EQL:
				if A.base == "" {
					add(A.k - B.k - 1)
				}
			}
			return
		}
		// lower bounds: base + k  op  const
		if A.lenOf == "" && B.lenOf == "" {
			v, cst := A, B
			if v.base == "" && cst.base != "" {
				v, cst = B, A
				op = map[token.Token]token.Token{token.LSS: token.GTR, token.LEQ: token.GEQ, token.GTR: token.LSS, token.GEQ: token.LEQ, token.EQL: token.EQL, token.NEQ: token.NEQ}[op]
			}
			if v.base == "" || cst.base != "" || strings.HasPrefix(v.base, "-") {
				return
			}
			c0 := cst.k - v.k // base op c0
			set := func(L int) {
				if old, ok := st.lo[v.base]; !ok || L > old {
					st.lo[v.base] = L
				}
			}
			switch op {
			case token.GTR:
				set(c0 + 1)
			case token.GEQ, token.EQL:
				set(c0)
			}
		}
	}
}

// isFuncLocal: the identifier denotes a variable declared inside a function body
// (not a package-level variable, not a field).
func (b *c20Bounds) isFuncLocal(id *ast.Ident) bool {
	o := b.info.Defs[id]
	if o == nil {
		o = b.info.Uses[id]
	}
	v, ok := o.(*types.Var)
	return ok && !v.IsField() && v.Pkg() != nil && v.Parent() != nil && v.Parent() != v.Pkg().Scope() && v.Parent() != types.Universe
}

// ------------------------------------------------------------ summaries

func (b *c20Bounds) fieldWritten(lhs ast.Expr) *types.Var {
	v, _ := fieldOf(b.info, lhs)
	return v
}

// c20FreshLocals: locals of fd that only ever hold a freshly allocated object:
// defined by new(T) / &T{} / a call of a constructor (a function whose single
// result is such a local). Writes through them cannot touch an object that
// existed before the call.
func (b *c20Bounds) freshLocals(fd *ast.FuncDecl, ctor map[*types.Func]bool) map[types.Object]bool {
	fresh := map[types.Object]bool{}
	bad := map[types.Object]bool{}
	isFreshExpr := func(x ast.Expr) bool {
		x = unparen(x)
		if u, ok := x.(*ast.UnaryExpr); ok && u.Op == token.AND {
			_, isLit := unparen(u.X).(*ast.CompositeLit)
			return isLit
		}
		if call, ok := x.(*ast.CallExpr); ok {
			if c20IsBuiltin(b.info, call, "new") {
				return true
			}
			if g, ok := callee(b.info, call).(*types.Func); ok && ctor[g.Origin()] {
				return true
			}
		}
		return false
	}
	ast.Inspect(fd.Body, func(n ast.Node) bool {
		switch s := n.(type) {
		case *ast.AssignStmt:
			for i, l := range s.Lhs {
				id, ok := l.(*ast.Ident)
				if !ok {
					continue
				}
				o := b.info.Defs[id]
				if o == nil {
					o = b.info.Uses[id]
				}
				if o == nil {
					continue
				}
				if len(s.Lhs) == len(s.Rhs) && isFreshExpr(s.Rhs[i]) {
					fresh[o] = true
				} else {
					bad[o] = true
				}
			}
		case *ast.ValueSpec:
			for i, id := range s.Names {
				o := b.info.Defs[id]
				if o == nil {
					continue
				}
				if len(s.Values) == len(s.Names) && isFreshExpr(s.Values[i]) {
					fresh[o] = true
				} else if _, isPtr := o.Type().Underlying().(*types.Pointer); isPtr {
					bad[o] = true
				}
			}
		}
		return true
	})
	for o := range bad {
		delete(fresh, o)
	}
	return fresh
}

func (b *c20Bounds) rootObj(x ast.Expr) types.Object {
	for {
		x = unparen(x)
		switch n := x.(type) {
		case *ast.SelectorExpr:
			x = n.X
			continue
		case *ast.Ident:
			if o := b.info.Uses[n]; o != nil {
				return o
			}
			return b.info.Defs[n]
		}
		return nil
	}
}

func (b *c20Bounds) buildSummaries() {
	e := b.e
	b.writes = map[*types.Func]map[*types.Var]bool{}
	b.dynAll = map[*types.Func]bool{}
	b.ctors = map[*types.Func]map[string]int{}
	b.litWrites = map[*ast.FuncLit]map[*types.Var]bool{}
	// constructors: single pointer result, every return returns one local that is fresh
	ctor := map[*types.Func]bool{}
	for round := 0; round < 3; round++ {
		for f, fd := range e.decls {
			if ctor[f] || fd.Type.Results == nil || len(fd.Type.Results.List) != 1 {
				continue
			}
			fresh := b.freshLocals(fd, ctor)
			ok, n := true, 0
			ast.Inspect(fd.Body, func(x ast.Node) bool {
				if _, isLit := x.(*ast.FuncLit); isLit {
					return false
				}
				if r, isRet := x.(*ast.ReturnStmt); isRet {
					n++
					if len(r.Results) != 1 {
						ok = false
						return true
					}
					id, isId := unparen(r.Results[0]).(*ast.Ident)
					if !isId || !fresh[b.info.Uses[id]] {
						ok = false
					}
				}
				return true
			})
			if ok && n > 0 {
				ctor[f] = true
			}
		}
	}
	b.isCtor = ctor
	type dynSite struct {
		f   *types.Func
		sig *types.Signature
	}
	var dyns []dynSite
	type ifaceSite struct {
		f    *types.Func
		name string
		it   *types.Interface
	}
	var ifaces []ifaceSite
	callees := map[*types.Func][]*types.Func{}
	for f, fd := range e.decls {
		w := map[*types.Var]bool{}
		fresh := b.freshLocals(fd, ctor)
		var litStack []*ast.FuncLit
		record := func(lhs ast.Expr) {
			v := b.fieldWritten(lhs)
			if v == nil {
				return
			}
			if fresh[b.rootObj(lhs)] {
				return
			}
			w[v] = true
			for _, l := range litStack {
				b.litWrites[l][v] = true
			}
		}
		var stack []ast.Node
		ast.Inspect(fd.Body, func(n ast.Node) bool {
			if n == nil {
				if l, ok := stack[len(stack)-1].(*ast.FuncLit); ok && len(litStack) > 0 && litStack[len(litStack)-1] == l {
					litStack = litStack[:len(litStack)-1]
				}
				stack = stack[:len(stack)-1]
				return true
			}
			stack = append(stack, n)
			switch s := n.(type) {
			case *ast.FuncLit:
				b.litWrites[s] = map[*types.Var]bool{}
				litStack = append(litStack, s)
			case *ast.AssignStmt:
				for _, l := range s.Lhs {
					record(l)
				}
			case *ast.IncDecStmt:
				record(s.X)
			case *ast.UnaryExpr:
				if s.Op == token.AND {
					record(s.X)
				}
			case *ast.CallExpr:
				fun := unparen(s.Fun)
				if tv, ok := b.info.Types[fun]; ok && tv.IsType() {
					return true
				}
				if id, ok := fun.(*ast.Ident); ok {
					if _, ok := b.info.Uses[id].(*types.Builtin); ok {
						return true
					}
				}
				if g, ok := callee(b.info, s).(*types.Func); ok {
					if e.decls[g.Origin()] != nil {
						callees[f] = append(callees[f], g.Origin())
					} else if sig := g.Type().(*types.Signature); sig.Recv() != nil && types.IsInterface(sig.Recv().Type()) {
						if it, ok := sig.Recv().Type().Underlying().(*types.Interface); ok {
							ifaces = append(ifaces, ifaceSite{f, g.Name(), it})
						}
					}
					return true
				}
				if _, ok := fun.(*ast.FuncLit); ok {
					return true // body is inspected in place
				}
				if sig, ok := b.info.TypeOf(fun).Underlying().(*types.Signature); ok {
					dyns = append(dyns, dynSite{f, sig})
				} else {
					b.dynAll[f] = true
				}
			}
			return true
		})
		b.writes[f] = w
		// constructor field summary: x.f = param
		if ctor[f] {
			m := map[string]int{}
			params := map[types.Object]int{}
			idx := 0
			for _, fl := range fd.Type.Params.List {
				for _, nm := range fl.Names {
					params[b.info.Defs[nm]] = idx
					idx++
				}
			}
			for _, st := range fd.Body.List {
				as, ok := st.(*ast.AssignStmt)
				if !ok || len(as.Lhs) != 1 || len(as.Rhs) != 1 || as.Tok != token.ASSIGN {
					continue
				}
				se, ok := as.Lhs[0].(*ast.SelectorExpr)
				if !ok {
					continue
				}
				if _, ok := se.X.(*ast.Ident); !ok {
					continue
				}
				if id, ok := as.Rhs[0].(*ast.Ident); ok {
					if pi, ok := params[b.info.Uses[id]]; ok {
						m[se.Sel.Name] = pi
					}
				}
			}
			if len(m) > 0 {
				b.ctors[f] = m
			}
		}
	}
	// interface dispatch: in-package implementations only
	for _, is := range ifaces {
		for g := range e.decls {
			gs := g.Type().(*types.Signature)
			if gs.Recv() == nil || g.Name() != is.name {
				continue
			}
			rt := gs.Recv().Type()
			if types.Implements(rt, is.it) || types.Implements(types.NewPointer(rt), is.it) {
				callees[is.f] = append(callees[is.f], g)
			}
		}
	}
	for changed := true; changed; {
		changed = false
		for f, gs := range callees {
			for _, g := range gs {
				if b.dynAll[g] && !b.dynAll[f] {
					b.dynAll[f] = true
					changed = true
				}
				for v := range b.writes[g] {
					if !b.writes[f][v] {
						b.writes[f][v] = true
						changed = true
					}
				}
			}
		}
		// dynamic calls: every function value of identical signature created in the package
		for _, d := range dyns {
			add := func(ws map[*types.Var]bool) {
				for v := range ws {
					if !b.writes[d.f][v] {
						b.writes[d.f][v] = true
						changed = true
					}
				}
			}
			for l, ws := range b.litWrites {
				if sig, ok := b.info.TypeOf(l).Underlying().(*types.Signature); ok && types.Identical(sig, d.sig) {
					add(ws)
				}
			}
			for g := range e.decls {
				gs := g.Type().(*types.Signature)
				plain := types.NewSignatureType(nil, nil, nil, gs.Params(), gs.Results(), gs.Variadic())
				if types.Identical(plain, d.sig) {
					add(b.writes[g])
				}
			}
		}
	}
	b.posFld = map[*types.Var]bool{}
	b.expFld = map[*types.Var]bool{}
	defer b.buildHelpers()
	for _, tn := range []string{"ParserT", "BlockT"} {
		if o, ok := e.pk.Types.Scope().Lookup(tn).(*types.TypeName); ok {
			if st := structOf(o.Type()); st != nil {
				for i := 0; i < st.NumFields(); i++ {
					switch st.Field(i).Name() {
					case "charPos":
						b.posFld[st.Field(i)] = true
					case "expression":
						b.expFld[st.Field(i)] = true
					}
				}
			}
		}
	}
}

// buildHelpers summarises (1) position helpers: methods without parameters
// whose every return is the constant 0 or recv.expression[recv.charPos+c] and
// that write neither field — a non-zero result proves recv.charPos+c in bounds;
// (2) rune predicates p(r) consisting of one boolean return over comparisons
// of r with constants, with p(0) == false.
func (b *c20Bounds) buildHelpers() {
	b.helpers = map[*types.Func]int{}
	b.zeroFalse = map[*types.Func]bool{}
	for f, fd := range b.e.decls {
		if fd.Recv == nil || len(fd.Recv.List) != 1 || len(fd.Recv.List[0].Names) != 1 || fd.Type.Params.NumFields() != 0 {
			continue
		}
		if fd.Type.Results == nil || fd.Type.Results.NumFields() != 1 {
			continue
		}
		writesPos := false
		for v := range b.writes[f] {
			if b.posFld[v] || b.expFld[v] {
				writesPos = true
			}
		}
		if writesPos || b.dynAll[f] {
			continue
		}
		recv := fd.Recv.List[0].Names[0].Name
		defs := localDefs(b.info, fd.Body)
		ok, n, cc := true, 0, 0
		ast.Inspect(fd.Body, func(x ast.Node) bool {
			r, isRet := x.(*ast.ReturnStmt)
			if !isRet {
				return true
			}
			if len(r.Results) != 1 {
				ok = false
				return true
			}
			if v, isC := constInt(b.info, r.Results[0]); isC && v == 0 {
				return true
			}
			ix, isIx := unparen(r.Results[0]).(*ast.IndexExpr)
			if !isIx || b.path(ix.X) != recv+".expression" {
				ok = false
				return true
			}
			if v, _ := fieldOf(b.info, ix.X); v == nil || !b.expFld[v] {
				ok = false
				return true
			}
			// a single-definition local (next := recv.charPos + 1) stands for its definition:
			// the function writes neither field, so the value is still current
			l := b.lin(fd, defs.resolve1(b.info, ix.Index))
			if !l.ok || l.lenOf != "" || l.base != recv+".charPos" {
				ok = false
				return true
			}
			if n > 0 && cc != l.k {
				ok = false
			}
			n++
			cc = l.k
			return true
		})
		if ok && n > 0 {
			b.helpers[f] = cc
		}
	}
	for round := 0; round < 3; round++ {
		for f, fd := range b.e.decls {
			if b.zeroFalse[f] || fd.Recv != nil || fd.Type.Params.NumFields() != 1 || len(fd.Body.List) != 1 {
				continue
			}
			ret, ok := fd.Body.List[0].(*ast.ReturnStmt)
			if !ok || len(ret.Results) != 1 || len(fd.Type.Params.List[0].Names) != 1 {
				continue
			}
			param := b.info.Defs[fd.Type.Params.List[0].Names[0]]
			if v, known := b.evalAtZero(ret.Results[0], param); known && !v {
				b.zeroFalse[f] = true
			}
		}
	}
}

// evalAtZero evaluates a boolean expression over comparisons of param with
// constants for param == 0.
func (b *c20Bounds) evalAtZero(x ast.Expr, param types.Object) (val bool, known bool) {
	x = unparen(x)
	if v, ok := constBool(b.info, x); ok {
		return v, true
	}
	switch n := x.(type) {
	case *ast.UnaryExpr:
		if n.Op == token.NOT {
			v, k := b.evalAtZero(n.X, param)
			return !v, k
		}
	case *ast.CallExpr:
		if g, ok := callee(b.info, n).(*types.Func); ok && b.zeroFalse[g.Origin()] && len(n.Args) == 1 {
			if id, ok := unparen(n.Args[0]).(*ast.Ident); ok && b.info.Uses[id] == param {
				return false, true
			}
		}
	case *ast.BinaryExpr:
		switch n.Op {
		case token.LAND, token.LOR:
			l, lk := b.evalAtZero(n.X, param)
			r, rk := b.evalAtZero(n.Y, param)
			if n.Op == token.LAND {
				if (lk && !l) || (rk && !r) {
					return false, true
				}
				return l && r, lk && rk
			}
			if (lk && l) || (rk && r) {
				return true, true
			}
			return l || r, lk && rk
		case token.EQL, token.NEQ, token.LSS, token.LEQ, token.GTR, token.GEQ:
			side := func(e ast.Expr) (int64, bool) {
				if id, ok := unparen(e).(*ast.Ident); ok && b.info.Uses[id] == param {
					return 0, true
				}
				return constInt(b.info, e)
			}
			l, lk := side(n.X)
			r, rk := side(n.Y)
			if !lk || !rk {
				return false, false
			}
			switch n.Op {
			case token.EQL:
				return l == r, true
			case token.NEQ:
				return l != r, true
			case token.LSS:
				return l < r, true
			case token.LEQ:
				return l <= r, true
			case token.GTR:
				return l > r, true
			case token.GEQ:
				return l >= r, true
			}
		}
	}
	return false, false
}

// helperOf: x is a call of a position helper, or a local still linked to one.
func (b *c20Bounds) helperOf(fd *ast.FuncDecl, st *c20BState, x ast.Expr) (owner string, c int, ok bool) {
	x = unparen(x)
	switch n := x.(type) {
	case *ast.CallExpr:
		g, isF := callee(b.info, n).(*types.Func)
		if !isF {
			return "", 0, false
		}
		cc, isH := b.helpers[g.Origin()]
		se, isSel := unparen(n.Fun).(*ast.SelectorExpr)
		if !isH || !isSel {
			return "", 0, false
		}
		o := b.norm(fd, b.path(se.X))
		if o == "" {
			return "", 0, false
		}
		return o, cc, true
	case *ast.Ident:
		if l, has := st.links[n.Name]; has {
			return l.owner, l.c, true
		}
	}
	return "", 0, false
}

// nonZero: expression x is known to be != 0 when cond == truth.
func (b *c20Bounds) nonZeroFacts(fd *ast.FuncDecl, st *c20BState, cond ast.Expr, truth bool) {
	cond = unparen(cond)
	add := func(x ast.Expr) {
		owner, c, ok := b.helperOf(fd, st, x)
		if !ok {
			return
		}
		b.addHelperFact(st, owner, c)
	}
	switch n := cond.(type) {
	case *ast.CallExpr:
		if g, ok := callee(b.info, n).(*types.Func); ok && truth && b.zeroFalse[g.Origin()] && len(n.Args) == 1 {
			add(n.Args[0])
		}
	case *ast.BinaryExpr:
		op := n.Op
		if !truth {
			var okOp bool
			op, okOp = map[token.Token]token.Token{token.LSS: token.GEQ, token.LEQ: token.GTR, token.GTR: token.LEQ, token.GEQ: token.LSS, token.EQL: token.NEQ, token.NEQ: token.EQL}[op]
			if !okOp {
				return
			}
		}
		x, y := n.X, n.Y
		kv, isC := constInt(b.info, y)
		if !isC {
			if kv, isC = constInt(b.info, x); !isC {
				return
			}
			x = y
			op = map[token.Token]token.Token{token.LSS: token.GTR, token.LEQ: token.GEQ, token.GTR: token.LSS, token.GEQ: token.LEQ, token.EQL: token.EQL, token.NEQ: token.NEQ}[op]
		}
		// x op kv
		nz := false
		switch op {
		case token.EQL:
			nz = kv != 0
		case token.NEQ:
			nz = kv == 0
		case token.GTR:
			nz = kv >= 0
		case token.GEQ:
			nz = kv > 0
		case token.LSS:
			nz = kv <= 0
		case token.LEQ:
			nz = kv < 0
		}
		if nz {
			add(x)
		}
	}
}

func (b *c20Bounds) addHelperFact(st *c20BState, owner string, c int) {
	pos := owner + ".charPos"
	if c >= 0 {
		k := c20BKey{owner + ".expression", pos}
		if old, ok := st.facts[k]; !ok || c > old {
			st.facts[k] = c
		}
	} else if old, ok := st.lo[pos]; !ok || -c > old {
		st.lo[pos] = -c
	}
	if v := b.lastFld(pos); v != nil {
		delete(st.bycall, v)
	}
}

func (b *c20Bounds) dropLinks(st *c20BState, v *types.Var) {
	if v == nil || (!b.posFld[v] && !b.expFld[v]) {
		return
	}
	for k := range st.links {
		delete(st.links, k)
	}
}

func (b *c20Bounds) killField(st *c20BState, v *types.Var) {
	b.dropLinks(st, v)
	for k, eq := range st.leneq {
		if b.pathHas(eq.s, v) {
			delete(st.leneq, k)
		}
	}
	for k := range st.facts {
		if b.pathHas(k.s, v) || b.pathHas(k.base, v) {
			delete(st.facts, k)
		}
	}
	for k := range st.lo {
		if b.pathHas(k, v) {
			delete(st.lo, k)
		}
	}
}

func (b *c20Bounds) killPath(st *c20BState, p string) {
	// an assignment to path p invalidates facts mentioning p or anything below it
	has := func(q string) bool {
		q = strings.TrimPrefix(q, "-")
		return q == p || strings.HasPrefix(q, p+".")
	}
	for k := range st.facts {
		if has(k.s) || (k.base != "" && has(k.base)) {
			delete(st.facts, k)
		}
	}
	for k := range st.lo {
		if has(k) {
			delete(st.lo, k)
		}
	}
	delete(st.links, p)
	b.dropLinks(st, b.lastFld(p))
	for k, eq := range st.leneq {
		if k == p || has(eq.s) || (b.lastFld(p) != nil && b.lastFld(eq.s) == b.lastFld(p)) {
			delete(st.leneq, k)
		}
	}
	// the same field reached through another path may be the same object
	if v := b.lastFld(p); v != nil {
		for k := range st.facts {
			if (k.s != p && b.lastFld(k.s) == v) || (k.base != "" && k.base != p && b.lastFld(k.base) == v) {
				delete(st.facts, k)
			}
		}
		for k := range st.lo {
			if k != p && b.lastFld(k) == v {
				delete(st.lo, k)
			}
		}
	}
}

func (b *c20Bounds) shift(st *c20BState, p string, d int) {
	// p := p + d
	for k, v := range st.facts {
		if k.base == p {
			st.facts[k] = v - d
			if st.facts[k] < -6 {
				delete(st.facts, k)
			}
		} else if strings.TrimPrefix(k.base, "-") == p || k.s == p {
			delete(st.facts, k)
		}
	}
	if v, ok := st.lo[p]; ok {
		st.lo[p] = v + d
		if st.lo[p] < -6 {
			delete(st.lo, p)
		}
	}
	delete(st.links, p)
	b.dropLinks(st, b.lastFld(p))
	if eq, ok := st.leneq[p]; ok {
		st.leneq[p] = c20LenEq{eq.s, eq.k + d}
	}
	if fv := b.lastFld(p); fv != nil {
		// the same field through another path may be the same object
		for k := range st.facts {
			if k.base != p && k.base != "" && b.lastFld(k.base) == fv {
				delete(st.facts, k)
			}
		}
		for k := range st.lo {
			if k != p && b.lastFld(k) == fv {
				delete(st.lo, k)
			}
		}
	}
}

type c20BFn struct {
	b      *c20Bounds
	fd     *ast.FuncDecl
	fn     *types.Func
	g      *cfg.CFG
	parent map[ast.Node]ast.Node
	tagged map[ast.Expr]bool
	in     map[*cfg.Block]*c20BState
	entryK map[string]int // owner path -> K assumed at entry (owner.charPos+K < len(owner.expression))
	sites  []c20BSite
	weak   bool // the last need() saw a test that was too weak (base run only)
}

func (b *c20Bounds) prepareFn(fd *ast.FuncDecl) {
	if b.cfgs[fd] != nil {
		return
	}
	b.cfgs[fd] = cfg.New(fd.Body, func(call *ast.CallExpr) bool {
		return !c20IsBuiltin(b.info, call, "panic")
	})
	par := map[ast.Node]ast.Node{}
	tg := map[ast.Expr]bool{}
	tagOf := map[ast.Expr]ast.Expr{}
	var stack []ast.Node
	ast.Inspect(fd.Body, func(n ast.Node) bool {
		if n == nil {
			stack = stack[:len(stack)-1]
			return true
		}
		if len(stack) > 0 {
			par[n] = stack[len(stack)-1]
		}
		stack = append(stack, n)
		if sw, ok := n.(*ast.SwitchStmt); ok && sw.Tag != nil {
			for _, cs := range sw.Body.List {
				for _, x := range cs.(*ast.CaseClause).List {
					tg[x] = true
					tagOf[x] = sw.Tag
				}
			}
		}
		return true
	})
	b.parents[fd] = par
	b.tagged[fd] = tg
	b.tagOf[fd] = tagOf
	// aliases through constructor summaries: o := newX(tree) with o.f = param
	al := map[string]string{}
	ast.Inspect(fd.Body, func(n ast.Node) bool {
		as, ok := n.(*ast.AssignStmt)
		if !ok || as.Tok != token.DEFINE || len(as.Lhs) != 1 || len(as.Rhs) != 1 {
			return true
		}
		id, ok := as.Lhs[0].(*ast.Ident)
		if !ok {
			return true
		}
		call, ok := unparen(as.Rhs[0]).(*ast.CallExpr)
		if !ok {
			return true
		}
		g, ok := callee(b.info, call).(*types.Func)
		if !ok {
			return true
		}
		obj := b.info.Defs[id]
		single := true
		ast.Inspect(fd.Body, func(m ast.Node) bool {
			if a2, ok := m.(*ast.AssignStmt); ok && a2 != as {
				for _, l := range a2.Lhs {
					if i2, ok := l.(*ast.Ident); ok && (b.info.Uses[i2] == obj || b.info.Defs[i2] == obj) {
						single = false
					}
				}
			}
			return true
		})
		if !single {
			return true
		}
		for fld, pi := range b.ctors[g.Origin()] {
			if pi < len(call.Args) {
				if p := b.path(call.Args[pi]); p != "" {
					al[id.Name+"."+fld] = p
				}
			}
		}
		return true
	})
	b.alias[fd] = al
}

// owners: access paths R (rooted at the receiver or a parameter) such that
// R.charPos is used in fd.
func (b *c20Bounds) owners(fd *ast.FuncDecl) []string {
	roots := map[string]bool{}
	if fd.Recv != nil {
		for _, fl := range fd.Recv.List {
			for _, nm := range fl.Names {
				roots[nm.Name] = true
			}
		}
	}
	for _, fl := range fd.Type.Params.List {
		for _, nm := range fl.Names {
			roots[nm.Name] = true
		}
	}
	set := map[string]bool{}
	ast.Inspect(fd.Body, func(n ast.Node) bool {
		se, ok := n.(*ast.SelectorExpr)
		if !ok {
			return true
		}
		if v, _ := fieldOf(b.info, se); v == nil || !b.posFld[v] {
			return true
		}
		owner := b.norm(fd, b.path(se.X))
		if owner == "" {
			return true
		}
		root := owner
		if i := strings.Index(owner, "."); i >= 0 {
			root = owner[:i]
		}
		if roots[root] {
			b.path(se) // registers owner.charPos
			set[owner] = true
		}
		return true
	})
	var out []string
	for o := range set {
		out = append(out, o)
	}
	sort.Strings(out)
	return out
}

func (b *c20Bounds) analyse(fd *ast.FuncDecl, fn *types.Func, entryK map[string]int) []c20BSite {
	b.prepareFn(fd)
	a := &c20BFn{b: b, fd: fd, fn: fn, g: b.cfgs[fd], parent: b.parents[fd], tagged: b.tagged[fd], in: map[*cfg.Block]*c20BState{}, entryK: entryK}
	a.run()
	return a.sites
}

func c20SiteID(s c20BSite) string { return fmt.Sprintf("%d|%s", s.node.Pos(), s.what) }

func c20Failing(sites []c20BSite) map[string]bool {
	out := map[string]bool{}
	for _, s := range sites {
		if !s.ok && !s.und {
			out[c20SiteID(s)] = true
		}
	}
	return out
}

// c20Impose: a site whose own (too weak) test failed in the base run stays a
// violation of that function, whatever an entry assumption would repair.
func c20Impose(base, cur []c20BSite) []c20BSite {
	weak := map[string]c20BSite{}
	for _, s := range base {
		if !s.ok && s.hadTest {
			weak[c20SiteID(s)] = s
		}
	}
	if len(weak) == 0 {
		return cur
	}
	out := make([]c20BSite, len(cur))
	for i, s := range cur {
		if w, ok := weak[c20SiteID(s)]; ok {
			s = w
		}
		out[i] = s
	}
	return out
}

// solvePre: the smallest entry assumption per owner that removes failures.
func (b *c20Bounds) solvePre(fd *ast.FuncDecl, fn *types.Func) (map[string]int, []c20BSite, map[string]bool) {
	base := b.analyse(fd, fn, nil)
	baseFail := c20Failing(base)
	if len(baseFail) == 0 {
		return nil, base, baseFail
	}
	nweak := 0
	for _, s := range base {
		if !s.ok && s.hadTest {
			nweak++
		}
	}
	if nweak == len(baseFail) {
		return nil, base, baseFail // only the function's own tests are wrong: nothing to ask of the callers
	}
	entry := map[string]int{}
	cur, curFail := base, baseFail
	for _, owner := range b.owners(fd) {
		bestK, bestN := 0, len(curFail)
		var bestSites []c20BSite
		found := false
		for K := -1; K <= 2; K++ {
			try := map[string]int{}
			for k, v := range entry {
				try[k] = v
			}
			try[owner] = K
			sites := c20Impose(base, b.analyse(fd, fn, try))
			if n := len(c20Failing(sites)); n < bestN {
				bestK, bestN, bestSites, found = K, n, sites, true
			}
		}
		if found {
			entry[owner] = bestK
			cur, curFail = bestSites, c20Failing(bestSites)
		}
	}
	_ = curFail
	return entry, cur, baseFail
}

func (a *c20BFn) reachable(n ast.Node) bool {
	e := a.b.e
	if r, ok := n.(*ast.ReturnStmt); ok && len(r.Results) == 0 && a.parent[n] == nil {
		return true // the synthetic return go/cfg appends to a body that falls off its end
	}
	for x := n; x != nil; x = a.parent[x] {
		s, ok := x.(ast.Stmt)
		if !ok {
			continue
		}
		switch s.(type) {
		case *ast.BlockStmt, *ast.CaseClause:
			continue // case expressions are judged by the switch, bodies statement by statement
		default:
			return e.reachStmt[s]
		}
	}
	return true // the function body itself
}

func (a *c20BFn) run() {
	g := a.g
	if len(g.Blocks) == 0 {
		return
	}
	entry := c20NewBState()
	for owner, K := range a.entryK {
		entry.facts[c20BKey{owner + ".expression", owner + ".charPos"}] = K
	}
	a.in[g.Blocks[0]] = entry
	work := []*cfg.Block{g.Blocks[0]}
	inWork := map[*cfg.Block]bool{g.Blocks[0]: true}
	defer func() {
		if len(work) > 0 {
			a.b.diverged[c20FuncName(a.fn)] = true
		}
	}()
	for iter := 0; len(work) > 0 && iter < 50000; iter++ {
		blk := work[0]
		work = work[1:]
		inWork[blk] = false
		o := a.transferBlock(blk, a.in[blk].clone(), false)
		for i, succ := range blk.Succs {
			es := o[0]
			if i < len(o) {
				es = o[i]
			}
			old := a.in[succ]
			var nw *c20BState
			switch {
			case old == nil:
				nw = es.clone()
			case old.dead && !es.dead:
				nw = es.clone()
			default:
				nw = c20Meet(old, es)
			}
			if old == nil || !c20BEqual(old, nw) {
				a.in[succ] = nw
				if !inWork[succ] {
					work = append(work, succ)
					inWork[succ] = true
				}
			}
		}
	}
	for _, blk := range g.Blocks {
		if st := a.in[blk]; st != nil {
			a.transferBlock(blk, st.clone(), true)
		}
	}
}

// transferBlock returns the out states per successor edge.
func (a *c20BFn) transferBlock(blk *cfg.Block, st *c20BState, final bool) []*c20BState {
	for _, n := range blk.Nodes {
		if !a.reachable(n) {
			st.dead = true
			continue
		}
		if st.dead {
			// reachable by the slice but not by the pruned CFG (labels, merged contexts): no facts
			*st = *c20NewBState()
		}
		a.node(n, st, final)
	}
	if len(blk.Succs) == 2 && len(blk.Nodes) > 0 {
		if cond, ok := blk.Nodes[len(blk.Nodes)-1].(ast.Expr); ok && !a.tagged[cond] && c20IsBool(a.b.info.TypeOf(cond)) {
			t, f := st.clone(), st.clone()
			if !st.dead {
				a.b.condFacts(a.fd, t, cond, true)
				a.b.condFacts(a.fd, f, cond, false)
				switch a.evalAll(cond) { // exec-pruned edges are dead
				case c20F:
					t.dead = true
				case c20T:
					f.dead = true
				}
			}
			return []*c20BState{t, f}
		}
	}
	if len(blk.Succs) == 2 && len(blk.Nodes) > 0 && !st.dead {
		// tagged switch on a position helper: a matching non-zero case proves the position in bounds
		if cond, ok := blk.Nodes[len(blk.Nodes)-1].(ast.Expr); ok && a.tagged[cond] {
			if kv, isC := constInt(a.b.info, cond); isC && kv != 0 {
				if owner, c, ok := a.b.helperOf(a.fd, st, a.b.tagOf[a.fd][cond]); ok {
					t := st.clone()
					a.b.addHelperFact(t, owner, c)
					return []*c20BState{t, st}
				}
			}
		}
	}
	return []*c20BState{st}
}

// evalAll: the condition's constant value if it is the same in every context
// of the function that is in the slice.
func (a *c20BFn) evalAll(cond ast.Expr) c20Tri {
	v := c20Bot
	for _, fc := range a.b.e.perFn[a.fn] {
		v = c20Join(v, a.b.e.eval(fc, cond))
	}
	if v == c20Bot {
		return c20U
	}
	return v
}

func (a *c20BFn) writtenFields(call *ast.CallExpr) (fields []*types.Var, all bool) {
	b := a.b
	fun := unparen(call.Fun)
	if tv, ok := b.info.Types[fun]; ok && tv.IsType() {
		return nil, false
	}
	if id, ok := fun.(*ast.Ident); ok {
		if _, ok := b.info.Uses[id].(*types.Builtin); ok {
			return nil, false
		}
	}
	collect := func(ws map[*types.Var]bool) {
		for v := range ws {
			fields = append(fields, v)
		}
	}
	if g, ok := callee(b.info, call).(*types.Func); ok {
		g = g.Origin()
		if b.e.decls[g] == nil {
			if sig := g.Type().(*types.Signature); sig.Recv() != nil && types.IsInterface(sig.Recv().Type()) {
				it, _ := sig.Recv().Type().Underlying().(*types.Interface)
				for h := range b.e.decls {
					hs := h.Type().(*types.Signature)
					if hs.Recv() == nil || h.Name() != g.Name() || it == nil {
						continue
					}
					if types.Implements(hs.Recv().Type(), it) || types.Implements(types.NewPointer(hs.Recv().Type()), it) {
						collect(b.writes[h])
						all = all || b.dynAll[h]
					}
				}
			}
			return fields, all
		}
		collect(b.writes[g])
		return fields, b.dynAll[g]
	}
	if l, ok := fun.(*ast.FuncLit); ok {
		collect(b.litWrites[l])
		return fields, false
	}
	sig, ok := b.info.TypeOf(fun).Underlying().(*types.Signature)
	if !ok {
		return nil, true
	}
	for l, ws := range b.litWrites {
		if ls, ok := b.info.TypeOf(l).Underlying().(*types.Signature); ok && types.Identical(ls, sig) {
			collect(ws)
		}
	}
	for g := range b.e.decls {
		gs := g.Type().(*types.Signature)
		if types.Identical(types.NewSignatureType(nil, nil, nil, gs.Params(), gs.Results(), gs.Variadic()), sig) {
			collect(b.writes[g])
			all = all || b.dynAll[g]
		}
	}
	return fields, all
}

func (a *c20BFn) applyCallKills(n ast.Node, st *c20BState) {
	ast.Inspect(n, func(x ast.Node) bool {
		if _, ok := x.(*ast.FuncLit); ok {
			return false
		}
		if call, ok := x.(*ast.CallExpr); ok {
			fs, all := a.writtenFields(call)
			if all {
				st.facts = map[c20BKey]int{}
				st.lo = map[string]int{}
				st.links = map[string]c20Link{}
				st.leneq = map[string]c20LenEq{}
				for v := range a.b.posFld {
					st.bycall[v] = true
				}
				for v := range a.b.expFld {
					st.bycall[v] = true
				}
			}
			for _, f := range fs {
				a.b.killField(st, f)
				if a.b.posFld[f] || a.b.expFld[f] {
					st.bycall[f] = true
				}
			}
		}
		return true
	})
}

// node: check the accesses of one CFG node, then apply its effects.
func (a *c20BFn) node(n ast.Node, st *c20BState, final bool) {
	var pess *c20BState
	getPess := func() *c20BState {
		if pess == nil {
			pess = st.clone()
			a.applyCallKills(n, pess)
		}
		return pess
	}
	if final {
		ast.Inspect(n, func(x ast.Node) bool {
			switch v := x.(type) {
			case *ast.FuncLit:
				return false
			case *ast.IndexExpr:
				a.access(v, v.X, v.Index, nil, false, n, getPess())
			case *ast.SliceExpr:
				a.access(v, v.X, v.Low, v.High, true, n, getPess())
			case *ast.CallExpr:
				a.precond(v, n, st)
			}
			return true
		})
	}
	a.effects(n, st)
}

// localFacts: facts implied at `at` by the short-circuit operators of its own node.
func (a *c20BFn) localFacts(at ast.Node, root ast.Node, st *c20BState) *c20BState {
	var chain []ast.Node
	for x := at; x != nil && x != root; x = a.parent[x] {
		chain = append(chain, x)
	}
	out := st
	cloned := false
	for i := len(chain) - 1; i >= 0; i-- {
		p := a.parent[chain[i]]
		be, ok := p.(*ast.BinaryExpr)
		if !ok || (be.Op != token.LAND && be.Op != token.LOR) || ast.Node(be.Y) != chain[i] {
			continue
		}
		if !cloned {
			out = st.clone()
			cloned = true
		}
		a.b.condFacts(a.fd, out, be.X, be.Op == token.LAND)
	}
	// root itself may be the binary expression
	return out
}

func (a *c20BFn) need(st *c20BState, s, base string, k int) bool {
	if base == "" && k < 0 {
		return true
	}
	v, has := st.facts[c20BKey{s, base}]
	if has && v < k && base != "" && a.entryK == nil {
		a.weak = true
	}
	return has && v >= k
}

func (a *c20BFn) inScopeExpr(x ast.Expr) bool {
	v, _ := fieldOf(a.b.info, x)
	return v != nil && a.b.expFld[v]
}

func (a *c20BFn) access(node ast.Node, X, i1, i2 ast.Expr, isSlice bool, root ast.Node, st0 *c20BState) {
	b := a.b
	t := b.info.TypeOf(X)
	if t == nil {
		return
	}
	switch t.Underlying().(type) {
	case *types.Map, *types.Signature:
		return
	}
	if tv, ok := b.info.Types[X]; ok && tv.IsType() {
		return
	}
	sp := b.norm(a.fd, b.path(X))
	onExpr := a.inScopeExpr(X)
	lenrel := false
	for _, o := range []ast.Expr{i1, i2} {
		if o != nil {
			if l := b.linSt(a.fd, st0, o); l.ok && l.lenOf != "" {
				lenrel = true
			}
		}
	}
	if !onExpr && !lenrel {
		return
	}
	st := a.localFacts(node, root, st0)
	site := c20BSite{fd: a.fd, node: node, what: b.c.src(node), ok: true}
	a.weak = false
	defer func() { a.weak = false }()
	fail := func(f string, args ...any) {
		if a.weak {
			site.hadTest = true
		}
		if site.ok {
			site.ok = false
			site.need = fmt.Sprintf(f, args...)
		}
	}
	und := func(f string, args ...any) {
		site.und = true
		site.ok = false
		site.need = fmt.Sprintf(f, args...)
	}
	skip := false
	// lenBound: operand len(sp)-c (c>0) needs len(sp) >= c; len(sp)-w needs w <= len(sp)
	lenBound := func(l c20Lin, what string) {
		site.kind = "lenrel"
		switch {
		case l.lenOf != sp:
			und("%s is relative to the length of a different slice", what)
		case strings.HasPrefix(l.base, "-"):
			w := strings.TrimPrefix(l.base, "-")
			if !a.need(st, sp, w, -l.k-1) {
				fail("no test establishes %s%+d <= len(%s) before %s (tests seen: %s) — when the slice is shorter the bound is negative and the parser panics", w, -l.k, sp, site.what, a.show(st, sp))
			}
		case l.base != "":
			und("%s mixes a length and a position", what)
		case l.k < 0:
			if !a.need(st, sp, "", -l.k-1) {
				fail("no test establishes len(%s) >= %d before %s (tests seen: %s) — when the slice is shorter the operand is negative and the parser panics (slice bounds / index out of range)", sp, -l.k, site.what, a.show(st, sp))
			}
		}
	}
	switch {
	case sp == "":
		und("indexed operand %s is not an access path", b.c.src(X))
	case !isSlice:
		site.kind = "index"
		l := b.linSt(a.fd, st, i1)
		switch {
		case !l.ok:
			und("index %s is not of the form position±const or len(S)−const", b.c.src(i1))
		case l.lenOf != "":
			if l.lenOf == sp && l.base == "" && l.k >= 0 {
				fail("index len(%s)%+d is never inside the slice", sp, l.k)
			} else {
				lenBound(l, "index "+b.c.src(i1))
			}
		case l.k < 0 && l.base != "":
			// negative offset: the lower test is what protects the start of the text
			if lo, has := st.lo[l.base]; !has || lo < -l.k {
				fail("no test establishes %s >= %d before %s — at the start of the text the index is negative and the parser panics (index out of range)", l.base, -l.k, site.what)
			}
		default:
			if !a.need(st, sp, l.base, l.k) {
				fail("no bounds test establishes %s%+d < len(%s) at this access (tests seen: %s) — text that ends here makes the parser panic (index out of range)", c20Or(l.base, "0"), l.k, sp, a.show(st, sp))
			}
		}
	default:
		site.kind = "slice"
		hi, lo := i2, i1
		if hi != nil {
			l := b.linSt(a.fd, st, hi)
			switch {
			case !l.ok:
				skip = true // relational bound (two variables): out of scope, counted
			case l.lenOf != "":
				lenBound(l, "upper bound "+b.c.src(hi))
			default:
				if !a.need(st, sp, l.base, l.k-1) {
					fail("no bounds test establishes %s%+d <= len(%s) at this re-slice (tests seen: %s) — slice bounds out of range at the end of the text", c20Or(l.base, "0"), l.k, sp, a.show(st, sp))
				}
			}
		}
		if lo != nil {
			l := b.linSt(a.fd, st, lo)
			switch {
			case !l.ok:
				if hi == nil {
					skip = true
				}
			case l.lenOf != "":
				lenBound(l, "lower bound "+b.c.src(lo))
			default:
				if hi == nil && !a.need(st, sp, l.base, l.k-1) {
					fail("no bounds test establishes %s%+d <= len(%s) at this re-slice (tests seen: %s) — slice bounds out of range at the end of the text", c20Or(l.base, "0"), l.k, sp, a.show(st, sp))
				}
			}
		}
	}
	if skip && site.ok {
		site.kind = "relational"
	}
	if !site.ok && !site.und && site.kind == "slice" {
		// the position was last moved by a callee and not tested since: the design's caveat
		// (no position-effects analysis of callees) — counted, not judged
		if a.calleeMoved(st, sp) {
			site.ok = true
			site.kind = "callee-moved"
		}
	}
	a.sites = append(a.sites, site)
}

func (a *c20BFn) calleeMoved(st *c20BState, sp string) bool {
	owner := strings.TrimSuffix(sp, ".expression")
	known := false
	for _, p := range []string{sp, owner + ".charPos"} {
		if v := a.b.lastFld(p); v != nil {
			known = true
			if st.bycall[v] {
				return true
			}
		}
	}
	if !known {
		// the path does not occur literally (a local passed as argument): any moved position field counts
		for v := range a.b.posFld {
			if st.bycall[v] {
				return true
			}
		}
	}
	return false
}

func c20Or(a, b string) string {
	if a == "" {
		return b
	}
	return a
}

func (a *c20BFn) show(st *c20BState, s string) string {
	var out []string
	for k, v := range st.facts {
		if k.s == s {
			out = append(out, fmt.Sprintf("%s%+d<len", c20Or(k.base, "0"), v))
		}
	}
	sort.Strings(out)
	if len(out) == 0 {
		return "none"
	}
	return strings.Join(out, ", ")
}

// precond discharges the callee's entry requirements at a call site.
func (a *c20BFn) precond(call *ast.CallExpr, root ast.Node, st *c20BState) {
	b := a.b
	g, ok := callee(b.info, call).(*types.Func)
	if !ok {
		return
	}
	g = g.Origin()
	pre := b.pre[g]
	gd := b.e.decls[g]
	if len(pre) == 0 || gd == nil {
		return
	}
	// map callee roots to caller paths
	m := map[string]string{}
	if gd.Recv != nil && len(gd.Recv.List) == 1 && len(gd.Recv.List[0].Names) == 1 {
		if se, ok := unparen(call.Fun).(*ast.SelectorExpr); ok {
			m[gd.Recv.List[0].Names[0].Name] = b.path(se.X)
		}
	}
	idx := 0
	for _, fl := range gd.Type.Params.List {
		for _, nm := range fl.Names {
			if idx < len(call.Args) {
				m[nm.Name] = b.path(call.Args[idx])
			}
			idx++
		}
	}
	var owners []string
	for o := range pre {
		owners = append(owners, o)
	}
	sort.Strings(owners)
	for _, owner := range owners {
		k := pre[owner]
		root0, rest := owner, ""
		if i := strings.Index(owner, "."); i >= 0 {
			root0, rest = owner[:i], owner[i:]
		}
		cp := m[root0]
		site := c20BSite{fd: a.fd, node: call, kind: "pre", what: fmt.Sprintf("%s needs %s.charPos%+d < len", c20FuncName(g), owner, k), ok: true}
		if cp == "" {
			site.ok = false
			site.und = true
			site.need = fmt.Sprintf("the receiver/argument bound to %s at this call is not an access path", root0)
		} else {
			co := b.norm(a.fd, cp+rest)
			lst := a.localFacts(call, root, st)
			if !a.need(lst, co+".expression", co+".charPos", k) && !b.preStrict[g] && a.calleeMoved(lst, co+".expression") {
				site.kind = "callee-moved"
			} else if !a.need(lst, co+".expression", co+".charPos", k) {
				site.ok = false
				site.need = fmt.Sprintf("%s accesses %s.expression at charPos%+d without a test of its own, and at this call no bounds test establishes %s.charPos%+d < len(%s.expression) (tests seen: %s) — text that ends here makes the parser panic (index out of range)", c20FuncName(g), owner, k, co, k, co, a.show(lst, co+".expression"))
			}
		}
		a.sites = append(a.sites, site)
	}
}

func (a *c20BFn) effects(n ast.Node, st *c20BState) {
	b := a.b
	// calls first (arguments are evaluated before the assignment happens)
	a.applyCallKills(n, st)
	assign := func(lhs ast.Expr, rhs ast.Expr, tok token.Token) {
		p := b.norm(a.fd, b.path(lhs))
		if p == "" {
			// store through an index/deref: conservatively nothing tracked is a slice element
			return
		}
		if id, ok := unparen(lhs).(*ast.Ident); ok && rhs != nil && (tok == token.ASSIGN || tok == token.DEFINE) {
			if call, ok := unparen(rhs).(*ast.CallExpr); ok {
				if owner, c, ok := b.helperOf(a.fd, st, call); ok {
					b.killPath(st, p)
					st.links[id.Name] = c20Link{owner, c}
					return
				}
			}
		}
		isInt := false
		if lt := b.info.TypeOf(lhs); lt != nil {
			if bt, ok := lt.Underlying().(*types.Basic); ok && bt.Info()&types.IsInteger != 0 {
				isInt = true
			}
		}
		if isInt && rhs != nil {
			switch tok {
			case token.ADD_ASSIGN, token.SUB_ASSIGN:
				if v, ok := constInt(b.info, rhs); ok {
					d := int(v)
					if tok == token.SUB_ASSIGN {
						d = -d
					}
					b.shift(st, p, d)
					return
				}
			case token.ASSIGN, token.DEFINE:
				l := b.lin(a.fd, rhs)
				if l.ok && l.lenOf == "" && l.base == p {
					b.shift(st, p, l.k)
					return
				}
				if l.ok && l.lenOf == "" && l.base != "" && !strings.HasPrefix(l.base, "-") {
					// p := q + k : copy q's facts
					b.killPath(st, p)
					for k, v := range st.facts {
						if k.base == l.base {
							st.facts[c20BKey{k.s, p}] = v - l.k
						}
					}
					if v, ok := st.lo[l.base]; ok {
						st.lo[p] = v + l.k
					}
					return
				}
				if l.ok && l.lenOf == "" && l.base == "" {
					b.killPath(st, p)
					st.lo[p] = l.k
					// owner.charPos = c: c + (−c−1) = −1 < len(owner.expression) always
					if strings.HasSuffix(p, ".charPos") && l.k >= 0 {
						st.facts[c20BKey{strings.TrimSuffix(p, ".charPos") + ".expression", p}] = -l.k - 1
					}
					return
				}
			}
		}
		b.killPath(st, p)
		if isInt && rhs != nil && (tok == token.ASSIGN || tok == token.DEFINE) {
			// p = len(S) - c  ⇒  p + (c-1) < len(S)
			l := b.linSt(a.fd, st, rhs)
			if l.ok && l.lenOf != "" && l.base == "" && l.k < 0 {
				st.facts[c20BKey{l.lenOf, p}] = -l.k - 1
			}
			// a function-local p = len(S) + k reads as that length until S or p changes
			if id, isId := unparen(lhs).(*ast.Ident); isId && l.ok && l.lenOf != "" && l.base == "" && b.isFuncLocal(id) {
				st.leneq[p] = c20LenEq{l.lenOf, l.k}
			}
		}
	}
	switch s := n.(type) {
	case *ast.AssignStmt:
		for i, l := range s.Lhs {
			var r ast.Expr
			if len(s.Lhs) == len(s.Rhs) {
				r = s.Rhs[i]
			}
			assign(l, r, s.Tok)
		}
	case *ast.IncDecStmt:
		p := b.norm(a.fd, b.path(s.X))
		if p != "" {
			d := 1
			if s.Tok == token.DEC {
				d = -1
			}
			b.shift(st, p, d)
		}
	case *ast.ValueSpec: // go/cfg emits each var spec as its own node
		for i, nm := range s.Names {
			var r ast.Expr
			if len(s.Values) == len(s.Names) {
				r = s.Values[i]
			}
			assign(nm, r, token.DEFINE)
		}
	case *ast.RangeStmt:
		// not a CFG node
	case *ast.Ident:
		// range key/value identifiers appear as nodes: they are (re)defined
		b.killPath(st, s.Name)
	}
}

// ------------------------------------------------------------ the rule

func (c *Ctx) c20RuleC(e *c20Eng) {
	const rule = "R20c"
	c.Rule(rule, "bounds in the parse-only slice (forward must-analysis on go/cfg, facts `pos+K < len(S)` / `pos >= L` from branch edges, shifted by ++/--/±const, killed by assignments and by calls that may write the field; callee entry requirements discharged at call sites): (A) every element index of ParserT/BlockT.expression is pos+const with an upper test still valid at the access (pos−const: a lower test); (B) every re-slice of .expression whose upper (or only) bound is pos±const has that bound <= len at the access; (C) every index/bound of the form len(X)−c is dominated by a test that establishes len(X) >= c; (D) every re-slice expression[saved+a : pos+b] between a saved copy of the position and the current position has pos+b >= saved+a (movement lower bounds of R20d)")
	b := &c20Bounds{c: c, e: e, info: e.info, diverged: map[string]bool{}, preStrict: map[*types.Func]bool{}, pre: map[*types.Func]map[string]int{}, parents: map[*ast.FuncDecl]map[ast.Node]ast.Node{}, cfgs: map[*ast.FuncDecl]*cfg.CFG{}, tagged: map[*ast.FuncDecl]map[ast.Expr]bool{}, alias: map[*ast.FuncDecl]map[string]string{}, pathFld: map[string][]*types.Var{}, tagOf: map[*ast.FuncDecl]map[ast.Expr]ast.Expr{}}
	b.buildSummaries()
	e.bounds = b
	if len(b.posFld) < 2 || len(b.expFld) < 2 {
		c.Lost(rule, "fields:charPos/expression", "ParserT/BlockT no longer have charPos and expression fields (%d/%d found)", len(b.posFld), len(b.expFld))
		return
	}
	var fns []*types.Func
	for f := range e.perFn {
		fns = append(fns, f)
	}
	sort.Slice(fns, func(i, j int) bool { return fns[i].FullName() < fns[j].FullName() })
	// entry-requirement fixpoint (requirements only grow)
	results := map[*types.Func][]c20BSite{}
	baseFails := map[*types.Func]map[string]bool{}
	for round := 0; round < 6; round++ {
		ch := false
		for _, f := range fns {
			entry, sites, bf := b.solvePre(e.decls[f], f)
			results[f], baseFails[f] = sites, bf
			for _, st := range sites {
				if st.ok && bf[c20SiteID(st)] && (st.kind == "index" || st.kind == "lenrel" || (st.kind == "pre" && b.preStrict[c20CalleeOf(e, st.node)])) && !b.preStrict[f] {
					b.preStrict[f] = true
					ch = true
				}
			}
			for o, k := range entry {
				if old, ok := b.pre[f][o]; !ok || k > old {
					if b.pre[f] == nil {
						b.pre[f] = map[string]int{}
					}
					b.pre[f][o] = k
					ch = true
				}
			}
		}
		if !ch {
			break
		}
	}
	names := c.c20EnclosingFuncs(e.pk)
	ord := map[string]int{}
	counts := map[string]int{}
	var all []c20BSite
	under := map[string]bool{}
	for _, f := range fns {
		for _, s := range results[f] {
			all = append(all, s)
			if s.ok && baseFails[f][c20SiteID(s)] {
				under[c20SiteID(s)] = true
			}
		}
	}
	sort.SliceStable(all, func(i, j int) bool { return all[i].node.Pos() < all[j].node.Pos() })
	seen := map[string]bool{}
	for _, s := range all {
		if seen[c20SiteID(s)] {
			continue
		}
		seen[c20SiteID(s)] = true
		fn := names[s.fd]
		key := s.kind + ":" + fn + ":" + s.what
		ord[key]++
		if ord[key] > 1 {
			key += fmt.Sprintf("#%d", ord[key])
		}
		counts[s.kind]++
		switch {
		case s.kind == "relational":
			c.Info("R20c: not decided (bound relates two variables): %s in %s at %s", s.what, fn, c.pos(s.node.Pos()))
		case s.kind == "callee-moved":
			c.Info("R20c: not decided (position last moved by a callee, no test since): %s in %s at %s", s.what, fn, c.pos(s.node.Pos()))
		case s.ok && under[c20SiteID(s)]:
			c.OK(rule, key, s.node.Pos(), "in bounds given the function's entry requirement %v (discharged at its call sites)", b.pre[c20FnOf(e, s.fd)])
		case s.ok:
			c.OK(rule, key, s.node.Pos(), "dominated by a bounds test that still holds here")
		case s.und:
			c.Undecided(rule, key, s.node.Pos(), "%s in %s: %s", s.what, fn, s.need)
		default:
			c.Viol(rule, key, s.node.Pos(), "%s in %s: %s", s.what, fn, s.need)
		}
	}
	for fn := range b.diverged {
		c.Undecided(rule, "dataflow:"+fn, token.NoPos, "the bounds analysis of %s did not reach a fixpoint within its iteration budget: nothing about its accesses is decided", fn)
	}
	// entry functions must not carry an undischarged requirement
	for _, f := range fns {
		for _, fc := range e.perFn[f] {
			if fc.entry && len(b.pre[f]) > 0 {
				c.Viol(rule, "pre:entry:"+c20FuncName(f), e.decls[f].Pos(), "entry %s accesses the text at its initial position without a bounds test (%v)", c20FuncName(f), b.pre[f])
			}
		}
	}
	var pl []string
	for f, m := range b.pre {
		for o, k := range m {
			pl = append(pl, fmt.Sprintf("%s: %s.charPos%+d<len", c20FuncName(f), o, k))
		}
	}
	sort.Strings(pl)
	c.Info("R20c: entry requirements derived (%d): %s", len(pl), strings.Join(pl, "; "))
	var cl []string
	for f := range b.isCtor {
		cl = append(cl, c20FuncName(f))
	}
	sort.Strings(cl)
	c.Info("R20c: constructors (writes go to a fresh object): %s", strings.Join(cl, ", "))
	c.MinCount(rule, "element indexes of .expression in the slice", counts["index"], 30)
	c.MinCount(rule, "re-slices of .expression in the slice", counts["slice"], 28)
	c.MinCount(rule, "len-relative indexes/bounds in the slice", counts["lenrel"], 3)
	c.MinCount(rule, "call sites with an entry requirement", counts["pre"], 20)
}

func c20CalleeOf(e *c20Eng, n ast.Node) *types.Func {
	call, ok := n.(*ast.CallExpr)
	if !ok {
		return nil
	}
	g, _ := callee(e.info, call).(*types.Func)
	if g != nil {
		g = g.Origin()
	}
	return g
}

func c20FnOf(e *c20Eng, fd *ast.FuncDecl) *types.Func {
	f, _ := e.info.Defs[fd.Name].(*types.Func)
	return f
}
