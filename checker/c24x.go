package main

import (
	"go/ast"
	"go/token"
	"go/types"

	"golang.org/x/tools/go/cfg"
)

// R24e — "everything after `--` is treated as additional". ParseFlags keeps one
// boolean (switched on by `--` and by strict flag placement) that means "flag
// parsing is off". The clause holds iff, with that boolean true at the head of an
// iteration, every path through the loop body appends the current parameter to
// `additional` before the next iteration — no path returns, and no path reaches
// the next parameter without the append.
func init() {
	extend("C24", func(c *Ctx) {
		c.Rule("R24e", "flags-off mode is absorbing: in parameters.ParseFlags, for the boolean B under which a parameter is appended to `additional` unconditionally, every go/cfg path of the parameter loop's body entered with B = true (three-valued evaluation of the branch conditions: B, !B, && and ||; everything else both ways) appends params[i] to `additional` before it reaches the loop head again, returns nowhere, and assigns B nothing but true")
		fd, pk := c.MustFunc("R24e", "lang/parameters", "", "ParseFlags")
		if fd == nil {
			return
		}
		info := pk.TypesInfo
		defs := localDefs(info, fd.Body)
		// `additional` = the []string local that is returned as 2nd result; B = ident condition of a case/if whose body appends to it
		isAppendTo := func(nd ast.Node) types.Object {
			as, ok := nd.(*ast.AssignStmt)
			if !ok || len(as.Lhs) != 1 || len(as.Rhs) != 1 {
				return nil
			}
			call, ok := isBuiltinCall(info, as.Rhs[0], "append")
			if !ok || len(call.Args) != 2 {
				return nil
			}
			l, ok1 := unparen(as.Lhs[0]).(*ast.Ident)
			a0, ok2 := unparen(call.Args[0]).(*ast.Ident)
			if !ok1 || !ok2 || info.ObjectOf(l) != info.ObjectOf(a0) {
				return nil
			}
			// the appended element: params[i], or a local defined once as params[i] (`arg := params[i]`)
			if _, ok := defs.resolve1(info, call.Args[1]).(*ast.IndexExpr); !ok {
				return nil
			}
			return info.ObjectOf(l)
		}
		var B, additional types.Object
		// `additional`: the slice the current parameter is appended to (most frequent append-to-self target)
		cnt := map[types.Object]int{}
		ast.Inspect(fd.Body, func(nd ast.Node) bool {
			if o := isAppendTo(nd); o != nil {
				cnt[o]++
			}
			return true
		})
		for o, k := range cnt {
			if additional == nil || k > cnt[additional] || (k == cnt[additional] && o.Pos() < additional.Pos()) {
				additional = o
			}
		}
		// B: the boolean local that is switched on (assigned the constant true) inside a loop
		var cands []types.Object
		walkStack(fd.Body, func(nd ast.Node, stack []ast.Node) bool {
			as, ok := nd.(*ast.AssignStmt)
			if !ok || len(as.Lhs) != len(as.Rhs) {
				return true
			}
			inLoop := false
			for _, a := range stack {
				switch a.(type) {
				case *ast.ForStmt, *ast.RangeStmt:
					inLoop = true
				}
			}
			for i, l := range as.Lhs {
				id, ok := unparen(l).(*ast.Ident)
				if !ok || !inLoop {
					continue
				}
				v, ok := info.ObjectOf(id).(*types.Var)
				if !ok || !types.Identical(v.Type(), types.Typ[types.Bool]) {
					continue
				}
				if tv := info.Types[as.Rhs[i]]; tv.Value != nil && tv.Value.ExactString() == "true" {
					dup := false
					for _, cnd := range cands {
						if cnd == types.Object(v) {
							dup = true
						}
					}
					if !dup {
						cands = append(cands, v)
					}
				}
			}
			return true
		})
		if len(cands) == 1 && additional != nil {
			B = cands[0]
		}
		if B == nil {
			c.Lost("R24e", "ParseFlags:flags-off-boolean", "ParseFlags no longer has exactly one boolean local that is switched on inside the parameter loop (%d found) and a slice the parameters are appended to", len(cands))
			return
		}
		g := cfg.New(fd.Body, func(call *ast.CallExpr) bool { return true })
		// the loop: the range/for statement whose body contains the append under B
		var bodyEntry, head *cfg.Block
		for _, b := range g.Blocks {
			if (b.Kind == cfg.KindRangeBody || b.Kind == cfg.KindForBody) && b.Stmt != nil {
				contains := false
				ast.Inspect(b.Stmt, func(nd ast.Node) bool {
					if id, ok := nd.(*ast.Ident); ok && info.Uses[id] == B {
						contains = true
					}
					return !contains
				})
				if contains && bodyEntry == nil {
					bodyEntry = b
				}
			}
		}
		if bodyEntry != nil {
			for _, b := range g.Blocks {
				if (b.Kind == cfg.KindRangeLoop || b.Kind == cfg.KindForPost || b.Kind == cfg.KindForLoop) && b.Stmt == bodyEntry.Stmt {
					if head == nil || b.Kind == cfg.KindForPost {
						head = b
					}
				}
			}
		}
		if bodyEntry == nil || head == nil {
			c.Undecided("R24e", "ParseFlags:loop", fd.Pos(), "cannot find the parameter loop of ParseFlags in its control-flow graph")
			return
		}
		// three-valued evaluation under B = true: 1 true, 0 false, -1 unknown
		var eval func(e ast.Expr) int
		eval = func(e ast.Expr) int {
			e = unparen(e)
			switch x := e.(type) {
			case *ast.Ident:
				if info.Uses[x] == B {
					return 1
				}
			case *ast.UnaryExpr:
				if x.Op == token.NOT {
					if v := eval(x.X); v >= 0 {
						return 1 - v
					}
				}
			case *ast.BinaryExpr:
				l, r := eval(x.X), eval(x.Y)
				switch x.Op {
				case token.LAND:
					if l == 0 || r == 0 {
						return 0
					}
					if l == 1 && r == 1 {
						return 1
					}
				case token.LOR:
					if l == 1 || r == 1 {
						return 1
					}
					if l == 0 && r == 0 {
						return 0
					}
				case token.EQL, token.NEQ:
					// B == true / B != false …
					if tv := info.Types[x.Y]; tv.Value != nil && l >= 0 {
						t := tv.Value.ExactString() == "true"
						eq := (l == 1) == t
						if x.Op == token.NEQ {
							eq = !eq
						}
						if eq {
							return 1
						}
						return 0
					}
				}
			}
			return -1
		}
		type st struct {
			b        *cfg.Block
			appended bool
		}
		seen := map[st]bool{}
		work := []st{{bodyEntry, false}}
		nPaths := 0
		var bad []string
		report := func(s string) {
			for _, x := range bad {
				if x == s {
					return
				}
			}
			bad = append(bad, s)
		}
		undec := ""
		for len(work) > 0 {
			cur := work[len(work)-1]
			work = work[:len(work)-1]
			if seen[cur] {
				continue
			}
			seen[cur] = true
			app := cur.appended
			stop := false
			for _, nd := range cur.b.Nodes {
				if o := isAppendTo(nd); o != nil && o == additional {
					app = true
				}
				if as, ok := nd.(*ast.AssignStmt); ok {
					for i, l := range as.Lhs {
						if id, ok := unparen(l).(*ast.Ident); ok && info.ObjectOf(id) == B {
							val := ""
							if len(as.Rhs) == len(as.Lhs) {
								if tv := info.Types[as.Rhs[i]]; tv.Value != nil {
									val = tv.Value.ExactString()
								}
							}
							if val != "true" {
								report("flag parsing is switched back on (" + c.src(as) + " at " + c.pos(as.Pos()) + ") while it is off")
							}
						}
					}
				}
				if rs, ok := nd.(*ast.ReturnStmt); ok {
					nPaths++
					report("ParseFlags returns (" + c.src(rs) + " at " + c.pos(rs.Pos()) + ") for a parameter that follows `--`")
					stop = true
				}
			}
			if stop {
				continue
			}
			if len(cur.b.Succs) == 0 {
				continue
			}
			next := cur.b.Succs
			if len(next) == 2 && len(cur.b.Nodes) > 0 {
				if cond, ok := cur.b.Nodes[len(cur.b.Nodes)-1].(ast.Expr); ok {
					switch eval(cond) {
					case 1:
						next = next[:1]
					case 0:
						next = next[1:]
					}
				}
			} else if len(next) > 2 {
				undec = "block with more than two successors"
			}
			for _, s := range next {
				if s == head {
					nPaths++
					if !app {
						pos := fd.Pos()
						if len(cur.b.Nodes) > 0 {
							pos = cur.b.Nodes[len(cur.b.Nodes)-1].Pos()
						}
						report("a path through the loop body (last statement at " + c.pos(pos) + ") reaches the next parameter without appending this one to `" + additional.Name() + "`")
					}
					continue
				}
				work = append(work, st{s, app})
			}
		}
		switch {
		case undec != "":
			c.Undecided("R24e", "ParseFlags:flags-off-absorbing", fd.Pos(), "%s", undec)
		case len(bad) > 0:
			for i, b := range bad {
				c.Viol("R24e", "ParseFlags:flags-off-absorbing#"+itoa(i+1), bodyEntry.Stmt.Pos(), "with %s = true: %s — not everything after `--` is treated as additional", B.Name(), b)
			}
		default:
			c.OK("R24e", "ParseFlags:flags-off-absorbing", bodyEntry.Stmt.Pos(), "with %s = true all %d path end(s) of the loop body append params[i] to `%s`; none returns or clears %s", B.Name(), nPaths, additional.Name(), B.Name())
		}
		c.MinCount("R24e", "loop-body path ends explored with flag parsing off", nPaths, 1)
	})
}
