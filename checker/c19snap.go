package main

import (
	"go/ast"
	"go/token"
	"go/types"
)

// R19j — map-miss dereference through a snapshot. R19c covers `m[k].F.M(…)`; the same
// nil call happens when the element is first copied into a local (`p := m[k]` —
// single-value form, a missing key gives the zero value) and the call is made on the
// copy: `p.Pipe.Close()`, `h(…)`, `v.M()`. The copy needs the same evidence: a
// dominating non-nil test of what is called, or the key ranging over the map.
func init() {
	extend("C19", func(c *Ctx) {
		c.Rule("R19j", "map-miss dereference through a local (whole module): for a local defined once by the single-value lookup `v := m[k]`, a call v(…), v.M(…) on an interface value, or v.F(…)/v.F.M(…) on a func/interface field of a struct value is made only under a dominating `!= nil` test of the called value (v, v.F), or where k ranges over the same map")
		n := 0
		for _, pk := range c.MurexPkgs() {
			info := pk.TypesInfo
			rel := relPkg(pk.PkgPath)
			eachFunc(pk, func(fd *ast.FuncDecl) {
				if fd.Body == nil {
					return
				}
				defs := localDefs(info, fd.Body)
				snap := map[types.Object]*ast.IndexExpr{}
				for o, ds := range defs {
					if len(ds) != 1 || ds[0] == nil {
						continue
					}
					ix, ok := unparen(ds[0]).(*ast.IndexExpr)
					if !ok {
						continue
					}
					if _, isMap := info.TypeOf(ix.X).Underlying().(*types.Map); isMap {
						snap[o] = ix
					}
				}
				if len(snap) == 0 {
					return
				}
				nilable := func(t types.Type) bool {
					switch t.Underlying().(type) {
					case *types.Interface, *types.Signature:
						return true
					}
					return false
				}
				walkStack(fd.Body, func(nd ast.Node, stack []ast.Node) bool {
					call, ok := nd.(*ast.CallExpr)
					if !ok {
						return true
					}
					// what is called: v | v.M | v.F | v.F.M
					var root *ast.Ident
					var called ast.Expr // the value that must be non-nil
					fun := unparen(call.Fun)
					switch x := fun.(type) {
					case *ast.Ident:
						if _, isSig := info.TypeOf(x).Underlying().(*types.Signature); isSig {
							root, called = x, x
						}
					case *ast.SelectorExpr:
						if id, ok := unparen(x.X).(*ast.Ident); ok {
							sel := info.Selections[x]
							if sel != nil && sel.Kind() == types.MethodVal {
								if _, isIface := info.TypeOf(id).Underlying().(*types.Interface); isIface {
									root, called = id, id
								}
							} else if sel != nil && sel.Kind() == types.FieldVal && nilable(info.TypeOf(x)) {
								root, called = id, x
							}
						} else if inner, ok := unparen(x.X).(*ast.SelectorExpr); ok {
							if id, ok := unparen(inner.X).(*ast.Ident); ok {
								sel := info.Selections[x]
								isel := info.Selections[inner]
								if sel != nil && sel.Kind() == types.MethodVal && isel != nil && isel.Kind() == types.FieldVal {
									if _, isIface := info.TypeOf(inner).Underlying().(*types.Interface); isIface {
										root, called = id, inner
									}
								}
							}
						}
					}
					if root == nil {
						return true
					}
					ix := snap[info.ObjectOf(root)]
					if ix == nil {
						return true
					}
					n++
					key := funcKey(rel, fd) + ":" + c.src(called) + "←" + c.src(ix)
					want := c.src(called)
					// the same test written on the map element itself (`if m[k].F == nil { return }` before the
					// copy is taken) justifies the call just as well: the copy is taken from that element
					want2 := want
					if rs := c.src(root); len(want) >= len(rs) && want[:len(rs)] == rs {
						want2 = c.src(ix) + want[len(rs):]
					}
					guarded := false
					for _, f := range factsThroughLocals(info, defs, guardsAt(info, stack)) { // also `miss := v == nil; if miss { return }`
						b, ok := unparen(f.E).(*ast.BinaryExpr)
						if !ok || (b.Op != token.NEQ && b.Op != token.EQL) {
							continue
						}
						x, y := unparen(b.X), unparen(b.Y)
						if isNilIdent(info, x) {
							x, y = y, x
						}
						if !isNilIdent(info, y) || (b.Op == token.NEQ) != f.True {
							continue
						}
						if sx := c.src(x); sx == want || sx == want2 {
							guarded = true
						}
					}
					switch {
					case guarded:
						c.OK("R19j", key, call.Pos(), "called under a non-nil test of %s", want)
					case c19RangeKey(info, ix, stack):
						c.OK("R19j", key, call.Pos(), "the key ranges over the same map")
					default:
						c.Viol("R19j", key, call.Pos(), "%s is called on a copy of %s taken with the single-value lookup: for a missing key the copy is the zero value and the call is a nil call → runtime panic (in a goroutine without recover it ends the shell)", want, c.src(ix))
					}
					return true
				})
			})
		}
		c.Info("R19j: %d calls through locals copied from map elements", n)
	})
}
