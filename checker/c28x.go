package main

import (
	"go/ast"
	"go/token"
	"go/types"
)

// R28e — "once a program has finished … none of its processes remain in the FID table".
// deregisterProcess is the one place every executed process passes through when it ends
// (Fork.Execute defers it, R28c). R28c only asks that it CONTAINS GlobalFIDs.Deregister(p.Id);
// that is not enough: the release must happen whatever the process is (job member or not,
// background or not) — i.e. on EVERY path through deregisterProcess. A release that sits
// behind a condition, or behind an earlier conditional return, leaves one class of processes
// in `fid-list` for ever.
//
// Decided by a must-pass-through evaluation over the statement tree: a path is "released"
// once it has executed GlobalFIDs.Deregister(<param>.Id) — directly, in a go/defer statement,
// or inside a function literal that is invoked on the spot (call, go, defer) and itself
// releases on all of its paths. Every way out of the function (return or falling off the end)
// must be released. Loops are taken to run zero times. goto/labels/fallthrough → undecided.

// c28Must is the evaluator. States are booleans ("released so far").
type c28Must struct {
	info      *types.Info
	direct    func(call *ast.CallExpr) bool // the releasing call itself
	bad       []token.Pos                   // exits reached unreleased
	hints     []token.Pos                   // where an on-the-spot literal lets go unreleased (diagnosis only)
	complex   string
	complexAt token.Pos
}

// ev: does executing node n (an expression or simple statement) release?
func (m *c28Must) ev(n ast.Node) bool {
	if n == nil {
		return false
	}
	found := false
	ast.Inspect(n, func(x ast.Node) bool {
		if found {
			return false
		}
		switch y := x.(type) {
		case *ast.FuncLit:
			return false // a literal that is merely created (stored, passed on) is not executed here
		case *ast.CallExpr:
			if m.direct(y) {
				found = true
				return false
			}
			if lit, ok := unparen(y.Fun).(*ast.FuncLit); ok {
				// invoked on the spot: releases iff all its paths do
				sub := &c28Must{info: m.info, direct: m.direct}
				fall := sub.stmts(lit.Body.List, map[bool]bool{false: true}, nil)
				if sub.complex != "" {
					m.complex, m.complexAt = sub.complex, sub.complexAt
				}
				if len(sub.bad) == 0 && !fall[false] {
					found = true
					return false
				}
				// remember where the literal lets go unreleased, for the diagnosis
				m.hints = append(m.hints, sub.bad...)
				m.hints = append(m.hints, sub.hints...)
				if fall[false] {
					m.hints = append(m.hints, lit.Body.Rbrace)
				}
				// arguments of the call are still evaluated
				for _, a := range y.Args {
					if m.ev(a) {
						found = true
					}
				}
				return false
			}
		}
		return true
	})
	return found
}

type c28Brk struct{ states map[bool]bool }

func (m *c28Must) stmts(list []ast.Stmt, start map[bool]bool, brk *c28Brk) map[bool]bool {
	cur := start
	for _, s := range list {
		if len(cur) == 0 {
			break
		}
		next := map[bool]bool{}
		for r := range cur {
			for r1 := range m.stmt(s, r, brk) {
				next[r1] = true
			}
		}
		cur = next
	}
	return cur
}

// stmt: the states with which control falls out of s when entered with r. brk collects the
// states of unlabelled `break`s that leave the innermost switch/select (nil inside a loop body,
// where a break only ends the loop, which is taken to contribute nothing anyway).
func (m *c28Must) stmt(s ast.Stmt, r bool, brk *c28Brk) map[bool]bool {
	one := func(b bool) map[bool]bool { return map[bool]bool{b: true} }
	switch x := s.(type) {
	case nil:
		return one(r)
	case *ast.BlockStmt:
		return m.stmts(x.List, one(r), brk)
	case *ast.LabeledStmt:
		m.complex, m.complexAt = "labelled statement", x.Pos()
		return m.stmt(x.Stmt, r, brk)
	case *ast.ReturnStmt:
		r1 := r
		for _, e := range x.Results {
			if m.ev(e) {
				r1 = true
			}
		}
		if !r1 {
			m.bad = append(m.bad, x.Pos())
		}
		return map[bool]bool{}
	case *ast.BranchStmt:
		switch {
		case x.Label != nil || x.Tok == token.GOTO || x.Tok == token.FALLTHROUGH:
			m.complex, m.complexAt = x.Tok.String(), x.Pos()
		case x.Tok == token.BREAK && brk != nil:
			brk.states[r] = true
		}
		return map[bool]bool{}
	case *ast.IfStmt:
		r1 := r || m.ev(x.Init)
		r1 = m.ev(x.Cond) || r1
		res := map[bool]bool{}
		for k := range m.stmts(x.Body.List, one(r1), brk) {
			res[k] = true
		}
		if x.Else != nil {
			for k := range m.stmt(x.Else, r1, brk) {
				res[k] = true
			}
		} else {
			res[r1] = true
		}
		return res
	case *ast.SwitchStmt, *ast.TypeSwitchStmt, *ast.SelectStmt:
		var body *ast.BlockStmt
		r1 := r
		hasDefault := false
		switch y := x.(type) {
		case *ast.SwitchStmt:
			body = y.Body
			r1 = m.ev(y.Init) || r1
			if y.Tag != nil {
				r1 = m.ev(y.Tag) || r1
			}
		case *ast.TypeSwitchStmt:
			body = y.Body
			r1 = m.ev(y.Init) || r1
			r1 = m.ev(y.Assign) || r1
		case *ast.SelectStmt:
			body = y.Body
			hasDefault = true // a select always runs one arm
		}
		res := map[bool]bool{}
		inner := &c28Brk{states: map[bool]bool{}}
		for _, cl := range body.List {
			var b []ast.Stmt
			switch z := cl.(type) {
			case *ast.CaseClause:
				b = z.Body
				if z.List == nil {
					hasDefault = true
				}
			case *ast.CommClause:
				b = z.Body
			}
			for k := range m.stmts(b, one(r1), inner) {
				res[k] = true
			}
		}
		for k := range inner.states {
			res[k] = true
		}
		if !hasDefault {
			res[r1] = true
		}
		return res
	case *ast.ForStmt:
		r1 := r || m.ev(x.Init)
		if x.Cond != nil {
			r1 = m.ev(x.Cond) || r1 // the condition is evaluated at least once
		}
		m.stmts(x.Body.List, one(r1), nil) // only to find unreleased returns; the body may run zero times
		return one(r1)
	case *ast.RangeStmt:
		r1 := m.ev(x.X) || r
		m.stmts(x.Body.List, one(r1), nil)
		return one(r1)
	case *ast.GoStmt:
		return one(m.ev(x.Call) || r)
	case *ast.DeferStmt:
		return one(m.ev(x.Call) || r)
	default:
		return one(m.ev(x) || r)
	}
}

func init() {
	extend("C28", func(c *Ctx) {
		c.Rule("R28e", "the release is unconditional: every path through deregisterProcess — whatever HasJobId, Background or any other attribute of the process says — executes GlobalFIDs.Deregister(<its process>.Id), directly, in a go/defer statement, or in a function literal invoked on the spot that itself releases on all its paths; no return (of the function or of such a literal) is reachable before the release and the release sits in no conditional arm that has an unreleased alternative. Pruning the job table (Jobs.GarbageCollect) is not a release")
		fd, pk := c.MustFunc("R28e", "lang", "", "deregisterProcess")
		if fd == nil {
			return
		}
		info := pk.TypesInfo
		defs := localDefs(info, fd.Body)
		var fids types.Object
		if o := pk.Types.Scope().Lookup("GlobalFIDs"); o != nil {
			fids = o
		} else {
			c.Lost("R28e", "var:lang.GlobalFIDs", "package variable lang.GlobalFIDs (the FID table) not found")
			return
		}
		nDirect := 0
		direct := func(call *ast.CallExpr) bool {
			if !callIs(info, call, mx("lang"), "funcID", "Deregister") || len(call.Args) != 1 {
				return false
			}
			// on the session's table …
			se, ok := unparen(call.Fun).(*ast.SelectorExpr)
			if !ok {
				return false
			}
			rid, ok := unparen(defs.resolve1(info, se.X)).(*ast.Ident)
			if u, isU := unparen(defs.resolve1(info, se.X)).(*ast.UnaryExpr); isU && u.Op == token.AND {
				rid, ok = unparen(u.X).(*ast.Ident)
			}
			if !ok || info.ObjectOf(rid) != fids {
				return false
			}
			// … of this process's own id (possibly read into a single-definition local first)
			arg := defs.resolve1(info, call.Args[0])
			if !isField(info, arg, mx("lang")+".Process", "Id") {
				return false
			}
			pe := defs.resolve1(info, arg.(*ast.SelectorExpr).X)
			pid, ok := unparen(pe).(*ast.Ident)
			if !ok || !isParam(info, fd, pid) {
				return false
			}
			nDirect++
			return true
		}
		m := &c28Must{info: info, direct: direct}
		fall := m.stmts(fd.Body.List, map[bool]bool{false: true}, nil)
		key := "deregisterProcess:Deregister(p.Id)-on-every-path"
		switch {
		case nDirect == 0:
			c.Undecided("R28e", key, fd.Pos(), "deregisterProcess contains no GlobalFIDs.Deregister(<param>.Id) the rule can recognise (moved into a helper?): cannot decide that every finished process leaves the FID table")
		case m.complex != "":
			c.Undecided("R28e", key, m.complexAt, "deregisterProcess uses a %s: the must-release evaluation does not model it", m.complex)
		case len(m.bad) > 0 || fall[false]:
			at := fd.Body.Rbrace
			if len(m.bad) > 0 {
				at = m.bad[0]
			} else if len(m.hints) > 0 {
				at = m.hints[0]
			}
			c.Viol("R28e", key, at, "deregisterProcess can finish without GlobalFIDs.Deregister(p.Id): the path that ends at %s never removes the process from the FID table (the release is conditional or follows an earlier return) — processes taking that path (e.g. every process carrying a job id: bg, its fork and everything run inside the block) stay in `fid-list` after the program has finished", c.pos(at))
		default:
			c.OK("R28e", key, fd.Pos(), "every path through deregisterProcess releases the FID")
		}
	})
}
