package main

import (
	"go/ast"
	"go/types"
)

// R13f — the one float→string routine. types.FloatToString is what every
// float→string conversion ends in (ConvertGoType(float, str), variable string
// forms, index output, csv cells). R13a fixes the arguments of its FormatFloat;
// this rule fixes its shape: no path may hand the value to another formatter —
// in particular not through an integer conversion, which is wrong for every
// |f| ≥ 2^63, for -0 and (with int) for |f| ≥ 2^31 on 32-bit builds.
func init() {
	extend("C13", func(c *Ctx) {
		c.Rule("R13f", "types.FloatToString: every return is strconv.FormatFloat(<the parameter itself>, …), and the function contains no conversion of a float to an integer type")
		fd, pk := c.MustFunc("R13f", "lang/types", "", "FloatToString")
		if fd == nil {
			return
		}
		info := pk.TypesInfo
		var param types.Object
		if fd.Type.Params != nil && len(fd.Type.Params.List) == 1 && len(fd.Type.Params.List[0].Names) == 1 {
			param = info.Defs[fd.Type.Params.List[0].Names[0]]
		}
		if param == nil {
			c.Undecided("R13f", "FloatToString:param", fd.Pos(), "FloatToString does not have exactly one named parameter")
			return
		}
		n := 0
		defs := localDefs(info, fd.Body)
		ast.Inspect(fd.Body, func(nd ast.Node) bool {
			switch x := nd.(type) {
			case *ast.ReturnStmt:
				n++
				key := "FloatToString:return#" + itoa(n)
				ok := false
				if len(x.Results) == 1 {
					if call, isC := defs.resolve1(info, x.Results[0]).(*ast.CallExpr); isC {
						if fn, isF := callee(info, call).(*types.Func); isF && fn.Pkg() != nil && fn.Pkg().Path() == "strconv" && fn.Name() == "FormatFloat" && len(call.Args) == 4 {
							if id, isI := unparen(call.Args[0]).(*ast.Ident); isI && info.ObjectOf(id) == param {
								ok = true
							}
						}
					}
				}
				c.Check(ok, "R13f", key, x.Pos(), "returns strconv.FormatFloat of the parameter itself (got %s) — any other formatter loses values: an integer fast path prints every whole float ≥ 2^63 as -9223372036854775808 and -0 as 0", c.src(x))
			case *ast.CallExpr:
				// conversion T(x) with T integer and x float
				if tv, isT := info.Types[x.Fun]; isT && tv.IsType() && len(x.Args) == 1 {
					if tb, ok := tv.Type.Underlying().(*types.Basic); ok && tb.Info()&types.IsInteger != 0 {
						if ab, ok := info.Types[x.Args[0]].Type.Underlying().(*types.Basic); ok && ab.Info()&types.IsFloat != 0 {
							c.Viol("R13f", "FloatToString:int-conversion", x.Pos(), "FloatToString converts the float to %s (%s): out of range for |f| ≥ 2^63 and loses the sign of -0", tb.Name(), c.src(x))
						}
					}
				}
			}
			return true
		})
		c.MinCount("R13f", "returns of FloatToString", n, 1)
	})
}
