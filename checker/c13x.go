package main

import (
	"go/ast"
	"go/types"
)

// R13f — the one float→string routine. types.FloatToString is what every
// float→string conversion ends in (ConvertGoType(float, str), variable string
// forms, index output, csv cells). R13a fixes the arguments of its FormatFloat;
// this rule fixes its shape: no path may hand the value to another formatter —
// in particular not through an integer conversion, which is wrong for every
// |f| ≥ 2^63, for -0 and (with int) for |f| ≥ 2^31 on 32-bit builds.
func init() {
	extend("C13", func(c *Ctx) {
		c.Rule("R13f", "types.FloatToString: every return is strconv.FormatFloat(<the parameter itself>, …), and the function contains no conversion of a float to an integer type")
		fd, pk := c.MustFunc("R13f", "lang/types", "", "FloatToString")
		if fd == nil {
			return
		}
		info := pk.TypesInfo
		var param types.Object
		if fd.Type.Params != nil && len(fd.Type.Params.List) == 1 && len(fd.Type.Params.List[0].Names) == 1 {
			param = info.Defs[fd.Type.Params.List[0].Names[0]]
		}
		if param == nil {
			c.Undecided("R13f", "FloatToString:param", fd.Pos(), "FloatToString does not have exactly one named parameter")
			return
		}
		n := 0
		defs := localDefs(info, fd.Body)
		var result *ast.Ident
		if r := fd.Type.Results; r != nil && len(r.List) == 1 && len(r.List[0].Names) == 1 {
			result = r.List[0].Names[0]
		}
		// isParam: the parameter (never reassigned), a float→same-float conversion of it, or a
		// local whose only definition is one of these
		var isParam func(e ast.Expr, depth int) bool
		isParam = func(e ast.Expr, depth int) bool {
			if depth > 4 || len(defs[param]) != 0 {
				return false
			}
			e = unparen(e)
			if call, ok := e.(*ast.CallExpr); ok && len(call.Args) == 1 {
				if tv, isT := info.Types[call.Fun]; isT && tv.IsType() && types.Identical(tv.Type, info.TypeOf(call.Args[0])) {
					return isParam(call.Args[0], depth+1)
				}
				return false
			}
			id, ok := e.(*ast.Ident)
			if !ok {
				return false
			}
			if info.ObjectOf(id) == param {
				return true
			}
			if ds := defs[info.ObjectOf(id)]; len(ds) == 1 && ds[0] != nil {
				return isParam(ds[0], depth+1)
			}
			return false
		}
		isFormat := func(e ast.Expr) bool {
			call, isC := unparen(e).(*ast.CallExpr)
			if !isC {
				return false
			}
			fn, isF := callee(info, call).(*types.Func)
			return isF && fn.Pkg() != nil && fn.Pkg().Path() == "strconv" && fn.Name() == "FormatFloat" && len(call.Args) == 4 && isParam(call.Args[0], 0)
		}
		ast.Inspect(fd.Body, func(nd ast.Node) bool {
			switch x := nd.(type) {
			case *ast.ReturnStmt:
				n++
				key := "FloatToString:return#" + itoa(n)
				var val ast.Expr
				if len(x.Results) == 1 {
					val = unparen(x.Results[0])
				} else if len(x.Results) == 0 && result != nil {
					val = result // naked return of the named result
				}
				ok := false
				if val != nil {
					if id, isI := val.(*ast.Ident); isI && len(defs[info.ObjectOf(id)]) > 0 {
						// a local / the named result: every value it is ever given is the formatted parameter
						ok = true
						for _, d := range defs[info.ObjectOf(id)] {
							if d == nil || !isFormat(d) {
								ok = false
							}
						}
					} else {
						ok = isFormat(val)
					}
				}
				c.Check(ok, "R13f", key, x.Pos(), "returns strconv.FormatFloat of the parameter itself (got %s) — any other formatter loses values: an integer fast path prints every whole float ≥ 2^63 as -9223372036854775808 and -0 as 0", c.src(x))
			case *ast.CallExpr:
				// conversion T(x) with T integer and x float
				if tv, isT := info.Types[x.Fun]; isT && tv.IsType() && len(x.Args) == 1 {
					if tb, ok := tv.Type.Underlying().(*types.Basic); ok && tb.Info()&types.IsInteger != 0 {
						if ab, ok := info.Types[x.Args[0]].Type.Underlying().(*types.Basic); ok && ab.Info()&types.IsFloat != 0 {
							c.Viol("R13f", "FloatToString:int-conversion", x.Pos(), "FloatToString converts the float to %s (%s): out of range for |f| ≥ 2^63 and loses the sign of -0", tb.Name(), c.src(x))
						}
					}
				}
			}
			return true
		})
		c.MinCount("R13f", "returns of FloatToString", n, 1)
	})
}
