package main

// Lock balance (part of E1): on every path to a return (or the end of the
// function) each sync.Mutex/RWMutex that the function locked through a
// selector path has been unlocked again, unless its Unlock is deferred.
// Forward may-analysis on go/cfg (join = union): a lock that MAY still be held
// at an exit is reported — the next operation on that structure blocks forever.

import (
	"go/ast"
	"sort"
	"strings"

	"golang.org/x/tools/go/cfg"
	"golang.org/x/tools/go/packages"
)

func (c *Ctx) runLockBalance(rule string, pkgRels []string, exempt map[string]string) (nFuncs int) {
	for _, rel := range pkgRels {
		pk := c.Pkg(rel)
		if pk == nil {
			c.Lost(rule, "pkg:"+rel, "package not loaded")
			continue
		}
		eachFunc(pk, func(fd *ast.FuncDecl) {
			if fd.Name.Name == "Lock" || fd.Name.Name == "RLock" {
				return // a lock wrapper: returning with the inner mutex held is its purpose
			}
			nFuncs += c.lockBalanceFunc(rule, pk, rel, funcKey(rel, fd), fd.Body, exempt)
			k := 0
			ast.Inspect(fd.Body, func(n ast.Node) bool {
				if fl, ok := n.(*ast.FuncLit); ok {
					k++
					nFuncs += c.lockBalanceFunc(rule, pk, rel, funcKey(rel, fd)+"$lit"+itoa(k), fl.Body, exempt)
				}
				return true
			})
		})
	}
	return
}

func (c *Ctx) lockBalanceFunc(rule string, pk *packages.Package, rel, key string, body *ast.BlockStmt, exempt map[string]string) int {
	info := pk.TypesInfo
	// quick scan: does the function lock anything, and which unlocks are deferred
	locks := false
	deferred := map[string]bool{}
	ast.Inspect(body, func(n ast.Node) bool {
		if _, ok := n.(*ast.FuncLit); ok && n != ast.Node(body) {
			return false
		}
		switch x := n.(type) {
		case *ast.DeferStmt:
			if p, op := mutexOp(info, x.Call); p != "" && (op == "Unlock" || op == "RUnlock") {
				deferred[p] = true
			}
			// defer func() { x.Unlock() }()
			if fl, ok := x.Call.Fun.(*ast.FuncLit); ok {
				for _, call := range calls(fl.Body, false) {
					if p, op := mutexOp(info, call); p != "" && (op == "Unlock" || op == "RUnlock") {
						deferred[p] = true
					}
				}
			}
			return false
		case *ast.CallExpr:
			if p, op := mutexOp(info, x); p != "" && (op == "Lock" || op == "RLock") {
				locks = true
			}
		}
		return true
	})
	if !locks {
		return 0
	}
	g := cfg.New(body, func(call *ast.CallExpr) bool {
		if id, ok := call.Fun.(*ast.Ident); ok && id.Name == "panic" {
			return false
		}
		return true
	})
	type set map[string]bool
	in := make([]set, len(g.Blocks))
	in[0] = set{}
	work := []int32{0}
	transfer := func(b *cfg.Block, s set) set {
		o := set{}
		for k := range s {
			o[k] = true
		}
		for _, n := range b.Nodes {
			es, ok := n.(*ast.ExprStmt)
			if !ok {
				continue
			}
			call, ok := es.X.(*ast.CallExpr)
			if !ok {
				continue
			}
			p, op := mutexOp(info, call)
			switch op {
			case "Lock", "RLock":
				o[p] = true
			case "Unlock", "RUnlock":
				delete(o, p)
			}
		}
		return o
	}
	for len(work) > 0 {
		bi := work[0]
		work = work[1:]
		out := transfer(g.Blocks[bi], in[bi])
		for _, succ := range g.Blocks[bi].Succs {
			changed := false
			if in[succ.Index] == nil {
				in[succ.Index] = set{}
				changed = true
			}
			for k := range out {
				if !in[succ.Index][k] {
					in[succ.Index][k] = true
					changed = true
				}
			}
			if changed {
				work = append(work, succ.Index)
			}
		}
	}
	var leaked []string
	var pos = body.Pos()
	for i, b := range g.Blocks {
		if in[i] == nil || !b.Live {
			continue
		}
		out := transfer(b, in[i])
		isExit := len(b.Succs) == 0
		if !isExit {
			continue
		}
		// a block that ends in panic(...) is not a normal exit
		if len(b.Nodes) > 0 {
			if es, ok := b.Nodes[len(b.Nodes)-1].(*ast.ExprStmt); ok {
				if call, ok := es.X.(*ast.CallExpr); ok {
					if id, ok := call.Fun.(*ast.Ident); ok && id.Name == "panic" {
						continue
					}
				}
			}
		}
		for k := range out {
			if !deferred[k] {
				leaked = append(leaked, k)
				if len(b.Nodes) > 0 {
					pos = b.Nodes[len(b.Nodes)-1].Pos()
				}
			}
		}
	}
	k := "balance@" + strings.TrimPrefix(key, rel+".")
	if len(leaked) == 0 {
		c.OK(rule, k, body.Pos(), "every lock taken is released on every path to an exit (or its unlock is deferred)")
		return 1
	}
	sort.Strings(leaked)
	if r := exempt[key]; r != "" {
		c.OK(rule, k, pos, "reviewed exception: %s", r)
		return 1
	}
	c.Viol(rule, k, pos, "an exit of this function may be reached with %s still locked (no deferred unlock): every later operation on the structure blocks forever — the caller hangs", strings.Join(uniqStr(leaked), ", "))
	return 1
}

func uniqStr(a []string) []string {
	var out []string
	for i, s := range a {
		if i == 0 || s != a[i-1] {
			out = append(out, s)
		}
	}
	return out
}
