package main

import (
	"go/ast"
	"go/token"
	"go/types"
)

func init() {
	extend("C14", func(c *Ctx) {
		c.Rule("R14f", "tables keep their headings: types.Table2Map (used by the json/yaml/xml marshallers for csv-like tables) uses the heading cell v[0][j] itself as the map key — no transformation (trim, case) that could alter a heading or merge two columns")
		if c.Pkg("lang/types") == nil {
			c.Load("lang/types")
		}
		if fd, pk := c.MustFunc("R14f", "lang/types", "", "Table2Map"); fd != nil {
			info := pk.TypesInfo
			n := 0
			ast.Inspect(fd.Body, func(nd ast.Node) bool {
				as, ok := nd.(*ast.AssignStmt)
				if !ok || len(as.Lhs) != 1 {
					return true
				}
				ix, ok := unparen(as.Lhs[0]).(*ast.IndexExpr)
				if !ok {
					return true
				}
				if t := info.TypeOf(ix.X); t == nil {
					return true
				} else if _, isMap := t.Underlying().(*types.Map); !isMap {
					return true
				}
				n++
				// key must be v[0][j]: IndexExpr(IndexExpr(param, 0), _)
				ok2 := false
				if k, isIx := unparen(ix.Index).(*ast.IndexExpr); isIx {
					// v[0][j], or headings[j] with the single definition headings := v[0]
					if row, isRow := localDefs(info, fd).resolve1(info, k.X).(*ast.IndexExpr); isRow {
						if id, isId := unparen(row.X).(*ast.Ident); isId && isParam(info, fd, id) {
							if z, isC := constInt(info, row.Index); isC && z == 0 {
								ok2 = true
							}
						}
					}
				}
				c.Check(ok2, "R14f", "Table2Map:key-verbatim", as.Pos(), "the record map is keyed by the heading cell v[0][j] itself (got %s)", c.src(ix.Index))
				return true
			})
			c.MinCount("R14f", "map stores in Table2Map", n, 1)
		}

		c.Rule("R14g", "no element is silently skipped when writing jsonl: the per-element loops of the jsonlines marshaller contain no `continue` — an element that cannot be marshalled aborts with an error instead of disappearing")
		if fd, _ := c.MustFunc("R14g", "builtins/types/jsonlines", "", "marshal"); fd != nil {
			nLoops, nCont := 0, 0
			var pos = fd.Pos()
			ast.Inspect(fd.Body, func(nd ast.Node) bool {
				switch x := nd.(type) {
				case *ast.ForStmt, *ast.RangeStmt:
					nLoops++
				case *ast.BranchStmt:
					if x.Tok == token.CONTINUE {
						nCont++
						pos = x.Pos()
					}
				}
				return true
			})
			c.Check(nCont == 0, "R14g", "jsonlines.marshal:no-skip", pos, "%d per-element loops, %d `continue` statements", nLoops, nCont)
			c.MinCount("R14g", "element loops in the jsonlines marshaller", nLoops, 2)
		}
	})
}
