package main

import (
	"go/ast"
	"go/token"
	"go/types"
)

// R01j — capture buffers are unbounded. A stream type that holds a Stdin BY VALUE
// as a field, writes to it synchronously from its own Write* methods and reads it
// in none of its Read*/WriteTo methods (Tee.secondary: the copy kept for tests,
// event hooks and `while`) has no reader while its writer runs: the reader comes
// afterwards. With any back-pressure limit the writer waits in Stdin.Write for a
// drain that cannot happen — the whole pipeline stops after `limit` bytes.
func init() {
	extend("C01", func(c *Ctx) {
		c.Rule("R01j", "capture buffers: for every struct of the streams package with a field F of type Stdin (by value) that its Write* methods write to and none of its reading methods touches, every store to <x>.F.max anywhere in the package is the constant 0 (unbounded) — a bounded capture buffer blocks the writer for ever because nothing reads it until the writer is done")
		pk := c.Pkg(streamsPkg)
		if pk == nil {
			c.Lost("R01j", "pkg", "streams package not loaded")
			return
		}
		info := pk.TypesInfo
		type capField struct {
			owner *types.Named
			field *types.Var
		}
		var caps []capField
		scope := pk.Types.Scope()
		for _, name := range scope.Names() {
			tn, ok := scope.Lookup(name).(*types.TypeName)
			if !ok {
				continue
			}
			named, ok := tn.Type().(*types.Named)
			if !ok {
				continue
			}
			st, ok := named.Underlying().(*types.Struct)
			if !ok {
				continue
			}
			for i := 0; i < st.NumFields(); i++ {
				f := st.Field(i)
				if !f.Embedded() && types.TypeString(f.Type(), nil) == stdinT {
					caps = append(caps, capField{named, f})
				}
			}
		}
		n := 0
		for _, cf := range caps {
			written, read := false, ""
			eachFunc(pk, func(fd *ast.FuncDecl) {
				if fd.Recv == nil || fd.Body == nil || recvName(fd) != cf.owner.Obj().Name() {
					return
				}
				uses := false
				ast.Inspect(fd.Body, func(nd ast.Node) bool {
					if se, ok := nd.(*ast.SelectorExpr); ok && info.ObjectOf(se.Sel) == types.Object(cf.field) {
						uses = true
					}
					return true
				})
				if !uses {
					return
				}
				nm := fd.Name.Name
				switch {
				case len(nm) >= 5 && nm[:5] == "Write" && nm != "WriteTo":
					written = true
				case (len(nm) >= 4 && nm[:4] == "Read") || nm == "WriteTo" || nm == "GetDataType":
					read = nm
				}
			})
			key := cf.owner.Obj().Name() + "." + cf.field.Name()
			if !written || read != "" {
				c.OK("R01j", key+":not-capture", cf.field.Pos(), "%s is not a write-only capture buffer (written by own Write*: %v, read by %q): the ordinary limit rules apply", key, written, read)
				continue
			}
			// every store to <..>.F.max
			stores, bad := 0, 0
			eachFunc(pk, func(fd *ast.FuncDecl) {
				if fd.Body == nil {
					return
				}
				defs := localDefs(info, fd.Body)
				// isCapture: <x>.F, or a pointer to it kept in a local defined once (q := &<x>.F; q.max = …)
				isCapture := func(e ast.Expr) bool {
					e = defs.resolve1(info, e)
					if u, ok := e.(*ast.UnaryExpr); ok && u.Op == token.AND {
						e = unparen(u.X)
					}
					inner, ok := e.(*ast.SelectorExpr)
					return ok && info.ObjectOf(inner.Sel) == types.Object(cf.field)
				}
				store := func(at ast.Node, rhs ast.Expr) {
					stores++
					n++
					if v, isC := constInt(info, rhs); rhs != nil && isC && v == 0 {
						c.OK("R01j", key+".max@"+fd.Name.Name, at.Pos(), "capture buffer %s is unbounded (max = 0)", key)
					} else {
						bad++
						c.Viol("R01j", key+".max@"+fd.Name.Name, at.Pos(), "%s gives the capture buffer %s a back-pressure limit (%s): %s.Write* write to it synchronously and nothing reads it until the writer has finished, so the first write past the limit waits for ever", fd.Name.Name, key, c.src(at), cf.owner.Obj().Name())
					}
				}
				ast.Inspect(fd.Body, func(nd ast.Node) bool {
					switch x := nd.(type) {
					case *ast.AssignStmt:
						for i, l := range x.Lhs {
							se, ok := unparen(l).(*ast.SelectorExpr)
							if !ok || se.Sel.Name != "max" || !isCapture(se.X) {
								continue
							}
							var rhs ast.Expr
							if len(x.Rhs) == len(x.Lhs) {
								rhs = x.Rhs[i]
							}
							store(x, rhs)
						}
					case *ast.KeyValueExpr:
						// Owner{F: Stdin{max: …}}
						k, ok := x.Key.(*ast.Ident)
						if !ok || info.ObjectOf(k) != types.Object(cf.field) {
							return true
						}
						if cl, ok := unparen(x.Value).(*ast.CompositeLit); ok {
							for _, el := range cl.Elts {
								if kv, ok := el.(*ast.KeyValueExpr); ok {
									if mk, ok := kv.Key.(*ast.Ident); ok && mk.Name == "max" {
										store(kv, kv.Value)
									}
								}
							}
						}
					}
					return true
				})
			})
			if stores == 0 {
				c.OK("R01j", key+".max:zero-value", cf.field.Pos(), "no store to %s.max: the zero value 0 means unbounded", key)
				n++
			}
		}
		c.MinCount("R01j", "capture-buffer limit obligations", n, 1)
	})
}
