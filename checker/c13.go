package main

import (
	"fmt"
	"go/ast"
	"go/token"
	"go/types"
	"strings"

	"golang.org/x/tools/go/packages"
)

func init() {
	register("C13", "Decides (structurally): (R13a) every strconv.FormatFloat in the scalar-conversion packages uses a parse-able format, precision -1 (shortest round-trip) and bit size 64; (R13b) every number<->string conversion site in lang/types, builtins/types/numeric, builtins/types/boolean (and every strconv.Parse* in lang/expressions) is a loss-free form (Itoa/FormatInt base 10/FloatToString/%v-class verbs without precision; ParseFloat 64; ParseInt base 10 size 0|64; no string(int), no float32 narrowing); (R13c) ConvertGoType dispatches int/float64/bool/string to a recast function whose identity arm returns the parameter unchanged, whose `str` arm is the loss-free formatter of that parameter (bool: polarity preserved, classified by IsTrueString's own list) and goStringRecast's int/float/num/bool arms parse that same string with 64 bits; (R13d) the numeric/boolean (un)marshallers convert to exactly the type they are registered under; (R13e) IsTrueString maps the canonical strings \"true\"/\"false\" to true/false with exit number 0. Does NOT decide the numeric round trip itself (that is strconv's contract) nor values ≥ 2^53.", runC13)
}

var c13Pkgs = []string{"lang/types", "builtins/types/numeric", "builtins/types/boolean"}

func runC13(c *Ctx) {
	c.Load("lang/expressions", "builtins/types/numeric", "builtins/types/boolean")
	c13ab(c)
	c13c(c)
	c13d(c)
	c13e(c)
}

func c13IsNumeric(t types.Type) (isFloat, isInt bool) {
	if t == nil {
		return
	}
	b, ok := t.Underlying().(*types.Basic)
	if !ok || b.Info()&types.IsUntyped != 0 {
		return
	}
	return b.Info()&types.IsFloat != 0, b.Info()&types.IsInteger != 0
}

// c13Verbs splits a constant format string into verbs: (verb rune, hasPrecision).
type c13Verb struct {
	v    rune
	prec bool
	star bool
}

func c13ParseFormat(f string) []c13Verb {
	var out []c13Verb
	rs := []rune(f)
	for i := 0; i < len(rs); i++ {
		if rs[i] != '%' {
			continue
		}
		i++
		var vb c13Verb
		for ; i < len(rs); i++ {
			r := rs[i]
			if strings.ContainsRune("+-# 0123456789[]", r) {
				continue
			}
			if r == '.' {
				vb.prec = true
				continue
			}
			if r == '*' {
				vb.star = true
				continue
			}
			break
		}
		if i >= len(rs) {
			break
		}
		if rs[i] == '%' {
			continue
		}
		vb.v = rs[i]
		out = append(out, vb)
	}
	return out
}

func c13ab(c *Ctx) {
	c.Rule("R13a", "every strconv.FormatFloat call in lang/types, builtins/types/numeric, builtins/types/boolean has fmt ∈ {e,E,f,g,G}, prec == -1 and bitSize == 64 (the shortest representation that strconv.ParseFloat(…,64) maps back to the same float64)")
	c.Rule("R13b", "every scalar<->string conversion site in those packages is loss-free: strconv.Itoa | FormatInt(_,10) | FloatToString | fmt.Sprint | Sprintf with %v/%g/%e (float, no precision) or %d/%v (int); ParseFloat bitSize 64; ParseInt/ParseUint base 10 (or 0) and bitSize 0|64; no string(<integer>) conversion; no float32 narrowing of a float64. strconv.Parse* in lang/expressions (number literals) obey the same sizes")
	nFF, nConv := 0, 0
	scan := func(rel string, onlyParse bool) {
		pk := c.Pkg(rel)
		if pk == nil {
			c.Lost("R13b", "pkg:"+rel, "package %s not loaded", rel)
			return
		}
		info := pk.TypesInfo
		eachFunc(pk, func(fd *ast.FuncDecl) {
			cnt := map[string]int{}
			fk := funcKey(rel, fd)
			k := func(what string) string {
				cnt[what]++
				return fk + ":" + what + "#" + itoa(cnt[what])
			}
			ast.Inspect(fd.Body, func(n ast.Node) bool {
				call, ok := n.(*ast.CallExpr)
				if !ok {
					return true
				}
				// conversions
				if tv, ok := info.Types[call.Fun]; ok && tv.IsType() && len(call.Args) == 1 && !onlyParse {
					dst, _ := tv.Type.Underlying().(*types.Basic)
					isF, isI := c13IsNumeric(info.TypeOf(call.Args[0]))
					if dst != nil && dst.Kind() == types.String && isI {
						nConv++
						c.Viol("R13b", k("string(int)"), call.Pos(), "%s converts an integer to the UTF-8 encoding of that code point, not to its decimal digits: the integer does not survive the trip through its string form", c.src(call))
					}
					if dst != nil && dst.Kind() == types.Float32 && (isF || isI) {
						nConv++
						c.Viol("R13b", k("float32"), call.Pos(), "%s narrows a number to float32 (24-bit mantissa): floats needing more than 7 significant digits and integers above 2^24 do not survive", c.src(call))
					}
					return true
				}
				o := callee(info, call)
				if o == nil || o.Pkg() == nil {
					return true
				}
				switch o.Pkg().Path() + "." + o.Name() {
				case "strconv.FormatFloat":
					if onlyParse || len(call.Args) != 4 {
						return true
					}
					nFF++
					key := k("FormatFloat")
					f, ok1 := constInt(info, call.Args[1])
					p, ok2 := constInt(info, call.Args[2])
					b, ok3 := constInt(info, call.Args[3])
					switch {
					case !ok1 || !ok2 || !ok3:
						c.Undecided("R13a", key, call.Pos(), "FormatFloat with non-constant format/precision/bitSize: %s", c.src(call))
					case !strings.ContainsRune("eEfgG", rune(f)):
						c.Viol("R13a", key, call.Pos(), "FormatFloat format %q is not one strconv.ParseFloat reads back to the same value as a decimal number (%s)", rune(f), c.src(call))
					case p != -1:
						c.Viol("R13a", key, call.Pos(), "FormatFloat precision %d (must be -1 = shortest round-trip): floats needing more digits (0.1+0.2, 5e-324, 1/3) change value when converted to their string form and back (%s)", p, c.src(call))
					case b != 64:
						c.Viol("R13a", key, call.Pos(), "FormatFloat bitSize %d (must be 64): the value is rounded to float32 precision before formatting (%s)", b, c.src(call))
					default:
						c.OK("R13a", key, call.Pos(), "%s", c.src(call))
					}
				case "strconv.ParseFloat":
					if len(call.Args) != 2 {
						return true
					}
					nConv++
					b, ok := constInt(info, call.Args[1])
					if !ok {
						c.Undecided("R13b", k("ParseFloat"), call.Pos(), "non-constant bitSize")
					} else {
						c.Check(b == 64, "R13b", k("ParseFloat"), call.Pos(), "strconv.ParseFloat bitSize is %d; with anything but 64 the parsed value is rounded to float32 (integers above 2^24 and most floats change): %s", b, c.src(call))
					}
				case "strconv.ParseInt", "strconv.ParseUint":
					if len(call.Args) != 3 {
						return true
					}
					nConv++
					base, ok1 := constInt(info, call.Args[1])
					b, ok2 := constInt(info, call.Args[2])
					if !ok1 || !ok2 {
						c.Undecided("R13b", k(o.Name()), call.Pos(), "non-constant base/bitSize")
					} else {
						c.Check((base == 10 || base == 0) && (b == 0 || b == 64), "R13b", k(o.Name()), call.Pos(), "strconv.%s base %d bitSize %d: must be base 10 and 64 bits (integers up to ±2^53 must parse back): %s", o.Name(), base, b, c.src(call))
					}
				case "strconv.Atoi", "strconv.Itoa":
					if onlyParse && o.Name() == "Itoa" {
						return true
					}
					nConv++
					c.OK("R13b", k(o.Name()), call.Pos(), "%s", c.src(call))
				case "strconv.FormatInt", "strconv.FormatUint":
					if onlyParse || len(call.Args) != 2 {
						return true
					}
					nConv++
					base, ok := constInt(info, call.Args[1])
					if !ok {
						c.Undecided("R13b", k(o.Name()), call.Pos(), "non-constant base")
					} else {
						c.Check(base == 10, "R13b", k(o.Name()), call.Pos(), "strconv.%s base %d: the string form of an integer must be decimal to parse back: %s", o.Name(), base, c.src(call))
					}
				case "fmt.Sprint", "fmt.Sprintln":
					if onlyParse {
						return true
					}
					for _, a := range call.Args {
						if isF, isI := c13IsNumeric(info.TypeOf(a)); isF || isI {
							nConv++
							c.OK("R13b", k(o.Name()), call.Pos(), "%%v of a number is loss-free: %s", c.src(call))
						}
					}
				case "fmt.Sprintf", "fmt.Fprintf", "fmt.Errorf":
					if onlyParse || o.Name() != "Sprintf" || len(call.Args) < 1 {
						return true
					}
					anyNum := false
					for _, a := range call.Args[1:] {
						if isF, isI := c13IsNumeric(info.TypeOf(a)); isF || isI {
							anyNum = true
						}
					}
					if !anyNum {
						return true
					}
					nConv++
					f, ok := constString(info, call.Args[0])
					if !ok {
						c.Undecided("R13b", k("Sprintf"), call.Pos(), "number formatted with a non-constant format string: %s", c.src(call))
						return true
					}
					verbs := c13ParseFormat(f)
					bad := ""
					for i, a := range call.Args[1:] {
						isF, isI := c13IsNumeric(info.TypeOf(a))
						if !isF && !isI {
							continue
						}
						if i >= len(verbs) || verbs[i].star {
							bad = "cannot match verbs to arguments"
							break
						}
						vb := verbs[i]
						if isF && (vb.prec || !strings.ContainsRune("vgGeE", vb.v)) {
							bad = "float formatted with %" + map[bool]string{true: ".N", false: ""}[vb.prec] + string(vb.v) + " (fixed number of digits)"
						}
						if isI && !strings.ContainsRune("dv", vb.v) {
							bad = "integer formatted with %" + string(vb.v) + " (not decimal)"
						}
					}
					if bad != "" {
						c.Viol("R13b", k("Sprintf"), call.Pos(), "%s: %s — the number does not survive conversion to its string form and back", c.src(call), bad)
					} else {
						c.OK("R13b", k("Sprintf"), call.Pos(), "loss-free verbs: %s", c.src(call))
					}
				}
				return true
			})
		})
	}
	for _, rel := range c13Pkgs {
		scan(rel, false)
	}
	scan("lang/expressions", true)
	scan("lang/expressions/primitives", true)
	c.MinCount("R13a", "strconv.FormatFloat calls", nFF, 1)
	c.MinCount("R13b", "number<->string conversion sites", nConv, 6)
}

// ---------------------------------------------------------------- R13c

// c13TagSwitch returns, for a function whose body switches on its string
// parameter `tagParam`, a map constant-value -> case clause (and the default).
func c13TagSwitch(info *types.Info, fd *ast.FuncDecl, tagParam types.Object) (map[string]*ast.CaseClause, *ast.SwitchStmt) {
	var sw *ast.SwitchStmt
	for _, s := range fd.Body.List {
		if x, ok := s.(*ast.SwitchStmt); ok && x.Tag != nil {
			if id, ok := unparen(x.Tag).(*ast.Ident); ok && info.ObjectOf(id) == tagParam {
				sw = x
			}
		}
	}
	if sw == nil {
		return nil, nil
	}
	m := map[string]*ast.CaseClause{}
	for _, s := range sw.Body.List {
		cc := s.(*ast.CaseClause)
		for _, e := range cc.List {
			if v, ok := constString(info, e); ok {
				m[v] = cc
			}
		}
	}
	return m, sw
}

func c13Returns(n ast.Node) []*ast.ReturnStmt {
	var out []*ast.ReturnStmt
	ast.Inspect(n, func(x ast.Node) bool {
		if _, ok := x.(*ast.FuncLit); ok {
			return false
		}
		if r, ok := x.(*ast.ReturnStmt); ok {
			out = append(out, r)
		}
		return true
	})
	return out
}

// c13ConstStringOf evaluates e to a constant string where e is a constant, or
// string(X)/[]byte(X) conversions of one, or a package-level var initialised so.
func c13ConstStringOf(c *Ctx, pk *packages.Package, e ast.Expr, depth int) (string, bool) {
	info := pk.TypesInfo
	e = unparen(e)
	if s, ok := constString(info, e); ok {
		return s, true
	}
	if depth > 4 {
		return "", false
	}
	if call, ok := e.(*ast.CallExpr); ok && len(call.Args) == 1 {
		if tv, ok := info.Types[call.Fun]; ok && tv.IsType() {
			return c13ConstStringOf(c, pk, call.Args[0], depth+1)
		}
	}
	var id *ast.Ident
	switch x := e.(type) {
	case *ast.Ident:
		id = x
	case *ast.SelectorExpr:
		id = x.Sel
	}
	if id == nil {
		return "", false
	}
	v, ok := info.ObjectOf(id).(*types.Var)
	if !ok || v.Pkg() == nil || v.Parent() != v.Pkg().Scope() {
		return "", false
	}
	dp := c.All[v.Pkg().Path()]
	if dp == nil {
		return "", false
	}
	// the variable must have exactly one initialiser and never be assigned
	var init ast.Expr
	assigned := false
	for _, f := range dp.Syntax {
		ast.Inspect(f, func(n ast.Node) bool {
			switch s := n.(type) {
			case *ast.ValueSpec:
				for i, nm := range s.Names {
					if dp.TypesInfo.Defs[nm] == v && len(s.Values) == len(s.Names) {
						init = s.Values[i]
					}
				}
			case *ast.AssignStmt:
				for _, l := range s.Lhs {
					if lid, ok := l.(*ast.Ident); ok && dp.TypesInfo.ObjectOf(lid) == v {
						assigned = true
					}
				}
			}
			return true
		})
	}
	if init == nil || assigned {
		return "", false
	}
	return c13ConstStringOf(c, dp, init, depth+1)
}

func c13c(c *Ctx) {
	c.Rule("R13c", "types.ConvertGoType sends int/float64/bool/string (and []byte/[]rune as string) to a recast function with the value and the requested type; per recast function: the identity arm (int→int, float64→float|num, bool→bool) returns the parameter itself; the `str` arm returns the loss-free decimal/shortest form of the parameter (bool: \"true\" under v, \"false\" otherwise, as classified by IsTrueString); goStringRecast's int arm parses the parameter (ParseFloat 64 / Atoi / ParseInt) and returns int(<parsed>), its float and num arms return the ParseFloat(…,64) result unconverted, its bool arm returns IsTrue/IsTrueString(<parameter>, 0)")
	fd, pk := c.MustFunc("R13c", "lang/types", "", "ConvertGoType")
	if fd == nil {
		return
	}
	info := pk.TypesInfo
	var ps []types.Object
	for _, f := range fd.Type.Params.List {
		for _, n := range f.Names {
			ps = append(ps, info.Defs[n])
		}
	}
	if len(ps) != 2 {
		c.Undecided("R13c", "ConvertGoType:signature", fd.Pos(), "signature changed")
		return
	}
	var ts *ast.TypeSwitchStmt
	for _, s := range fd.Body.List {
		if x, ok := s.(*ast.TypeSwitchStmt); ok {
			ts = x
		}
	}
	if ts == nil {
		c.Undecided("R13c", "ConvertGoType:dispatch", fd.Pos(), "ConvertGoType is no longer a type switch on its value")
		return
	}
	recast := map[string]*types.Func{} // Go type name -> recast function
	for _, s := range ts.Body.List {
		cc := s.(*ast.CaseClause)
		if len(cc.List) != 1 {
			continue
		}
		t := info.TypeOf(cc.List[0])
		if t == nil {
			continue
		}
		tn := types.TypeString(t, nil)
		if tn != "int" && tn != "float64" && tn != "bool" && tn != "string" && tn != "[]byte" && tn != "[]uint8" && tn != "[]rune" && tn != "[]int32" {
			continue
		}
		key := "ConvertGoType:case " + tn
		bound := info.Implicits[cc]
		okShape := false
		// the arm is `return f(<matched value>, dataType)`, possibly after local definitions that only
		// convert the matched value (`s := string(t)`)
		cdefs := localDefs(info, cc)
		pureDefs := len(cc.Body) >= 1
		for _, st := range cc.Body[:max(len(cc.Body)-1, 0)] {
			as, ok := st.(*ast.AssignStmt)
			if !ok || as.Tok != token.DEFINE {
				pureDefs = false
				continue
			}
			for _, cl := range calls(as, true) {
				if tv, ok := info.Types[cl.Fun]; !ok || !tv.IsType() {
					pureDefs = false
				}
			}
		}
		if pureDefs {
			if rs, ok := cc.Body[len(cc.Body)-1].(*ast.ReturnStmt); ok && len(rs.Results) == 1 {
				if call, ok := unparen(rs.Results[0]).(*ast.CallExpr); ok && len(call.Args) == 2 {
					f, _ := callee(info, call).(*types.Func)
					a0 := stripConv(info, cdefs.resolve1(info, stripConv(info, call.Args[0])))
					id0, _ := a0.(*ast.Ident)
					id1, _ := unparen(call.Args[1]).(*ast.Ident)
					if f != nil && id0 != nil && id1 != nil && info.ObjectOf(id0) == bound && info.ObjectOf(id1) == ps[1] {
						sig := f.Type().(*types.Signature)
						if sig.Params().Len() == 2 {
							pt := types.TypeString(sig.Params().At(0).Type(), nil)
							want := tn
							if strings.HasPrefix(tn, "[]") {
								want = "string"
							}
							if pt == want {
								okShape = true
								if !strings.HasPrefix(tn, "[]") {
									recast[tn] = f
								}
								if strings.HasPrefix(tn, "[]") && recast["string"] != nil && recast["string"] != f {
									okShape = false
								}
							}
						}
					}
				}
			}
		}
		if okShape {
			c.OK("R13c", key, cc.Pos(), "dispatched with the matched value and the requested type")
		} else {
			c.Undecided("R13c", key, cc.Pos(), "ConvertGoType `case %s` is not `return f(<the matched value>, dataType)` with f taking that Go type: the recast table cannot be followed (a scalar of this type may be converted by the wrong routine)", tn)
		}
	}
	for _, tn := range []string{"int", "float64", "bool", "string"} {
		f := recast[tn]
		if f == nil {
			c.Lost("R13c", "recast:"+tn, "no recast function found for Go type %s in ConvertGoType", tn)
			continue
		}
		var rfd *ast.FuncDecl
		eachFunc(pk, func(d *ast.FuncDecl) {
			if info.Defs[d.Name] == f {
				rfd = d
			}
		})
		if rfd == nil {
			c.Lost("R13c", "recast:"+tn, "declaration of %s not found", f.Name())
			continue
		}
		c.nfuncs++
		var rp []types.Object
		for _, fl := range rfd.Type.Params.List {
			for _, n := range fl.Names {
				rp = append(rp, info.Defs[n])
			}
		}
		arms, sw := c13TagSwitch(info, rfd, rp[1])
		if sw == nil {
			c.Undecided("R13c", "recast:"+tn+":switch", rfd.Pos(), "%s is not a switch on its data-type parameter", f.Name())
			continue
		}
		isV := func(e ast.Expr) bool {
			id, ok := unparen(e).(*ast.Ident)
			return ok && info.ObjectOf(id) == rp[0]
		}
		// a returned single-definition local (`s := strconv.Itoa(v); return s, nil`) stands for its definition
		rdefs := localDefs(info, rfd.Body)
		res0 := func(e ast.Expr) ast.Expr { return rdefs.resolve1(info, e) }
		// v may be re-assigned only to a trimmed/defaulted form of itself (goStringRecast)
		identityArm := func(mt string) {
			key := f.Name() + ":" + mt + ":identity"
			cc := arms[mt]
			if cc == nil {
				c.Viol("R13c", key, sw.Pos(), "%s has no `case %s` arm: a %s value asked for as murex type %q falls into the default arm and comes back as a string", f.Name(), mt, tn, mt)
				return
			}
			rets := c13Returns(cc)
			ok := len(rets) > 0
			for _, r := range rets {
				if len(r.Results) != 2 || !isV(r.Results[0]) {
					ok = false
				}
			}
			c.Check(ok, "R13c", key, cc.Pos(), "%s `case %s` must return its %s parameter unchanged (a value already of the requested type must not be altered)", f.Name(), mt, tn)
		}
		switch tn {
		case "int":
			identityArm("int")
			key := f.Name() + ":str"
			cc := arms["str"]
			ok := false
			if cc != nil {
				rets := c13Returns(cc)
				ok = len(rets) > 0
				for _, r := range rets {
					good := false
					if len(r.Results) == 2 {
						if call, isC := res0(r.Results[0]).(*ast.CallExpr); isC {
							o := callee(info, call)
							if o != nil && o.Pkg() != nil && o.Pkg().Path() == "strconv" && (o.Name() == "Itoa" || o.Name() == "FormatInt") && len(call.Args) >= 1 && isV(stripConv(info, call.Args[0])) {
								good = true
							}
						}
					}
					if !good {
						ok = false
					}
				}
			}
			c.Check(ok, "R13c", key, sw.Pos(), "%s `case str` must return strconv.Itoa/FormatInt of its parameter (the decimal digits that goStringRecast parses back)", f.Name())
		case "float64":
			identityArm("float")
			identityArm("num")
			key := f.Name() + ":str"
			cc := arms["str"]
			ok := false
			if cc != nil {
				rets := c13Returns(cc)
				ok = len(rets) > 0
				for _, r := range rets {
					good := false
					if len(r.Results) == 2 {
						if call, isC := res0(r.Results[0]).(*ast.CallExpr); isC && len(call.Args) >= 1 && isV(call.Args[0]) {
							if callIs(info, call, mx("lang/types"), "", "FloatToString") {
								good = true
							}
							if o := callee(info, call); o != nil && o.Pkg() != nil && o.Pkg().Path() == "strconv" && o.Name() == "FormatFloat" {
								good = true
							}
						}
					}
					if !good {
						ok = false
					}
				}
			}
			c.Check(ok, "R13c", key, sw.Pos(), "%s `case str` must return FloatToString (shortest round-trip form) of its parameter", f.Name())
		case "bool":
			identityArm("bool")
			key := f.Name() + ":str"
			cc := arms["str"]
			if cc == nil {
				c.Viol("R13c", key, sw.Pos(), "%s has no `case str` arm", f.Name())
				break
			}
			falsy, _ := c13FalsyList(c)
			rets := c13Returns(cc)
			okAll := len(rets) >= 2 && falsy != nil
			why := ""
			for _, r := range rets {
				if len(r.Results) != 2 {
					okAll = false
					continue
				}
				s, ok := c13ConstStringOf(c, pk, r.Results[0], 0)
				if !ok {
					okAll, why = false, "returned string "+c.src(r.Results[0])+" is not a resolvable constant"
					continue
				}
				truth, known := false, false
				for _, fct := range factsOf(guardsAt(info, pathTo(rfd.Body, r))) {
					if isV(fct.E) {
						truth, known = fct.True, true
					}
				}
				if !known {
					okAll, why = false, "a return is not under a test of the parameter"
					continue
				}
				isFalsy := falsy[strings.ToLower(strings.TrimSpace(s))]
				if truth == isFalsy {
					okAll = false
					why = "returns \"" + s + "\" when the parameter is " + map[bool]string{true: "true", false: "false"}[truth] + ", which IsTrueString reads back as " + map[bool]string{true: "false", false: "true"}[isFalsy]
				}
			}
			if okAll {
				c.OK("R13c", key, cc.Pos(), "true→truthy string, false→falsy string")
			} else {
				c.Viol("R13c", key, cc.Pos(), "%s `case str`: %s — a boolean does not survive conversion to its string form and back", f.Name(), why)
			}
		case "string":
			// parse arms
			parseArm := func(mt string, wantInt bool) {
				key := f.Name() + ":" + mt
				cc := arms[mt]
				if cc == nil {
					c.Viol("R13c", key, sw.Pos(), "%s has no `case %s` arm: the string form of a %s is not parsed back", f.Name(), mt, mt)
					return
				}
				var parsed types.Object
				var pcall *ast.CallExpr
				ast.Inspect(cc, func(n ast.Node) bool {
					// `f, err := strconv.ParseFloat(…)`, `f, err = …` or `var f, err = …`
					var lhs0, rhs ast.Expr
					switch as := n.(type) {
					case *ast.AssignStmt:
						if len(as.Rhs) == 1 && len(as.Lhs) == 2 {
							lhs0, rhs = as.Lhs[0], as.Rhs[0]
						}
					case *ast.ValueSpec:
						if len(as.Values) == 1 && len(as.Names) == 2 {
							lhs0, rhs = as.Names[0], as.Values[0]
						}
					}
					if rhs == nil {
						return true
					}
					call, ok := unparen(rhs).(*ast.CallExpr)
					if !ok {
						return true
					}
					o := callee(info, call)
					if o == nil || o.Pkg() == nil || o.Pkg().Path() != "strconv" {
						return true
					}
					switch o.Name() {
					case "ParseFloat", "ParseInt", "Atoi":
						if len(call.Args) >= 1 && isV(call.Args[0]) {
							if id, ok := lhs0.(*ast.Ident); ok {
								parsed, pcall = info.ObjectOf(id), call
							}
						}
					}
					return true
				})
				if parsed == nil {
					c.Viol("R13c", key, cc.Pos(), "%s `case %s` does not parse its string parameter with strconv.ParseFloat/ParseInt/Atoi", f.Name(), mt)
					return
				}
				// the success return: last statement of the arm
				last, _ := cc.Body[len(cc.Body)-1].(*ast.ReturnStmt)
				if last == nil || len(last.Results) != 2 {
					c.Undecided("R13c", key, cc.Pos(), "arm does not end in `return value, nil`")
					return
				}
				r0 := res0(last.Results[0])
				inner := stripConv(info, r0)
				id, _ := inner.(*ast.Ident)
				rt := info.TypeOf(r0)
				var good bool
				if wantInt {
					b, _ := rt.Underlying().(*types.Basic)
					good = id != nil && info.ObjectOf(id) == parsed && b != nil && (b.Kind() == types.Int || b.Kind() == types.Int64)
				} else {
					good = id != nil && info.ObjectOf(id) == parsed && r0 == inner && callee(info, pcall).Name() == "ParseFloat"
				}
				c.Check(good, "R13c", key, last.Pos(), "%s `case %s` must return the value parsed from its parameter (%s) %s; it returns %s", f.Name(), mt, c.src(pcall), map[bool]string{true: "as int", false: "unconverted (float64)"}[wantInt], c.src(r0))
				// the parameter may only be re-assigned to a trimmed form or the literal "0"
				ast.Inspect(cc, func(n ast.Node) bool {
					as, ok := n.(*ast.AssignStmt)
					if !ok {
						return true
					}
					for i, l := range as.Lhs {
						if !isV(l) || len(as.Rhs) != len(as.Lhs) {
							continue
						}
						r := unparen(as.Rhs[i])
						okR := false
						if s, ok := constString(info, r); ok && s == "0" {
							// only for the empty string
							for _, fct := range factsOf(guardsAt(info, pathTo(rfd.Body, as))) {
								// v == "" | "" == v | len(v) == 0 (or any spelling that is true exactly for length 0)
								if b, ok := unparen(fct.E).(*ast.BinaryExpr); ok && (b.Op == token.EQL) == fct.True && (b.Op == token.EQL || b.Op == token.NEQ) {
									for _, pr := range [][2]ast.Expr{{b.X, b.Y}, {b.Y, b.X}} {
										if s2, ok := constString(info, pr[1]); ok && s2 == "" && isV(pr[0]) {
											okR = true
										}
									}
								}
								if x, op, k, ok := cmpNorm(info, fct.E); ok {
									if lc, ok := isBuiltinCall(info, x, "len"); ok && len(lc.Args) == 1 && isV(lc.Args[0]) {
										p := intPred(op, k)
										truth := fct.True
										if samePredOnRange(func(v int64) bool { return p(v) == truth }, func(v int64) bool { return v == 0 }, 0, 4) {
											okR = true
										}
									}
								}
							}
						}
						if call, ok := r.(*ast.CallExpr); ok && len(call.Args) == 1 && isV(call.Args[0]) {
							if o := callee(info, call); o != nil && o.Pkg() != nil && o.Pkg().Path() == "strings" && o.Name() == "TrimSpace" {
								okR = true
							}
						}
						if !okR {
							c.Viol("R13c", key+":rewrite", as.Pos(), "%s `case %s` rewrites the string before parsing it (%s): only TrimSpace and \"\"→\"0\" keep the digits intact", f.Name(), mt, c.src(as))
						}
					}
					return true
				})
			}
			parseArm("int", true)
			parseArm("float", false)
			parseArm("num", false)
			key := f.Name() + ":bool"
			cc := arms["bool"]
			ok := false
			if cc != nil {
				rets := c13Returns(cc)
				ok = len(rets) > 0
				for _, r := range rets {
					good := false
					if len(r.Results) == 2 {
						if call, isC := res0(r.Results[0]).(*ast.CallExpr); isC && len(call.Args) == 2 {
							if callIs(info, call, mx("lang/types"), "", "IsTrue") || callIs(info, call, mx("lang/types"), "", "IsTrueString") {
								a0 := stripConv(info, call.Args[0])
								if z, isK := constInt(info, call.Args[1]); isK && z == 0 && isV(a0) {
									good = true
								}
							}
						}
					}
					if !good {
						ok = false
					}
				}
			}
			c.Check(ok, "R13c", key, sw.Pos(), "%s `case bool` must return IsTrue/IsTrueString(<its parameter>, 0): any other exit number short-circuits the string test", f.Name())
		}
	}
}

// ---------------------------------------------------------------- R13d

func c13d(c *Ctx) {
	c.Rule("R13d", "each lang.RegisterMarshaller/RegisterUnmarshaller(K, f) in builtins/types/numeric and builtins/types/boolean registers an f that converts with types.ConvertGoType(_, K) for that same constant K (marshal: then to `str`); unmarshal converts what it read from p.Stdin")
	n := 0
	for _, rel := range []string{"builtins/types/numeric", "builtins/types/boolean"} {
		pk := c.Pkg(rel)
		if pk == nil {
			c.Lost("R13d", "pkg:"+rel, "not loaded")
			continue
		}
		info := pk.TypesInfo
		decl := func(o types.Object) *ast.FuncDecl {
			var r *ast.FuncDecl
			eachFunc(pk, func(d *ast.FuncDecl) {
				if info.Defs[d.Name] == o {
					r = d
				}
			})
			return r
		}
		// convTargets: the set of constant murex types fd converts to with
		// ConvertGoType, following one level of helper calls that forward a
		// constant as the helper's string parameter.
		var convTargets func(fd *ast.FuncDecl, bind map[types.Object]string, depth int) []string
		convTargets = func(fd *ast.FuncDecl, bind map[types.Object]string, depth int) []string {
			var out []string
			for _, call := range calls(fd.Body, false) {
				if callIs(info, call, mx("lang/types"), "", "ConvertGoType") && len(call.Args) == 2 {
					if s, ok := constString(info, call.Args[1]); ok {
						out = append(out, s)
					} else if id, ok := unparen(call.Args[1]).(*ast.Ident); ok {
						if s, ok := bind[info.ObjectOf(id)]; ok {
							out = append(out, s)
						} else {
							out = append(out, "?")
						}
					}
					continue
				}
				if depth < 2 {
					if o, ok := callee(info, call).(*types.Func); ok && o.Pkg() == pk.Types {
						if d := decl(o); d != nil {
							b2 := map[types.Object]string{}
							i := 0
							for _, fl := range d.Type.Params.List {
								for _, nm := range fl.Names {
									if i < len(call.Args) {
										if s, ok := constString(info, call.Args[i]); ok {
											b2[info.Defs[nm]] = s
										}
									}
									i++
								}
							}
							out = append(out, convTargets(d, b2, depth+1)...)
						}
					}
				}
			}
			return out
		}
		eachFunc(pk, func(fd *ast.FuncDecl) {
			if fd.Name.Name != "init" || fd.Recv != nil {
				return
			}
			for _, call := range calls(fd.Body, false) {
				isM := callIs(info, call, mx("lang"), "", "RegisterMarshaller")
				isU := callIs(info, call, mx("lang"), "", "RegisterUnmarshaller")
				if (!isM && !isU) || len(call.Args) != 2 {
					continue
				}
				n++
				k, ok := constString(info, call.Args[0])
				kind := map[bool]string{true: "marshal", false: "unmarshal"}[isM]
				key := relPkg(pk.PkgPath) + ":" + kind + ":" + k
				id, _ := unparen(call.Args[1]).(*ast.Ident)
				if !ok || id == nil {
					c.Undecided("R13d", key, call.Pos(), "registration with non-constant name or non-identifier function")
					continue
				}
				d := decl(info.ObjectOf(id))
				if d == nil {
					c.Undecided("R13d", key, call.Pos(), "function %s not declared in this package", id.Name)
					continue
				}
				ts := convTargets(d, map[types.Object]string{}, 0)
				hasK, hasOther := false, ""
				for _, t := range ts {
					if t == k {
						hasK = true
					} else if !(isM && t == "str") {
						hasOther = t
					}
				}
				switch {
				case !hasK:
					c.Viol("R13d", key, call.Pos(), "%s registered as the %ser of murex type %q never converts to %q (targets: %v): `set %s x=…` stores/prints a value of another type", id.Name, kind, k, k, ts, k)
				case hasOther != "":
					c.Viol("R13d", key, call.Pos(), "%s registered as the %ser of %q also converts to %q: the value is forced through another scalar type", id.Name, kind, k, hasOther)
				case isM && !c13Has(ts, "str"):
					c.Viol("R13d", key, call.Pos(), "%s (marshaller of %q) does not produce the string form through ConvertGoType(_, str)", id.Name, k)
				default:
					c.OK("R13d", key, call.Pos(), "%s converts to %v", id.Name, ts)
				}
			}
		})
	}
	c.MinCount("R13d", "numeric/boolean (un)marshaller registrations", n, 8)
}

func c13Has(a []string, s string) bool {
	for _, x := range a {
		if x == s {
			return true
		}
	}
	return false
}

// ---------------------------------------------------------------- R13e

// c13FalsyList extracts from IsTrueString the set of (normalised) strings that
// are read as false when exitNum == 0, and the position of the function.
func c13FalsyList(c *Ctx) (map[string]bool, token.Pos) {
	fd, pk := c.FuncDecl("lang/types", "", "IsTrueString")
	if fd == nil {
		return nil, token.NoPos
	}
	info := pk.TypesInfo
	out := map[string]bool{}
	ast.Inspect(fd.Body, func(n ast.Node) bool {
		// `switch s { case "", "null", …: return false }` is the same list as `if s == "" || s == "null" … { return false }`
		if sw, ok := n.(*ast.SwitchStmt); ok && sw.Tag != nil {
			if _, isId := unparen(sw.Tag).(*ast.Ident); isId {
				for _, st := range sw.Body.List {
					cc := st.(*ast.CaseClause)
					if len(cc.Body) != 1 {
						continue
					}
					rs, ok := cc.Body[0].(*ast.ReturnStmt)
					if !ok || len(rs.Results) != 1 {
						continue
					}
					if b, ok := constBool(info, rs.Results[0]); !ok || b {
						continue
					}
					for _, x := range cc.List {
						if s, ok := constString(info, x); ok {
							out[s] = true
						}
					}
				}
			}
			return true
		}
		is, ok := n.(*ast.IfStmt)
		if !ok || len(is.Body.List) != 1 {
			return true
		}
		rs, ok := is.Body.List[0].(*ast.ReturnStmt)
		if !ok || len(rs.Results) != 1 {
			return true
		}
		if b, ok := constBool(info, rs.Results[0]); !ok || b {
			return true
		}
		for _, d := range disjuncts(is.Cond) {
			if be, ok := unparen(d).(*ast.BinaryExpr); ok && be.Op == token.EQL {
				if s, ok := constString(info, be.Y); ok {
					out[s] = true
				} else if s, ok := constString(info, be.X); ok {
					out[s] = true
				}
			}
		}
		return true
	})
	return out, fd.Pos()
}

func c13e(c *Ctx) {
	c.Rule("R13e", "types.IsTrueString with exit number 0 reads the canonical string of false (types.FalseString) as false and that of true (types.TrueString) as true: FalseString is in its falsy list, TrueString is not; every listed constant is a fixed point of the normalisation applied to the input (strings.ToLower/TrimSpace), and the exit-number arms are `>0 → false`, `<0 → true`")
	fd, pk := c.MustFunc("R13e", "lang/types", "", "IsTrueString")
	if fd == nil {
		return
	}
	info := pk.TypesInfo
	falsy, _ := c13FalsyList(c)
	tObj := pk.Types.Scope().Lookup("TrueString")
	fObj := pk.Types.Scope().Lookup("FalseString")
	tc, ok1 := tObj.(*types.Const)
	fc, ok2 := fObj.(*types.Const)
	if !ok1 || !ok2 {
		c.Lost("R13e", "consts", "types.TrueString/FalseString constants not found")
		return
	}
	ts := strings.Trim(tc.Val().ExactString(), `"`)
	fs := strings.Trim(fc.Val().ExactString(), `"`)
	c.Check(falsy[fs], "R13e", "IsTrueString:false", fd.Pos(), "the string form of boolean false (%q) must be in IsTrueString's falsy list %v, else false → %q → true", fs, c13Keys(falsy), fs)
	c.Check(!falsy[ts], "R13e", "IsTrueString:true", fd.Pos(), "the string form of boolean true (%q) must not be in IsTrueString's falsy list, else true → %q → false", ts, ts)
	// normalisation: the compared variable is defined as a composition of
	// strings.ToLower / strings.TrimSpace over the parameter
	var normFns []string
	defs := localDefs(info, fd.Body)
	var cmpVar *ast.Ident
	ast.Inspect(fd.Body, func(n ast.Node) bool {
		if cmpVar != nil {
			return false
		}
		switch v := n.(type) {
		case *ast.BinaryExpr:
			if v.Op == token.EQL {
				for _, pr := range [][2]ast.Expr{{v.X, v.Y}, {v.Y, v.X}} {
					if _, ok := constString(info, pr[1]); ok {
						if id, ok := unparen(pr[0]).(*ast.Ident); ok && cmpVar == nil {
							cmpVar = id
						}
					}
				}
			}
		case *ast.SwitchStmt:
			if v.Tag != nil {
				if id, ok := unparen(v.Tag).(*ast.Ident); ok {
					if _, isStr := info.TypeOf(id).Underlying().(*types.Basic); isStr && info.TypeOf(id).Underlying().(*types.Basic).Kind() == types.String {
						cmpVar = id
					}
				}
			}
		}
		return true
	})
	okNorm := cmpVar != nil
	if cmpVar != nil {
		// the compared local is defined by strings.F(strings.G(param)); further definitions may only
		// re-normalise the local itself (`s := strings.TrimSpace(stdout); s = strings.ToLower(s)`)
		obj := info.ObjectOf(cmpVar)
		ds := defs[obj]
		if isParam(info, fd, cmpVar) {
			ds = nil // the parameter itself is compared: no normalisation
		} else if len(ds) == 0 {
			okNorm = false
		}
		for di, d := range ds {
			if d == nil {
				okNorm = false
				break
			}
			e := unparen(d)
			var fns []string
			for {
				call, ok := e.(*ast.CallExpr)
				if !ok {
					break
				}
				o := callee(info, call)
				if o == nil || o.Pkg() == nil || o.Pkg().Path() != "strings" || len(call.Args) != 1 {
					okNorm = false
					break
				}
				fns = append(fns, o.Name())
				e = unparen(call.Args[0])
			}
			id, ok := e.(*ast.Ident)
			switch {
			case !ok:
				okNorm = false
			case di == 0 && !isParam(info, fd, id):
				okNorm = false
			case di > 0 && info.ObjectOf(id) != obj:
				okNorm = false
			}
			// normFns lists outermost-last-applied first (the fixed-point loop below applies it from the end)
			normFns = append(fns, normFns...)
		}
	}
	if !okNorm {
		c.Undecided("R13e", "IsTrueString:normalise", fd.Pos(), "the compared string is not a strings.* normalisation of the parameter")
	} else {
		bad := ""
		for s := range falsy {
			x := s
			for i := len(normFns) - 1; i >= 0; i-- {
				switch normFns[i] {
				case "ToLower":
					x = strings.ToLower(x)
				case "ToUpper":
					x = strings.ToUpper(x)
				case "TrimSpace":
					x = strings.TrimSpace(x)
				case "Title", "ToTitle":
					x = strings.ToTitle(x)
				default:
					bad = "unknown normaliser strings." + normFns[i]
				}
			}
			if x != s {
				bad = "constant \"" + s + "\" can never equal the input after " + strings.Join(normFns, "∘")
			}
		}
		if bad != "" {
			c.Viol("R13e", "IsTrueString:normalise", fd.Pos(), "%s: \"false\" would be read as true", bad)
		} else {
			c.OK("R13e", "IsTrueString:normalise", fd.Pos(), "input normalised by %s; all %d constants are fixed points", strings.Join(normFns, "∘"), len(falsy))
		}
	}
	// exit number arms
	exitObj := types.Object(nil)
	i := 0
	for _, fl := range fd.Type.Params.List {
		for _, nm := range fl.Names {
			if i == 1 {
				exitObj = info.Defs[nm]
			}
			i++
		}
	}
	okArms := 0
	bad := ""
	ast.Inspect(fd.Body, func(n ast.Node) bool {
		// an arm is `case <cmp exitNum>: return K` or the equivalent `if <cmp exitNum> { return K }`
		var cc *ast.CaseClause
		switch v := n.(type) {
		case *ast.CaseClause:
			cc = v
		case *ast.IfStmt:
			if v.Init == nil {
				cc = &ast.CaseClause{Case: v.Pos(), List: []ast.Expr{v.Cond}, Body: v.Body.List}
			}
		}
		if cc == nil || len(cc.List) != 1 || len(cc.Body) != 1 {
			return true
		}
		x, op, k, ok := cmpNorm(info, cc.List[0])
		if !ok {
			return true
		}
		id, isID := x.(*ast.Ident)
		if !isID || info.ObjectOf(id) != exitObj {
			return true
		}
		rs, ok := cc.Body[0].(*ast.ReturnStmt)
		if !ok || len(rs.Results) != 1 {
			return true
		}
		rv, ok := constBool(info, rs.Results[0])
		if !ok {
			return true
		}
		p := intPred(op, k)
		if p(0) {
			bad = "arm `" + c.src(cc.List[0]) + "` captures exit number 0: the string is never examined"
		}
		// positive exit numbers must be false, negative true
		for _, v := range []int64{-2, -1, 1, 2} {
			if p(v) && rv != (v < 0) {
				bad = "arm `" + c.src(cc.List[0]) + "` returns " + map[bool]string{true: "true", false: "false"}[rv] + " for exit number " + fmt.Sprint(v)
			}
		}
		okArms++
		return true
	})
	if bad != "" {
		c.Viol("R13e", "IsTrueString:exitnum", fd.Pos(), "%s", bad)
	} else if okArms >= 2 {
		c.OK("R13e", "IsTrueString:exitnum", fd.Pos(), "%d exit-number arms, none captures 0", okArms)
	} else {
		c.Undecided("R13e", "IsTrueString:exitnum", fd.Pos(), "exit-number arms not recognised")
	}
}

func c13Keys(m map[string]bool) []string {
	var out []string
	for k := range m {
		out = append(out, k)
	}
	c13SortStrings(out)
	return out
}

func c13SortStrings(a []string) {
	for i := 1; i < len(a); i++ {
		for j := i; j > 0 && a[j] < a[j-1]; j-- {
			a[j], a[j-1] = a[j-1], a[j]
		}
	}
}
