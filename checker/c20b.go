package main

// C20 (highlighter half, design rule R20b): the tokenizer loop of
// utils/parser.Parse terminates and never indexes out of range.
//
// c20bHighlighter records its obligations under the rule id given by the
// caller (c20.go registers C20 and calls it). It is built on the per-path
// summaries of c34parse.go:
//
//   - termination: the loop is `for ; i < len(block); i++` with i starting at a
//     non-negative constant; on every path through the body (closures inlined)
//     the index is only ever incremented; the input slice is never assigned;
//     there is no inner loop, goto, labelled branch or closure recursion (any
//     of these is outside the model and reported UNDECIDED);
//   - bounds: every index / slice expression evaluated in the loop — on the
//     input (block[i±c], block[i:i+c], block[i:]) and on the helper slices
//     (colour stack, colour table, pt.Parameters) — is within the bounds facts
//     that dominate it: the loop condition, `i > 0`, `i+1 < len(block)` /
//     next(r) (also after an i++ in the same iteration), short-circuit
//     operands, `len(x) > 1`, a preceding append, `v := n % len(T)` under n ≥ 0.

import (
	"fmt"
	"go/ast"
	"go/token"
	"sort"
)

func (c *Ctx) c20bHighlighter(rule string) {
	if c.Pkg(c34ParserPkg) == nil {
		c.c38Load(c34ParserPkg)
	}
	p := c.c34ParseModel(rule)
	if p == nil {
		return
	}
	p.reportProblems(rule)

	// ---- loop shape
	condOK := false
	if be, ok := unparen(p.loop.Cond).(*ast.BinaryExpr); ok {
		s := p.newState()
		s.ub = -1
		p.assume(p.loop.Cond, true, s)
		condOK = s.ub == 0 && (be.Op == token.LSS || be.Op == token.GTR || be.Op == token.LEQ || be.Op == token.GEQ || be.Op == token.NEQ)
		if be.Op == token.NEQ {
			condOK = false
		}
	}
	c.Check(condOK, rule, "highlighter:loop:cond", p.loop.Pos(), "tokenizer loop condition %s bounds the index by len(%s)%s", c.src(p.loop.Cond), p.block.Name(),
		c37Why(condOK, "the condition does not establish index < len(input): block[i] in the body can be out of range or the loop need not stop at the end of the input"))
	c.Check(p.idxInitOK, rule, "highlighter:loop:init", p.loop.Pos(), "loop index %s starts at a non-negative constant%s", p.idx.Name(), c37Why(p.idxInitOK, "no zero / non-negative constant initial value found"))

	// the input slice and the index are not assigned outside what the paths saw
	nMod, blockAssigned := 0, false
	var modPos []token.Pos
	ast.Inspect(p.fd.Body, func(n ast.Node) bool {
		switch v := n.(type) {
		case *ast.AssignStmt:
			for _, l := range v.Lhs {
				if p.isObj(l, p.block) {
					blockAssigned = true
				}
				if p.isObj(l, p.idx) && v.Tok != token.DEFINE {
					nMod++
					modPos = append(modPos, v.Pos())
				}
			}
		case *ast.IncDecStmt:
			if p.isObj(v.X, p.idx) && n != ast.Node(p.loop.Post) {
				nMod++
				modPos = append(modPos, v.Pos())
			}
		case *ast.UnaryExpr:
			if v.Op == token.AND && (p.isObj(v.X, p.idx) || p.isObj(v.X, p.block)) {
				blockAssigned = true
			}
		}
		return true
	})
	c.Check(!blockAssigned, rule, "highlighter:input:immutable", p.fd.Pos(), "the input slice %s is never re-assigned and neither it nor the index has its address taken (len(%s) is loop-invariant)%s", p.block.Name(), p.block.Name(),
		c37Why(!blockAssigned, "the bound of the loop can change while it runs"))

	// ---- index modifications on paths
	type agg struct {
		ok  bool
		msg string
		pos token.Pos
		n   int
	}
	mods := map[string]*agg{}
	seenMod := map[token.Pos]bool{}
	idxs := map[string]*agg{}
	all := append(append([]*c34Path{}, p.pro...), p.paths...)
	all = append(all, p.epi...)
	for _, pa := range all {
		for _, ev := range pa.Events {
			switch ev.Kind {
			case c34EvInc, c34EvIdxBad:
				seenMod[ev.Pos] = true
				w := p.whereOf(ev.Pos)
				key := fmt.Sprintf("highlighter:index-step:%s", w)
				a := mods[key]
				if a == nil {
					a = &agg{ok: true, pos: ev.Pos}
					mods[key] = a
				}
				a.n++
				if ev.Kind == c34EvIdxBad && a.ok {
					a.ok, a.pos = false, ev.Pos
					a.msg = fmt.Sprintf("%s modifies the loop index with `%s`: the index is no longer only incremented, so the tokenizer loop can revisit runes forever (or index below zero)", w, ev.Note)
				}
			case c34EvIndex:
				ix := ev.Index
				w := p.whereOf(ev.Pos)
				key := fmt.Sprintf("highlighter:bounds:%s@%s", ix.Text, w)
				a := idxs[key]
				if a == nil {
					a = &agg{ok: true, pos: ev.Pos, msg: ix.Why}
					idxs[key] = a
				}
				a.n++
				if !ix.Safe && a.ok {
					a.ok, a.pos = false, ev.Pos
					a.msg = fmt.Sprintf("%s in %s can be out of range: %s — parser.Parse panics while highlighting / completing the typed line", ix.Text, w, ix.Why)
				}
			}
		}
	}
	emit := func(m map[string]*agg, okFmt string) int {
		var keys []string
		for k := range m {
			keys = append(keys, k)
		}
		sort.Strings(keys)
		for _, k := range keys {
			a := m[k]
			if a.ok {
				c.OK(rule, k, a.pos, okFmt, a.msg, a.n)
			} else {
				c.Viol(rule, k, a.pos, "%s", a.msg)
			}
		}
		return len(keys)
	}
	for _, a := range mods {
		if a.ok {
			a.msg = "index only incremented"
		}
	}
	nm := emit(mods, "%s [%d path event(s)]")
	for _, mp := range modPos {
		if !seenMod[mp] {
			c.Undecided(rule, "highlighter:index-step:unmodelled", mp, "a statement modifying the loop index at %s is not on any modelled path (dead closure or unrecognised construct)", c.pos(mp))
		}
	}
	ni := emit(idxs, "%s [%d evaluation(s)]")
	c.MinCount(rule, "highlighter: arms stepping the loop index", nm, 4)
	c.MinCount(rule, "highlighter: index/slice expressions", ni, 60)
	_ = nMod
}
