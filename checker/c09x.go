package main

import (
	"go/ast"
	"go/token"
	"go/types"
)

// R09f — a quoted literal is an argument even when it is empty. In statement
// position the quote arm of parseStatement parses the literal, appends its runes to
// the current parameter and marks the parameter as "may be zero length"; without
// that mark nextParameter drops an empty parameter, so `cmd ” x` would pass [x].
// Every way through the arm other than an error return must do all three.
func init() {
	extend("C09", func(c *Ctx) {
		c.Rule("R09f", "quote arm of parseStatement (`'` and `\"`): at the top level of the arm the result of parseString is appended with appendToParam and canHaveZeroLenStr is set to true, and no statement before that store can leave the arm except `return` under a non-nil error (no continue / break / goto / fallthrough fast path)")
		fd, pk := c.MustFunc("R09f", "lang/expressions", "ParserT", "parseStatement")
		if fd == nil {
			return
		}
		info := pk.TypesInfo
		n := 0
		var pendingFall []string
		covered := map[string]bool{}
		ast.Inspect(fd.Body, func(nd ast.Node) bool {
			cc, ok := nd.(*ast.CaseClause)
			if !ok {
				return true
			}
			// quote runes this arm is entered for: its own case values plus those of arms directly
			// above that consist of a fallthrough (`case '\'': fallthrough; case '"': …`)
			quotes := pendingFall
			pendingFall = nil
			for _, e := range cc.List {
				if tv := info.Types[e]; tv.Value != nil {
					if v := tv.Value.ExactString(); v == "39" || v == "34" { // ' and "
						quotes = append(quotes, v)
					}
				}
			}
			if len(quotes) == 0 {
				return true
			}
			if len(cc.Body) == 1 {
				if br, ok := cc.Body[0].(*ast.BranchStmt); ok && br.Tok == token.FALLTHROUGH {
					pendingFall = quotes
					return true
				}
			}
			// only the arm of the main rune switch: it calls parseString
			defs := localDefs(info, cc)
			var valueObj types.Object
			// isValue: the parsed literal itself or a local that is only ever given it (`lit := value`)
			isValue := func(e ast.Expr) bool {
				if valueObj == nil {
					return false
				}
				id, ok := unparen(e).(*ast.Ident)
				if !ok {
					return false
				}
				if info.ObjectOf(id) == valueObj {
					return true
				}
				r, ok := defs.resolve1(info, id).(*ast.Ident)
				return ok && info.ObjectOf(r) == valueObj
			}
			// isAppend: appendToParam(tree, value...) or the helper's body written out,
			// X.paramTemp = append(X.paramTemp, value...)
			isAppend := func(s ast.Stmt) bool {
				switch x := s.(type) {
				case *ast.ExprStmt:
					if call, ok := unparen(x.X).(*ast.CallExpr); ok {
						if fn, ok := callee(info, call).(*types.Func); ok && fn.Name() == "appendToParam" && len(call.Args) == 2 && call.Ellipsis != token.NoPos {
							return isValue(call.Args[1])
						}
					}
				case *ast.AssignStmt:
					if x.Tok == token.ASSIGN && len(x.Lhs) == 1 && len(x.Rhs) == 1 && isField(info, x.Lhs[0], c10StatementT, "paramTemp") {
						if call, ok := isBuiltinCall(info, x.Rhs[0], "append"); ok && len(call.Args) == 2 && call.Ellipsis != token.NoPos &&
							isField(info, call.Args[0], c10StatementT, "paramTemp") && c.sameExpr(call.Args[0], x.Lhs[0]) {
							return isValue(call.Args[1])
						}
					}
				}
				return false
			}
			parseIdx, appendIdx, markIdx := -1, -1, -1
			for i, s := range cc.Body {
				if isAppend(s) {
					appendIdx = i
					continue
				}
				switch x := s.(type) {
				case *ast.AssignStmt:
					if len(x.Rhs) == 1 {
						if call, ok := unparen(x.Rhs[0]).(*ast.CallExpr); ok {
							if fn, ok := callee(info, call).(*types.Func); ok && fn.Name() == "parseString" && len(x.Lhs) >= 1 {
								if id, ok := x.Lhs[0].(*ast.Ident); ok {
									valueObj, parseIdx = info.ObjectOf(id), i
								}
							}
						}
					}
					if len(x.Lhs) == 1 && len(x.Rhs) == 1 && isField(info, x.Lhs[0], c10StatementT, "canHaveZeroLenStr") {
						if b, ok := constBool(info, x.Rhs[0]); ok && b {
							markIdx = i
						}
					}
				case *ast.IfStmt:
					// `if len(value) > 0 { append }`: the only value not appended is the empty one,
					// and appending no runes changes nothing
					if x.Init == nil && x.Else == nil {
						if lhs, op, k, ok := cmpNorm(info, x.Cond); ok {
							if call, isLen := isBuiltinCall(info, lhs, "len"); isLen && len(call.Args) == 1 && isValue(call.Args[0]) &&
								samePredOnRange(intPred(op, k), func(v int64) bool { return v > 0 }, 0, 4) {
								for _, b := range x.Body.List {
									if isAppend(b) {
										appendIdx = i
									}
								}
							}
						}
					}
				}
			}
			if parseIdx < 0 {
				return true // a quote case of some other switch
			}
			n++
			key := "parseStatement:quote-arm#" + itoa(n)
			for _, q := range quotes {
				covered[q] = true
			}
			if appendIdx < parseIdx || markIdx < 0 {
				c.Viol("R09f", key, cc.Pos(), "the quote arm parses the literal (statement %d of the arm) but does not, at its top level, append the value (found at %d) and set canHaveZeroLenStr = true (found at %d): an empty literal `''` is dropped from the argument list", parseIdx+1, appendIdx+1, markIdx+1)
				return true
			}
			last := markIdx
			if appendIdx > last {
				last = appendIdx
			}
			bad := ""
			for i := 0; i <= last && bad == ""; i++ {
				ast.Inspect(cc.Body[i], func(x ast.Node) bool {
					switch y := x.(type) {
					case *ast.FuncLit:
						return false
					case *ast.BranchStmt:
						bad = y.Tok.String() + " at " + c.pos(y.Pos())
					}
					return bad == ""
				})
				// returns must be error returns under err != nil
				walkStack(cc.Body[i], func(x ast.Node, st []ast.Node) bool {
					rs, ok := x.(*ast.ReturnStmt)
					if !ok || bad != "" {
						return true
					}
					okRet := false
					for _, ft := range factsOf(guardsAt(info, append([]ast.Node{cc}, st...))) {
						if be, ok := unparen(ft.E).(*ast.BinaryExpr); ok && ((be.Op == token.NEQ && ft.True) || (be.Op == token.EQL && !ft.True)) {
							if isNilIdent(info, unparen(be.Y)) || isNilIdent(info, unparen(be.X)) {
								okRet = true
							}
						}
					}
					if !okRet {
						bad = "return at " + c.pos(rs.Pos()) + " not under a non-nil error"
					}
					return true
				})
			}
			if bad != "" {
				c.Viol("R09f", key, cc.Pos(), "the quote arm can be left before the literal's value is appended and marked as a possible zero-length argument (%s): on that path `cmd '' x` passes [x] instead of [\"\", x]", bad)
			} else {
				c.OK("R09f", key, cc.Pos(), "parse → appendToParam(value…) → canHaveZeroLenStr = true at the top level of the arm; only error returns before them")
			}
			return true
		})
		if n > 0 {
			c.Check(covered["39"] && covered["34"], "R09f", "parseStatement:quote-arm:both-quotes", fd.Pos(), "both quote runes reach an arm that parses, appends and marks the literal (single quote: %v, double quote: %v)", covered["39"], covered["34"])
		}
		c.MinCount("R09f", "quote arms of parseStatement", n, 1)
	})
}
