package main

import (
	"go/ast"
	"go/token"
	"go/types"
)

// R09f — a quoted literal is an argument even when it is empty. In statement
// position the quote arm of parseStatement parses the literal, appends its runes to
// the current parameter and marks the parameter as "may be zero length"; without
// that mark nextParameter drops an empty parameter, so `cmd '' x` would pass [x].
// Every way through the arm other than an error return must do all three.
func init() {
	extend("C09", func(c *Ctx) {
		c.Rule("R09f", "quote arm of parseStatement (`'` and `\"`): at the top level of the arm the result of parseString is appended with appendToParam and canHaveZeroLenStr is set to true, and no statement before that store can leave the arm except `return` under a non-nil error (no continue / break / goto / fallthrough fast path)")
		fd, pk := c.MustFunc("R09f", "lang/expressions", "ParserT", "parseStatement")
		if fd == nil {
			return
		}
		info := pk.TypesInfo
		n := 0
		ast.Inspect(fd.Body, func(nd ast.Node) bool {
			cc, ok := nd.(*ast.CaseClause)
			if !ok {
				return true
			}
			isQuote := false
			for _, e := range cc.List {
				if tv := info.Types[e]; tv.Value != nil {
					if v := tv.Value.ExactString(); v == "39" || v == "34" { // ' and "
						isQuote = true
					}
				}
			}
			if !isQuote {
				return true
			}
			// only the arm of the main rune switch: it calls parseString
			var valueObj types.Object
			parseIdx, appendIdx, markIdx := -1, -1, -1
			for i, s := range cc.Body {
				switch x := s.(type) {
				case *ast.AssignStmt:
					if len(x.Rhs) == 1 {
						if call, ok := unparen(x.Rhs[0]).(*ast.CallExpr); ok {
							if fn, ok := callee(info, call).(*types.Func); ok && fn.Name() == "parseString" && len(x.Lhs) >= 1 {
								if id, ok := x.Lhs[0].(*ast.Ident); ok {
									valueObj, parseIdx = info.ObjectOf(id), i
								}
							}
						}
					}
					if len(x.Lhs) == 1 && len(x.Rhs) == 1 {
						if se, ok := unparen(x.Lhs[0]).(*ast.SelectorExpr); ok && se.Sel.Name == "canHaveZeroLenStr" {
							if tv := info.Types[x.Rhs[0]]; tv.Value != nil && tv.Value.ExactString() == "true" {
								markIdx = i
							}
						}
					}
				case *ast.ExprStmt:
					if call, ok := unparen(x.X).(*ast.CallExpr); ok {
						if fn, ok := callee(info, call).(*types.Func); ok && fn.Name() == "appendToParam" && len(call.Args) == 2 && call.Ellipsis != token.NoPos {
							if id, ok := unparen(call.Args[1]).(*ast.Ident); ok && valueObj != nil && info.ObjectOf(id) == valueObj {
								appendIdx = i
							}
						}
					}
				}
			}
			if parseIdx < 0 {
				return true // a quote case of some other switch
			}
			n++
			key := "parseStatement:quote-arm#" + itoa(n)
			if appendIdx < parseIdx || markIdx < 0 {
				c.Viol("R09f", key, cc.Pos(), "the quote arm parses the literal (statement %d of the arm) but does not, at its top level, append the value (found at %d) and set canHaveZeroLenStr = true (found at %d): an empty literal `''` is dropped from the argument list", parseIdx+1, appendIdx+1, markIdx+1)
				return true
			}
			last := markIdx
			if appendIdx > last {
				last = appendIdx
			}
			bad := ""
			for i := 0; i <= last && bad == ""; i++ {
				ast.Inspect(cc.Body[i], func(x ast.Node) bool {
					switch y := x.(type) {
					case *ast.FuncLit:
						return false
					case *ast.BranchStmt:
						bad = y.Tok.String() + " at " + c.pos(y.Pos())
					}
					return bad == ""
				})
				// returns must be error returns under err != nil
				walkStack(cc.Body[i], func(x ast.Node, st []ast.Node) bool {
					rs, ok := x.(*ast.ReturnStmt)
					if !ok || bad != "" {
						return true
					}
					okRet := false
					for _, ft := range factsOf(guardsAt(info, append([]ast.Node{cc}, st...))) {
						if be, ok := unparen(ft.E).(*ast.BinaryExpr); ok && ((be.Op == token.NEQ && ft.True) || (be.Op == token.EQL && !ft.True)) {
							if isNilIdent(info, unparen(be.Y)) || isNilIdent(info, unparen(be.X)) {
								okRet = true
							}
						}
					}
					if !okRet {
						bad = "return at " + c.pos(rs.Pos()) + " not under a non-nil error"
					}
					return true
				})
			}
			if bad != "" {
				c.Viol("R09f", key, cc.Pos(), "the quote arm can be left before the literal's value is appended and marked as a possible zero-length argument (%s): on that path `cmd '' x` passes [x] instead of [\"\", x]", bad)
			} else {
				c.OK("R09f", key, cc.Pos(), "parse → appendToParam(value…) → canHaveZeroLenStr = true at the top level of the arm; only error returns before them")
			}
			return true
		})
		c.MinCount("R09f", "quote arms of parseStatement", n, 1)
	})
}
