package main

import (
	"go/ast"
	"go/types"
)

// R01k — a line record enters the FIFO in one critical section. Writeln is one call for
// its caller; when it is implemented as two appends (payload, then line ending) another
// writer's bytes can land between them, so the stream holds bytes in an order no sequence
// of calls produced. Structural condition: per underlying stream, every Writeln of the
// streams package issues exactly one write call, outside any loop, and that call carries
// the caller's bytes.
func init() {
	extend("C01", func(c *Ctx) {
		c.Rule("R01k", "record atomicity: each Writeln method of the streams package issues, per receiver it writes to, exactly one Write/Writeln call on every path (none in a loop), and that call's argument is built from the method's parameter — payload and line ending are appended under one lock acquisition")
		pk := c.Pkg(streamsPkg)
		if pk == nil {
			c.Lost("R01k", "pkg", "streams package not loaded")
			return
		}
		info := pk.TypesInfo
		n := 0
		eachFunc(pk, func(fd *ast.FuncDecl) {
			if fd.Name.Name != "Writeln" || fd.Recv == nil || fd.Body == nil {
				return
			}
			key := recvName(fd) + ".Writeln"
			var param types.Object
			if fd.Type.Params != nil && len(fd.Type.Params.List) == 1 && len(fd.Type.Params.List[0].Names) == 1 {
				param = info.ObjectOf(fd.Type.Params.List[0].Names[0])
			}
			groups := map[string][]*ast.CallExpr{}
			var order []string
			inLoop := false
			walkStack(fd.Body, func(nd ast.Node, stack []ast.Node) bool {
				call, ok := nd.(*ast.CallExpr)
				if !ok {
					return true
				}
				sel, ok := call.Fun.(*ast.SelectorExpr)
				if !ok {
					return true
				}
				fn, ok := info.Uses[sel.Sel].(*types.Func)
				if !ok || fn.Type().(*types.Signature).Recv() == nil {
					return true
				}
				switch fn.Name() {
				case "Write", "Writeln", "WriteString":
				default:
					return true
				}
				r := c.src(sel.X)
				if _, seen := groups[r]; !seen {
					order = append(order, r)
				}
				groups[r] = append(groups[r], call)
				for _, s := range stack {
					switch s.(type) {
					case *ast.ForStmt, *ast.RangeStmt:
						inLoop = true
					}
				}
				return true
			})
			if len(order) == 0 {
				// a read-only stream refuses the write: nothing is appended at all
				c.OK("R01k", key, fd.Pos(), "%s appends nothing", key)
				return
			}
			n++
			ok := !inLoop
			why := ""
			for _, r := range order {
				if len(groups[r]) != 1 {
					ok = false
					why += " " + itoa(len(groups[r])) + " write calls on " + r + ";"
					continue
				}
				call := groups[r][0]
				if param == nil || len(call.Args) != 1 || !mentions(info, localDefs(info, fd.Body).resolve1(info, call.Args[0]), param) {
					ok = false
					why += " the write on " + r + " does not carry the parameter;"
				}
			}
			if inLoop {
				why += " a write call sits in a loop;"
			}
			c.Check(ok, "R01k", key, fd.Pos(), "%s hands the record (payload + line ending) to each stream it writes to in one call%s", key, why)
		})
		c.MinCount("R01k", "Writeln methods that append", n, 2)
	})
}
