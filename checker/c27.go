package main

import (
	"go/ast"
	"go/token"
	"go/types"
)

func init() {
	register("C27", "Decides structural necessary conditions of stable job IDs: the job table is only ever appended to, truncated from its end, or has single slots cleared to nil (nothing is moved, so a running job keeps its index); truncation happens only at an index below which... above which every slot is nil and no running job was seen (descending scan, `running` latch never reset); every lookup hands out a slot only when guarded by the not-terminated test on the same index; `%n` ↔ index mapping is n-1 / i+1 with both bounds checked; all accesses hold the table mutex. Does NOT decide that HasTerminated itself is accurate, nor fg/bg signal handling.", runC27)
}

var jobsT = mx("lang") + ".jobs"

func runC27(c *Ctx) {
	c.Load("lang")
	pk := c.Pkg("lang")
	info := pk.TypesInfo

	c.Rule("R27b", "E1 lockset: jobs.jobs is accessed only with jobs.mutex held; _hasTerminated is a requires-lock helper whose every call site holds it")
	n := c.runLockset("R27b", LockSpec{Pkg: "lang", Type: "jobs", Mutex: "mutex", Fields: []string{"jobs"}})
	c.MinCount("R27b", "guarded accesses to jobs.jobs", n, 15)

	c.Rule("R27a", "who-may-write: every store to jobs.jobs is append(jobs, <one process>) or a truncation jobs[:k]; element stores store only nil; no other form (a compaction would renumber running jobs)")
	nStores := 0
	eachFunc(pk, func(fd *ast.FuncDecl) {
		ast.Inspect(fd.Body, func(nd ast.Node) bool {
			as, ok := nd.(*ast.AssignStmt)
			if !ok {
				return true
			}
			for i, l := range as.Lhs {
				if isField(info, l, jobsT, "jobs") {
					nStores++
					kind := "other"
					if i < len(as.Rhs) && len(as.Lhs) == len(as.Rhs) {
						r := unparen(as.Rhs[i])
						if call, ok := isBuiltinCall(info, r, "append"); ok && len(call.Args) == 2 && !call.Ellipsis.IsValid() && isField(info, call.Args[0], jobsT, "jobs") {
							kind = "append-one"
						}
						if se, ok := r.(*ast.SliceExpr); ok && isField(info, se.X, jobsT, "jobs") && se.Low == nil && se.High != nil && se.Max == nil {
							kind = "truncate"
						}
					}
					c.Check(kind != "other", "R27a", "store@"+fd.Name.Name+":"+kind, as.Pos(), "store to the job table is %s: %s", kind, c.src(as))
				}
				if ix, ok := unparen(l).(*ast.IndexExpr); ok && isField(info, ix.X, jobsT, "jobs") {
					nStores++
					isNil := false
					if i < len(as.Rhs) {
						if id, ok := unparen(as.Rhs[i]).(*ast.Ident); ok && id.Name == "nil" {
							isNil = true
						}
					}
					c.Check(isNil, "R27a", "slot-store@"+fd.Name.Name, as.Pos(), "a slot of the job table is only ever cleared to nil (got %s); storing a process into an existing slot would give two jobs one ID or move a job", c.src(as))
				}
			}
			return true
		})
	})
	c.MinCount("R27a", "stores to the job table", nStores, 3)

	c.Rule("R27c", "garbage collection truncates only above every running job: the scan runs from the last index down to 0, `last = i` is assigned only under jobs[i]==nil ∧ ¬running, `running` is only ever set to true and is set whenever a non-terminated job is seen, a slot is cleared only under HasTerminated(), and the truncation is jobs[:last]")
	if fd, _ := c.MustFunc("R27c", "lang", "jobs", "GarbageCollect"); fd != nil {
		c.checkJobsGC(info, fd)
	}

	c.Rule("R27d", "lookups: Get/GetLatest/GetFromCommandLine/List hand out jobs[i] only where `_hasTerminated(i)` is known false for the same i; Get maps %n to index n-1 after rejecting n<1 and n>len; List prints index i as i+1; _hasTerminated(i) is jobs[i]==nil || jobs[i].HasTerminated()")
	// every function of the package that hands out a table slot is checked, not only the four
	// lookups known today: a helper the lookups delegate to (`_latest(match)`) carries the same duty.
	handOuts := map[string]int{}
	eachFunc(pk, func(fd *ast.FuncDecl) {
		if fd.Body == nil {
			return
		}
		name := fd.Name.Name
		hdefs := localDefs(info, fd.Body)
		walkStack(fd.Body, func(nd ast.Node, stack []ast.Node) bool {
			var outs []ast.Expr
			switch s := nd.(type) {
			case *ast.ReturnStmt:
				outs = s.Results
			case *ast.KeyValueExpr:
				outs = []ast.Expr{s.Value}
			}
			for _, o := range outs {
				// jobs[i] written out, or a single-definition local loaded from it (`p := j.jobs[i]; …; return p`)
				ix, ok := hdefs.resolve1(info, o).(*ast.IndexExpr)
				if !ok || !isField(info, ix.X, jobsT, "jobs") {
					continue
				}
				handOuts[name]++
				guarded := false
				for _, f := range factsOf(guardsAt(info, stack)) {
					if call, ok := unparen(f.E).(*ast.CallExpr); ok && !f.True {
						if callIs(info, call, mx("lang"), "jobs", "_hasTerminated") && len(call.Args) == 1 && c.sameExpr(call.Args[0], ix.Index) {
							guarded = true
						}
					}
				}
				c.Check(guarded, "R27d", name+":hand-out", o.Pos(), "jobs.%s hands out jobs[%s] only after _hasTerminated(%s) was false (fg/bg/jobs never return a finished job)", name, c.src(ix.Index), c.src(ix.Index))
			}
			return true
		})
		// a scan that looks for a job visits every slot: `for i := len-1; i >= 0; i--`, `for i := 0; i < len; i++`
		// or `range jobs` (a scan that stops at 1 never finds job %1; one that starts at len-2 never finds the newest)
		if recvName(fd) == "jobs" && name != "GarbageCollect" {
			ast.Inspect(fd.Body, func(nd ast.Node) bool {
				loop, ok := nd.(*ast.ForStmt)
				if !ok {
					return true
				}
				uses := false
				ast.Inspect(loop.Body, func(m ast.Node) bool {
					if ix, ok := m.(*ast.IndexExpr); ok && isField(info, ix.X, jobsT, "jobs") {
						uses = true
					}
					if call, ok := m.(*ast.CallExpr); ok && callIs(info, call, mx("lang"), "jobs", "_hasTerminated") {
						uses = true
					}
					return true
				})
				if !uses {
					return true
				}
				c.Check(c.jobsScanCoversAll(info, fd, loop), "R27d", name+":scan-covers-every-slot", loop.Pos(), "the lookup scan in jobs.%s visits every slot of the table, index 0 and index len-1 included (%s; %s; %s)", name, c.src(loop.Init), c.src(loop.Cond), c.src(loop.Post))
				return true
			})
		}
	})
	for _, name := range []string{"Get", "GetLatest", "GetFromCommandLine", "List"} {
		fd, _ := c.MustFunc("R27d", "lang", "jobs", name)
		if fd == nil || handOuts[name] > 0 {
			continue
		}
		// delegation: the function returns what another hand-out function of the table returns
		deleg := false
		ddefs := localDefs(info, fd.Body)
		ast.Inspect(fd.Body, func(nd ast.Node) bool {
			if r, ok := nd.(*ast.ReturnStmt); ok {
				for _, o := range r.Results {
					if call, ok := unparen(ddefs.resolve1(info, o)).(*ast.CallExpr); ok {
						if fn, ok := callee(info, call).(*types.Func); ok && fn.Pkg() != nil && fn.Pkg().Path() == mx("lang") && handOuts[fn.Name()] > 0 {
							deleg = true
						}
					}
				}
			}
			return true
		})
		if !deleg {
			c.Lost("R27d", name+":hand-out", "jobs.%s no longer returns a table slot", name)
		}
	}
	if fd, _ := c.MustFunc("R27d", "lang", "jobs", "Get"); fd != nil {
		var param types.Object
		if fd.Type.Params != nil && len(fd.Type.Params.List) == 1 {
			param = info.Defs[fd.Type.Params.List[0].Names[0]]
		}
		defs := localDefs(info, fd.Body)
		lowOK, highOK, mapOK := false, false, false
		walkStack(fd.Body, func(nd ast.Node, stack []ast.Node) bool {
			rs, ok := nd.(*ast.ReturnStmt)
			if !ok || len(rs.Results) != 2 {
				return true
			}
			ix, ok := defs.resolve1(info, rs.Results[0]).(*ast.IndexExpr)
			if !ok {
				return true
			}
			// index expression resolves to param - 1
			r := defs.resolve1(info, ix.Index)
			if b, ok := r.(*ast.BinaryExpr); ok && b.Op == token.SUB {
				if id, ok := unparen(b.X).(*ast.Ident); ok && info.ObjectOf(id) == param {
					if v, ok := constInt(info, b.Y); ok && v == 1 {
						mapOK = true
					}
				}
			}
			for _, f := range factsOf(guardsAt(info, stack)) {
				b, ok := unparen(f.E).(*ast.BinaryExpr)
				if !ok {
					continue
				}
				// a comparison with the parameter on either side: normalise to `param OP other`
				isP := func(e ast.Expr) bool {
					id, ok := unparen(e).(*ast.Ident)
					return ok && param != nil && info.ObjectOf(id) == param
				}
				flip := map[token.Token]token.Token{token.LSS: token.GTR, token.GTR: token.LSS, token.LEQ: token.GEQ, token.GEQ: token.LEQ, token.EQL: token.EQL, token.NEQ: token.NEQ}
				var other ast.Expr
				op := b.Op
				switch {
				case isP(b.X):
					other = b.Y
				case isP(b.Y):
					other, op = b.X, flip[b.Op]
				default:
					continue
				}
				if x, cop, k, ok := cmpNorm(info, b); ok && isP(x) {
					p := intPred(cop, k)
					if !f.True {
						q := p
						p = func(v int64) bool { return !q(v) }
					}
					if samePredOnRange(p, func(v int64) bool { return v >= 1 }, -2, 4) {
						lowOK = true
					}
				}
				if call, ok := isBuiltinCall(info, defs.resolve1(info, other), "len"); ok && len(call.Args) == 1 && isField(info, call.Args[0], jobsT, "jobs") {
					// !(jobId > len) or jobId <= len (also written len < jobId / len >= jobId)
					if (op == token.GTR && !f.True) || (op == token.LEQ && f.True) {
						highOK = true
					}
				}
			}
			return true
		})
		c.Check(mapOK, "R27d", "Get:index-map", fd.Pos(), "Get looks up slot jobId-1")
		c.Check(lowOK, "R27d", "Get:lower-bound", fd.Pos(), "Get rejects jobId < 1 before indexing")
		c.Check(highOK, "R27d", "Get:upper-bound", fd.Pos(), "Get rejects jobId > len(jobs) before indexing")
	}
	if fd, _ := c.MustFunc("R27d", "lang", "jobs", "List"); fd != nil {
		ok := false
		ldefs := localDefs(info, fd.Body)
		// the slot index used for the Process field of the same literal
		slotIdx := ""
		ast.Inspect(fd.Body, func(nd ast.Node) bool {
			if kv, isKV := nd.(*ast.KeyValueExpr); isKV {
				if id, isId := kv.Key.(*ast.Ident); isId && id.Name == "Process" {
					if ix, isIx := unparen(kv.Value).(*ast.IndexExpr); isIx && isField(info, ix.X, jobsT, "jobs") {
						slotIdx = c.src(ix.Index)
					}
				}
			}
			return true
		})
		ast.Inspect(fd.Body, func(nd ast.Node) bool {
			kv, isKV := nd.(*ast.KeyValueExpr)
			if !isKV {
				return true
			}
			if id, isId := kv.Key.(*ast.Ident); !isId || id.Name != "JobId" {
				return true
			}
			ast.Inspect(kv.Value, func(m ast.Node) bool {
				e, isE := m.(ast.Expr)
				if !isE {
					return true
				}
				if _, isId := e.(*ast.Ident); isId {
					e = ldefs.resolve1(info, e) // `id := i + 1 … Sprintf("%%%d", id)`
				}
				if b, isB := e.(*ast.BinaryExpr); isB && b.Op == token.ADD && slotIdx != "" {
					for _, pr := range [][2]ast.Expr{{b.X, b.Y}, {b.Y, b.X}} {
						if v, isC := constInt(info, pr[1]); isC && v == 1 && c.src(unparen(pr[0])) == slotIdx {
							ok = true
						}
					}
				}
				return true
			})
			return true
		})
		c.Check(ok, "R27d", "List:id-map", fd.Pos(), "List prints the table slot i of the process it hands out as job ID i+1 (inverse of Get's n-1; a position in the output list would renumber running jobs when others finish)")
	}
	if fd, _ := c.MustFunc("R27d", "lang", "jobs", "_hasTerminated"); fd != nil {
		ok := false
		tdefs := localDefs(info, fd.Body)
		isSlot := func(e ast.Expr) bool { // jobs[…] written out or a single-definition local loaded from it
			ix, isIx := tdefs.resolve1(info, e).(*ast.IndexExpr)
			return isIx && isField(info, ix.X, jobsT, "jobs")
		}
		isNilTest := func(e ast.Expr) bool {
			x, isNil, isT := nilTestFact(info, Fact{E: e, True: true})
			return isT && isNil && isSlot(x)
		}
		isTermCall := func(e ast.Expr) bool {
			call, isC := unparen(e).(*ast.CallExpr)
			if !isC {
				return false
			}
			se, isS := call.Fun.(*ast.SelectorExpr)
			return isS && se.Sel.Name == "HasTerminated" && isSlot(se.X)
		}
		// the body, after the definitions of single-definition locals: `return slot == nil || slot.HasTerminated()`
		// or `if slot == nil { return true }; return slot.HasTerminated()`
		var rest []ast.Stmt
		for _, st := range fd.Body.List {
			if as, isA := st.(*ast.AssignStmt); isA && as.Tok == token.DEFINE && len(rest) == 0 {
				continue
			}
			rest = append(rest, st)
		}
		switch len(rest) {
		case 1:
			if rs, isR := rest[0].(*ast.ReturnStmt); isR && len(rs.Results) == 1 {
				ds := disjuncts(rs.Results[0])
				nilT, termT := false, false
				for _, d := range ds {
					nilT = nilT || isNilTest(d)
					termT = termT || isTermCall(d)
				}
				ok = nilT && termT && len(ds) == 2
			}
		case 2:
			is, isIf := rest[0].(*ast.IfStmt)
			rs, isR := rest[1].(*ast.ReturnStmt)
			if isIf && isR && is.Else == nil && is.Init == nil && len(is.Body.List) == 1 && len(rs.Results) == 1 {
				if r0, isR0 := is.Body.List[0].(*ast.ReturnStmt); isR0 && len(r0.Results) == 1 {
					if v, isB := constBool(info, r0.Results[0]); isB && v {
						ok = isNilTest(is.Cond) && isTermCall(rs.Results[0])
					}
				}
			}
		}
		c.Check(ok, "R27d", "_hasTerminated:definition", fd.Pos(), "_hasTerminated(i) ⇔ jobs[i]==nil ∨ jobs[i].HasTerminated()")
	}
}

func (c *Ctx) checkJobsGC(info *types.Info, fd *ast.FuncDecl) {
	var loop *ast.ForStmt
	for _, s := range fd.Body.List {
		if f, ok := s.(*ast.ForStmt); ok {
			loop = f
		}
	}
	if loop == nil {
		c.Undecided("R27c", "GarbageCollect:loop", fd.Pos(), "no scan loop")
		return
	}
	// descending scan: init i := len(jobs)-1 ; cond i >= 0 ; post i--
	desc := false
	var iObj types.Object
	if as, ok := loop.Init.(*ast.AssignStmt); ok && len(as.Lhs) == 1 && len(as.Rhs) == 1 {
		if id, ok := as.Lhs[0].(*ast.Ident); ok {
			iObj = info.ObjectOf(id)
		}
		if b, ok := unparen(as.Rhs[0]).(*ast.BinaryExpr); ok && b.Op == token.SUB {
			// len(jobs), possibly named by a single-definition local (`n := len(j.jobs)`)
			if call, ok := isBuiltinCall(info, localDefs(info, fd).resolve1(info, b.X), "len"); ok && len(call.Args) == 1 && isField(info, call.Args[0], jobsT, "jobs") {
				if v, ok := constInt(info, b.Y); ok && v == 1 {
					if inc, ok := loop.Post.(*ast.IncDecStmt); ok && inc.Tok == token.DEC {
						if x, op, k, ok := cmpNorm(info, loop.Cond); ok {
							if id, ok := x.(*ast.Ident); ok && info.ObjectOf(id) == iObj && samePredOnRange(intPred(op, k), func(v int64) bool { return v >= 0 }, -2, 3) {
								desc = true
							}
						}
					}
				}
			}
		}
	}
	c.Check(desc, "R27c", "GarbageCollect:descending-scan", loop.Pos(), "the scan visits every slot from len-1 down to 0 (a running job above a candidate cut is always seen first)")
	defs := localDefs(info, fd)
	// identify `running` (bool) and `last` (int) by their roles
	var lastObj, runObj types.Object
	var trunc *ast.SliceExpr
	ast.Inspect(fd.Body, func(nd ast.Node) bool {
		if as, ok := nd.(*ast.AssignStmt); ok && len(as.Lhs) == 1 && len(as.Rhs) == 1 && isField(info, as.Lhs[0], jobsT, "jobs") {
			if se, ok := unparen(as.Rhs[0]).(*ast.SliceExpr); ok && se.Low == nil && se.High != nil {
				trunc = se
				if id, ok := unparen(se.High).(*ast.Ident); ok {
					lastObj = info.ObjectOf(id)
				}
			}
		}
		return true
	})
	if trunc == nil || lastObj == nil {
		c.Undecided("R27c", "GarbageCollect:truncate", fd.Pos(), "no truncation jobs[:<local>] found")
		return
	}
	isSlot := func(e ast.Expr) bool {
		// jobs[i] written out, or a single-definition local loaded from it (`job := j.jobs[i]`)
		ix, ok := defs.resolve1(info, e).(*ast.IndexExpr)
		if !ok || !isField(info, ix.X, jobsT, "jobs") {
			return false
		}
		id, ok := unparen(ix.Index).(*ast.Ident)
		return ok && info.ObjectOf(id) == iObj
	}
	// assignments to last inside the loop
	nLast, okLast := 0, true
	walkStack(loop.Body, func(nd ast.Node, stack []ast.Node) bool {
		as, ok := nd.(*ast.AssignStmt)
		if !ok || len(as.Lhs) != 1 {
			return true
		}
		id, ok := as.Lhs[0].(*ast.Ident)
		if !ok {
			return true
		}
		o := info.ObjectOf(id)
		if o == lastObj {
			nLast++
			if r, ok := unparen(as.Rhs[0]).(*ast.Ident); !ok || info.ObjectOf(r) != iObj {
				okLast = false
			}
			slotNil, notRunning := false, false
			for _, f := range factsOf(guardsAt(info, stack)) {
				if x, isNil, ok := nilTestFact(info, f); ok && isNil && isSlot(x) {
					slotNil = true
				}
				if v, ok := unparen(f.E).(*ast.Ident); ok && !f.True {
					if vo := info.ObjectOf(v); vo != nil {
						if bt, ok := vo.Type().Underlying().(*types.Basic); ok && bt.Kind() == types.Bool {
							runObj = vo
							notRunning = true
						}
					}
				}
			}
			if !slotNil || !notRunning {
				okLast = false
			}
		}
		return true
	})
	c.Check(nLast >= 1 && okLast, "R27c", "GarbageCollect:cut-point", loop.Pos(), "`last = i` only under jobs[i]==nil ∧ ¬running (%d assignments)", nLast)
	// running: only assigned true; assigned in the arm where slot != nil and !HasTerminated
	if runObj == nil {
		c.Viol("R27c", "GarbageCollect:running-latch", loop.Pos(), "no `running` latch guards the cut point")
		return
	}
	okRun, nRun := true, 0
	walkStack(fd.Body, func(nd ast.Node, stack []ast.Node) bool {
		as, ok := nd.(*ast.AssignStmt)
		if !ok || len(as.Lhs) != 1 {
			return true
		}
		id, ok := as.Lhs[0].(*ast.Ident)
		if !ok || info.ObjectOf(id) != runObj {
			return true
		}
		if b, ok := constBool(info, as.Rhs[0]); ok && !b && as.Tok == token.DEFINE && as.End() <= loop.Pos() {
			return true // `running := false` before the scan is the declaration (same as `var running bool`), not a reset
		}
		nRun++
		if b, ok := constBool(info, as.Rhs[0]); !ok || !b {
			okRun = false
		}
		return true
	})
	_ = defs
	c.Check(okRun && nRun >= 1, "R27c", "GarbageCollect:running-latch", loop.Pos(), "`running` is only ever set to true (%d stores): once a running job is seen nothing below it is cut", nRun)
	// the latch is set on every path where the slot holds a non-terminated job:
	// structure: if slot != nil { if HasTerminated { slot=nil } else { running=true } }
	setsOnLive := false
	walkStack(loop.Body, func(nd ast.Node, stack []ast.Node) bool {
		as, ok := nd.(*ast.AssignStmt)
		if !ok || len(as.Lhs) != 1 {
			return true
		}
		id, ok := as.Lhs[0].(*ast.Ident)
		if !ok || info.ObjectOf(id) != runObj {
			return true
		}
		// the guards of this store, as a boolean function of N (slot != nil) and T (slot.HasTerminated()): no other
		// leaf may occur, the store must be reached for a live job (N ∧ ¬T) and not for a terminated one (N ∧ T) —
		// whatever the shape (nested ifs, merged conditions, else-if, switch arms, `!T` first)
		atom := func(e ast.Expr) (string, bool, bool) {
			if x, isNil, ok := nilTestFact(info, Fact{E: e, True: true}); ok && isSlot(x) {
				return "N", isNil, true
			}
			if call, ok := unparen(e).(*ast.CallExpr); ok {
				if se, ok := call.Fun.(*ast.SelectorExpr); ok && se.Sel.Name == "HasTerminated" && isSlot(se.X) {
					return "T", false, true
				}
			}
			return "", false, false
		}
		var unk []string
		holds := func(N, T bool) bool {
			for _, g := range guardsAt(info, stack) {
				if g.Cond == nil {
					unk = append(unk, "switch")
					return false
				}
				if evalBool(g.Cond, atom, map[string]bool{"N": N, "T": T}, &unk) == g.Neg {
					return false
				}
			}
			return true
		}
		live, dead := holds(true, false), holds(true, true)
		onlyThose := len(unk) == 0
		sawLive := live && !dead
		if onlyThose && sawLive {
			setsOnLive = true
		}
		return true
	})
	c.Check(setsOnLive, "R27c", "GarbageCollect:latch-on-live-job", loop.Pos(), "`running = true` is reached for every slot that is non-nil and not terminated (guarded by exactly those two tests)")
	// slot cleared only under HasTerminated() true
	okClear := true
	walkStack(loop.Body, func(nd ast.Node, stack []ast.Node) bool {
		as, ok := nd.(*ast.AssignStmt)
		if !ok || len(as.Lhs) != 1 || !isSlot(as.Lhs[0]) {
			return true
		}
		if _, isIx := unparen(as.Lhs[0]).(*ast.IndexExpr); !isIx {
			return true // `job := j.jobs[i]` loads the slot, it does not clear it
		}
		term := false
		for _, f := range factsOf(guardsAt(info, stack)) {
			if call, ok := unparen(f.E).(*ast.CallExpr); ok && f.True {
				if se, ok := call.Fun.(*ast.SelectorExpr); ok && se.Sel.Name == "HasTerminated" && isSlot(se.X) {
					term = true
				}
			}
		}
		if !term {
			okClear = false
		}
		return true
	})
	c.Check(okClear, "R27c", "GarbageCollect:clear-only-terminated", loop.Pos(), "a slot is cleared only when its job HasTerminated()")
	// truncation guarded by last != -1 (initial value) — accept switch/if forms: the
	// initial value of last must be negative and the truncation unreachable for it
	initNeg := false
	for _, d := range defs[lastObj] {
		if d != nil {
			if v, ok := constInt(info, d); ok && v < 0 {
				initNeg = true
			}
		}
	}
	st := pathTo(fd.Body, trunc)
	guardOK := false
	for _, g := range guardsAt(info, st) {
		if g.Tag != nil && g.Dflt {
			if id, ok := unparen(g.Tag).(*ast.Ident); ok && info.ObjectOf(id) == lastObj {
				for _, cs := range g.Cases {
					if v, ok := constInt(info, cs); ok && v < 0 {
						guardOK = true
					}
				}
			}
		}
		if g.Cond != nil {
			if x, op, k, ok := cmpNorm(info, g.Cond); ok {
				if id, ok := x.(*ast.Ident); ok && info.ObjectOf(id) == lastObj {
					p := intPred(op, k)
					if g.Neg {
						q := p
						p = func(v int64) bool { return !q(v) }
					}
					if !p(-1) {
						guardOK = true
					}
				}
			}
		}
	}
	c.Check(initNeg && guardOK, "R27c", "GarbageCollect:truncate-guard", trunc.Pos(), "the truncation jobs[:last] is not executed for the initial (negative) value of last (init-negative=%v guarded=%v)", initNeg, guardOK)
}

// jobsScanCoversAll: the for loop runs its index over exactly 0..len(jobs)-1, in either direction.
func (c *Ctx) jobsScanCoversAll(info *types.Info, fd *ast.FuncDecl, loop *ast.ForStmt) bool {
	as, ok := loop.Init.(*ast.AssignStmt)
	if !ok || len(as.Lhs) != 1 || len(as.Rhs) != 1 || loop.Cond == nil {
		return false
	}
	id, ok := as.Lhs[0].(*ast.Ident)
	if !ok {
		return false
	}
	iObj := info.ObjectOf(id)
	// the index is stepped by the post statement only
	stepped := false
	ast.Inspect(loop.Body, func(nd ast.Node) bool {
		switch s := nd.(type) {
		case *ast.AssignStmt:
			for _, l := range s.Lhs {
				if li, ok := l.(*ast.Ident); ok && info.ObjectOf(li) == iObj {
					stepped = true
				}
			}
		case *ast.IncDecStmt:
			if li, ok := s.X.(*ast.Ident); ok && info.ObjectOf(li) == iObj {
				stepped = true
			}
		}
		return true
	})
	inc, ok := loop.Post.(*ast.IncDecStmt)
	if !ok || stepped {
		return false
	}
	if pi, ok := inc.X.(*ast.Ident); !ok || info.ObjectOf(pi) != iObj {
		return false
	}
	defs := localDefs(info, fd)
	isLen := func(e ast.Expr) bool {
		call, ok := isBuiltinCall(info, defs.resolve1(info, e), "len")
		return ok && len(call.Args) == 1 && isField(info, call.Args[0], jobsT, "jobs")
	}
	if inc.Tok == token.DEC {
		b, ok := unparen(as.Rhs[0]).(*ast.BinaryExpr)
		if !ok || b.Op != token.SUB || !isLen(b.X) {
			return false
		}
		if v, ok := constInt(info, b.Y); !ok || v != 1 {
			return false
		}
		x, op, k, ok := cmpNorm(info, loop.Cond)
		if !ok {
			return false
		}
		xi, ok := x.(*ast.Ident)
		return ok && info.ObjectOf(xi) == iObj && samePredOnRange(intPred(op, k), func(v int64) bool { return v >= 0 }, -2, 3)
	}
	// ascending: i := 0; i < len(jobs) (or i <= len(jobs)-1, i != len(jobs)); i++
	if v, ok := constInt(info, as.Rhs[0]); !ok || v != 0 {
		return false
	}
	b, ok := unparen(loop.Cond).(*ast.BinaryExpr)
	if !ok {
		return false
	}
	l, r, op := b.X, b.Y, b.Op
	if li, ok := unparen(r).(*ast.Ident); ok && info.ObjectOf(li) == iObj { // len(jobs) > i
		l, r = r, l
		switch op {
		case token.GTR:
			op = token.LSS
		case token.GEQ:
			op = token.LEQ
		case token.LSS:
			op = token.GTR
		case token.LEQ:
			op = token.GEQ
		}
	}
	if li, ok := unparen(l).(*ast.Ident); !ok || info.ObjectOf(li) != iObj {
		return false
	}
	switch op {
	case token.LSS, token.NEQ:
		return isLen(r)
	case token.LEQ:
		if rb, ok := unparen(r).(*ast.BinaryExpr); ok && rb.Op == token.SUB && isLen(rb.X) {
			v, ok := constInt(info, rb.Y)
			return ok && v == 1
		}
	}
	return false
}
