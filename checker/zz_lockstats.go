package main

import (
	"os"
	"strings"
)

// Discovery aid (not a registered property of the manifest): prints the
// lockset verdict for every field of a struct so that the guarded-by tables
// can be built and confirmed by reading.
//
//	LS_PKG=lang LS_TYPE=Variables LS_MUTEX=mutex LS_SCOPE=lang,builtins/... murexlint -noevidence LOCKSTATS
func init() {
	register("LOCKSTATS", "discovery aid", func(c *Ctx) {
		pkg, typ, mu := os.Getenv("LS_PKG"), os.Getenv("LS_TYPE"), os.Getenv("LS_MUTEX")
		scope := []string{pkg}
		if s := os.Getenv("LS_SCOPE"); s != "" {
			scope = strings.Split(s, ",")
		}
		c.Load(scope...)
		pk := c.Pkg(pkg)
		st := structOf(pk.Types.Scope().Lookup(typ).Type())
		var fields []string
		for i := 0; i < st.NumFields(); i++ {
			if n := st.Field(i).Name(); n != mu {
				fields = append(fields, n)
			}
		}
		c.runLockset("LS", LockSpec{Pkg: pkg, Type: typ, Mutex: mu, Fields: fields, Scope: scope})
	})
}
