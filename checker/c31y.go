package main

import (
	"go/ast"
	"go/token"
	"go/types"
	"sort"
)

// R31g — an expected output that does not match fails the test. For StdoutMatch /
// StderrMatch the plan states the exact text; whenever that text is non-empty and the
// captured stream differs from it, runTest must set the verdict to false — whatever
// else the plan contains (a regexp for the same stream, other assertions). Decided by
// evaluating the statement that holds the comparison, with its enclosing guards, over
// all assignments of its conditions.
func init() {
	extend("C31", func(c *Ctx) {
		c.Rule("R31g", "runTest, StdoutMatch and StderrMatch: the top-level statement of runTest that contains `string(<stream>) == plan.<X>Match` is evaluated (if/else, tagless switch, nested blocks) for every assignment of its conditions: whenever the comparison is false and plan.<X>Match is non-empty, a store of false to the verdict (or `return false`) is executed")
		fd, pk := c.MustFunc("R31g", "lang", "", "runTest")
		if fd == nil {
			return
		}
		info := pk.TypesInfo
		n := 0
		for _, field := range []string{"StdoutMatch", "StderrMatch"} {
			isField := func(e ast.Expr) bool {
				se, ok := unparen(e).(*ast.SelectorExpr)
				return ok && se.Sel.Name == field
			}
			// the comparison
			var top ast.Stmt
			for _, s := range fd.Body.List {
				found := false
				ast.Inspect(s, func(nd ast.Node) bool {
					if be, ok := nd.(*ast.BinaryExpr); ok && (be.Op == token.EQL || be.Op == token.NEQ) {
						if (isField(be.X) || isField(be.Y)) && !isEmptyStr(info, be.X) && !isEmptyStr(info, be.Y) {
							found = true
						}
					}
					return !found
				})
				if found {
					top = s
					break
				}
			}
			key := "runTest:" + field
			if top == nil {
				c.Lost("R31g", key, "runTest no longer compares a stream with plan.%s at its top level", field)
				continue
			}
			n++
			atom := func(e ast.Expr) (string, bool, bool) {
				be, ok := unparen(e).(*ast.BinaryExpr)
				if ok && (be.Op == token.EQL || be.Op == token.NEQ) {
					x, y := be.X, be.Y
					if isField(y) || isEmptyStr(info, x) {
						x, y = y, x
					}
					if isField(x) {
						if isEmptyStr(info, y) {
							return "NONEMPTY", be.Op == token.EQL, true // plan.F != "" ; `== ""` is its negation
						}
						return "EQ", be.Op == token.NEQ, true
					}
				}
				switch x := unparen(e).(type) {
				case *ast.BinaryExpr:
					if x.Op == token.LAND || x.Op == token.LOR {
						return "", false, false
					}
				case *ast.UnaryExpr:
					if x.Op == token.NOT {
						return "", false, false
					}
				case *ast.Ident:
					if x.Name == "true" || x.Name == "false" {
						return "", false, false
					}
				}
				return "x:" + c.src(e), false, true
			}
			// collect atoms
			set := map[string]bool{}
			var collect func(e ast.Expr)
			collect = func(e ast.Expr) {
				e = unparen(e)
				if nm, _, ok := atom(e); ok {
					set[nm] = true
					return
				}
				switch x := e.(type) {
				case *ast.BinaryExpr:
					collect(x.X)
					collect(x.Y)
				case *ast.UnaryExpr:
					collect(x.X)
				}
			}
			ast.Inspect(top, func(nd ast.Node) bool {
				switch x := nd.(type) {
				case *ast.IfStmt:
					collect(x.Cond)
				case *ast.CaseClause:
					for _, e := range x.List {
						collect(e)
					}
				}
				return true
			})
			var atoms []string
			for a := range set {
				atoms = append(atoms, a)
			}
			sort.Strings(atoms)
			if len(atoms) > 10 || !set["EQ"] {
				c.Undecided("R31g", key, top.Pos(), "statement outside the model (%d conditions, comparison found: %v)", len(atoms), set["EQ"])
				continue
			}
			undec := ""
			var exec func(list []ast.Stmt, env map[string]bool) (failed, left bool)
			cond := func(e ast.Expr, env map[string]bool) bool {
				var unk []string
				v := evalBool(e, atom, env, &unk)
				if len(unk) > 0 {
					undec = unk[0]
				}
				return v
			}
			exec = func(list []ast.Stmt, env map[string]bool) (bool, bool) {
				failed := false
				for _, s := range list {
					switch x := s.(type) {
					case *ast.AssignStmt:
						for i, l := range x.Lhs {
							if id, ok := unparen(l).(*ast.Ident); ok && len(x.Rhs) == len(x.Lhs) {
								if v, ok := info.ObjectOf(id).(*types.Var); ok && types.Identical(v.Type(), types.Typ[types.Bool]) {
									if tv := info.Types[x.Rhs[i]]; tv.Value != nil && tv.Value.ExactString() == "false" {
										failed = true
									}
								}
							}
						}
					case *ast.ReturnStmt:
						if len(x.Results) == 1 {
							if tv := info.Types[x.Results[0]]; tv.Value != nil && tv.Value.ExactString() == "false" {
								return true, true
							}
						}
						return failed, true
					case *ast.BlockStmt:
						f, l := exec(x.List, env)
						failed = failed || f
						if l {
							return failed, true
						}
					case *ast.IfStmt:
						if x.Init != nil {
							undec = "if with init"
						}
						if cond(x.Cond, env) {
							f, l := exec(x.Body.List, env)
							failed = failed || f
							if l {
								return failed, true
							}
						} else if x.Else != nil {
							f, l := exec([]ast.Stmt{x.Else}, env)
							failed = failed || f
							if l {
								return failed, true
							}
						}
					case *ast.SwitchStmt:
						if x.Tag != nil || x.Init != nil {
							undec = "tagged switch"
							continue
						}
						var chosen *ast.CaseClause
						var dflt *ast.CaseClause
						for _, cs := range x.Body.List {
							cc := cs.(*ast.CaseClause)
							if cc.List == nil {
								dflt = cc
								continue
							}
							if chosen == nil {
								for _, e := range cc.List {
									if cond(e, env) {
										chosen = cc
									}
								}
							}
						}
						if chosen == nil {
							chosen = dflt
						}
						if chosen != nil {
							f, l := exec(chosen.Body, env)
							failed = failed || f
							if l {
								return failed, true
							}
						}
					}
				}
				return failed, false
			}
			bad := ""
			rows := 0
			for m := 0; m < 1<<len(atoms) && bad == "" && undec == ""; m++ {
				env := map[string]bool{}
				for i, a := range atoms {
					env[a] = m&(1<<i) != 0
				}
				if env["EQ"] || (set["NONEMPTY"] && !env["NONEMPTY"]) {
					continue
				}
				if !set["NONEMPTY"] {
					// no explicit non-empty test anywhere: every mismatch must fail
				}
				rows++
				if f, _ := exec([]ast.Stmt{top}, env); !f {
					desc := ""
					for _, a := range atoms {
						if a != "EQ" && a != "NONEMPTY" {
							desc += " " + a[2:] + "=" + boolStr(env[a])
						}
					}
					bad = "with the stream different from a non-empty plan." + field + " and" + desc + " the verdict is not set to false"
				}
			}
			switch {
			case undec != "":
				c.Undecided("R31g", key, top.Pos(), "the statement holding the %s comparison has a form outside the model: %s", field, undec)
			case bad != "":
				c.Viol("R31g", key, top.Pos(), "%s: a test whose output does not match the expected text passes", bad)
			default:
				c.OK("R31g", key, top.Pos(), "on all %d assignments with a mismatch of a non-empty plan.%s the verdict becomes false", rows, field)
			}
		}
		c.MinCount("R31g", "exact-match assertions in runTest", n, 2)
	})
}

func isEmptyStr(info *types.Info, e ast.Expr) bool {
	tv, ok := info.Types[e]
	return ok && tv.Value != nil && tv.Value.ExactString() == `""`
}
