package main

import (
	"go/ast"
	"go/token"
	"go/types"
	"sort"
)

// R16d — "on a map, [key] returns that key's value" holds for EVERY key of a
// multi-key lookup `[a b c]`: which spelling of a key is looked up may depend on
// that key (and the map) only, never on what happened while an earlier key of the
// same request was searched. itoIndexMap walks the requested keys in a loop and,
// per key, runs a search (as typed, Title, lower, UPPER) driven by local state.
// Every piece of that state — anything the looked-up key depends on, through data
// or control — must start afresh for each requested key: declared inside the
// per-key loop body, or unconditionally re-assigned in the iteration before it is
// read. State that survives from the previous key makes the second key of
// {"ID":7,"name":"bob"} -> [id name] start at the UPPER spelling: "key not found".
func init() {
	extend("C16", func(c *Ctx) {
		c.Rule("R16d", "per-key independence in lang.itoIndexMap: every local variable that the key of a lookup in the map parameter depends on (transitively: the values assigned to it, and the conditions/switch tags/earlier exits that control those assignments) and that is written inside the loop over the requested keys is iteration-fresh — declared inside that loop's body, or on every path definitely assigned (from an expression not reading it) in the same iteration before each read")
		fd, pk := c.MustFunc("R16d", "lang", "", "itoIndexMap")
		if fd == nil {
			return
		}
		info := pk.TypesInfo
		var mapParam types.Object
		if fd.Type.Params != nil {
			for _, f := range fd.Type.Params.List {
				for _, nm := range f.Names {
					if o := info.Defs[nm]; o != nil {
						if _, ok := o.Type().Underlying().(*types.Map); ok {
							mapParam = o
						}
					}
				}
			}
		}
		if mapParam == nil {
			c.Undecided("R16d", "itoIndexMap:map-param", fd.Pos(), "itoIndexMap has no map parameter")
			return
		}
		isLocal := func(o types.Object) bool {
			v, ok := o.(*types.Var)
			return ok && !v.IsField() && v.Pkg() == pk.Types && v.Parent() != pk.Types.Scope()
		}
		localsIn := func(n ast.Node, into map[types.Object]bool) {
			if n == nil {
				return
			}
			ast.Inspect(n, func(x ast.Node) bool {
				if id, ok := x.(*ast.Ident); ok {
					if o := info.Uses[id]; o != nil && isLocal(o) {
						into[o] = true
					}
				}
				return true
			})
		}

		// the lookups and the per-key loop (outermost loop around a lookup)
		var loop ast.Stmt
		var loopBody *ast.BlockStmt
		seeds := map[types.Object]bool{}
		nLookups, outside := 0, 0
		walkStack(fd.Body, func(nd ast.Node, stack []ast.Node) bool {
			ix, ok := nd.(*ast.IndexExpr)
			if !ok {
				return true
			}
			id, ok := unparen(ix.X).(*ast.Ident)
			if !ok || info.ObjectOf(id) != mapParam {
				return true
			}
			nLookups++
			var l ast.Stmt
			var lb *ast.BlockStmt
			for _, a := range stack {
				switch s := a.(type) {
				case *ast.ForStmt:
					if l == nil {
						l, lb = s, s.Body
					}
				case *ast.RangeStmt:
					if l == nil {
						l, lb = s, s.Body
					}
				}
			}
			if l == nil {
				outside++
				return true
			}
			if loop != nil && loop != l {
				c.Undecided("R16d", "itoIndexMap:per-key-loop", ix.Pos(), "lookups in the map parameter sit in two different outer loops; the rule knows one loop over the requested keys")
				return true
			}
			loop, loopBody = l, lb
			localsIn(ix.Index, seeds)
			return true
		})
		c.MinCount("R16d", "lookups in the map parameter of itoIndexMap", nLookups, 1)
		if nLookups == 0 {
			return
		}
		if loop == nil {
			c.Undecided("R16d", "itoIndexMap:per-key-loop", fd.Pos(), "no lookup in the map parameter is inside a loop over the requested keys (%d outside)", outside)
			return
		}
		inBody := func(p token.Pos) bool { return p > loopBody.Lbrace && p < loopBody.Rbrace }

		// write sites of whole local variables
		type write struct {
			stmt ast.Node
			rhs  []ast.Expr
		}
		writes := map[types.Object][]write{}
		addW := func(e ast.Expr, st ast.Node, rhs []ast.Expr) {
			if id, ok := unparen(e).(*ast.Ident); ok && id.Name != "_" {
				if o := info.ObjectOf(id); o != nil && isLocal(o) {
					writes[o] = append(writes[o], write{st, rhs})
				}
			}
		}
		ast.Inspect(fd.Body, func(n ast.Node) bool {
			switch s := n.(type) {
			case *ast.AssignStmt:
				for i, l := range s.Lhs {
					if len(s.Lhs) == len(s.Rhs) {
						addW(l, s, []ast.Expr{s.Rhs[i]})
					} else {
						addW(l, s, s.Rhs)
					}
				}
			case *ast.ValueSpec:
				for i, id := range s.Names {
					if len(s.Values) == len(s.Names) {
						addW(id, s, []ast.Expr{s.Values[i]})
					} else {
						addW(id, s, s.Values)
					}
				}
			case *ast.IncDecStmt:
				addW(s.X, s, nil)
			case *ast.RangeStmt:
				if s.Key != nil {
					addW(s.Key, s, []ast.Expr{s.X})
				}
				if s.Value != nil {
					addW(s.Value, s, []ast.Expr{s.X})
				}
			case *ast.UnaryExpr:
				if s.Op == token.AND {
					addW(s.X, s, nil) // address taken: may be written through the pointer
				}
			}
			return true
		})
		condsOf := func(s ast.Node, into map[types.Object]bool) {
			ast.Inspect(s, func(x ast.Node) bool {
				switch y := x.(type) {
				case *ast.FuncLit:
					return false
				case *ast.IfStmt:
					localsIn(y.Cond, into)
				case *ast.SwitchStmt:
					localsIn(y.Tag, into)
				case *ast.CaseClause:
					for _, e := range y.List {
						localsIn(e, into)
					}
				case *ast.ForStmt:
					localsIn(y.Cond, into)
				}
				return true
			})
		}
		hasExit := func(s ast.Node) bool {
			found := false
			ast.Inspect(s, func(x ast.Node) bool {
				switch x.(type) {
				case *ast.FuncLit:
					return false
				case *ast.BranchStmt, *ast.ReturnStmt:
					found = true
				}
				return !found
			})
			return found
		}
		// control dependences of a statement inside the per-key loop
		controlOf := func(st ast.Node, into map[types.Object]bool) {
			path := pathTo(loopBody, st)
			for i := 0; i+1 < len(path); i++ {
				parent, child := path[i], path[i+1]
				var list []ast.Stmt
				switch p := parent.(type) {
				case *ast.IfStmt:
					localsIn(p.Cond, into)
				case *ast.SwitchStmt:
					localsIn(p.Tag, into)
				case *ast.ForStmt:
					localsIn(p.Cond, into)
				case *ast.CaseClause:
					for _, e := range p.List {
						localsIn(e, into)
					}
					list = p.Body
				case *ast.BlockStmt:
					list = p.List
				}
				for _, s := range list {
					if ast.Node(s) == child {
						break
					}
					if hasExit(s) {
						condsOf(s, into)
					}
				}
			}
		}
		dep := map[types.Object]bool{}
		work := []types.Object{}
		for o := range seeds {
			dep[o] = true
			work = append(work, o)
		}
		for len(work) > 0 {
			o := work[len(work)-1]
			work = work[:len(work)-1]
			more := map[types.Object]bool{}
			for _, w := range writes[o] {
				for _, r := range w.rhs {
					localsIn(r, more)
				}
				if inBody(w.stmt.Pos()) {
					controlOf(w.stmt, more)
				}
			}
			for m := range more {
				if !dep[m] {
					dep[m] = true
					work = append(work, m)
				}
			}
		}

		// definite assignment of x by statement s (from an expression that does not read x)
		leaves := func(list []ast.Stmt) bool {
			if len(list) == 0 {
				return false
			}
			switch s := list[len(list)-1].(type) {
			case *ast.ReturnStmt:
				return true
			case *ast.BranchStmt:
				return s.Tok == token.CONTINUE && s.Label == nil
			case *ast.ExprStmt:
				if call, ok := s.X.(*ast.CallExpr); ok {
					if _, ok := isBuiltinCall(info, call, "panic"); ok {
						return true
					}
				}
			}
			return false
		}
		var defAssigns func(s ast.Stmt, x types.Object) bool
		anyDef := func(list []ast.Stmt, x types.Object) bool {
			for _, s := range list {
				if defAssigns(s, x) {
					return true
				}
			}
			return false
		}
		defAssigns = func(s ast.Stmt, x types.Object) bool {
			switch t := s.(type) {
			case nil:
				return false
			case *ast.AssignStmt:
				if t.Tok != token.ASSIGN && t.Tok != token.DEFINE {
					return false
				}
				hit := false
				for _, l := range t.Lhs {
					if id, ok := unparen(l).(*ast.Ident); ok && info.ObjectOf(id) == x {
						hit = true
					}
				}
				if !hit {
					return false
				}
				for _, r := range t.Rhs {
					if mentions(info, r, x) {
						return false
					}
				}
				return true
			case *ast.BlockStmt:
				return anyDef(t.List, x)
			case *ast.LabeledStmt:
				return defAssigns(t.Stmt, x)
			case *ast.IfStmt:
				if t.Init != nil && defAssigns(t.Init, x) {
					return true
				}
				if t.Else == nil || mentions(info, t.Cond, x) {
					return false
				}
				var el []ast.Stmt
				switch e := t.Else.(type) {
				case *ast.BlockStmt:
					el = e.List
				case *ast.IfStmt:
					el = []ast.Stmt{e}
				}
				return (anyDef(t.Body.List, x) || leaves(t.Body.List)) && (anyDef(el, x) || leaves(el))
			case *ast.SwitchStmt:
				if t.Init != nil && defAssigns(t.Init, x) {
					return true
				}
				if t.Tag != nil && mentions(info, t.Tag, x) {
					return false
				}
				hasDefault := false
				for _, cl := range t.Body.List {
					cc := cl.(*ast.CaseClause)
					if cc.List == nil {
						hasDefault = true
					}
					for _, e := range cc.List {
						if mentions(info, e, x) {
							return false
						}
					}
					if !(anyDef(cc.Body, x) || leaves(cc.Body)) {
						return false
					}
				}
				return hasDefault
			}
			return false
		}

		// per variable
		var vars []types.Object
		for o := range dep {
			n := 0
			for _, w := range writes[o] {
				if inBody(w.stmt.Pos()) {
					n++
				}
			}
			if n > 0 {
				vars = append(vars, o)
			}
		}
		sort.Slice(vars, func(i, j int) bool { return vars[i].Pos() < vars[j].Pos() })
		for _, x := range vars {
			key := "itoIndexMap:per-key-state:" + x.Name()
			if inBody(x.Pos()) {
				c.OK("R16d", key, x.Pos(), "%s is declared inside the loop over the requested keys: a new variable for every key", x.Name())
				continue
			}
			if x.Pos() >= loop.Pos() && x.Pos() < loopBody.Lbrace {
				// the loop's own induction variable, modified in the body: which key is next then depends on the search
				c.Undecided("R16d", key, x.Pos(), "%s is a variable of the loop over the requested keys itself and is written in its body", x.Name())
				continue
			}
			// declared outside: every read in the loop body must follow a definite assignment of this iteration
			var firstBad ast.Node
			walkStack(loopBody, func(nd ast.Node, stack []ast.Node) bool {
				if firstBad != nil {
					return false
				}
				id, ok := nd.(*ast.Ident)
				if !ok || info.Uses[id] != x {
					return true
				}
				// a pure store `x = …` / `x, y := …` is not a read
				if len(stack) >= 2 {
					if as, ok := stack[len(stack)-2].(*ast.AssignStmt); ok && (as.Tok == token.ASSIGN || as.Tok == token.DEFINE) {
						for _, l := range as.Lhs {
							if l == ast.Expr(id) {
								return true
							}
						}
					}
				}
				covered := false
				for i := 0; i+1 < len(stack) && !covered; i++ {
					parent, child := stack[i], stack[i+1]
					var list []ast.Stmt
					switch p := parent.(type) {
					case *ast.BlockStmt:
						list = p.List
					case *ast.CaseClause:
						list = p.Body
					case *ast.IfStmt:
						if p.Init != nil && child != ast.Node(p.Init) && defAssigns(p.Init, x) {
							covered = true
						}
					case *ast.SwitchStmt:
						if p.Init != nil && child != ast.Node(p.Init) && defAssigns(p.Init, x) {
							covered = true
						}
					case *ast.ForStmt:
						if p.Init != nil && child != ast.Node(p.Init) && defAssigns(p.Init, x) {
							covered = true
						}
					}
					for _, s := range list {
						if ast.Node(s) == child {
							break
						}
						if defAssigns(s, x) {
							covered = true
							break
						}
					}
				}
				if !covered {
					firstBad = stack[len(stack)-2]
					if len(stack) >= 2 {
						for j := len(stack) - 1; j >= 0; j-- {
							if st, ok := stack[j].(ast.Stmt); ok {
								firstBad = st
								break
							}
						}
					}
				}
				return true
			})
			if firstBad == nil {
				c.OK("R16d", key, x.Pos(), "%s is declared outside the loop over the requested keys but assigned anew in every iteration before each read", x.Name())
			} else {
				what := c.src(firstBad)
				if len(what) > 60 {
					what = what[:60] + "…"
				}
				c.Viol("R16d", key, firstBad.Pos(), "%s steers which key is looked up in the map, is written inside the loop over the requested keys, but is declared outside it (%s) and read by `%s` without being re-assigned in that iteration: the search for one key starts from the state the previous key left behind, so in a multi-key lookup `[a b]` a key that exists is reported as not found (or found under another spelling) depending on the keys before it", x.Name(), c.pos(x.Pos()), what)
			}
		}
		c.MinCount("R16d", "search-state variables of itoIndexMap written per key", len(vars), 1)
	})
}
