package main

import (
	"go/ast"
	"go/constant"
	"go/token"
	"go/types"
	"strings"
)

// R13g — the string form kept beside every variable. `name = <expression>` stores a
// Go primitive; varConvertPrimitive computes the text that `$name`, "$name" and
// `out $name` print. It must be the loss-free string form of THAT value
// (types.ConvertGoType(value, str), whose float arm is FloatToString — R13a/R13f):
// no detour through another type on the way.
func init() {
	extend("C13", func(c *Ctx) {
		c.Rule("R13g", "lang.varConvertPrimitive passes its value parameter, never re-assigned, straight to types.ConvertGoType(value, types.String) and returns that string; and no function in lang/variables.go converts a float to an integer type (a whole float ≥ 2^63 would print as -9223372036854775808)")
		fd, pk := c.MustFunc("R13g", "lang", "", "varConvertPrimitive")
		if fd == nil {
			return
		}
		info := pk.TypesInfo
		var param types.Object
		if fd.Type.Params != nil && len(fd.Type.Params.List) > 0 && len(fd.Type.Params.List[0].Names) > 0 {
			param = info.Defs[fd.Type.Params.List[0].Names[0]]
		}
		defs := localDefs(info, fd.Body)
		reassigned := ""
		nConv, okConv := 0, true
		ast.Inspect(fd.Body, func(nd ast.Node) bool {
			switch x := nd.(type) {
			case *ast.AssignStmt:
				for _, l := range x.Lhs {
					if id, ok := unparen(l).(*ast.Ident); ok && param != nil && info.ObjectOf(id) == param {
						reassigned = c.src(x)
					}
				}
			case *ast.CallExpr:
				if fn, ok := callee(info, x).(*types.Func); ok && fn.Name() == "ConvertGoType" && len(x.Args) == 2 {
					nConv++
					// the value: the parameter, directly or through a single-definition local (`v := value`);
					// the target type: types.String or a constant with its value (`const target = types.String`)
					id, isID := defs.resolve1(info, x.Args[0]).(*ast.Ident)
					isStr := isPkgObj(info, x.Args[1], mx("lang/types"), "String")
					if !isStr && fn.Pkg() != nil {
						if k, isK := fn.Pkg().Scope().Lookup("String").(*types.Const); isK {
							if tv, has := info.Types[x.Args[1]]; has && tv.Value != nil && constant.Compare(tv.Value, token.EQL, k.Val()) {
								isStr = true
							}
						}
					}
					if !isID || info.ObjectOf(id) != param || !isStr {
						okConv = false
					}
				}
			}
			return true
		})
		c.Check(reassigned == "" && nConv == 1 && okConv, "R13g", "varConvertPrimitive:direct", fd.Pos(), "the stored string form is ConvertGoType(<value parameter>, str) of the unmodified parameter (conversions: %d, parameter re-assigned by %q)", nConv, reassigned)

		// no float→integer conversion in the file
		file := c.Fset.File(fd.Pos()).Name()
		n, bad := 0, 0
		for _, f := range pk.Syntax {
			if c.Fset.File(f.Pos()).Name() != file {
				continue
			}
			ast.Inspect(f, func(nd ast.Node) bool {
				call, ok := nd.(*ast.CallExpr)
				if !ok || len(call.Args) != 1 {
					return true
				}
				tv, isT := info.Types[call.Fun]
				if !isT || !tv.IsType() {
					return true
				}
				n++
				tb, ok1 := tv.Type.Underlying().(*types.Basic)
				at := info.Types[call.Args[0]].Type
				if at == nil {
					return true
				}
				ab, ok2 := at.Underlying().(*types.Basic)
				if ok1 && ok2 && tb.Info()&types.IsInteger != 0 && ab.Info()&types.IsFloat != 0 {
					bad++
					c.Viol("R13g", "variables.go:float-to-int#"+itoa(bad), call.Pos(), "%s converts a float to %s in %s: out of range for |f| ≥ 2^63, so the text of a whole-number float stops matching its value", c.src(call), tb.Name(), file[strings.LastIndex(file, "/")+1:])
				}
				return true
			})
		}
		if bad == 0 {
			c.OK("R13g", "variables.go:no-float-to-int", fd.Pos(), "%d type conversions in the file, none from a float to an integer type", n)
		}
	})
}
