package main

import (
	"go/ast"
	"go/types"
)

// helpers of R19c (map-miss dereference)

// mapMissCall: call whose callee value comes from a map element that may be
// absent: m[k](…) with func values, m[k].M(…) with interface/pointer element,
// m[k].F.M(…) / m[k].F(…) with a struct element holding an interface/pointer/func.
func mapMissCall(info *types.Info, call *ast.CallExpr) (string, *ast.IndexExpr) {
	isMapIx := func(e ast.Expr) *ast.IndexExpr {
		ix, ok := unparen(e).(*ast.IndexExpr)
		if !ok {
			return nil
		}
		if _, ok := info.TypeOf(ix.X).Underlying().(*types.Map); !ok {
			return nil
		}
		return ix
	}
	nilable := func(t types.Type) bool {
		switch t.Underlying().(type) {
		case *types.Interface, *types.Pointer, *types.Signature:
			return true
		}
		return false
	}
	fun := unparen(call.Fun)
	if ix := isMapIx(fun); ix != nil {
		if _, ok := info.TypeOf(ix).Underlying().(*types.Signature); ok {
			return "func-value", ix
		}
	}
	se, ok := fun.(*ast.SelectorExpr)
	if !ok {
		return "", nil
	}
	if ix := isMapIx(se.X); ix != nil {
		t := info.TypeOf(ix)
		sel := info.Selections[se]
		if sel == nil {
			return "", nil
		}
		if sel.Kind() == types.MethodVal && nilable(t) {
			if _, isIface := t.Underlying().(*types.Interface); isIface {
				return "iface-method", ix
			}
			return "", nil // pointer receiver methods may tolerate nil; not claimed
		}
		if sel.Kind() == types.FieldVal && nilable(info.TypeOf(se)) {
			return "func-field", ix
		}
	}
	if inner, ok := unparen(se.X).(*ast.SelectorExpr); ok {
		if ix := isMapIx(inner.X); ix != nil {
			sel := info.Selections[se]
			if sel != nil && sel.Kind() == types.MethodVal {
				if _, isIface := info.TypeOf(inner).Underlying().(*types.Interface); isIface {
					return "field-iface-method", ix
				}
			}
		}
	}
	return "", nil
}

func guardedMapEntry(c *Ctx, info *types.Info, ix *ast.IndexExpr, stack []ast.Node) bool {
	want := c.src(ix)
	for _, f := range factsOf(guardsAt(info, stack)) {
		b, ok := unparen(f.E).(*ast.BinaryExpr)
		if !ok {
			continue
		}
		x, y := unparen(b.X), unparen(b.Y)
		if id, ok := x.(*ast.Ident); ok && id.Name == "nil" {
			x, y = y, x
		}
		if id, ok := y.(*ast.Ident); !ok || id.Name != "nil" {
			continue
		}
		if (b.Op.String() == "!=") != f.True {
			continue
		}
		// x is m[k] or m[k].F...
		s := c.src(x)
		if s == want || (len(s) > len(want) && s[:len(want)] == want) {
			return true
		}
	}
	return false
}
