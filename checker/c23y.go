package main

import (
	"go/ast"
	"go/token"
	"go/types"
)

// R23e — the signature castParameters binds against is the one of the CURRENT
// declaration.
//
// castParameters reads murexFuncDetails.Parameters of the table entry. The
// entry is (re)written by MurexFuncs.Define. For the call to be typed "as
// declared", whatever Define makes visible in the table must carry exactly the
// `parameters` argument of that Define call — also when that argument is
// empty (a declaration without a signature has NO parameters; it does not
// inherit the previous declaration's).
//
// Decided over resolved facts: the table is the field MurexFuncs.fn, the entry
// type is lang.murexFuncDetails, the signature argument is the parameter of
// Define whose type is []MurexFuncParam (names play no role), locals are
// followed to their single definition.
func init() {
	extend("C23", func(c *Ctx) {
		c.Rule("R23e", "freshness of the signature: in MurexFuncs.Define every entry made visible in MurexFuncs.fn carries Parameters = the signature argument of this call — a composite literal stored into the table has Parameters: <that argument>; an entry written field by field (fresh or fetched from the table) gets `.Parameters = <that argument>` wherever any other field of it is stored, unconditionally with respect to those stores (same or enclosing block, not cut off by an earlier exit); outside Define nothing stores into MurexFuncs.fn[…] or into murexFuncDetails.Parameters")
		fd, pk := c.MustFunc("R23e", "lang", "MurexFuncs", "Define")
		if fd == nil {
			return
		}
		info := pk.TypesInfo
		const funcsT = modPath + "/lang.MurexFuncs"

		// the signature argument: the one parameter of type []MurexFuncParam
		var sigArg types.Object
		nSig := 0
		for _, f := range fd.Type.Params.List {
			for _, nm := range f.Names {
				o := info.Defs[nm]
				if o == nil {
					continue
				}
				if sl, ok := o.Type().Underlying().(*types.Slice); ok && namedPath(sl.Elem()) == c23FuncParamT {
					sigArg = o
					nSig++
				}
			}
		}
		if nSig != 1 {
			c.Lost("R23e", "Define:signature-argument", "MurexFuncs.Define has %d parameters of type []MurexFuncParam (expected exactly 1)", nSig)
			return
		}
		defs := localDefs(info, fd.Body)
		isSig := func(e ast.Expr) bool {
			id, ok := defs.resolve1(info, e).(*ast.Ident)
			return ok && info.ObjectOf(id) == sigArg && len(defs[sigArg]) == 0
		}
		isTableElem := func(e ast.Expr) bool {
			ix, ok := unparen(e).(*ast.IndexExpr)
			return ok && isField(info, ix.X, funcsT, "fn")
		}
		// literal: e (after following locals) is [&]murexFuncDetails{…}
		literal := func(e ast.Expr) *ast.CompositeLit {
			d := defs.resolve1(info, e)
			if u, ok := d.(*ast.UnaryExpr); ok && u.Op == token.AND {
				d = unparen(u.X)
			}
			if cl, ok := d.(*ast.CompositeLit); ok && namedPath(info.TypeOf(cl)) == c23FuncDetailsT {
				return cl
			}
			return nil
		}
		// litField: the value a literal gives to the named field (keyed or positional), nil when absent
		litField := func(cl *ast.CompositeLit, name string) ast.Expr {
			st := structOf(info.TypeOf(cl))
			for i, el := range cl.Elts {
				if kv, ok := el.(*ast.KeyValueExpr); ok {
					if id, ok := kv.Key.(*ast.Ident); ok && id.Name == name {
						return kv.Value
					}
					continue
				}
				if st != nil && i < st.NumFields() && st.Field(i).Name() == name {
					return el
				}
			}
			return nil
		}

		// field stores into entries, per entry variable
		type fstore struct {
			field string
			as    *ast.AssignStmt
			rhs   ast.Expr
			stack []ast.Node
		}
		stores := map[types.Object][]fstore{}
		var entryOrder []types.Object
		type tstore struct {
			as  *ast.AssignStmt
			rhs ast.Expr
		}
		var tstores []tstore
		undecided := false
		walkStack(fd.Body, func(n ast.Node, stack []ast.Node) bool {
			as, ok := n.(*ast.AssignStmt)
			if !ok {
				return true
			}
			for i, l := range as.Lhs {
				var rhs ast.Expr
				if len(as.Lhs) == len(as.Rhs) {
					rhs = as.Rhs[i]
				}
				if isTableElem(l) {
					tstores = append(tstores, tstore{as, rhs})
					continue
				}
				v, owner := fieldOf(info, l)
				if v == nil || owner != c23FuncDetailsT {
					continue
				}
				se := unparen(l).(*ast.SelectorExpr)
				base := unparen(se.X)
				if st, isStar := base.(*ast.StarExpr); isStar {
					base = unparen(st.X)
				}
				id, isId := base.(*ast.Ident)
				if !isId {
					// mf.fn[name].Parameters = … : an in-place update through the table expression itself
					undecided = true
					c.Undecided("R23e", "Define:entry-store-form", as.Pos(), "store into a murexFuncDetails field through %s: not an entry variable, the rule cannot group the stores of one entry", c.src(se.X))
					continue
				}
				o := info.ObjectOf(id)
				if _, seen := stores[o]; !seen {
					entryOrder = append(entryOrder, o)
				}
				stores[o] = append(stores[o], fstore{v.Name(), as, rhs, append([]ast.Node(nil), stack...)})
			}
			return true
		})

		// blocksOf: the chain of statement lists enclosing a statement, innermost last, with the index of the
		// statement (or of its ancestor) in each list
		type lvl struct {
			list []ast.Stmt
			idx  int
		}
		blocksOf := func(stack []ast.Node) []lvl {
			var out []lvl
			for i := 0; i < len(stack)-1; i++ {
				var list []ast.Stmt
				switch b := stack[i].(type) {
				case *ast.BlockStmt:
					list = b.List
				case *ast.CaseClause:
					list = b.Body
				case *ast.CommClause:
					list = b.Body
				default:
					continue
				}
				for k, s := range list {
					if ast.Node(s) == stack[i+1] {
						out = append(out, lvl{list, k})
					}
				}
			}
			return out
		}
		sameList := func(a, b []ast.Stmt) bool {
			return len(a) > 0 && len(b) > 0 && &a[0] == &b[0]
		}
		// covers: whenever statement `other` executes and the function goes on normally, the Parameters store `ps`
		// executes too: ps sits directly in a statement list that encloses (or is) other's list, and if ps comes
		// after other's branch, that branch does not leave the function/loop before reaching it
		covers := func(ps, other fstore) bool {
			pl := blocksOf(ps.stack)
			ol := blocksOf(other.stack)
			if len(pl) == 0 || len(ol) == 0 {
				return false
			}
			p := pl[len(pl)-1]
			for d, o := range ol {
				if !sameList(o.list, p.list) {
					continue
				}
				if p.idx <= o.idx {
					// ps precedes: no exit between ps and the start of other's branch at this level
					for k := p.idx + 1; k < o.idx; k++ {
						if terminates(info, o.list[k:k+1]) {
							return false
						}
					}
					return true
				}
				// ps follows: the nested lists on the way down to `other` must not terminate
				for _, in := range ol[d+1:] {
					if terminates(info, in.list) {
						return false
					}
				}
				return true
			}
			return false
		}

		nEntries := 0
		entryOK := map[types.Object]bool{}
		for _, o := range entryOrder {
			nEntries++
			ss := stores[o]
			var ps []fstore
			bad := false
			for _, s := range ss {
				if s.field != "Parameters" {
					continue
				}
				if s.as.Tok != token.ASSIGN || s.rhs == nil || !isSig(s.rhs) {
					bad = true
					c.Viol("R23e", "Define:entry-Parameters-value", s.as.Pos(), "the entry's Parameters is assigned %s, not the signature argument %s of this Define call: castParameters would bind the call's arguments against a signature the current declaration does not have", c.src(s.as), sigArg.Name())
					continue
				}
				ps = append(ps, s)
			}
			if bad {
				continue
			}
			okAll := true
			var miss fstore
			for _, s := range ss {
				if s.field == "Parameters" {
					continue
				}
				cov := false
				for _, p := range ps {
					if covers(p, s) {
						cov = true
					}
				}
				if !cov {
					okAll = false
					miss = s
					break
				}
			}
			// a literal-initialised entry already carries its Parameters when the literal sets it
			litHasSig := false
			if ds := defs[o]; len(ds) == 1 && ds[0] != nil {
				if cl := literal(ds[0]); cl != nil {
					v := litField(cl, "Parameters")
					litHasSig = v != nil && isSig(v)
				}
			}
			entryOK[o] = litHasSig || (len(ps) > 0 && okAll)
			if entryOK[o] {
				c.OK("R23e", "Define:entry-fields:"+itoa(nEntries), ss[0].as.Pos(), "every store into a field of this entry is accompanied by Parameters = %s", sigArg.Name())
			} else if len(ps) == 0 {
				c.Viol("R23e", "Define:entry-Parameters-missing", ss[0].as.Pos(), "Define updates fields of a function-table entry (%s …) but never stores the signature argument into its Parameters: a redefinition keeps the previous declaration's signature and castParameters converts/rejects arguments by it", c.src(ss[0].as))
			} else {
				c.Viol("R23e", "Define:entry-Parameters-conditional", ps[0].as.Pos(), "Define stores %s on a path where `Parameters = %s` (line %s) is not guaranteed to run: when it is skipped the entry keeps the previous declaration's signature (e.g. `function f (n: int) {…}` then `function f {…}`; `f abc` still fails to convert 'abc' to int)", c.src(miss.as), sigArg.Name(), c.pos(ps[0].as.Pos()))
			}
		}

		// what is stored into the table
		for i, ts := range tstores {
			key := "Define:table-store:" + itoa(i+1)
			if ts.rhs == nil || ts.as.Tok != token.ASSIGN {
				c.Undecided("R23e", key, ts.as.Pos(), "store into MurexFuncs.fn of an unrecognised form: %s", c.src(ts.as))
				continue
			}
			if cl := literal(ts.rhs); cl != nil {
				v := litField(cl, "Parameters")
				varOK := true
				if id, isId := unparen(ts.rhs).(*ast.Ident); isId {
					if ok, has := entryOK[info.ObjectOf(id)]; has && !ok {
						varOK = false
					}
				}
				// a literal without Parameters is fine only when the entry variable gets it by a covered field store
				litOK := v != nil && isSig(v)
				if !litOK {
					if id, isId := unparen(ts.rhs).(*ast.Ident); isId {
						if ok, has := entryOK[info.ObjectOf(id)]; has && ok && v == nil {
							litOK = true
						}
					}
				}
				what := "absent"
				if v != nil {
					what = c.src(v)
				}
				c.Check(litOK && varOK, "R23e", key, ts.as.Pos(), "the entry stored into the function table is a fresh murexFuncDetails whose Parameters is the signature argument of this call (Parameters: %s)", what)
				continue
			}
			// new(murexFuncDetails) / an entry fetched from the table, filled field by field
			d := defs.resolve1(info, ts.rhs)
			if id, isId := unparen(ts.rhs).(*ast.Ident); isId {
				o := info.ObjectOf(id)
				if ok, has := entryOK[o]; has {
					c.Check(ok, "R23e", key, ts.as.Pos(), "the entry variable %s stored into the function table gets Parameters = %s together with its other fields", id.Name, sigArg.Name())
					continue
				}
				if _, isNew := isBuiltinCall(info, d, "new"); isNew {
					c.Viol("R23e", key, ts.as.Pos(), "an empty murexFuncDetails is stored into the table and its Parameters is never set from %s", sigArg.Name())
					continue
				}
			}
			c.Undecided("R23e", key, ts.as.Pos(), "the value stored into MurexFuncs.fn (%s) is neither a murexFuncDetails literal nor an entry variable filled in Define: cannot decide which signature it carries", c.src(ts.rhs))
		}
		if len(tstores) == 0 && len(entryOrder) == 0 && !undecided {
			c.Lost("R23e", "Define:installs-entry", "MurexFuncs.Define neither stores into MurexFuncs.fn nor into fields of an entry: the definition site moved")
		}
		c.MinCount("R23e", "stores that make a definition visible (table stores + entry variables)", len(tstores)+len(entryOrder), 1)

		// who may write: no other function of package lang stores into the table or into an entry's Parameters
		nOther := 0
		eachFunc(pk, func(g *ast.FuncDecl) {
			if g == fd {
				return
			}
			gdefs := localDefs(info, g.Body)
			ast.Inspect(g.Body, func(n ast.Node) bool {
				as, ok := n.(*ast.AssignStmt)
				if !ok {
					return true
				}
				for _, l := range as.Lhs {
					qn := g.Name.Name
					if r := recvName(g); r != "" {
						qn = "(" + r + ")." + qn
					}
					if isTableElem(l) {
						nOther++
						c.Viol("R23e", qn+":stores-function-table", as.Pos(), "%s stores into MurexFuncs.fn outside Define (%s): the entry's signature is not tied to a declaration", qn, c.src(as))
					}
					if v, owner := fieldOf(info, l); v != nil && owner == c23FuncDetailsT && v.Name() == "Parameters" {
						// a private copy built in the same function (literal / new) is not a table entry
						se := unparen(l).(*ast.SelectorExpr)
						d := gdefs.resolve1(info, se.X)
						if u, isU := d.(*ast.UnaryExpr); isU && u.Op == token.AND {
							d = unparen(u.X)
						}
						if _, isCL := d.(*ast.CompositeLit); isCL {
							continue
						}
						if _, isNew := isBuiltinCall(info, d, "new"); isNew {
							continue
						}
						nOther++
						c.Viol("R23e", qn+":stores-Parameters", as.Pos(), "%s overwrites murexFuncDetails.Parameters outside Define (%s)", qn, c.src(as))
					}
				}
				return true
			})
		})
		if nOther == 0 {
			c.OK("R23e", "lang:only-Define-writes-signatures", fd.Pos(), "no function of package lang other than MurexFuncs.Define stores into MurexFuncs.fn[…] or murexFuncDetails.Parameters")
		}
	})
}
