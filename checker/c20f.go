package main

import (
	"go/ast"
	"go/token"
	"go/types"
)

// R20f — the contract behind ParseBlock's explicit panics. blk.panic(X, Y) sits in
// the default arm of `case X:` and is reached when a sub-parser (tree != nil) has
// handed the position back at a rune X that is NOT followed by Y. R20a accepts those
// sites on the reviewed claim that the sub-parsers never do that; this rule checks
// the claim: in the sub-parsers that hand a position back to ParseBlock
// (parseExpression, parseStatement), every return inside `case X:` that can be a
// normal (nil-error) return is control-dependent on nextChar() == Y.
func init() {
	extend("C20", func(c *Ctx) {
		c.Rule("R20f", "sub-parser hand-back contract: for every blk.panic(X, Y) in BlockT.ParseBlock, each return of parseExpression / parseStatement inside its `case X:` arm that may return a nil error is guarded by nextChar() == Y (directly, through a local holding nextChar(), or as the arm of a switch on it) — a sub-parser that ends at a lone X makes ParseBlock panic")
		fb, pk := c.MustFunc("R20f", "lang/expressions", "BlockT", "ParseBlock")
		if fb == nil {
			return
		}
		info := pk.TypesInfo
		type pair struct {
			x, y string
			pos  token.Pos
		}
		var pairs []pair
		ast.Inspect(fb.Body, func(nd ast.Node) bool {
			call, ok := nd.(*ast.CallExpr)
			if !ok || len(call.Args) != 2 {
				return true
			}
			fn, ok := callee(info, call).(*types.Func)
			if !ok || fn.Name() != "panic" || fn.Pkg() == nil {
				return true
			}
			x, y := info.Types[call.Args[0]].Value, info.Types[call.Args[1]].Value
			if x == nil || y == nil {
				c.Undecided("R20f", "panic-args", call.Pos(), "blk.panic called with non-constant runes: %s", c.src(call))
				return true
			}
			pairs = append(pairs, pair{x.ExactString(), y.ExactString(), call.Pos()})
			return true
		})
		c.MinCount("R20f", "blk.panic(X, Y) sites in ParseBlock", len(pairs), 2)
		isNextChar := func(defs defMap, e ast.Expr) bool {
			e = defs.resolve1(info, e)
			call, ok := unparen(e).(*ast.CallExpr)
			if !ok {
				return false
			}
			fn, ok := callee(info, call).(*types.Func)
			return ok && fn.Name() == "nextChar"
		}
		isConst := func(e ast.Expr, v string) bool {
			tv := info.Types[e]
			return tv.Value != nil && tv.Value.ExactString() == v
		}
		nRet := 0
		for _, sub := range []string{"parseExpression", "parseStatement"} {
			fd, _ := c.MustFunc("R20f", "lang/expressions", "ParserT", sub)
			if fd == nil {
				continue
			}
			defs := localDefs(info, fd.Body)
			for _, pr := range pairs {
				nArms := 0
				walkStack(fd.Body, func(nd ast.Node, stack []ast.Node) bool {
					cc, ok := nd.(*ast.CaseClause)
					if !ok {
						return true
					}
					has := false
					for _, e := range cc.List {
						if isConst(e, pr.x) {
							has = true
						}
					}
					if !has || len(stack) < 3 {
						return true
					}
					sw, ok := stack[len(stack)-3].(*ast.SwitchStmt)
					if !ok || sw.Tag == nil {
						return true
					}
					if _, ok := unparen(sw.Tag).(*ast.Ident); !ok {
						return true // a switch on nextChar() etc., not the rune loop
					}
					nArms++
					armKey := sub + ":case " + runeName(pr.x)
					found := 0
					walkStack(cc, func(x ast.Node, st2 []ast.Node) bool {
						if _, ok := x.(*ast.FuncLit); ok {
							return false
						}
						rs, ok := x.(*ast.ReturnStmt)
						if !ok {
							return true
						}
						found++
						nRet++
						key := armKey + ":return#" + itoa(found)
						full := append(append([]ast.Node(nil), stack[:len(stack)-1]...), st2...)
						// surely an error?
						if len(rs.Results) > 0 {
							last := unparen(rs.Results[len(rs.Results)-1])
							if call, ok := last.(*ast.CallExpr); ok {
								if fn, ok := callee(info, call).(*types.Func); ok && fn.Pkg() != nil && (fn.Pkg().Path() == "fmt" || fn.Pkg().Path() == "errors" || fn.Name() == "raiseError") {
									c.OK("R20f", key, rs.Pos(), "returns an error (%s)", c.src(last))
									return true
								}
							}
						}
						guarded := false
						gs := guardsAt(info, full)
						for _, g := range gs {
							if g.Tag != nil && !g.Neg && !g.Dflt && isNextChar(defs, g.Tag) && len(g.Cases) > 0 {
								all := true
								for _, cs := range g.Cases {
									if !isConst(cs, pr.y) {
										all = false
									}
								}
								if all {
									guarded = true
								}
							}
						}
						for _, ft := range factsOf(gs) {
							be, ok := unparen(ft.E).(*ast.BinaryExpr)
							if !ok {
								continue
							}
							l, r := be.X, be.Y
							if isConst(l, pr.y) {
								l, r = r, l
							}
							if isNextChar(defs, l) && isConst(r, pr.y) && ((be.Op == token.EQL && ft.True) || (be.Op == token.NEQ && !ft.True)) {
								guarded = true
							}
						}
						if guarded {
							c.OK("R20f", key, rs.Pos(), "hands the position back at %s only where nextChar() == %s", runeName(pr.x), runeName(pr.y))
						} else {
							c.Viol("R20f", key, rs.Pos(), "%s returns inside `case %s:` without nextChar() == %s being known: ParseBlock re-reads the %s, finds tree != nil and no %s after it, and calls blk.panic(%s, %s) (%s) — parsing `<expr> %s …` panics", sub, runeName(pr.x), runeName(pr.y), runeName(pr.x), runeName(pr.y), runeName(pr.x), runeName(pr.y), c.pos(pr.pos), trimQ(runeName(pr.x)))
						}
						return true
					})
					return true
				})
				if nArms == 0 {
					c.OK("R20f", sub+":case "+runeName(pr.x)+":none", fd.Pos(), "%s has no `case %s:` arm in its rune switch (the rune is ordinary text there)", sub, runeName(pr.x))
				}
			}
		}
		c.MinCount("R20f", "returns inside the case arms of runes ParseBlock may panic on", nRet, 4)
	})
}

func runeName(exact string) string {
	// constant.Value.ExactString of a rune constant is its decimal code
	n := 0
	for _, ch := range exact {
		if ch < '0' || ch > '9' {
			return exact
		}
		n = n*10 + int(ch-'0')
	}
	return "'" + string(rune(n)) + "'"
}

func trimQ(s string) string {
	if len(s) >= 2 {
		return s[1 : len(s)-1]
	}
	return s
}
