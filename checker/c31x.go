package main

import (
	"go/ast"
	"go/token"
	"go/types"
)

func init() {
	extend("C31", func(c *Ctx) {
		c.Rule("R31f", "length assertion (StdoutGreaterThan / array / map helpers): the length compared with the plan's number is assigned only as len(t) inside a type switch on the unmarshalled value whose case types are slices or maps — a scalar (string, number, boolean) must fall to the failing default arm")
		fd, pk := c.MustFunc("R31f", "lang", "", "testIsGreaterThanOrEqualTo")
		if fd == nil {
			return
		}
		info := pk.TypesInfo
		// the int local compared with the `comparison` parameter
		var cmpParam types.Object
		if fd.Type.Params != nil {
			for _, f := range fd.Type.Params.List {
				for _, nm := range f.Names {
					if b, ok := info.Defs[nm].Type().Underlying().(*types.Basic); ok && b.Kind() == types.Int {
						cmpParam = info.Defs[nm]
					}
				}
			}
		}
		var lenObj types.Object
		ast.Inspect(fd.Body, func(nd ast.Node) bool {
			if b, ok := nd.(*ast.BinaryExpr); ok && (b.Op == token.GEQ || b.Op == token.GTR || b.Op == token.LSS || b.Op == token.LEQ) {
				x, okx := unparen(b.X).(*ast.Ident)
				y, oky := unparen(b.Y).(*ast.Ident)
				if okx && oky {
					if info.ObjectOf(y) == cmpParam {
						lenObj = info.ObjectOf(x)
					} else if info.ObjectOf(x) == cmpParam {
						lenObj = info.ObjectOf(y)
					}
				}
			}
			return true
		})
		if lenObj == nil || cmpParam == nil {
			c.Undecided("R31f", "testIsGreaterThanOrEqualTo:shape", fd.Pos(), "no comparison of a local length with the integer parameter found")
			return
		}
		n, bad := 0, ""
		walkStack(fd.Body, func(nd ast.Node, stack []ast.Node) bool {
			as, ok := nd.(*ast.AssignStmt)
			if !ok {
				return true
			}
			for i, l := range as.Lhs {
				id, ok := l.(*ast.Ident)
				if !ok || info.ObjectOf(id) != lenObj || i >= len(as.Rhs) {
					continue
				}
				n++
				call, isLen := isBuiltinCall(info, as.Rhs[i], "len")
				if !isLen || len(call.Args) != 1 {
					bad = "length computed by " + c.src(as.Rhs[i]) + " (not len of a type-switch case value)"
					continue
				}
				// enclosing case clause of a type switch; all its types must be slices or maps
				var cc *ast.CaseClause
				isTS := false
				for k := len(stack) - 1; k >= 0; k-- {
					if x, ok := stack[k].(*ast.CaseClause); ok && cc == nil {
						cc = x
					}
					if _, ok := stack[k].(*ast.TypeSwitchStmt); ok {
						isTS = true
						break
					}
				}
				if cc == nil || !isTS || len(cc.List) == 0 {
					bad = "len() outside a typed case arm: " + c.src(as)
					continue
				}
				for _, te := range cc.List {
					switch info.TypeOf(te).Underlying().(type) {
					case *types.Slice, *types.Map, *types.Array:
					default:
						bad = "case type " + c.src(te) + " is not a slice or map"
					}
				}
			}
			return true
		})
		c.Check(n >= 5 && bad == "", "R31f", "testIsGreaterThanOrEqualTo:countable-shapes", fd.Pos(), "the compared length is len() of slice/map typed cases only (%d arms) %s — otherwise a plain string or number would satisfy a length assertion", n, bad)
	})
}
