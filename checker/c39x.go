package main

import (
	"go/ast"
	"go/token"
	"go/types"
)

// R39f — what `break` may cancel. breakUpwards calls KillForks on every level it
// unwinds, and KillForks cancels every statement of every block registered in that
// level's fork registry (Process.Forks). The reach of a break is therefore decided
// by who shares a registry: each compiled statement owns a fresh one, and the
// blocks that statement forks register in it. A registry shared more widely (per
// function, per parent) makes `break <name>` cancel statements outside the blocks
// between the break and <name>; a registry not shared with the forking statement
// makes break miss the blocks it must end.
func init() {
	extend("C39", func(c *Ctx) {
		c.Rule("R39f", "who-may-store Process.Forks (package lang): Process.Fork stores the forking process's own registry (`fork.Forks = <receiver>.Forks`) and nothing else; every other store (compile for each statement, the shell and test processes) is a fresh `NewForkManagement()`")
		pk := c.Pkg("lang")
		if pk == nil {
			c.Lost("R39f", "pkg:lang", "package not loaded")
			return
		}
		info := pk.TypesInfo
		n, nFork := 0, 0
		eachFunc(pk, func(fd *ast.FuncDecl) {
			if fd.Body == nil {
				return
			}
			var recv types.Object
			if fd.Recv != nil && len(fd.Recv.List) == 1 && len(fd.Recv.List[0].Names) == 1 {
				recv = info.Defs[fd.Recv.List[0].Names[0]]
			}
			isFork := fd.Name.Name == "Fork" && recvName(fd) == "Process"
			defs := localDefs(info, fd.Body)
			// innermost loop (for/range/function literal) around a node: a local defined outside the loop
			// that holds the store is ONE value for all iterations, not a fresh one per statement
			loopOf := func(nd ast.Node) ast.Node {
				var res ast.Node
				for _, a := range pathTo(fd.Body, nd) {
					switch a.(type) {
					case *ast.ForStmt, *ast.RangeStmt, *ast.FuncLit:
						if a != nd {
							res = a
						}
					}
				}
				return res
			}
			// valueOf: the stored expression, a local defined once (in the same loop iteration) followed to its definition
			valueOf := func(at ast.Node, r ast.Expr) ast.Expr {
				r = unparen(r)
				if id, ok := r.(*ast.Ident); ok {
					if ds := defs[info.ObjectOf(id)]; len(ds) == 1 && ds[0] != nil && loopOf(ds[0]) == loopOf(at) {
						return unparen(ds[0])
					}
				}
				return r
			}
			isForksField := func(id *ast.Ident) bool {
				f, ok := info.ObjectOf(id).(*types.Var)
				return ok && id.Name == "Forks" && f.IsField() && f.Pkg() != nil && f.Pkg().Path() == mx("lang")
			}
			store := func(at ast.Node, rhs ast.Expr) {
				n++
				key := "store@" + funcKey("lang", fd) + "#" + itoa(n)
				r := valueOf(at, rhs)
				if isFork {
					nFork++
					good := false
					if rs, ok := r.(*ast.SelectorExpr); ok && isForksField(rs.Sel) {
						if id, ok := unparen(rs.X).(*ast.Ident); ok && info.ObjectOf(id) == recv {
							good = true
						}
					}
					c.Check(good, "R39f", key, at.Pos(), "Process.Fork gives the block the forking statement's registry (%s): break/return unwinding through that statement cancels exactly the blocks it forked", c.src(at))
					return
				}
				good := false
				if call, ok := r.(*ast.CallExpr); ok && len(call.Args) == 0 {
					if fn, ok := callee(info, call).(*types.Func); ok && fn.Name() == "NewForkManagement" {
						good = true
					}
				}
				// the constructor written out: &ForkManagement{…} is a fresh registry as well
				if u, ok := r.(*ast.UnaryExpr); ok && u.Op == token.AND {
					if cl, ok := unparen(u.X).(*ast.CompositeLit); ok && namedPath(info.TypeOf(cl)) == mx("lang")+".ForkManagement" {
						good = true
					}
				}
				c.Check(good, "R39f", key, at.Pos(), "%s gives the process a registry of its own (%s): a registry shared between statements lets `break` cancel statements outside the blocks it leaves", fd.Name.Name, c.src(at))
			}
			ast.Inspect(fd.Body, func(nd ast.Node) bool {
				switch x := nd.(type) {
				case *ast.AssignStmt:
					if len(x.Lhs) != len(x.Rhs) {
						return true
					}
					for i, l := range x.Lhs {
						if se, ok := unparen(l).(*ast.SelectorExpr); ok && isForksField(se.Sel) {
							store(x, x.Rhs[i])
						}
					}
				case *ast.CompositeLit:
					// Process{Forks: …} / &Process{Forks: …}
					if namedPath(info.TypeOf(x)) != mx("lang")+".Process" {
						return true
					}
					for _, el := range x.Elts {
						if kv, ok := el.(*ast.KeyValueExpr); ok {
							if k, ok := kv.Key.(*ast.Ident); ok && isForksField(k) {
								store(kv, kv.Value)
							}
						}
					}
				}
				return true
			})
		})
		c.MinCount("R39f", "stores to Process.Forks", n, 3)
		c.MinCount("R39f", "stores to Process.Forks in Process.Fork", nFork, 1)
	})
}
