package main

import (
	"go/ast"
	"go/types"
)

// R39f — what `break` may cancel. breakUpwards calls KillForks on every level it
// unwinds, and KillForks cancels every statement of every block registered in that
// level's fork registry (Process.Forks). The reach of a break is therefore decided
// by who shares a registry: each compiled statement owns a fresh one, and the
// blocks that statement forks register in it. A registry shared more widely (per
// function, per parent) makes `break <name>` cancel statements outside the blocks
// between the break and <name>; a registry not shared with the forking statement
// makes break miss the blocks it must end.
func init() {
	extend("C39", func(c *Ctx) {
		c.Rule("R39f", "who-may-store Process.Forks (package lang): Process.Fork stores the forking process's own registry (`fork.Forks = <receiver>.Forks`) and nothing else; every other store (compile for each statement, the shell and test processes) is a fresh `NewForkManagement()`")
		pk := c.Pkg("lang")
		if pk == nil {
			c.Lost("R39f", "pkg:lang", "package not loaded")
			return
		}
		info := pk.TypesInfo
		n, nFork := 0, 0
		eachFunc(pk, func(fd *ast.FuncDecl) {
			if fd.Body == nil {
				return
			}
			var recv types.Object
			if fd.Recv != nil && len(fd.Recv.List) == 1 && len(fd.Recv.List[0].Names) == 1 {
				recv = info.Defs[fd.Recv.List[0].Names[0]]
			}
			isFork := fd.Name.Name == "Fork" && recvName(fd) == "Process"
			ast.Inspect(fd.Body, func(nd ast.Node) bool {
				as, ok := nd.(*ast.AssignStmt)
				if !ok || len(as.Lhs) != len(as.Rhs) {
					return true
				}
				for i, l := range as.Lhs {
					se, ok := unparen(l).(*ast.SelectorExpr)
					if !ok || se.Sel.Name != "Forks" {
						continue
					}
					f, ok := info.ObjectOf(se.Sel).(*types.Var)
					if !ok || !f.IsField() || f.Pkg() == nil || f.Pkg().Path() != mx("lang") {
						continue
					}
					n++
					key := "store@" + funcKey("lang", fd) + "#" + itoa(n)
					r := unparen(as.Rhs[i])
					if isFork {
						nFork++
						good := false
						if rs, ok := r.(*ast.SelectorExpr); ok && rs.Sel.Name == "Forks" {
							if id, ok := unparen(rs.X).(*ast.Ident); ok && info.ObjectOf(id) == recv {
								good = true
							}
						}
						c.Check(good, "R39f", key, as.Pos(), "Process.Fork gives the block the forking statement's registry (%s): break/return unwinding through that statement cancels exactly the blocks it forked", c.src(as))
						continue
					}
					good := false
					if call, ok := r.(*ast.CallExpr); ok && len(call.Args) == 0 {
						if fn, ok := callee(info, call).(*types.Func); ok && fn.Name() == "NewForkManagement" {
							good = true
						}
					}
					c.Check(good, "R39f", key, as.Pos(), "%s gives the process a registry of its own (%s): a registry shared between statements lets `break` cancel statements outside the blocks it leaves", fd.Name.Name, c.src(as))
				}
				return true
			})
		})
		c.MinCount("R39f", "stores to Process.Forks", n, 3)
		c.MinCount("R39f", "stores to Process.Forks in Process.Fork", nFork, 1)
	})
}
