package main

import (
	"go/ast"
	"go/token"
	"go/types"
)

// R06h — "strings compare in byte order": compareTypes coerces its operands for
// the six comparison operators. Operands of the SAME data type must be compared as
// they are; the numeric coercion (ConvertGoType(_, num)) is for mixed operands
// only. If two strings can reach the numeric coercion, "10" < "9" becomes false
// and "1.0" == "1" true.
func init() {
	extend("C06", func(c *Ctx) {
		c.Rule("R06h", "compareTypes: every coercion of an operand to a number (types.ConvertGoType(_, types.Number)) is reachable only where the operands' data types are known to differ (guard `left.DataType == right.DataType` false — directly or as a disjunct of an earlier terminating test)")
		fd, pk := c.MustFunc("R06h", "lang/expressions", "", "compareTypes")
		if fd == nil {
			return
		}
		info := pk.TypesInfo
		isDataTypeEq := func(e ast.Expr) (eq bool, ok bool) {
			be, isB := unparen(e).(*ast.BinaryExpr)
			if !isB || (be.Op != token.EQL && be.Op != token.NEQ) {
				return false, false
			}
			lx, ok1 := unparen(be.X).(*ast.SelectorExpr)
			ly, ok2 := unparen(be.Y).(*ast.SelectorExpr)
			if !ok1 || !ok2 || lx.Sel.Name != "DataType" || ly.Sel.Name != "DataType" || c.src(lx.X) == c.src(ly.X) {
				return false, false
			}
			return be.Op == token.EQL, true
		}
		n := 0
		walkStack(fd.Body, func(nd ast.Node, stack []ast.Node) bool {
			call, ok := nd.(*ast.CallExpr)
			if !ok || len(call.Args) != 2 {
				return true
			}
			fn, ok := callee(info, call).(*types.Func)
			if !ok || fn.Name() != "ConvertGoType" || !isPkgObj(info, call.Args[1], mx("lang/types"), "Number") {
				return true
			}
			n++
			differ := false
			for _, ft := range factsOf(guardsAt(info, stack)) {
				if eq, ok := isDataTypeEq(ft.E); ok && eq != ft.True {
					differ = true
				}
			}
			c.Check(differ, "R06h", "compareTypes:number-coercion#"+itoa(n), call.Pos(), "%s happens only for operands of different data types (same-type operands, e.g. two strings, are compared as they are: byte order)", c.src(call))
			return true
		})
		c.MinCount("R06h", "numeric coercions in compareTypes", n, 2)
	})
}
