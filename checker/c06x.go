package main

import (
	"go/ast"
	"go/token"
	"go/types"
)

// R06h — "strings compare in byte order": compareTypes coerces its operands for
// the six comparison operators. Operands of the SAME data type must be compared as
// they are; the numeric coercion (ConvertGoType(_, num)) is for mixed operands
// only. If two strings can reach the numeric coercion, "10" < "9" becomes false
// and "1.0" == "1" true.
func init() {
	extend("C06", func(c *Ctx) {
		c.Rule("R06h", "compareTypes: every coercion of an operand to a number (types.ConvertGoType(_, types.Number)) is reachable only where the operands' data types are known to differ (guard `left.DataType == right.DataType` false — directly or as a disjunct of an earlier terminating test)")
		fd, pk := c.MustFunc("R06h", "lang/expressions", "", "compareTypes")
		if fd == nil {
			return
		}
		info := pk.TypesInfo
		defs := localDefs(info, fd.Body)
		// the test may be written through single-definition locals (`same := l.DataType == r.DataType`,
		// `ldt, rdt := l.DataType, r.DataType`) and negated
		var isDataTypeEq func(e ast.Expr) (eq bool, ok bool)
		isDataTypeEq = func(e ast.Expr) (eq bool, ok bool) {
			e = defs.resolve1(info, e)
			if u, isU := e.(*ast.UnaryExpr); isU && u.Op == token.NOT {
				eq, ok = isDataTypeEq(u.X)
				return !eq, ok
			}
			be, isB := e.(*ast.BinaryExpr)
			if !isB || (be.Op != token.EQL && be.Op != token.NEQ) {
				return false, false
			}
			lx, ok1 := defs.resolve1(info, be.X).(*ast.SelectorExpr)
			ly, ok2 := defs.resolve1(info, be.Y).(*ast.SelectorExpr)
			if !ok1 || !ok2 || lx.Sel.Name != "DataType" || ly.Sel.Name != "DataType" || c.src(lx.X) == c.src(ly.X) {
				return false, false
			}
			return be.Op == token.EQL, true
		}
		n := 0
		walkStack(fd.Body, func(nd ast.Node, stack []ast.Node) bool {
			call, ok := nd.(*ast.CallExpr)
			if !ok || len(call.Args) != 2 {
				return true
			}
			fn, ok := callee(info, call).(*types.Func)
			if !ok || fn.Name() != "ConvertGoType" || !isPkgObj(info, call.Args[1], mx("lang/types"), "Number") {
				return true
			}
			n++
			differ := false
			facts := factsThroughLocals(info, defs, append(guardsAt(info, stack), priorSwitchExits(info, stack)...))
			for _, ft := range facts {
				if eq, ok := isDataTypeEq(ft.E); ok && eq != ft.True {
					differ = true
				}
			}
			c.Check(differ, "R06h", "compareTypes:number-coercion#"+itoa(n), call.Pos(), "%s happens only for operands of different data types (same-type operands, e.g. two strings, are compared as they are: byte order)", c.src(call))
			return true
		})
		c.MinCount("R06h", "numeric coercions in compareTypes", n, 2)
	})
}

// priorSwitchExits: the `switch { case a, b: return … }` spelling of `if a || b { return … }` — for every
// tagless switch that precedes the node in an enclosing block, the case expressions of its leading arms
// whose bodies leave the function/loop (return, goto, continue, panic — not break, which only leaves the
// switch) are known false afterwards. Arms behind the first arm that can fall out of the switch, and
// default arms, give no fact.
func priorSwitchExits(info *types.Info, stack []ast.Node) []Guard {
	var gs []Guard
	scan := func(list []ast.Stmt, child ast.Node) {
		for _, s := range list {
			if ast.Node(s) == child {
				return
			}
			sw, ok := s.(*ast.SwitchStmt)
			if !ok || sw.Tag != nil || sw.Init != nil {
				continue
			}
			for _, a := range sw.Body.List {
				cc := a.(*ast.CaseClause)
				if cc.List == nil || len(cc.Body) == 0 || !terminates(info, cc.Body) {
					break
				}
				if b, isB := cc.Body[len(cc.Body)-1].(*ast.BranchStmt); isB && b.Tok == token.BREAK {
					break
				}
				for _, e := range cc.List {
					gs = append(gs, Guard{Cond: e, Neg: true})
				}
			}
		}
	}
	for i := 0; i+1 < len(stack); i++ {
		switch p := stack[i].(type) {
		case *ast.BlockStmt:
			scan(p.List, stack[i+1])
		case *ast.CaseClause:
			scan(p.Body, stack[i+1])
		}
	}
	return gs
}

// factsThroughLocals: factsOf(gs), plus — for every fact that is a bare bool local defined once
// (`same := a == b; if same || other { return }`) — the facts of its defining expression. The caller is
// responsible for the operands of that expression not changing between the definition and the test.
func factsThroughLocals(info *types.Info, defs defMap, gs []Guard) []Fact {
	var facts []Fact
	for _, ft := range factsOf(gs) {
		facts = append(facts, ft)
		if id, isID := ft.E.(*ast.Ident); isID {
			if d := defs.resolve1(info, id); d != ast.Expr(id) {
				facts = append(facts, factsOf([]Guard{{Cond: d, Neg: !ft.True}})...)
			}
		}
	}
	return facts
}
