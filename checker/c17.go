package main

// C17 Range filters select the documented slice.
//
// DESIGN.md §5 lists C17 as not applicable because the selected slice is arithmetic over runtime
// integers. Reading the anchors shows that the whole range filter (builtins/core/ranges: CmdRange,
// createRfIndex/newIndex/newNumber/newString, the rfIndex/rfString matchers, readArray and buffer)
// is LOOP-FREE Go: every iteration happens inside the stdio API (Io.ReadArray invoking a callback
// per element). That makes a sound structural decision possible:
//
// R17a  slice-model agreement, numeric modes. The loop-free code reachable from CmdRange is tabulated
//       on a small finite model (lists of 0..6 distinct elements; parameter strings `s..e]flags` for
//       all small s, e, k) by the c17 fragment evaluator, the per-element iteration being supplied by
//       the rule's own driver under the ReadArray contract. The sequence of elements handed to
//       p.Stdout's ArrayWriter must equal the documented slice: [s..e] = elements s..e (1-based,
//       inclusive, clipped), [s..], [..e], [-k..] = last k, `e` = both matched end-points excluded,
//       `n` = offsets from 0, in input order, each element once and unmodified.
// R17b  the same for the string matcher (`s` flag), which pins the callback's decision structure
//       (before start: skip; start element; between; end element; stop) independently of the
//       counter arithmetic of the numeric matcher.
// R17c  stop-at-end contract. Unless the callback itself latches after the end match (decided by
//       re-tabulating R17a/R17b with a reader that keeps delivering elements after p.Done()), every
//       ReadArray implementation registered for a data type that also has a WriteArray implementation
//       (i.e. every reader the range filter can run on) must test ctx.Done() before each callback
//       invocation inside a loop; otherwise every element after `end` is written as well.
//
// Not decided: that each reader delivers every element exactly once and in order (the other half of
// the ReadArray contract), regexp mode, `b`/`t`/`8` flags, `!` (IsNot), s > e, negative end values,
// number mode with negative values, lists longer than 6 (the arithmetic is affine in the bounds).

import (
	"fmt"
	"go/ast"
	"go/token"
	"go/types"
	"os"
	"regexp"
	"sort"
	"strconv"
	"strings"

	"golang.org/x/tools/go/packages"
)

func init() {
	register("C17", "Decides for the range filter `[s..e]flags` (builtins/core/ranges): the loop-free code reachable from CmdRange (flag parsing, mode switch, bound preparation createRfIndex/newIndex/newNumber, the rfIndex/rfString matcher methods, readArray's callback, buffer) is tabulated by small-scope evaluation over the type-checked AST for every list of 0..6 distinct elements and all small s, e, k, with and without `e`, in default/`i` (1-based), `n` (0-based) and `s` (string match) modes, and the sequence of elements handed to stdout's ArrayWriter must equal the documented slice in input order (R17a, R17b); iteration over the list is supplied by the rule's driver under the stdio.Io.ReadArray contract, no murex code is run; every ReadArray implementation the filter can run on must test ctx.Done() before each callback invocation, else elements after `end` are written too (R17c). Does NOT decide: that readers deliver each element once and in order, regexp mode, b/t/8 flags, IsNot, s>e, negative end values, negative values in `n` mode, lists longer than 6, back-pressure of the buffered copy used for negative starts.", runC17)
}

const c17Ranges = "builtins/core/ranges"

// c17Load: like c38Load (type-check the named murex packages from source, dependencies from export
// data) but accepts `...` patterns.
func (c *Ctx) c17Load(rel ...string) {
	cfg := &packages.Config{
		Mode: packages.NeedName | packages.NeedFiles | packages.NeedCompiledGoFiles | packages.NeedImports |
			packages.NeedTypes | packages.NeedSyntax | packages.NeedTypesInfo | packages.NeedTypesSizes | packages.NeedModule,
		Dir:     c.Repo,
		Fset:    c.Fset,
		Tests:   false,
		Overlay: c.Overlay,
		Env:     append(os.Environ(), c.Env...),
	}
	var pats []string
	for _, r := range rel {
		pats = append(pats, modPath+"/"+r)
	}
	pkgs, err := packages.Load(cfg, pats...)
	if err != nil {
		fatal("load: %v", err)
	}
	if len(pkgs) < len(pats) {
		fatal("load: %d packages for %v", len(pkgs), pats)
	}
	nerr := 0
	for _, p := range pkgs {
		for _, e := range p.Errors {
			fmt.Fprintf(os.Stderr, "load error: %s: %v\n", p.PkgPath, e)
			nerr++
		}
		c.All[p.PkgPath] = p
	}
	if nerr > 0 {
		fatal("load: %d package errors — the tree does not type-check, no verdict", nerr)
	}
	c.Roots = append(c.Roots, pkgs...)
	c.configs = append(c.configs, fmt.Sprintf("patterns=%v roots=%d (dependencies from export data)", rel, len(pkgs)))
}

func runC17(c *Ctx) {
	c.c17Load(c17Ranges, "lang", "builtins/types/...")
	c.Rule("R17a", "numeric range modes: for every list of 0..6 elements and all small s,e,k the elements written to stdout's ArrayWriter by the loop-free code reachable from ranges.CmdRange equal the documented slice, in input order (small-scope evaluation; iteration supplied by the rule's driver under the ReadArray contract)")
	c.Rule("R17b", "string-match mode (`s`): same comparison; pins the decision structure of readArray's callback independently of the numeric matcher's counter arithmetic")
	c.Rule("R17c", "stop-at-end: the callback latches after the end match, or every ReadArray implementation registered for a data type that has a WriteArray implementation tests ctx.Done() before each callback invocation made inside a loop")
	c.Assume = append(c.Assume,
		"stdio.Io.ReadArray delivers every element of the stream to its callback exactly once, in input order (not decided per data type)",
		"lang.Process.Done cancels lang.Process.Context; an ArrayWriter emits the elements in the order of its Write calls",
		"regexp, strconv and strings behave as the Go standard library the checker itself is built with (they are called by the checker on model values; they are not murex code)",
	)
	pk := c.Pkg(c17Ranges)
	if pk == nil {
		c.Lost("R17a", "pkg:"+c17Ranges, "package not loaded")
		return
	}
	needCoop := c.c17Slices(pk)
	c.c17Readers(needCoop)
}

// ---------------------------------------------------------------- model of one filter run

type c17Run struct {
	c        *Ctx
	pk       *packages.Package
	param    string
	name     string
	coop     bool // the reader stops delivering once p.Done() was called and it was given p.Context
	streams  map[string][]c17V
	nstream  int
	out      []c17V
	done     bool
	problems []string
}

func (m *c17Run) problem(f string, a ...any) {
	if len(m.problems) < 4 {
		m.problems = append(m.problems, fmt.Sprintf(f, a...))
	}
}

func c17RecvNamed(info *types.Info, call *ast.CallExpr) (recvExpr ast.Expr, typePath, method string) {
	se, ok := unparen(call.Fun).(*ast.SelectorExpr)
	if !ok {
		return nil, "", ""
	}
	sel := info.Selections[se]
	if sel == nil || sel.Kind() != types.MethodVal {
		return nil, "", ""
	}
	fn, ok := sel.Obj().(*types.Func)
	if !ok {
		return nil, "", ""
	}
	sig := fn.Type().(*types.Signature)
	if sig.Recv() == nil {
		return nil, "", ""
	}
	return se.X, namedPath(sig.Recv().Type()), fn.Name()
}

// c17PkgVarInit: the initialiser expression of a package-level variable of pk.
func c17PkgVarInit(pk *packages.Package, o types.Object) ast.Expr {
	for _, f := range pk.Syntax {
		for _, d := range f.Decls {
			gd, ok := d.(*ast.GenDecl)
			if !ok || gd.Tok != token.VAR {
				continue
			}
			for _, sp := range gd.Specs {
				vs := sp.(*ast.ValueSpec)
				for i, n := range vs.Names {
					if pk.TypesInfo.Defs[n] == o && len(vs.Values) == len(vs.Names) {
						return vs.Values[i]
					}
				}
			}
		}
	}
	return nil
}

// c17StdHook: contract summaries of standard-library calls (evaluated by the checker itself on model
// values): strconv.Atoi/Itoa, strings.Contains/Replace/Split, fmt.Errorf/errors.New, fmt.Sprintf,
// (*regexp.Regexp).FindStringSubmatch/MatchString/Match on a package-level regexp.MustCompile(<const>).
func c17StdHook(ev *c17Eval, call *ast.CallExpr, env *c17Env) (c17V, bool) {
	info := ev.info
	o := callee(info, call)
	if o == nil || o.Pkg() == nil {
		return c17V{}, false
	}
	str := func(i int) string {
		v := ev.eval(call.Args[i], env)
		if v.k != c17Str && v.k != c17Item {
			ev.fail(call.Args[i], "argument of %s is not a modelled string (%s)", o.Name(), v)
		}
		return v.s
	}
	switch {
	case objIs(o, "strconv", "", "Atoi"):
		n, err := strconv.Atoi(str(0))
		if err != nil {
			return c17TupleV(c17IntV(0), c17ErrV("strconv.Atoi")), true
		}
		return c17TupleV(c17IntV(int64(n)), c17NilV()), true
	case objIs(o, "strconv", "", "Itoa"):
		v := ev.eval(call.Args[0], env)
		if v.k != c17Int {
			ev.fail(call, "Itoa of a non-integer")
		}
		return c17StrV(strconv.Itoa(int(v.i))), true
	case objIs(o, "strings", "", "Contains"):
		return c17BoolV(strings.Contains(str(0), str(1))), true
	case objIs(o, "strings", "", "HasPrefix"):
		return c17BoolV(strings.HasPrefix(str(0), str(1))), true
	case objIs(o, "strings", "", "HasSuffix"):
		return c17BoolV(strings.HasSuffix(str(0), str(1))), true
	case objIs(o, "strings", "", "ContainsAny"):
		return c17BoolV(strings.ContainsAny(str(0), str(1))), true
	case objIs(o, "strings", "", "Index"):
		return c17IntV(int64(strings.Index(str(0), str(1)))), true
	case objIs(o, "strings", "", "Count"):
		return c17IntV(int64(strings.Count(str(0), str(1)))), true
	case objIs(o, "strings", "", "TrimSpace"):
		return c17StrV(strings.TrimSpace(str(0))), true
	case objIs(o, "strings", "", "ContainsRune"), objIs(o, "strings", "", "IndexRune"), objIs(o, "strings", "", "IndexByte"):
		r := ev.eval(call.Args[1], env)
		if r.k != c17Int {
			ev.fail(call, "%s with a non-constant rune/byte", o.Name())
		}
		var idx int
		if o.Name() == "IndexByte" {
			idx = strings.IndexByte(str(0), byte(r.i))
		} else {
			idx = strings.IndexRune(str(0), rune(r.i))
		}
		if o.Name() == "ContainsRune" {
			return c17BoolV(idx >= 0), true
		}
		return c17IntV(int64(idx)), true
	case objIs(o, "bytes", "", "Equal"):
		// on modelled byte strings (an element of the list, or []byte(<string>)) equality is equality of the content
		return c17BoolV(str(0) == str(1)), true
	case objIs(o, "strings", "", "Replace"):
		n := ev.eval(call.Args[3], env)
		if n.k != c17Int {
			ev.fail(call, "Replace count is not an integer")
		}
		return c17StrV(strings.Replace(str(0), str(1), str(2), int(n.i))), true
	case objIs(o, "strings", "", "ReplaceAll"):
		return c17StrV(strings.ReplaceAll(str(0), str(1), str(2))), true
	case objIs(o, "strings", "", "Split"):
		var vs []c17V
		for _, p := range strings.Split(str(0), str(1)) {
			vs = append(vs, c17StrV(p))
		}
		return c17SliceV(vs), true
	case objIs(o, "fmt", "", "Errorf"), objIs(o, "errors", "", "New"):
		return c17ErrV(o.Pkg().Name() + "." + o.Name()), true
	case objIs(o, "fmt", "", "Sprintf"):
		f := str(0)
		var args []any
		for _, a := range call.Args[1:] {
			v := ev.eval(a, env)
			switch v.k {
			case c17Int:
				args = append(args, int(v.i))
			case c17Str:
				args = append(args, v.s)
			default:
				ev.fail(a, "Sprintf operand outside the evaluated subset")
			}
		}
		return c17StrV(fmt.Sprintf(f, args...)), true
	case objIs(o, "regexp", "Regexp", "FindStringSubmatch"), objIs(o, "regexp", "Regexp", "MatchString"), objIs(o, "regexp", "Regexp", "Match"):
		se := unparen(call.Fun).(*ast.SelectorExpr)
		id, ok := unparen(se.X).(*ast.Ident)
		if !ok {
			ev.fail(call, "regexp receiver is not a package-level variable")
		}
		init := c17PkgVarInit(ev.pk, info.ObjectOf(id))
		ic, ok := init.(*ast.CallExpr)
		if init == nil || !ok || !objIs(callee(info, ic), "regexp", "", "MustCompile") || len(ic.Args) != 1 {
			ev.fail(call, "regexp receiver is not initialised by regexp.MustCompile(<constant>)")
		}
		pat, ok := constString(info, ic.Args[0])
		if !ok {
			ev.fail(call, "regexp pattern is not a constant")
		}
		rx, err := regexp.Compile(pat)
		if err != nil {
			ev.rtpanic(call, "regexp.MustCompile(%q) panics: %v", pat, err)
		}
		if o.Name() != "FindStringSubmatch" {
			return c17BoolV(rx.MatchString(str(0))), true
		}
		var vs []c17V
		for _, p := range rx.FindStringSubmatch(str(0)) {
			vs = append(vs, c17StrV(p))
		}
		return c17SliceV(vs), true
	}
	return c17V{}, false
}

func (m *c17Run) tagOf(ev *c17Eval, e ast.Expr, env *c17Env) string {
	v := ev.eval(e, env)
	if v.k != c17Opaque {
		ev.fail(e, "stream/writer receiver has no model (%s)", v)
	}
	return v.tag
}

func (m *c17Run) hook(ev *c17Eval, call *ast.CallExpr, env *c17Env) (c17V, bool) {
	info := ev.info
	if v, ok := c17StdHook(ev, call, env); ok {
		return v, true
	}
	// p.Done(): a func-typed field of lang.Process
	if isField(info, call.Fun, mx("lang")+".Process", "Done") {
		m.done = true
		return c17TupleV(), true
	}
	o := callee(info, call)
	if o == nil {
		return c17V{}, false
	}
	if objIs(o, mx(c17Ranges), "", "indexAndExpand") {
		return c17ErrV("not recognised as a range: handed to the index fallback"), true
	}
	if objIs(o, mx("builtins/pipes/streams"), "", "NewStdinWithContext") {
		m.nstream++
		tag := fmt.Sprintf("buffer#%d", m.nstream)
		m.streams[tag] = nil
		return c17OpaqueV(tag), true
	}
	recv, tpath, meth := c17RecvNamed(info, call)
	if recv == nil {
		return c17V{}, false
	}
	switch tpath {
	case mx("lang") + ".Process":
		if meth == "ErrIfNotAMethod" {
			return c17NilV(), true
		}
	case mx("lang/parameters") + ".Parameters":
		if meth == "StringAll" {
			return c17StrV(m.param), true
		}
	case mx("lang/process") + ".Name":
		if meth == "String" {
			return c17StrV(m.name), true
		}
	case mx("lang/stdio") + ".Io", mx("builtins/pipes/streams") + ".Stdin":
		switch meth {
		case "GetDataType":
			return c17StrV("str"), true
		case "SetDataType":
			return c17TupleV(), true
		case "WriteArray":
			return c17TupleV(c17OpaqueV("writer:"+m.tagOf(ev, recv, env)), c17NilV()), true
		case "ReadArray":
			tag := m.tagOf(ev, recv, env)
			ctx := ev.eval(call.Args[0], env)
			cb := ev.eval(call.Args[1], env)
			if cb.k != c17Closure {
				ev.fail(call.Args[1], "ReadArray callback is not a function literal")
			}
			els, ok := m.streams[tag]
			if !ok {
				ev.fail(call, "ReadArray on a stream without a model (%s)", tag)
			}
			m.streams[tag] = nil // a stream can be read once
			cancellable := m.coop && ctx.k == c17Opaque && ctx.tag == "p.Context"
			for _, el := range els {
				if cancellable && m.done {
					break
				}
				ev.callClosure(cb, []c17V{el})
			}
			return c17NilV(), true
		}
	case mx("lang/stdio") + ".ArrayWriter":
		switch meth {
		case "Write", "WriteString":
			tag := strings.TrimPrefix(m.tagOf(ev, recv, env), "writer:")
			v := ev.eval(call.Args[0], env)
			if v.k != c17Item {
				m.problem("%s: a value that is not an element read from the list is written (%s)", ev.c.pos(call.Pos()), v)
				return c17NilV(), true
			}
			if tag == "p.Stdout" {
				m.out = append(m.out, v)
			} else {
				m.streams[tag] = append(m.streams[tag], v)
			}
			return c17NilV(), true
		case "Close":
			return c17NilV(), true
		}
	}
	return c17V{}, false
}

func (m *c17Run) selHook(ev *c17Eval, se *ast.SelectorExpr, base c17V) (c17V, bool) {
	if isField(ev.info, se, mx("lang")+".Process", "IsNot") {
		return c17BoolV(false), true
	}
	return c17V{}, false
}

// c17RunFilter tabulates one run of CmdRange: list of n distinct elements x1..xn, parameter string
// param (what Parameters.StringAll() returns for `[param`). Returns the indices (1-based) of the
// elements written to stdout's array writer, in write order.
func (c *Ctx) c17RunFilter(pk *packages.Package, fd *ast.FuncDecl, n int, param string, coop bool) (got []int, errv string, failMsg, panicMsg string, problems []string) {
	m := &c17Run{c: c, pk: pk, param: param, name: "[", coop: coop, streams: map[string][]c17V{}}
	var items []c17V
	for i := 1; i <= n; i++ {
		items = append(items, c17ItemV(i, fmt.Sprintf("x%d", i)))
	}
	m.streams["p.Stdin"] = items
	ev := c.c17NewEval(pk, m.hook)
	ev.sel = m.selHook
	var res c17V
	failMsg, panicMsg = ev.run(func() {
		res = ev.callDecl(fd, fd, nil, []c17V{c17OpaqueV("p")})
	})
	if res.k == c17Err {
		errv = res.tag
	}
	for _, v := range m.out {
		got = append(got, int(v.i))
	}
	return got, errv, failMsg, panicMsg, m.problems
}

// ---------------------------------------------------------------- R17a / R17b

type c17Case struct {
	n      int
	param  string
	expect []int
}

type c17Class struct {
	rule  string
	key   string
	doc   string
	cases []c17Case
	stops bool // the class has a closed end: the run relies on the stop-at-end contract
}

func c17Span(lo, hi, n int) []int {
	var r []int
	if lo < 1 {
		lo = 1
	}
	if hi > n {
		hi = n
	}
	for k := lo; k <= hi; k++ {
		r = append(r, k)
	}
	return r
}

const c17MaxN = 6

// c17Classes builds the documented slice model. base is 1 for the default/`i` modes (1-based) and 0
// for `n` (offset from 0): element k (1-based position) has number k-1+base.
func c17Classes() []c17Class {
	var out []c17Class
	type mode struct {
		flag string
		base int
	}
	for _, md := range []mode{{"", 1}, {"i", 1}, {"n", 0}} {
		pos := func(num int) int { return num - md.base + 1 } // element position of number num
		add := func(key, doc string, stops bool, cases []c17Case) {
			out = append(out, c17Class{rule: "R17a", key: key, doc: doc, cases: cases, stops: stops})
		}
		for _, ex := range []bool{false, true} {
			fl := md.flag
			d := 0
			exdoc := ""
			if ex {
				fl += "e"
				d = 1
				exdoc = ", both end-points excluded"
			}
			var se, s0e, sOpen, eOpen, neg []c17Case
			for n := 0; n <= c17MaxN; n++ {
				for s := 0; s <= n+2; s++ {
					for e := s; e <= n+2; e++ {
						if e < 1 || (s < md.base && ex) {
							continue // an excluded start end-point below the first element is not documented
						}
						cs := c17Case{n, fmt.Sprintf("%d..%d]%s", s, e, fl), c17Span(pos(s)+d, pos(e)-d, n)}
						if s == 0 {
							s0e = append(s0e, cs)
						} else {
							se = append(se, cs)
						}
					}
					if s >= md.base || !ex {
						cs := c17Case{n, fmt.Sprintf("%d..]%s", s, fl), c17Span(pos(s)+d, n, n)}
						if s == 0 {
							s0e = append(s0e, cs)
						} else {
							sOpen = append(sOpen, cs)
						}
					}
				}
				for e := md.base; e <= n+2; e++ {
					if e < 1 && ex {
						continue
					}
					eOpen = append(eOpen, c17Case{n, fmt.Sprintf("..%d]%s", e, fl), c17Span(1, pos(e)-d, n)})
				}
				if md.base == 1 {
					for k := 1; k <= n+2; k++ {
						if ex && k > n {
							continue // which element is "the start end-point" is not documented when k exceeds the list
						}
						neg = append(neg, c17Case{n, fmt.Sprintf("-%d..]%s", k, fl), c17Span(n-k+1+d, n, n)})
					}
				}
			}
			what := "1-based"
			if md.base == 0 {
				what = "offset from 0 (`n`)"
			}
			add("[s..e]"+fl, fmt.Sprintf("[s..e]%s selects elements s through e, %s, inclusive, clipped to the list%s", fl, what, exdoc), true, se)
			add("[s..]"+fl, fmt.Sprintf("[s..]%s selects element s through the last%s", fl, exdoc), false, sOpen)
			add("[..e]"+fl, fmt.Sprintf("[..e]%s selects the first element through e%s", fl, exdoc), true, eOpen)
			if md.base == 1 {
				add("[-k..]"+fl, fmt.Sprintf("[-k..]%s selects the last k elements%s", fl, exdoc), false, neg)
				if !ex {
					add("[0..e]"+fl, fmt.Sprintf("[0..e]%s / [0..]%s: the out-of-range start 0 is clipped to the first element", fl, fl), true, s0e)
				}
			} else {
				add("[0..e]"+fl, fmt.Sprintf("[0..e]%s / [0..]%s start at offset 0, the first element%s", fl, fl, exdoc), true, s0e)
			}
		}
	}
	// string matcher
	for _, ex := range []bool{false, true} {
		fl := "s"
		d := 0
		if ex {
			fl = "se"
			d = 1
		}
		var se, sOpen, eOpen []c17Case
		for n := 0; n <= c17MaxN; n++ {
			for s := 1; s <= n+1; s++ {
				for e := s + 1; e <= n+1; e++ {
					hi := e - d
					if e > n {
						hi = n // the end string never matches: runs to the end of the list
					}
					lo := s + d
					if s > n {
						lo = n + 1
					}
					se = append(se, c17Case{n, fmt.Sprintf("x%d..x%d]%s", s, e, fl), c17Span(lo, hi, n)})
				}
				lo := s + d
				if s > n {
					lo = n + 1
				}
				sOpen = append(sOpen, c17Case{n, fmt.Sprintf("x%d..]%s", s, fl), c17Span(lo, n, n)})
			}
			for e := 1; e <= n+1; e++ {
				hi := e - d
				if e > n {
					hi = n
				}
				eOpen = append(eOpen, c17Case{n, fmt.Sprintf("..x%d]%s", e, fl), c17Span(1, hi, n)})
			}
		}
		out = append(out,
			c17Class{rule: "R17b", key: "[a..b]" + fl, doc: "[a..b]" + fl + " selects from the first element equal to a through the next element equal to b", cases: se, stops: true},
			c17Class{rule: "R17b", key: "[a..]" + fl, doc: "[a..]" + fl + " selects from the first element equal to a through the last", cases: sOpen},
			c17Class{rule: "R17b", key: "[..b]" + fl, doc: "[..b]" + fl + " selects from the first element through the first element equal to b", cases: eOpen, stops: true},
		)
	}
	return out
}

func c17Ints(v []int) string {
	if len(v) == 0 {
		return "nothing"
	}
	var s []string
	for _, x := range v {
		s = append(s, strconv.Itoa(x))
	}
	return "elements " + strings.Join(s, ",")
}

func c17SameInts(a, b []int) bool {
	if len(a) != len(b) {
		return false
	}
	for i := range a {
		if a[i] != b[i] {
			return false
		}
	}
	return true
}

// c17Slices runs R17a/R17b; returns whether some class only holds under the cooperative-reader contract.
func (c *Ctx) c17Slices(pk *packages.Package) (needCoop bool) {
	fd, _ := c.MustFunc("R17a", c17Ranges, "", "CmdRange")
	if fd == nil {
		return true
	}
	classes := c17Classes()
	nCases := 0
	for _, cl := range classes {
		nCases += len(cl.cases)
		bad, und := 0, ""
		first := ""
		for _, cs := range cl.cases {
			got, errv, failMsg, panicMsg, problems := c.c17RunFilter(pk, fd, cs.n, cs.param, true)
			if failMsg != "" {
				und = failMsg
				break
			}
			why := ""
			switch {
			case panicMsg != "":
				why = "the filter panics: " + panicMsg
			case len(problems) > 0:
				why = problems[0]
			case errv != "" && len(cs.expect) > 0:
				why = "the filter returns an error (" + errv + ")"
			case !c17SameInts(got, cs.expect):
				why = fmt.Sprintf("writes %s, documented slice is %s", c17Ints(got), c17Ints(cs.expect))
			}
			if why != "" {
				bad++
				if first == "" {
					first = fmt.Sprintf("list of %d elements, `[%s`: %s", cs.n, cs.param, why)
				}
			}
		}
		switch {
		case und != "":
			c.Undecided(cl.rule, cl.key, fd.Pos(), "the code reachable from CmdRange left the loop-free subset the rule can tabulate, so the selected slice is not decided for this form: %s", und)
		case bad > 0:
			c.Viol(cl.rule, cl.key, fd.Pos(), "%s — but on %d of %d tabulated (list, bounds) combinations the elements handed to stdout's ArrayWriter differ; first: %s", cl.doc, bad, len(cl.cases), first)
		default:
			c.OK(cl.rule, cl.key, fd.Pos(), "%s: %d (list, bounds) combinations agree with the slice model", cl.doc, len(cl.cases))
		}
		// does this class rely on the reader stopping after p.Done()?
		if cl.stops && und == "" && bad == 0 && !needCoop {
			for _, cs := range cl.cases {
				got, _, f, p, _ := c.c17RunFilter(pk, fd, cs.n, cs.param, false)
				if f != "" || p != "" || !c17SameInts(got, cs.expect) {
					needCoop = true
					c.Info("stop-at-end relies on the reader: with a reader that keeps delivering after p.Done(), list of %d, `[%s` writes %s instead of %s", cs.n, cs.param, c17Ints(got), c17Ints(cs.expect))
					break
				}
			}
		}
	}
	c.MinCount("R17a", "tabulated (list, bounds) combinations", nCases, 1500)
	return needCoop
}

// ---------------------------------------------------------------- R17c readers

type c17Reg struct {
	dt   string
	pk   *packages.Package
	fn   ast.Expr
	call *ast.CallExpr
}

// c17Registrations collects stdio.Register<what>(<const data type>, fn) calls of all loaded murex packages.
func (c *Ctx) c17Registrations(what string) []c17Reg {
	var out []c17Reg
	for _, pk := range c.MurexPkgs() {
		for _, f := range pk.Syntax {
			ast.Inspect(f, func(n ast.Node) bool {
				call, ok := n.(*ast.CallExpr)
				if !ok || len(call.Args) != 2 {
					return true
				}
				if !objIs(callee(pk.TypesInfo, call), mx("lang/stdio"), "", what) {
					return true
				}
				dt, ok := constString(pk.TypesInfo, call.Args[0])
				if !ok {
					dt = "?" + c.src(call.Args[0])
				}
				out = append(out, c17Reg{dt: dt, pk: pk, fn: call.Args[1], call: call})
				return true
			})
		}
	}
	sort.Slice(out, func(i, j int) bool { return out[i].dt < out[j].dt })
	return out
}

// c17FindDecl resolves a function object to its declaration in one of the loaded (source) packages.
// Objects imported through export data are distinct from the source-checked ones, hence by path+name.
func (c *Ctx) c17FindDecl(o types.Object) (*ast.FuncDecl, *packages.Package) {
	fn, ok := o.(*types.Func)
	if !ok || fn.Pkg() == nil {
		return nil, nil
	}
	if sig := fn.Type().(*types.Signature); sig.Recv() != nil {
		return nil, nil
	}
	pk := c.All[fn.Pkg().Path()]
	if pk == nil || len(pk.Syntax) == 0 {
		return nil, nil
	}
	var res *ast.FuncDecl
	eachFunc(pk, func(fd *ast.FuncDecl) {
		if fd.Recv == nil && fd.Name.Name == fn.Name() {
			res = fd
		}
	})
	return res, pk
}

type c17Finding struct {
	bad  bool // true: violation, false: undecided
	what string
}

func c17IsCtxDone(info *types.Info, e ast.Expr, ctx types.Object, defs defMap) bool {
	// <-ctx.Done(), or <-done with the single-definition local `done := ctx.Done()`
	u, ok := unparen(e).(*ast.UnaryExpr)
	if !ok || u.Op != token.ARROW {
		return false
	}
	ch := unparen(u.X)
	if defs != nil {
		ch = defs.resolve1(info, ch)
	}
	call, ok := ch.(*ast.CallExpr)
	if !ok {
		return false
	}
	se, ok := unparen(call.Fun).(*ast.SelectorExpr)
	if !ok || se.Sel.Name != "Done" {
		return false
	}
	id, ok := unparen(se.X).(*ast.Ident)
	return ok && ctx != nil && info.ObjectOf(id) == ctx && objIs(callee(info, call), "context", "Context", "Done")
}

// c17Guarded: the node (a callback invocation) at the bottom of stack is, inside its innermost
// enclosing loop, only reached after a cancellation test of ctx that leaves the loop/function:
//   - select { case <-ctx.Done(): <terminates> ; default: ... node ... }
//   - an earlier statement of the loop body:  if ctx.Err() != nil { <terminates> }  or
//     select { case <-ctx.Done(): <terminates>; default: }
func c17Guarded(info *types.Info, stack []ast.Node, loopIdx int, ctx types.Object, defs defMap) bool {
	if ctx == nil {
		return false
	}
	doneArmTerminates := func(sel *ast.SelectStmt) bool {
		for _, cl := range sel.Body.List {
			cc := cl.(*ast.CommClause)
			if cc.Comm == nil {
				continue
			}
			var rx ast.Expr
			switch s := cc.Comm.(type) {
			case *ast.ExprStmt:
				rx = s.X
			case *ast.AssignStmt:
				if len(s.Rhs) == 1 {
					rx = s.Rhs[0]
				}
			}
			if rx != nil && c17IsCtxDone(info, rx, ctx, defs) && c17LeavesSelectArm(cc.Body) {
				return true
			}
		}
		return false
	}
	// (1) node sits in the default arm of such a select, the select being inside the loop
	for i := len(stack) - 1; i > loopIdx; i-- {
		cc, ok := stack[i].(*ast.CommClause)
		if !ok || cc.Comm != nil {
			continue
		}
		// stack[i-1] is the select's body block, stack[i-2] the select
		if i-2 > loopIdx {
			if sel, ok := stack[i-2].(*ast.SelectStmt); ok && doneArmTerminates(sel) {
				return true
			}
		}
	}
	// (2) an earlier top-level statement of the loop body tests the context
	var body *ast.BlockStmt
	switch l := stack[loopIdx].(type) {
	case *ast.ForStmt:
		body = l.Body
	case *ast.RangeStmt:
		body = l.Body
	}
	if body == nil {
		return false
	}
	node := stack[len(stack)-1]
	idx := topLevelIndex(body.List, node)
	for _, s := range body.List[:max(idx, 0)] {
		switch x := s.(type) {
		case *ast.SelectStmt:
			if doneArmTerminates(x) {
				return true
			}
		case *ast.IfStmt:
			if c17Leaves(x.Body.List) && c17IsCtxErrTest(info, x, ctx) {
				return true
			}
		}
	}
	return false
}

// c17IsCtxErrTest: the if statement tests `ctx.Err() != nil` — operands in either order, the call
// written in the condition or bound by the statement's own init (`if err := ctx.Err(); err != nil`).
func c17IsCtxErrTest(info *types.Info, is *ast.IfStmt, ctx types.Object) bool {
	isErrCall := func(e ast.Expr) bool {
		call, ok := unparen(e).(*ast.CallExpr)
		if !ok || !objIs(callee(info, call), "context", "Context", "Err") {
			return false
		}
		se, ok := unparen(call.Fun).(*ast.SelectorExpr)
		if !ok {
			return false
		}
		id, ok := unparen(se.X).(*ast.Ident)
		return ok && info.ObjectOf(id) == ctx
	}
	isNil := func(e ast.Expr) bool {
		id, ok := unparen(e).(*ast.Ident)
		if !ok {
			return false
		}
		_, isN := info.ObjectOf(id).(*types.Nil)
		return isN
	}
	b, ok := unparen(is.Cond).(*ast.BinaryExpr)
	if !ok || b.Op != token.NEQ {
		return false
	}
	subject := b.X
	switch {
	case isNil(b.Y):
	case isNil(b.X):
		subject = b.Y
	default:
		return false
	}
	if is.Init == nil {
		return isErrCall(subject)
	}
	as, ok := is.Init.(*ast.AssignStmt)
	if !ok || as.Tok != token.DEFINE || len(as.Lhs) != 1 || len(as.Rhs) != 1 || !isErrCall(as.Rhs[0]) {
		return false
	}
	if isErrCall(subject) {
		return true
	}
	lid, ok1 := as.Lhs[0].(*ast.Ident)
	sid, ok2 := unparen(subject).(*ast.Ident)
	return ok1 && ok2 && info.Defs[lid] != nil && info.ObjectOf(sid) == info.Defs[lid]
}

// c17Leaves: the statement list ends by leaving the function or the loop (return / break / goto).
func c17Leaves(list []ast.Stmt) bool {
	if len(list) == 0 {
		return false
	}
	switch s := list[len(list)-1].(type) {
	case *ast.ReturnStmt:
		return true
	case *ast.BranchStmt:
		return s.Tok == token.BREAK || s.Tok == token.GOTO
	}
	return false
}

// c17LeavesSelectArm: like c17Leaves for the body of a select arm, where an unlabelled `break`
// only leaves the select (the loop goes on and the callback is invoked again).
func c17LeavesSelectArm(list []ast.Stmt) bool {
	if len(list) == 0 {
		return false
	}
	if b, ok := list[len(list)-1].(*ast.BranchStmt); ok && b.Tok == token.BREAK && b.Label == nil {
		return false
	}
	return c17Leaves(list)
}

// c17Discipline checks, for function body `body` (of fd or of a function literal) with context
// parameter ctx (may be nil) and callback object cb, that every invocation of cb made inside a loop
// is preceded by a cancellation test, following cb into callees it is handed to.
func (c *Ctx) c17Discipline(pk *packages.Package, fname string, body ast.Node, ctx, cb types.Object, depth int, seen map[string]bool) []c17Finding {
	info := pk.TypesInfo
	var out []c17Finding
	if depth > 6 {
		return []c17Finding{{false, fname + ": callback handed on through more than 6 functions"}}
	}
	defs := localDefs(info, body)
	walkStack(body, func(n ast.Node, stack []ast.Node) bool {
		id, ok := n.(*ast.Ident)
		if !ok || info.Uses[id] != cb {
			return true
		}
		// what is the use?
		par := stack[len(stack)-2]
		// enclosing function literal (a wrapper closure) between body and the use?
		litIdx := -1
		for i := len(stack) - 1; i >= 0; i-- {
			if _, ok := stack[i].(*ast.FuncLit); ok && stack[i] != body {
				litIdx = i
				break
			}
		}
		if call, ok := par.(*ast.CallExpr); ok && unparen(call.Fun) == ast.Expr(id) {
			// direct invocation: innermost loop between (wrapper literal | body) and the call
			loopIdx := -1
			for i := len(stack) - 1; i > litIdx && i >= 0; i-- {
				switch stack[i].(type) {
				case *ast.ForStmt, *ast.RangeStmt:
					loopIdx = i
				}
				if loopIdx >= 0 {
					break
				}
			}
			if litIdx >= 0 {
				// invoked from a wrapper closure: the wrapper is the callback from here on
				lit := stack[litIdx].(*ast.FuncLit)
				guarded := loopIdx >= 0 && c17Guarded(info, stack[:len(stack)-1], loopIdx, ctx, defs)
				if !guarded && loopIdx < 0 {
					// does the wrapper itself test the context before invoking?
					guarded = c17GuardedInLit(info, lit, call, ctx, defs)
				}
				if guarded {
					return true
				}
				out = append(out, c.c17FollowLit(pk, fname, body, lit, stack[:litIdx+1], ctx, depth, seen)...)
				return true
			}
			if loopIdx < 0 {
				return true // a single invocation
			}
			if !c17Guarded(info, stack[:len(stack)-1], loopIdx, ctx, defs) {
				if ctx != nil && mentions(info, stack[loopIdx], ctx) {
					out = append(out, c17Finding{false, fmt.Sprintf("%s (%s): the loop mentions the context but not in a recognised cancellation idiom (select on <-ctx.Done() with the callback in the default arm, or an earlier `if ctx.Err() != nil {return}`)", fname, c.pos(call.Pos()))})
				} else {
					out = append(out, c17Finding{true, fmt.Sprintf("%s invokes the callback in a loop (%s) without testing ctx.Done() between elements", fname, c.pos(call.Pos()))})
				}
			}
			return true
		}
		if call, ok := par.(*ast.CallExpr); ok {
			// handed to another function
			ai := -1
			for i, a := range call.Args {
				if unparen(a) == ast.Expr(id) {
					ai = i
				}
			}
			if ai < 0 {
				out = append(out, c17Finding{false, fmt.Sprintf("%s (%s): callback used in an unrecognised way", fname, c.pos(id.Pos()))})
				return true
			}
			out = append(out, c.c17FollowCall(pk, fname, call, ai, ctx, depth, seen)...)
			return true
		}
		out = append(out, c17Finding{false, fmt.Sprintf("%s (%s): callback value escapes (%s)", fname, c.pos(id.Pos()), c.src(par))})
		return true
	})
	return out
}

// c17GuardedInLit: inside the wrapper literal the invocation sits in the default arm of a
// select on <-ctx.Done() (or after an `if ctx.Err() != nil {return}`).
func c17GuardedInLit(info *types.Info, lit *ast.FuncLit, call *ast.CallExpr, ctx types.Object, defs defMap) bool {
	if ctx == nil {
		return false
	}
	ok := false
	walkStack(lit.Body, func(n ast.Node, stack []ast.Node) bool {
		if n != ast.Node(call) {
			return true
		}
		// reuse c17Guarded with a pseudo loop = the literal's body block
		full := append([]ast.Node{&ast.ForStmt{Body: lit.Body}}, stack...)
		ok = c17Guarded(info, full, 0, ctx, defs)
		return false
	})
	return ok
}

// c17FollowLit: a wrapper closure that invokes the callback unguarded; find where the closure goes.
func (c *Ctx) c17FollowLit(pk *packages.Package, fname string, body ast.Node, lit *ast.FuncLit, stack []ast.Node, ctx types.Object, depth int, seen map[string]bool) []c17Finding {
	info := pk.TypesInfo
	par := stack[len(stack)-2]
	// passed directly as an argument
	if call, ok := par.(*ast.CallExpr); ok {
		for i, a := range call.Args {
			if unparen(a) == ast.Expr(lit) {
				return c.c17FollowCall(pk, fname, call, i, ctx, depth, seen)
			}
		}
	}
	// assigned to a local, then used
	var obj types.Object
	switch s := par.(type) {
	case *ast.AssignStmt:
		for i, r := range s.Rhs {
			if unparen(r) == ast.Expr(lit) && len(s.Lhs) == len(s.Rhs) {
				if id, ok := s.Lhs[i].(*ast.Ident); ok {
					obj = info.ObjectOf(id)
				}
			}
		}
	case *ast.ValueSpec:
		for i, r := range s.Values {
			if unparen(r) == ast.Expr(lit) && len(s.Names) == len(s.Values) {
				obj = info.ObjectOf(s.Names[i])
			}
		}
	}
	if obj == nil {
		return []c17Finding{{false, fmt.Sprintf("%s (%s): a closure wrapping the callback is used in an unrecognised way", fname, c.pos(lit.Pos()))}}
	}
	key := fmt.Sprintf("%s:%s:%d", fname, obj.Name(), depth)
	if seen[key] {
		return nil
	}
	seen[key] = true
	// treat the local as the callback of the same body (skipping the literal itself)
	// the local now stands for the callback in the same body
	return c.c17Discipline(pk, fname, body, ctx, obj, depth, seen)
}

// c17FollowCall: the callback (or a wrapper of it) is argument ai of call; check the callee.
func (c *Ctx) c17FollowCall(pk *packages.Package, fname string, call *ast.CallExpr, ai int, ctx types.Object, depth int, seen map[string]bool) []c17Finding {
	info := pk.TypesInfo
	o := callee(info, call)
	fd, fpk := c.c17FindDecl(o)
	if fd == nil {
		return []c17Finding{{false, fmt.Sprintf("%s (%s): callback handed to %s, whose body is not among the analysed packages", fname, c.pos(call.Pos()), calleeName(info, call))}}
	}
	// map parameters
	var params []types.Object
	for _, f := range fd.Type.Params.List {
		if len(f.Names) == 0 {
			params = append(params, nil)
			continue
		}
		for _, n := range f.Names {
			params = append(params, fpk.TypesInfo.ObjectOf(n))
		}
	}
	if ai >= len(params) || params[ai] == nil {
		return []c17Finding{{false, fmt.Sprintf("%s (%s): cannot map the callback to a parameter of %s", fname, c.pos(call.Pos()), fd.Name.Name)}}
	}
	// which parameter of the callee receives our ctx?
	var cctx types.Object
	if ctx != nil {
		for i, a := range call.Args {
			if id, ok := unparen(a).(*ast.Ident); ok && info.ObjectOf(id) == ctx && i < len(params) {
				cctx = params[i]
			}
		}
	}
	name := relPkg(fpk.PkgPath) + "." + fd.Name.Name
	key := fmt.Sprintf("%s/%d/%v", name, ai, cctx != nil)
	if seen[key] {
		return nil
	}
	seen[key] = true
	sub := c.c17Discipline(fpk, name, fd.Body, cctx, params[ai], depth+1, seen)
	for i := range sub {
		sub[i].what = fmt.Sprintf("%s -> %s", fname, sub[i].what)
	}
	return sub
}

func (c *Ctx) c17Readers(needCoop bool) {
	reads := c.c17Registrations("RegisterReadArray")
	writes := c.c17Registrations("RegisterWriteArray")
	c.MinCount("R17c", "stdio.RegisterReadArray registrations", len(reads), 15)
	c.MinCount("R17c", "stdio.RegisterWriteArray registrations", len(writes), 10)
	if !needCoop {
		c.OK("R17c", "callback:latch", token.NoPos, "readArray's callback writes nothing after the end match even when the reader keeps delivering elements; the readers' cancellation discipline is not needed for C17")
		return
	}
	writable := map[string]bool{}
	for _, w := range writes {
		writable[w.dt] = true
	}
	readable := map[string]bool{}
	n := 0
	var generic *c17Reg
	for i, r := range reads {
		readable[r.dt] = true
		if r.dt == "*" {
			generic = &reads[i]
		}
	}
	check := func(r c17Reg, dts string) {
		info := r.pk.TypesInfo
		id, ok := unparen(r.fn).(*ast.Ident)
		var fd *ast.FuncDecl
		if ok {
			fd, _ = c.c17FindDecl(info.ObjectOf(id))
		}
		key := "reader:" + relPkg(r.pk.PkgPath) + "." + c.src(r.fn)
		if fd == nil {
			c.Undecided("R17c", key, r.call.Pos(), "ReadArray implementation registered for %s is not a package-level function of an analysed package", dts)
			return
		}
		n++
		var params []types.Object
		for _, f := range fd.Type.Params.List {
			for _, nm := range f.Names {
				params = append(params, info.ObjectOf(nm))
			}
			if len(f.Names) == 0 {
				params = append(params, nil)
			}
		}
		if len(params) != 3 || params[2] == nil {
			c.Undecided("R17c", key, fd.Pos(), "unexpected parameter list")
			return
		}
		ctx := params[0]
		if ctx != nil && ctx.Name() == "_" {
			ctx = nil
		}
		fs := c.c17Discipline(r.pk, relPkg(r.pk.PkgPath)+"."+fd.Name.Name, fd.Body, ctx, params[2], 0, map[string]bool{})
		var bad, und []string
		for _, f := range fs {
			if f.bad {
				bad = append(bad, f.what)
			} else {
				und = append(und, f.what)
			}
		}
		switch {
		case len(bad) > 0:
			c.Viol("R17c", key, fd.Pos(), "ReadArray implementation for data type %s: %s — readArray's callback keeps writing once the end of the range matched (it relies on p.Done() stopping the reader), so `[s..e]` / `[..e]` on this data type also outputs every element after e", dts, strings.Join(bad, "; "))
		case len(und) > 0:
			c.Undecided("R17c", key, fd.Pos(), "ReadArray implementation for data type %s: %s", dts, strings.Join(und, "; "))
		default:
			c.OK("R17c", key, fd.Pos(), "ReadArray implementation for data type %s tests ctx.Done() before every callback invocation made in a loop", dts)
		}
	}
	// group registrations by implementation
	type grp struct {
		r   c17Reg
		dts []string
	}
	groups := map[string]*grp{}
	var order []string
	for _, r := range reads {
		if !writable[r.dt] {
			c.Info("data type %s has a ReadArray but no WriteArray implementation: the range filter fails on it before reading (p.Stdout.WriteArray), reader not checked", r.dt)
			continue
		}
		k := r.pk.PkgPath + "." + c.src(r.fn)
		if groups[k] == nil {
			groups[k] = &grp{r: r}
			order = append(order, k)
		}
		groups[k].dts = append(groups[k].dts, "`"+r.dt+"`")
	}
	for _, w := range writes {
		if !readable[w.dt] && generic != nil {
			k := generic.pk.PkgPath + "." + c.src(generic.fn)
			if groups[k] != nil {
				groups[k].dts = append(groups[k].dts, "`"+w.dt+"` (via the generic fallback)")
			}
		}
	}
	for _, k := range order {
		check(groups[k].r, strings.Join(groups[k].dts, ", "))
	}
	c.MinCount("R17c", "ReadArray implementations checked", n, 10)
}
