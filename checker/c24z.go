package main

import (
	"go/ast"
	"go/token"
	"go/types"
	"sort"
)

// R24g — a declared flag is never swallowed as the value of the flag before it.
// `--str --bool x` with both flags declared must report --str as missing its value
// (or take what the table says), not store "--bool" into --str. In ParseFlags the
// value of a pending flag is taken from the current parameter only where that
// parameter is known not to be a declared flag: it does not start with `-`, or the
// table lookups for it (alias / boolean / valued) have already failed.
func init() {
	extend("C24", func(c *Ctx) {
		c.Rule("R24g", "ParseFlags: every `flags.set(<pending flag>, params[i], …)` is control-dependent on `strings.HasPrefix(params[i], \"-\")` being false or on `args.Flags[params[i]] != \"\"` being false (earlier cases of the enclosing tagless switches count as negated guards)")
		fd, pk := c.MustFunc("R24g", "lang/parameters", "", "ParseFlags")
		if fd == nil {
			return
		}
		info := pk.TypesInfo
		n := 0
		walkStack(fd.Body, func(nd ast.Node, stack []ast.Node) bool {
			call, ok := nd.(*ast.CallExpr)
			if !ok || len(call.Args) != 3 {
				return true
			}
			fn, ok := callee(info, call).(*types.Func)
			if !ok || fn.Name() != "set" {
				return true
			}
			// value argument is the current parameter params[i]
			ix, ok := unparen(call.Args[1]).(*ast.IndexExpr)
			if !ok {
				return true
			}
			cur := c.src(ix)
			n++
			// propositional check: (conjunction of the guards) ⇒ (¬HasPrefix(cur,"-") ∨ ¬declared(cur)), by
			// truth table over the guards' leaf conditions
			atom := func(e ast.Expr) (string, bool, bool) {
				e = unparen(e)
				if hc, isCall := e.(*ast.CallExpr); isCall {
					if hf, ok := callee(info, hc).(*types.Func); ok && hf.Name() == "HasPrefix" && len(hc.Args) == 2 && c.src(hc.Args[0]) == cur {
						if s, isS := constString(info, hc.Args[1]); isS && s == "-" {
							return "HP", false, true
						}
					}
				}
				if be, isB := e.(*ast.BinaryExpr); isB {
					if be.Op == token.LAND || be.Op == token.LOR {
						return "", false, false
					}
					if be.Op == token.NEQ || be.Op == token.EQL {
						x, y := be.X, be.Y
						if isEmptyStr(info, x) {
							x, y = y, x
						}
						if fx, isIx := unparen(x).(*ast.IndexExpr); isIx && isEmptyStr(info, y) && c.src(fx.Index) == cur {
							if _, isMap := info.TypeOf(fx.X).Underlying().(*types.Map); isMap {
								return "DECL", be.Op == token.EQL, true
							}
						}
					}
				}
				if u, isU := e.(*ast.UnaryExpr); isU && u.Op == token.NOT {
					return "", false, false
				}
				if id, isID := e.(*ast.Ident); isID && (id.Name == "true" || id.Name == "false") {
					return "", false, false
				}
				return "x:" + c.src(e), false, true
			}
			var guards []Guard
			for _, g := range guardsAt(info, stack) {
				if g.Cond != nil {
					guards = append(guards, g)
				}
			}
			set := map[string]bool{"HP": true, "DECL": true}
			var collect func(e ast.Expr)
			collect = func(e ast.Expr) {
				e = unparen(e)
				if nm, _, ok := atom(e); ok {
					set[nm] = true
					return
				}
				switch x := e.(type) {
				case *ast.BinaryExpr:
					collect(x.X)
					collect(x.Y)
				case *ast.UnaryExpr:
					collect(x.X)
				}
			}
			for _, g := range guards {
				collect(g.Cond)
			}
			var atoms []string
			for k := range set {
				atoms = append(atoms, k)
			}
			sort.Strings(atoms)
			okGuard := len(atoms) <= 14
			for m := 0; okGuard && m < 1<<len(atoms); m++ {
				env := map[string]bool{}
				for i, k := range atoms {
					env[k] = m&(1<<i) != 0
				}
				hold := true
				for _, g := range guards {
					var unk []string
					v := evalBool(g.Cond, atom, env, &unk)
					if v == g.Neg {
						hold = false
						break
					}
				}
				if hold && env["HP"] && env["DECL"] {
					okGuard = false
				}
			}
			c.Check(okGuard, "R24g", "ParseFlags:pending-value#"+itoa(n), call.Pos(), "%s takes the current parameter as the value of the pending flag only where the parameter is not a declared flag (no leading `-`, or the flag table has no entry for it) — otherwise `--str --bool x` stores \"--bool\" into --str", c.src(call))
			return true
		})
		c.MinCount("R24g", "pending-value stores in ParseFlags", n, 2)
	})
}
