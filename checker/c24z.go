package main

import (
	"go/ast"
	"go/token"
	"go/types"
)

// R24g — a declared flag is never swallowed as the value of the flag before it.
// `--str --bool x` with both flags declared must report --str as missing its value
// (or take what the table says), not store "--bool" into --str. In ParseFlags the
// value of a pending flag is taken from the current parameter only where that
// parameter is known not to be a declared flag: it does not start with `-`, or the
// table lookups for it (alias / boolean / valued) have already failed.
func init() {
	extend("C24", func(c *Ctx) {
		c.Rule("R24g", "ParseFlags: every `flags.set(<pending flag>, params[i], …)` is control-dependent on `strings.HasPrefix(params[i], \"-\")` being false or on `args.Flags[params[i]] != \"\"` being false (earlier cases of the enclosing tagless switches count as negated guards)")
		fd, pk := c.MustFunc("R24g", "lang/parameters", "", "ParseFlags")
		if fd == nil {
			return
		}
		info := pk.TypesInfo
		n := 0
		walkStack(fd.Body, func(nd ast.Node, stack []ast.Node) bool {
			call, ok := nd.(*ast.CallExpr)
			if !ok || len(call.Args) != 3 {
				return true
			}
			fn, ok := callee(info, call).(*types.Func)
			if !ok || fn.Name() != "set" {
				return true
			}
			// value argument is the current parameter params[i]
			ix, ok := unparen(call.Args[1]).(*ast.IndexExpr)
			if !ok {
				return true
			}
			cur := c.src(ix)
			n++
			okGuard := false
			for _, ft := range factsOf(guardsAt(info, stack)) {
				e := unparen(ft.E)
				// strings.HasPrefix(params[i], "-") == false
				if hc, isCall := e.(*ast.CallExpr); isCall && !ft.True {
					if hf, ok := callee(info, hc).(*types.Func); ok && hf.Name() == "HasPrefix" && len(hc.Args) == 2 && c.src(hc.Args[0]) == cur {
						if s, isS := constString(info, hc.Args[1]); isS && s == "-" {
							okGuard = true
						}
					}
				}
				// args.Flags[params[i]] != "" is false  /  == "" is true
				if be, isB := e.(*ast.BinaryExpr); isB && (be.Op == token.NEQ || be.Op == token.EQL) {
					x, y := be.X, be.Y
					if isEmptyStr(info, x) {
						x, y = y, x
					}
					if fx, isIx := unparen(x).(*ast.IndexExpr); isIx && isEmptyStr(info, y) && c.src(fx.Index) == cur {
						if _, isMap := info.TypeOf(fx.X).Underlying().(*types.Map); isMap && (be.Op == token.NEQ) != ft.True {
							okGuard = true
						}
					}
				}
			}
			c.Check(okGuard, "R24g", "ParseFlags:pending-value#"+itoa(n), call.Pos(), "%s takes the current parameter as the value of the pending flag only where the parameter is not a declared flag (no leading `-`, or the flag table has no entry for it) — otherwise `--str --bool x` stores \"--bool\" into --str", c.src(call))
			return true
		})
		c.MinCount("R24g", "pending-value stores in ParseFlags", n, 2)
	})
}
