package main

import (
	"sort"
)

func init() {
	register("C32", "Decides, for every mutex-bearing interpreter structure in the frozen guarded-by table (streams.Stdin, lang.Variables, pipes.Named, config.Config, lang.Aliases, MurexFuncs, privateFunctions, jobs, funcID, methods, ForkManagement, ModuleVars, foregroundProc, Tests, TestResults, UnitTests, parameters.Parameters, process.Name, process.SystemProcess, cache.internalCacheT), that every read of a guarded field holds the structure's mutex (R or W) and every write — including stores through callees that write their slice/map parameter's elements and in-place sorts — holds it exclusively, on every path of every function (must-hold lockset on go/cfg; requires-lock helpers discharged at all call sites). Does NOT decide races on state that is not owned by a mutex-bearing struct, channel protocols, or objects that escape their lock by reference (Dump methods returning live maps).", runC32)
}

type c32Spec struct {
	LockSpec
	min int
}

var c32Table = []c32Spec{
	{LockSpec{Pkg: streamsPkg, Type: "Stdin", Mutex: "mutex", Fields: []string{"buffer", "bRead", "bWritten", "max", "dependents", "dataType"}, Atomic: map[string]bool{"dependents": true}}, 35},
	{LockSpec{Pkg: "lang", Type: "Variables", Mutex: "mutex", Fields: []string{"vars"}}, 16},
	{LockSpec{Pkg: "lang/pipes", Type: "Named", Mutex: "mutex", Fields: []string{"pipes"}}, 14},
	{LockSpec{Pkg: "config", Type: "Config", Mutex: "mutex", Fields: []string{"properties", "values", "fileRefSet"}}, 40},
	{LockSpec{Pkg: "lang", Type: "Aliases", Mutex: "mutex", Fields: []string{"aliases"}}, 5},
	{LockSpec{Pkg: "lang", Type: "MurexFuncs", Mutex: "mutex", Fields: []string{"fn"}}, 6},
	{LockSpec{Pkg: "lang", Type: "privateFunctions", Mutex: "mutex", Fields: []string{"module"}}, 4},
	{LockSpec{Pkg: "lang", Type: "jobs", Mutex: "mutex", Fields: []string{"jobs"}}, 15},
	{LockSpec{Pkg: "lang", Type: "funcID", Mutex: "mutex", Fields: []string{"list"}}, 6},
	{LockSpec{Pkg: "lang", Type: "methods", Mutex: "mutex", Fields: []string{"dt"}}, 5},
	{LockSpec{Pkg: "lang", Type: "ForkManagement", Mutex: "mutex", Fields: []string{"forks"}}, 3},
	{LockSpec{Pkg: "lang", Type: "ModuleVars", Mutex: "mutex", Fields: []string{"vars"}}, 3},
	{LockSpec{Pkg: "lang", Type: "foregroundProc", Mutex: "mutex", Fields: []string{"p"}}, 2},
	{LockSpec{Pkg: "lang", Type: "Tests", Mutex: "mutex", Fields: []string{"test", "stateBlocks"}}, 6},
	{LockSpec{Pkg: "lang", Type: "TestResults", Mutex: "mutex", Fields: []string{"results"}}, 5},
	{LockSpec{Pkg: "lang", Type: "UnitTests", Mutex: "mutex", Fields: []string{"units"}}, 3},
	{LockSpec{Pkg: "lang/parameters", Type: "Parameters", Mutex: "mutex", Fields: []string{"params"}}, 10},
	{LockSpec{Pkg: "lang/process", Type: "Name", Mutex: "mutex", Fields: []string{"name"}}, 4},
	{LockSpec{Pkg: "lang/process", Type: "SystemProcess", Mutex: "mutex", Fields: []string{"inheritance"}}, 4},
	{LockSpec{Pkg: "utils/cache", Type: "internalCacheT", Mutex: "mutex", Fields: []string{"cache"},
		Exempt: map[string]string{"utils/cache.initNamespace:cache:write": "the object is allocated by `new` one statement earlier and reached through the map slot it was just stored in; not yet shared"}}, 5},
}

func runC32(c *Ctx) {
	pkgs := map[string]bool{}
	for _, s := range c32Table {
		pkgs[s.Pkg] = true
	}
	var list []string
	for p := range pkgs {
		list = append(list, p)
	}
	sort.Strings(list)
	c.Load(list...)
	c.Rule("R32", "E1 must-hold lockset over the frozen guarded-by table: every read of a guarded field needs its struct's mutex (R or W), every write (assignment, map store, delete, append target, in-place sort, store through a callee that writes its parameter's elements) needs W; constructors on fresh objects exempt; unexported helpers without locking are discharged at all their call sites")
	nm := computeMutators(c.MurexPkgs())
	c.Info("R32: %d functions of the loaded packages store into the elements of a slice/map parameter (treated as writes of the argument at their call sites)", nm)
	for _, s := range c32Table {
		n := c.runLockset("R32", s.LockSpec)
		c.MinCount("R32", "guarded accesses to "+s.Pkg+"."+s.Type, n, s.min)
	}
	c.MinCount("R32", "structures in the guarded-by table", len(c32Table), 20)

	c.Rule("R32b", "lock balance: in the packages of the guarded-by table every function releases each mutex it locked on every path to an exit, or defers the unlock (a lock left held makes the next access block forever)")
	nb := c.runLockBalance("R32b", list, nil)
	c.MinCount("R32b", "functions that take a lock", nb, 100)
}
