package main

import (
	"go/ast"
	"go/types"
	"strings"
)

// R08h — the typed array readers behind `@name` hand each element on as it is. For a
// variable whose type has no reader of its own (json, yaml, … decoded into Go slices) the
// elements come from lang's readArrayWithType* helpers; getArray turns each callback into
// one argument. A helper that "cleans" string elements (trim, lower-case, replace) alters
// the argument, and a blank-only element vanishes from the argument list.
func init() {
	extend("C08", func(c *Ctx) {
		c.Rule("R08h", "lang.readArrayWithType*: the value given to the element callback is, for text elements (data type types.String), the element itself up to parentheses, type assertions and plain conversions — no function call; for every element no call into strings/bytes/unicode/regexp lies on the value's derivation")
		if c.Pkg("lang") == nil {
			c.Load("lang")
		}
		pk := c.Pkg("lang")
		if pk == nil {
			c.Lost("R08h", "pkg", "lang not loaded")
			return
		}
		info := pk.TypesInfo
		n := 0
		eachFunc(pk, func(fd *ast.FuncDecl) {
			if fd.Body == nil || fd.Recv != nil || !strings.HasPrefix(fd.Name.Name, "readArrayWithType") || fd.Type.Params == nil {
				return
			}
			cbs := map[types.Object]bool{}
			for _, f := range fd.Type.Params.List {
				if _, ok := info.TypeOf(f.Type).Underlying().(*types.Signature); ok {
					for _, nm := range f.Names {
						cbs[info.ObjectOf(nm)] = true
					}
				}
			}
			defs := localDefs(info, fd.Body)
			var strip func(e ast.Expr) ast.Expr
			strip = func(e ast.Expr) ast.Expr {
				for {
					e = stripConv(info, unparen(e))
					if ta, ok := e.(*ast.TypeAssertExpr); ok {
						e = ta.X
						continue
					}
					return unparen(e)
				}
			}
			for _, call := range calls(fd.Body, true) {
				id, ok := call.Fun.(*ast.Ident)
				if !ok || !cbs[info.ObjectOf(id)] || len(call.Args) < 2 {
					continue
				}
				n++
				key := fd.Name.Name + ":callback@" + c.src(call.Args[1]) + ":" + c.src(call.Args[0])
				val := defs.resolve1(info, call.Args[0])
				// text transformers anywhere on the derivation
				bad := ""
				ast.Inspect(val, func(m ast.Node) bool {
					if cc, ok := m.(*ast.CallExpr); ok {
						if o := callee(info, cc); o != nil && o.Pkg() != nil {
							switch o.Pkg().Path() {
							case "strings", "bytes", "unicode", "regexp":
								bad = objName(o)
							}
						}
					}
					return true
				})
				isText := isPkgObj(info, call.Args[1], mx("lang/types"), "String")
				if isText && bad == "" {
					switch strip(val).(type) {
					case *ast.Ident, *ast.IndexExpr, *ast.SelectorExpr, *ast.BasicLit:
					default:
						bad = "derived by " + c.src(val)
					}
				}
				c.Check(bad == "", "R08h", key, call.Pos(), "%s passes the element on unchanged (offending: %s) — `@name` must yield the stored element as one argument, whitespace included", fd.Name.Name, bad)
			}
		})
		c.MinCount("R08h", "element callbacks in lang.readArrayWithType*", n, 10)
	})
}
