package main

import (
	"go/ast"
	"go/token"
	"go/types"
)

// R33f — only the two writers touch the file: writeFile is generic over the
// truncate/append writer it is given, so any other way of producing the file in
// it (os.WriteFile, os.Create, os.OpenFile …) ignores which of `|>` / `>>` ran.
func init() {
	extend("C33", func(c *Ctx) {
		c.Rule("R33f", "who may write: in builtins/core/io the os file-creating/-writing API (os.Create, os.OpenFile, os.WriteFile, (*os.File).Write*…) is called by truncateFile and appendFile only, and every return of writeFile is either `return fn(…)` (the writer it was given) or the error of reading its parameter/stdin under `err != nil`")
		pk := c.Pkg("builtins/core/io")
		if pk == nil {
			c.Lost("R33f", "pkg:builtins/core/io", "package not loaded")
			return
		}
		info := pk.TypesInfo
		fdW, _ := c.MustFunc("R33f", "builtins/core/io", "", "writeFile")
		if fdW == nil {
			return
		}
		var wfile string
		if f := c.Fset.File(fdW.Pos()); f != nil {
			wfile = f.Name()
		}
		writers := map[string]bool{"Create": true, "OpenFile": true, "WriteFile": true, "CreateTemp": true, "Rename": true, "Truncate": true}
		fileMeth := map[string]bool{"Write": true, "WriteString": true, "WriteAt": true, "ReadFrom": true, "Truncate": true, "Seek": true}
		nOK, nBad := 0, 0
		for _, f := range pk.Syntax {
			if c.Fset.File(f.Pos()).Name() != wfile {
				continue
			}
			for _, d := range f.Decls {
				fd, ok := d.(*ast.FuncDecl)
				if !ok || fd.Body == nil {
					continue
				}
				for _, call := range calls(fd.Body, true) {
					fn, ok := callee(info, call).(*types.Func)
					if !ok || fn.Pkg() == nil || fn.Pkg().Path() != "os" {
						continue
					}
					sig := fn.Type().(*types.Signature)
					isW := false
					if sig.Recv() == nil {
						isW = writers[fn.Name()]
					} else if namedName(sig.Recv().Type()) == "File" {
						isW = fileMeth[fn.Name()]
					}
					if !isW {
						continue
					}
					if fd.Name.Name == "truncateFile" || fd.Name.Name == "appendFile" {
						nOK++
						continue
					}
					nBad++
					c.Viol("R33f", "os-writer@"+fd.Name.Name+":"+fn.Name(), call.Pos(), "%s calls os.%s itself: the file is produced without going through the truncate/append writer selected by the command (`>>` would no longer append, `|>` no longer truncate)", fd.Name.Name, fn.Name())
				}
			}
		}
		if nBad == 0 {
			c.OK("R33f", "os-writers", fdW.Pos(), "%d os file-opening calls in the file of writeFile, all inside truncateFile/appendFile", nOK)
		}
		c.MinCount("R33f", "os file-opening calls inside truncateFile/appendFile", nOK, 2)

		// the writer parameter
		var fnParam types.Object
		if fdW.Type.Params != nil {
			for _, f := range fdW.Type.Params.List {
				for _, nm := range f.Names {
					if o := info.Defs[nm]; o != nil {
						if _, ok := o.Type().Underlying().(*types.Signature); ok {
							fnParam = o
						}
					}
				}
			}
		}
		if fnParam == nil {
			c.Undecided("R33f", "writeFile:writer-param", fdW.Pos(), "writeFile has no function-typed parameter")
			return
		}
		nRet, nViaFn := 0, 0
		walkStack(fdW.Body, func(nd ast.Node, stack []ast.Node) bool {
			if _, ok := nd.(*ast.FuncLit); ok {
				return false
			}
			rs, ok := nd.(*ast.ReturnStmt)
			if !ok || len(rs.Results) != 1 {
				return true
			}
			nRet++
			key := "writeFile:return#" + itoa(nRet)
			r := unparen(rs.Results[0])
			if call, ok := r.(*ast.CallExpr); ok {
				if id, ok := unparen(call.Fun).(*ast.Ident); ok && info.ObjectOf(id) == fnParam {
					nViaFn++
					c.OK("R33f", key, rs.Pos(), "returns the selected writer's result")
					return true
				}
				c.Viol("R33f", key, rs.Pos(), "writeFile returns %s — a path that ends the command without calling the selected truncate/append writer", c.src(r))
				return true
			}
			if id, ok := r.(*ast.Ident); ok {
				// the selected writer already ran on this path and its error was returned by the test
				// in front (`if err := fn(…); err != nil { return err }; return nil`)
				if c33WriterRanBefore(info, stack, rs, fnParam) {
					nViaFn++
					c.OK("R33f", key, rs.Pos(), "returns %s after the selected writer ran and its error was checked", id.Name)
					return true
				}
				// `v := fn(…)` / `v = fn(…)` immediately followed by `return v`
				if call := c33PrevAssignedCall(info, stack, rs, id); call != nil {
					if fid, ok := unparen(call.Fun).(*ast.Ident); ok && info.ObjectOf(fid) == fnParam {
						nViaFn++
						c.OK("R33f", key, rs.Pos(), "returns the selected writer's result (through %s)", id.Name)
						return true
					}
				}
				// must be an error variable known non-nil here
				nonNil := false
				for _, ft := range factsOf(guardsAt(info, stack)) {
					be, ok := unparen(ft.E).(*ast.BinaryExpr)
					if !ok || !((be.Op == token.NEQ && ft.True) || (be.Op == token.EQL && !ft.True)) {
						continue
					}
					x, y := unparen(be.X), unparen(be.Y)
					if isNilIdent(info, x) {
						x, y = y, x
					}
					if xi, ok := x.(*ast.Ident); ok && isNilIdent(info, y) && info.ObjectOf(xi) == info.ObjectOf(id) {
						nonNil = true
					}
				}
				if nonNil {
					c.OK("R33f", key, rs.Pos(), "returns the error %s under %s != nil", id.Name, id.Name)
				} else {
					c.Viol("R33f", key, rs.Pos(), "writeFile returns %s where it is not known to be a non-nil error: the command can succeed without the selected writer having run", id.Name)
				}
				return true
			}
			c.Undecided("R33f", key, rs.Pos(), "unrecognised return %s", c.src(r))
			return true
		})
		c.MinCount("R33f", "returns of writeFile through the selected writer", nViaFn, 3)
	})
}

func isNilIdent(info *types.Info, e ast.Expr) bool {
	id, ok := e.(*ast.Ident)
	if !ok {
		return false
	}
	_, isNil := info.ObjectOf(id).(*types.Nil)
	return isNil
}

// c33PrevAssignedCall: rs is `return id` and the statement just before it in the same block is
// `id := <call>` / `id = <call>`; returns that call.
func c33PrevAssignedCall(info *types.Info, stack []ast.Node, rs *ast.ReturnStmt, id *ast.Ident) *ast.CallExpr {
	if len(stack) < 2 {
		return nil
	}
	var list []ast.Stmt
	switch b := stack[len(stack)-2].(type) {
	case *ast.BlockStmt:
		list = b.List
	case *ast.CaseClause:
		list = b.Body
	}
	for i, s := range list {
		if s != ast.Stmt(rs) || i == 0 {
			continue
		}
		as, ok := list[i-1].(*ast.AssignStmt)
		if !ok || len(as.Lhs) != 1 || len(as.Rhs) != 1 {
			return nil
		}
		lid, ok := as.Lhs[0].(*ast.Ident)
		if !ok || info.ObjectOf(lid) != info.ObjectOf(id) {
			return nil
		}
		call, _ := unparen(as.Rhs[0]).(*ast.CallExpr)
		return call
	}
	return nil
}

// c33ErrCheckReturns: ifs is `if <v> != nil { return <v> }` (either operand order, nothing else in the body).
func c33ErrCheckReturns(info *types.Info, ifs *ast.IfStmt, v types.Object) bool {
	if ifs.Else != nil || len(ifs.Body.List) != 1 {
		return false
	}
	be, ok := unparen(ifs.Cond).(*ast.BinaryExpr)
	if !ok || be.Op != token.NEQ {
		return false
	}
	x, y := unparen(be.X), unparen(be.Y)
	if isNilIdent(info, x) {
		x, y = y, x
	}
	xi, ok := x.(*ast.Ident)
	if !ok || !isNilIdent(info, y) || info.ObjectOf(xi) != v {
		return false
	}
	rs, ok := ifs.Body.List[0].(*ast.ReturnStmt)
	if !ok || len(rs.Results) != 1 {
		return false
	}
	ri, ok := unparen(rs.Results[0]).(*ast.Ident)
	return ok && info.ObjectOf(ri) == v
}

// c33CheckedAndReturned: the call's error is stored in a local that is tested and returned at once —
// `if err := call; err != nil { return err }`, or `err = call` followed by `if err != nil { return err }`.
func c33CheckedAndReturned(info *types.Info, st []ast.Node, call *ast.CallExpr) bool {
	if len(st) < 3 {
		return false
	}
	as, ok := st[len(st)-2].(*ast.AssignStmt)
	if !ok || len(as.Lhs) != 1 || len(as.Rhs) != 1 || unparen(as.Rhs[0]) != ast.Expr(call) {
		return false
	}
	id, ok := as.Lhs[0].(*ast.Ident)
	if !ok {
		return false
	}
	v := info.ObjectOf(id)
	switch par := st[len(st)-3].(type) {
	case *ast.IfStmt:
		return par.Init == ast.Stmt(as) && c33ErrCheckReturns(info, par, v)
	case *ast.BlockStmt:
		for i, s := range par.List {
			if s == ast.Stmt(as) && i+1 < len(par.List) {
				if ifs, ok := par.List[i+1].(*ast.IfStmt); ok && ifs.Init == nil {
					return c33ErrCheckReturns(info, ifs, v)
				}
			}
		}
	case *ast.CaseClause:
		for i, s := range par.Body {
			if s == ast.Stmt(as) && i+1 < len(par.Body) {
				if ifs, ok := par.Body[i+1].(*ast.IfStmt); ok && ifs.Init == nil {
					return c33ErrCheckReturns(info, ifs, v)
				}
			}
		}
	}
	return false
}

// c33WriterRanBefore: rs is `return nil` (or a return of the error local just tested) and, in the same
// statement list directly in front of it, the selected writer was called and its error checked and returned.
func c33WriterRanBefore(info *types.Info, stack []ast.Node, rs *ast.ReturnStmt, fnParam types.Object) bool {
	if len(stack) < 2 || len(rs.Results) != 1 {
		return false
	}
	var list []ast.Stmt
	switch b := stack[len(stack)-2].(type) {
	case *ast.BlockStmt:
		list = b.List
	case *ast.CaseClause:
		list = b.Body
	}
	idx := -1
	for i, s := range list {
		if s == ast.Stmt(rs) {
			idx = i
		}
	}
	if idx < 1 {
		return false
	}
	ifs, ok := list[idx-1].(*ast.IfStmt)
	if !ok {
		return false
	}
	var as *ast.AssignStmt
	if ifs.Init != nil {
		as, _ = ifs.Init.(*ast.AssignStmt)
	} else if idx >= 2 {
		as, _ = list[idx-2].(*ast.AssignStmt)
	}
	if as == nil || len(as.Lhs) != 1 || len(as.Rhs) != 1 {
		return false
	}
	call, ok := unparen(as.Rhs[0]).(*ast.CallExpr)
	if !ok {
		return false
	}
	fid, ok := unparen(call.Fun).(*ast.Ident)
	if !ok || info.ObjectOf(fid) != fnParam {
		return false
	}
	lid, ok := as.Lhs[0].(*ast.Ident)
	if !ok || !c33ErrCheckReturns(info, ifs, info.ObjectOf(lid)) {
		return false
	}
	// what is returned: nil, or that same (now known nil) error local
	r := unparen(rs.Results[0])
	if isNilIdent(info, r) {
		return true
	}
	rid, ok := r.(*ast.Ident)
	return ok && ifs.Init == nil && info.ObjectOf(rid) == info.ObjectOf(lid)
}
