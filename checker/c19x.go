package main

import (
	"go/ast"
	"go/constant"
	"go/token"
	"go/types"
)

// constValueOf: integer value of a declared constant identifier.
func constValueOf(info *types.Info, id *ast.Ident) (int64, bool) {
	k, ok := info.Defs[id].(*types.Const)
	if !ok || k.Val().Kind() != constant.Int {
		return 0, false
	}
	return constant.Int64Val(k.Val())
}

func init() {
	extend("C19", func(c *Ctx) {
		c.Rule("R19g", "message table covers its codes: every integer constant of the parser-error const block (and every constant error number compile() returns) is a valid index of lang.errMessages, which Fork.Execute indexes with that number — a shorter table turns a compile error into an index-out-of-range panic")
		pk := c.Pkg("lang")
		if pk == nil {
			return
		}
		info := pk.TypesInfo
		tableLen := -1
		var block *ast.GenDecl
		for _, f := range pk.Syntax {
			for _, d := range f.Decls {
				gd, ok := d.(*ast.GenDecl)
				if !ok {
					continue
				}
				for _, sp := range gd.Specs {
					vs, ok := sp.(*ast.ValueSpec)
					if !ok {
						continue
					}
					for i, nm := range vs.Names {
						if gd.Tok == token.VAR && nm.Name == "errMessages" && i < len(vs.Values) {
							if cl, ok := unparen(vs.Values[i]).(*ast.CompositeLit); ok {
								tableLen = len(cl.Elts)
							}
						}
						if gd.Tok == token.CONST && nm.Name == "NoParsingErrors" {
							block = gd
						}
					}
				}
			}
		}
		if tableLen < 0 || block == nil {
			c.Lost("R19g", "errMessages", "lang.errMessages literal or the parser-error const block not found")
			return
		}
		// the table must not be appended to / replaced elsewhere (then its literal length is its length)
		n := 0
		for _, sp := range block.Specs {
			vs := sp.(*ast.ValueSpec)
			for _, nm := range vs.Names {
				val, okv := constValueOf(info, nm)
				if !okv {
					continue
				}
				n++
				c.Check(val >= 0 && int(val) < tableLen, "R19g", "code:"+nm.Name, nm.Pos(), "error code %s = %d has a message in errMessages (table length %d)", nm.Name, val, tableLen)
			}
		}
		c.MinCount("R19g", "parser error codes", n, 4)
		if fd, _ := c.MustFunc("R19g", "lang", "", "compile"); fd != nil {
			k := 0
			ast.Inspect(fd.Body, func(nd ast.Node) bool {
				if _, isLit := nd.(*ast.FuncLit); isLit {
					return false
				}
				rs, ok := nd.(*ast.ReturnStmt)
				if !ok || len(rs.Results) != 2 {
					return true
				}
				if v, ok := constInt(info, rs.Results[1]); ok {
					k++
					c.Check(v >= 0 && int(v) < tableLen, "R19g", "compile:return#"+itoa(k), rs.Pos(), "compile returns error number %d, a valid index of errMessages (length %d)", v, tableLen)
				} else {
					k++
					c.Undecided("R19g", "compile:return#"+itoa(k), rs.Pos(), "compile returns a non-constant error number %s", c.src(rs.Results[1]))
				}
				return true
			})
		}
	})
}
