package main

import (
	"go/ast"
	"go/token"
	"go/types"
)

// R13h — the float a string converts to is derived ONLY by strconv.ParseFloat.
// R13c looks at the arm's final return; an arm may however answer earlier, on a
// "fast path". Every float64 has exactly one shortest string form (R13a/R13f) and
// ParseFloat(…,64) is the only function that maps every such form — "-0", "1e+22",
// "NaN", "0.1" — back to the same bits. A value obtained any other way (an integer
// parse converted with float64(i), a literal, arithmetic, a re-assigned result) is
// a second, lossy decoder: ParseInt("-0") is 0, so negative zero would come back
// as +0.
func init() {
	extend("C13", func(c *Ctx) {
		c.Rule("R13h", "types.goStringRecast, `float` and `num` arms: EVERY return that can report success (error result nil, or an error variable not known to be non-nil there) returns the variable that receives strconv.ParseFloat(<the string parameter>, 64); that variable has no other assignment, increment or address-taking anywhere in the function. No success value comes from an integer parse, a constant or arithmetic")
		fd, pk := c.MustFunc("R13h", "lang/types", "", "goStringRecast")
		if fd == nil {
			return
		}
		info := pk.TypesInfo
		var rp []types.Object
		for _, fl := range fd.Type.Params.List {
			for _, n := range fl.Names {
				rp = append(rp, info.Defs[n])
			}
		}
		if len(rp) != 2 {
			c.Undecided("R13h", "goStringRecast:params", fd.Pos(), "goStringRecast no longer has the (value, data type) parameters")
			return
		}
		arms, sw := c13TagSwitch(info, fd, rp[1])
		if sw == nil {
			c.Undecided("R13h", "goStringRecast:switch", fd.Pos(), "goStringRecast is not a switch on its data-type parameter")
			return
		}
		isV := func(e ast.Expr) bool {
			id, ok := unparen(e).(*ast.Ident)
			return ok && info.ObjectOf(id) == rp[0]
		}
		isParse := func(e ast.Expr) bool {
			call, ok := unparen(e).(*ast.CallExpr)
			if !ok || !callIs(info, call, "strconv", "", "ParseFloat") || len(call.Args) != 2 || !isV(call.Args[0]) {
				return false
			}
			bits, ok := constInt(info, call.Args[1])
			return ok && bits == 64
		}
		// parsed: variables whose EVERY definition in the function is `x, _ = strconv.ParseFloat(v, 64)`
		type defInfo struct {
			fromParse int
			other     ast.Node
		}
		dm := map[types.Object]*defInfo{}
		get := func(e ast.Expr) *defInfo {
			id, ok := unparen(e).(*ast.Ident)
			if !ok {
				return nil
			}
			o := info.ObjectOf(id)
			if o == nil {
				return nil
			}
			if dm[o] == nil {
				dm[o] = &defInfo{}
			}
			return dm[o]
		}
		ast.Inspect(fd.Body, func(n ast.Node) bool {
			switch s := n.(type) {
			case *ast.AssignStmt:
				for i, l := range s.Lhs {
					d := get(l)
					if d == nil {
						continue
					}
					if (s.Tok == token.ASSIGN || s.Tok == token.DEFINE) && len(s.Rhs) == 1 && len(s.Lhs) == 2 && i == 0 && isParse(s.Rhs[0]) {
						d.fromParse++
					} else {
						d.other = s
					}
				}
			case *ast.ValueSpec:
				for i, id := range s.Names {
					d := get(id)
					if d == nil {
						continue
					}
					if len(s.Values) == 1 && len(s.Names) == 2 && i == 0 && isParse(s.Values[0]) {
						d.fromParse++
					} else {
						d.other = s // incl. `var f float64`: zero value reaches a return that the parse does not dominate
					}
				}
			case *ast.IncDecStmt:
				if d := get(s.X); d != nil {
					d.other = s
				}
			case *ast.RangeStmt:
				for _, e := range []ast.Expr{s.Key, s.Value} {
					if e != nil {
						if d := get(e); d != nil {
							d.other = s
						}
					}
				}
			case *ast.UnaryExpr:
				if s.Op == token.AND {
					if d := get(s.X); d != nil {
						d.other = s
					}
				}
			}
			return true
		})
		// single-definition locals that merely rename the parsed value (`result := f`)
		rdefs := localDefs(info, fd.Body)

		nArms := 0
		for _, mt := range []string{"float", "num"} {
			cc := arms[mt]
			key := "goStringRecast:" + mt + ":success-value"
			if cc == nil {
				c.Viol("R13h", key, sw.Pos(), "goStringRecast has no `case %s` arm: the string form of a %s is not parsed back", mt, mt)
				continue
			}
			nArms++
			rets := c13Returns(cc)
			nSucc, bad := 0, 0
			for _, r := range rets {
				if len(r.Results) != 2 {
					c.Undecided("R13h", key, r.Pos(), "%s: not the `return value, err` form", c.src(r))
					bad++
					continue
				}
				// error return: the error result is built here (a call), or is a variable known non-nil at this point
				e1 := unparen(r.Results[1])
				tv := info.Types[e1]
				isErrRet := false
				switch x := e1.(type) {
				case *ast.CallExpr:
					isErrRet = true
				case *ast.Ident:
					if !tv.IsNil() {
						for _, fct := range factsOf(guardsAt(info, pathTo(fd.Body, r))) {
							b, ok := unparen(fct.E).(*ast.BinaryExpr)
							if !ok || (b.Op != token.NEQ && b.Op != token.EQL) {
								continue
							}
							for _, pr := range [][2]ast.Expr{{b.X, b.Y}, {b.Y, b.X}} {
								id, isID := unparen(pr[0]).(*ast.Ident)
								if isID && info.ObjectOf(id) == info.ObjectOf(x) && info.Types[unparen(pr[1])].IsNil() && (b.Op == token.NEQ) == fct.True {
									isErrRet = true
								}
							}
						}
					}
				}
				if isErrRet {
					continue
				}
				nSucc++
				r0 := rdefs.resolve1(info, r.Results[0])
				id, _ := r0.(*ast.Ident)
				var d *defInfo
				if id != nil {
					d = dm[info.ObjectOf(id)]
				}
				switch {
				case d == nil || d.fromParse == 0:
					bad++
					c.Viol("R13h", key, r.Pos(), "goStringRecast `case %s` can answer with %s, a value that is not the result of strconv.ParseFloat(<parameter>, 64): a second decoder beside ParseFloat does not invert FloatToString for every float (an integer parse turns \"-0\" into +0 and rejects nothing ParseFloat would keep exact), so a %s does not survive str→%s", mt, c.src(r.Results[0]), mt, mt)
				case d.other != nil:
					bad++
					c.Viol("R13h", key, r.Pos(), "goStringRecast `case %s` returns %s, which is also written by %s — the parsed float is altered (or may be unset) before it is returned", mt, c.src(r.Results[0]), c.src(d.other))
				}
			}
			if bad == 0 {
				if nSucc == 0 {
					c.Undecided("R13h", key, cc.Pos(), "goStringRecast `case %s` has no return that reports success", mt)
				} else {
					c.OK("R13h", key, cc.Pos(), "%d success return(s) of %d, each the unmodified strconv.ParseFloat(<parameter>, 64) result", nSucc, len(rets))
				}
			}
		}
		c.MinCount("R13h", "float/num arms of goStringRecast", nArms, 2)
	})
}
