package main

import (
	"go/ast"
	"go/token"
	"go/types"
	"strings"
)

// R15f — "writing a list … and reading it back gives the same list": the array writers of the
// five named types put the caller's element on the stream AS IT IS. R15d counts how often the
// parameter is emitted; it does not ask whether what is emitted is still the caller's bytes.
// A writer that normalises, compacts, trims, re-encodes or otherwise rewrites the element
// (json.Compact on a jsonl element, TrimSpace, ToLower …) writes a different element whenever
// the normal form differs from the input, so the list read back is not the list written.
//
// Stated over data flow, not text: in Write/WriteString of every type of those packages that
// implements stdio.ArrayWriter
//   (1) the element parameter is never written (no assignment to it or to its bytes, no & of it,
//       not the destination of copy, not a range variable);
//   (2) the element operand of every emitting call (call on the receiver / a receiver field,
//       append to a receiver field, fmt.Fprint/Fprintln to a receiver field) is DERIVED from the
//       parameter by value-preserving steps only: the parameter itself, a single-definition local
//       holding such a value, a string/[]byte conversion, a full slice x[:], and framing with
//       fixed operands (`"- " + s`, append([]byte{'-',' '}, b...)); any function call, slicing
//       with bounds, indexing or multiply-defined local in between is a violation;
//   (3) a []byte parameter is handed to no other call (it could be changed in place) → undecided.

func c15IsByteOrString(t types.Type) bool {
	switch u := t.Underlying().(type) {
	case *types.Basic:
		return u.Info()&types.IsString != 0
	case *types.Slice:
		b, ok := u.Elem().Underlying().(*types.Basic)
		return ok && (b.Kind() == types.Byte || b.Kind() == types.Uint8)
	}
	return false
}

type c15Flow struct {
	c     *Ctx
	info  *types.Info
	defs  defMap
	param types.Object
	why   string // first reason a derivation was rejected
}

func (f *c15Flow) reject(e ast.Expr, what string) bool {
	if f.why == "" {
		f.why = what + " `" + f.c.src(e) + "`"
	}
	return false
}

// fixed: an operand that does not depend on the element and is the same for every element
// (constant, literal of constants, conversion of those, single-definition local holding one).
func (f *c15Flow) fixed(e ast.Expr, depth int) bool {
	e = unparen(e)
	if depth > 6 || mentions(f.info, e, f.param) {
		return false
	}
	if constOf(f.info, e) != nil {
		return true
	}
	switch x := e.(type) {
	case *ast.CompositeLit:
		for _, el := range x.Elts {
			if kv, ok := el.(*ast.KeyValueExpr); ok {
				el = kv.Value
			}
			if !f.fixed(el, depth+1) {
				return false
			}
		}
		return true
	case *ast.CallExpr:
		if tv, ok := f.info.Types[x.Fun]; ok && tv.IsType() && len(x.Args) == 1 {
			return f.fixed(x.Args[0], depth+1)
		}
	case *ast.Ident:
		if r := f.defs.resolve1(f.info, x); r != ast.Expr(x) {
			return f.fixed(r, depth+1)
		}
	}
	return false
}

// verbatim: the value of e contains the parameter's bytes unchanged (possibly framed by fixed operands).
func (f *c15Flow) verbatim(e ast.Expr, depth int) bool {
	e = unparen(e)
	if depth > 8 {
		return f.reject(e, "derivation too deep at")
	}
	switch x := e.(type) {
	case *ast.Ident:
		o := f.info.ObjectOf(x)
		if o == f.param {
			return true
		}
		ds := f.defs[o]
		if len(ds) == 1 && ds[0] != nil {
			return f.verbatim(ds[0], depth+1)
		}
		if len(ds) > 1 {
			return f.reject(x, "a local with more than one definition (the element is replaced on some path):")
		}
		return f.reject(x, "a value that is not derived from the element parameter:")
	case *ast.CallExpr:
		if tv, ok := f.info.Types[x.Fun]; ok && tv.IsType() && len(x.Args) == 1 {
			if !c15IsByteOrString(tv.Type) || !c15IsByteOrString(f.info.TypeOf(x.Args[0])) {
				return f.reject(x, "a conversion other than string/[]byte:")
			}
			return f.verbatim(x.Args[0], depth+1)
		}
		if ap, ok := isBuiltinCall(f.info, x, "append"); ok {
			nv := 0
			for _, a := range ap.Args {
				if mentions(f.info, a, f.param) || !f.fixed(a, 0) {
					if !f.verbatim(a, depth+1) {
						return false
					}
					nv++
				}
			}
			if nv != 1 {
				return f.reject(x, "an append that carries the element not exactly once:")
			}
			return true
		}
		name := f.c.src(x.Fun)
		if o := callee(f.info, x); o != nil {
			name = objName(o)
		}
		return f.reject(x, "the result of a call to "+name+", which rewrites the element:")
	case *ast.BinaryExpr:
		if x.Op != token.ADD {
			return f.reject(x, "an operator expression:")
		}
		switch {
		case f.fixed(x.X, 0):
			return f.verbatim(x.Y, depth+1)
		case f.fixed(x.Y, 0):
			return f.verbatim(x.X, depth+1)
		}
		return f.reject(x, "a concatenation with a non-fixed operand:")
	case *ast.SliceExpr:
		if x.Low == nil && x.High == nil && x.Max == nil {
			return f.verbatim(x.X, depth+1)
		}
		return f.reject(x, "a sub-slice of the element:")
	}
	return f.reject(e, "an expression the rule does not take as value-preserving:")
}

// c15RootIdent: the identifier an assignable expression is rooted in (b, b[i], b[i:j], *p …).
func c15RootIdent(e ast.Expr) *ast.Ident {
	for {
		switch x := unparen(e).(type) {
		case *ast.Ident:
			return x
		case *ast.IndexExpr:
			e = x.X
		case *ast.SliceExpr:
			e = x.X
		case *ast.StarExpr:
			e = x.X
		default:
			return nil
		}
	}
}

func init() {
	extend("C15", func(c *Ctx) {
		c.Rule("R15f", "array writers emit the caller's element verbatim: in Write and WriteString of every type implementing stdio.ArrayWriter in builtins/types/{string,generic,json,jsonlines,yaml}, (1) the element parameter is never written to (assignment, element/sub-slice store, &, copy destination, range variable); (2) the element operand of every emitting call (on the receiver or a receiver field, append to a receiver field, fmt.Fprint/Fprintln to a receiver field) is derived from the parameter only through single-definition locals, string/[]byte conversions, x[:] and framing with fixed (element-independent constant) operands — no function call, bounded slicing, indexing or conditionally redefined local in between; (3) a []byte parameter is passed to no other call (possible in-place change → undecided)")
		sp := c.Pkg("lang/stdio")
		if sp == nil {
			c.Lost("R15f", "pkg:lang/stdio", "package lang/stdio not loaded")
			return
		}
		awo, _ := sp.Types.Scope().Lookup("ArrayWriter").(*types.TypeName)
		if awo == nil {
			c.Lost("R15f", "type:stdio.ArrayWriter", "interface stdio.ArrayWriter not found")
			return
		}
		awi, _ := awo.Type().Underlying().(*types.Interface)
		if awi == nil {
			c.Lost("R15f", "type:stdio.ArrayWriter", "stdio.ArrayWriter is not an interface any more")
			return
		}
		n := 0
		for _, pk := range c.MurexPkgs() {
			in := false
			for _, sfx := range []string{"string", "generic", "json", "jsonlines", "yaml"} {
				if strings.HasSuffix(pk.PkgPath, "/builtins/types/"+sfx) {
					in = true
				}
			}
			if !in {
				continue
			}
			info := pk.TypesInfo
			rel := relPkg(pk.PkgPath)
			writers := map[string]bool{}
			sc := pk.Types.Scope()
			for _, nm := range sc.Names() {
				tn, ok := sc.Lookup(nm).(*types.TypeName)
				if !ok || tn.IsAlias() {
					continue
				}
				if _, isI := tn.Type().Underlying().(*types.Interface); isI {
					continue
				}
				if types.Implements(tn.Type(), awi) || types.Implements(types.NewPointer(tn.Type()), awi) {
					writers[tn.Name()] = true
				}
			}
			eachFunc(pk, func(md *ast.FuncDecl) {
				if md.Body == nil || !writers[recvName(md)] || (md.Name.Name != "Write" && md.Name.Name != "WriteString") {
					return
				}
				fk := funcKey(rel, md)
				if len(md.Type.Params.List) != 1 || len(md.Type.Params.List[0].Names) != 1 {
					c.Undecided("R15f", fk+":element", md.Pos(), "%s does not have exactly one named parameter", fk)
					return
				}
				pid := md.Type.Params.List[0].Names[0]
				param := info.Defs[pid]
				if param == nil || pid.Name == "_" {
					// the element is discarded altogether: R15d's business (emits zero times)
					return
				}
				n++
				rv := recvVar(md)
				isRecv := func(e ast.Expr) bool { // the receiver or one of its fields
					e = unparen(e)
					if se, ok := e.(*ast.SelectorExpr); ok {
						e = unparen(se.X)
					}
					id, ok := e.(*ast.Ident)
					return ok && rv != "" && id.Name == rv && info.ObjectOf(id) != nil && info.ObjectOf(id).Pos() == md.Recv.List[0].Names[0].Pos()
				}
				// the emitting calls and their element operands
				emitOperands := func(call *ast.CallExpr) ([]ast.Expr, bool) {
					if ap, ok := isBuiltinCall(info, call, "append"); ok && len(ap.Args) >= 2 && isRecv(ap.Args[0]) {
						return ap.Args[1:], true
					}
					if o := callee(info, call); o != nil && o.Pkg() != nil && o.Pkg().Path() == "fmt" && strings.HasPrefix(o.Name(), "Fprint") && len(call.Args) >= 2 && isRecv(call.Args[0]) {
						return call.Args[1:], true
					}
					if se, ok := unparen(call.Fun).(*ast.SelectorExpr); ok && isRecv(se.X) {
						if tv, isT := info.Types[call.Fun]; !isT || !tv.IsType() {
							return call.Args, true
						}
					}
					return nil, false
				}

				// (1) the parameter is never written
				wkey := fk + ":parameter-unmodified"
				written := false
				note := func(at ast.Node, how string) {
					written = true
					c.Viol("R15f", wkey, at.Pos(), "%s %s (`%s`): what is then put on the stream is no longer the element the caller passed — a list whose elements differ from that replacement (e.g. a jsonl element `{\"a\": 1}` re-encoded as `{\"a\":1}`) does not read back as written", fk, how, c.src(at))
				}
				isP := func(e ast.Expr) bool {
					id := c15RootIdent(e)
					return id != nil && info.ObjectOf(id) == param
				}
				ast.Inspect(md.Body, func(nd ast.Node) bool {
					switch x := nd.(type) {
					case *ast.AssignStmt:
						for _, l := range x.Lhs {
							if isP(l) {
								note(x, "overwrites its element parameter")
							}
						}
					case *ast.IncDecStmt:
						if isP(x.X) {
							note(x, "modifies its element parameter")
						}
					case *ast.RangeStmt:
						if (x.Key != nil && isP(x.Key)) || (x.Value != nil && isP(x.Value)) {
							note(x, "uses its element parameter as a range variable")
						}
					case *ast.UnaryExpr:
						if x.Op == token.AND && isP(x.X) {
							note(x, "takes the address of its element parameter")
						}
					case *ast.CallExpr:
						if cp, ok := isBuiltinCall(info, x, "copy"); ok && len(cp.Args) == 2 && isP(cp.Args[0]) {
							note(x, "copies over its element parameter")
						}
					}
					return true
				})
				if !written {
					c.OK("R15f", wkey, md.Pos(), "the element parameter %s is never written", pid.Name)
				}

				// (2) every emitting call carries the parameter verbatim; (3) no other call receives a []byte parameter
				ekey := fk + ":element-verbatim"
				defs := localDefs(info, md.Body)
				emits, bad := 0, false
				_, isSlice := param.Type().Underlying().(*types.Slice)
				covered := map[*ast.CallExpr]bool{} // calls that are part of a derivation already judged
				walkStack(md.Body, func(nd ast.Node, stack []ast.Node) bool {
					call, ok := nd.(*ast.CallExpr)
					if !ok {
						return true
					}
					ops, isEmit := emitOperands(call)
					if !isEmit {
						return true
					}
					// the operands that carry element data: those that mention the parameter, directly or through locals
					var carriers []ast.Expr
					for _, a := range ops {
						fl := &c15Flow{c: c, info: info, defs: defs, param: param}
						if mentions(info, a, param) || !fl.fixed(a, 0) {
							carriers = append(carriers, a)
						}
					}
					if len(carriers) == 0 {
						return true // emits only fixed data (a separator, say): not the element
					}
					emits++
					if o := callee(info, call); o != nil && o.Pkg() != nil && o.Pkg().Path() == "fmt" && o.Name() == "Fprintf" {
						bad = true
						c.Undecided("R15f", ekey, call.Pos(), "%s emits through fmt.Fprintf: whether the element is written verbatim depends on the format verb", fk)
						return false
					}
					for _, a := range carriers {
						fl := &c15Flow{c: c, info: info, defs: defs, param: param}
						if !fl.verbatim(a, 0) {
							bad = true
							c.Viol("R15f", ekey, call.Pos(), "%s puts %s on the stream, which is %s — not the caller's element itself: an element that the transformation changes (insignificant white space inside a JSON document, outer blanks, letter case …) is read back different from what was written", fk, c.src(a), fl.why)
						}
					}
					ast.Inspect(call, func(y ast.Node) bool {
						if cc, ok := y.(*ast.CallExpr); ok {
							covered[cc] = true
						}
						return true
					})
					return false
				})
				// derivations held in locals are judged where they are emitted; mark their calls covered too
				for o, ds := range defs {
					_ = o
					for _, d := range ds {
						if d != nil {
							ast.Inspect(d, func(y ast.Node) bool {
								if cc, ok := y.(*ast.CallExpr); ok {
									if tv, isT := info.Types[cc.Fun]; (isT && tv.IsType()) || func() bool { _, ok := isBuiltinCall(info, cc, "append"); return ok }() {
										covered[cc] = true
									}
								}
								return true
							})
						}
					}
				}
				if isSlice {
					for _, cc := range calls(md.Body, true) {
						if covered[cc] {
							continue
						}
						if _, ok := isBuiltinCall(info, cc, "len"); ok {
							continue
						}
						if _, ok := isBuiltinCall(info, cc, "cap"); ok {
							continue
						}
						for _, a := range cc.Args {
							if id := c15RootIdent(a); id != nil && info.ObjectOf(id) == param {
								bad = true
								c.Undecided("R15f", ekey, cc.Pos(), "%s hands its []byte element to %s before/besides emitting it: the rule cannot tell that the callee leaves the bytes alone", fk, c.src(cc.Fun))
							}
						}
					}
				}
				switch {
				case bad:
				case emits == 0:
					c.Undecided("R15f", ekey, md.Pos(), "%s has no emitting call the rule recognises (receiver method/field call, append to a receiver field, fmt.Fprint* to a receiver field) that carries the element", fk)
				default:
					c.OK("R15f", ekey, md.Pos(), "%d emitting call(s) carry the parameter verbatim", emits)
				}
			})
		}
		c.MinCount("R15f", "Write/WriteString methods of the array writers of str, *, json, jsonl, yaml", n, 10)
	})
}
