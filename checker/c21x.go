package main

// R21e — "so `try`, `&&` and `||` treat it as failed": the exit number an
// external command ends with (R21a–d) only matters if the schedulers that decide
// `&&` / `||` / try read it as C04/C05 say they do. The same predicate and
// skip-arm rules are therefore part of C21: a scheduler change that stops copying
// or testing the exit number lets a killed command count as success.
func init() {
	extend("C21", func(c *Ctx) {
		c.Rule("R21e", "the consumers of the exit number: runModeNormal's skip predicate and skip arm (truth table over &&, ||, previous-failed, chain-skipping; the skipped command takes the previous exit number — as R04c) and the skip/abort predicates and result of runModeTry / runModeTryPipe (as R05a)")
		pk := c.Pkg("lang")
		if pk == nil {
			c.Lost("R21e", "pkg:lang", "package not loaded")
			return
		}
		info := pk.TypesInfo
		if fd, _ := c.MustFunc("R21e", "lang", "", "runModeNormal"); fd != nil {
			old := normalPredRule
			normalPredRule = "R21e"
			c.checkNormalPredicate(info, fd, "")
			normalPredRule = old
		}
		for _, name := range []string{"runModeTry", "runModeTryPipe"} {
			if fd, _ := c.MustFunc("R21e", "lang", "", name); fd != nil {
				old := tryPredRule
				tryPredRule = "R21e"
				c.checkTryPredicates(info, fd, "")
				tryPredRule = old
			}
		}
	})
}
