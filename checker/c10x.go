package main

import (
	"go/ast"
	"go/types"
)

// extend adds further rules to a property registered by another file.
func extend(id string, more func(c *Ctx)) {
	orig := props[id]
	if orig == nil {
		panic("extend(" + id + "): property not registered yet — extension files must sort after the property's own file")
	}
	props[id] = func(c *Ctx) {
		orig(c)
		more(c)
	}
}

func init() {
	extend("C10", func(c *Ctx) {
		c.Rule("R10e", "esccli collects its elements verbatim: every value appended to the slice handed to escape.CommandLine is string(<callback parameter>) or the parameter array itself — no trimming or other transformation before escaping")
		pk := c.Pkg("builtins/core/escape")
		if pk == nil {
			c.Lost("R10e", "pkg:builtins/core/escape", "package not loaded")
			return
		}
		info := pk.TypesInfo
		fd, _ := c.MustFunc("R10e", "builtins/core/escape", "", "cmdEscapeCli")
		if fd == nil {
			return
		}
		n := 0
		ast.Inspect(fd.Body, func(nd ast.Node) bool {
			fl, ok := nd.(*ast.FuncLit)
			if !ok || fl.Type.Params == nil || len(fl.Type.Params.List) != 1 || len(fl.Type.Params.List[0].Names) != 1 {
				return true
			}
			param := info.Defs[fl.Type.Params.List[0].Names[0]]
			defs := localDefs(info, fl.Body) // `str := string(b); s = append(s, str)`: a single-definition local stands for its definition
			ast.Inspect(fl.Body, func(x ast.Node) bool {
				call, ok := isBuiltinCall(info, exprOf(x), "append")
				if !ok || len(call.Args) != 2 {
					return true
				}
				n++
				v := stripConv(info, defs.resolve1(info, stripConv(info, defs.resolve1(info, call.Args[1]))))
				id, isId := v.(*ast.Ident)
				c.Check(isId && info.ObjectOf(id) == param, "R10e", "cmdEscapeCli:element-verbatim", call.Pos(), "the element appended is the callback's bytes converted to string, unchanged (got %s): anything else (trim, case, split) changes what parsing the output gives back", c.src(call.Args[1]))
				return true
			})
			return true
		})
		c.MinCount("R10e", "elements collected from stdin in cmdEscapeCli", n, 1)
		var _ types.Object
	})
}
