package main

// C37 — syntax highlighting never changes the typed text.
//
// Built on the per-path summaries of parser.Parse (c34parse.go).

import (
	"fmt"
	"go/ast"
	"go/constant"
	goparser "go/parser"
	"go/token"
	"go/types"
	"os"
	"path/filepath"
	"sort"
	"strings"

	"golang.org/x/tools/go/packages"
)

func init() {
	register("C37", "Decides, for utils/parser.Parse as called by the shell's highlighter (shell.syntaxHighlight → parse → parser.Parse(line, 0)): (R37a) on every path through one iteration of the tokenizer loop the text appended to the highlighted string — everything that is not a complete ANSI SGR constant — is exactly the source runes the iteration consumes, in order (literals must equal the rune the dominating case/next() test established; the comment arm emits block[i:] once, sets Comment and later iterations emit nothing; prologue and epilogue append colours only; returns inside the loop are only reachable with pos≠0); (R37b) a byte-count truncation of the output is only applied where every tokenizer path that can have emitted the trimmed rune ends its emission with that raw rune (or the arm tests that the output ends with it); (R37c) the highlighter passes its input unchanged with pos=0 and returns Parse's string unchanged; every colour operand is a constant matching ESC[…m or an element of a colour-only table/stack. Does NOT decide: inputs that themselves contain ESC sequences, the readline layer that displays the string, hint/preview renderers.", runC37)
}

func runC37(c *Ctx) {
	c.c38Load(c34ParserPkg)
	c.Rule("R37a", "emission count: on every path through one iteration of parser.Parse's loop, the non-colour text appended to the highlighted output equals the source runes consumed (1 + number of i++), in order; comment arm: block[i:] once + Comment=true, iterations under Comment emit nothing; prologue/epilogue emit colours only; in-loop returns need pos≠0")
	c.Rule("R37b", "append-only: an output truncation out[:len(out)-k] re-emitting block[i-1] is sound only if every path that can precede the arm (state-compatible, handling a rune the arm's guard admits) ends its emission with the raw rune, or the arm is guarded by strings.HasSuffix(out, string(block[i-1]))")
	c.Rule("R37c", "plumbing: shell.syntaxHighlight returns the second result of parser.Parse(<its parameter>, 0) unchanged; the colour variables are ANSI SGR constants that are never reassigned")
	p := c.c34ParseModel("R37a")
	if p == nil {
		return
	}
	p.reportProblems("R37a")
	c.c37Emission(p)
	c.c37Trim(p)
	c.c37Plumbing(p)
}

type c37Res struct {
	ok   bool
	und  bool
	msg  string
	pos  token.Pos
	seen int
}

func (c *Ctx) c37Emission(p *c34Parser) {
	const rule = "R37a"
	res := map[string]*c37Res{}
	set := func(key string, pos token.Pos, ok, und bool, f string, a ...any) {
		r := res[key]
		if r == nil {
			r = &c37Res{ok: true}
			res[key] = r
		}
		r.seen++
		if r.pos == token.NoPos {
			r.pos = pos
		}
		if !ok && r.ok {
			r.ok, r.und, r.msg, r.pos = false, und, fmt.Sprintf(f, a...), pos
		} else if ok && r.msg == "" {
			r.msg = fmt.Sprintf(f, a...)
		}
	}
	nArms, nReturns := 0, 0
	commentStores := 0
	for _, pa := range p.paths {
		key := pa.Key()
		pos := pa.Pos
		if pos == token.NoPos {
			pos = p.loop.Pos()
		}
		// Comment must only ever be set
		for _, st := range pa.stores("Comment") {
			if st.Class != "true" {
				set("Comment:store", pos, false, false, "arm %s stores Comment = %s: once the comment arm has emitted the rest of the line, clearing the flag makes later iterations emit those runes a second time", key, p.c.src(st.Rhs))
			} else {
				commentStores++
			}
		}
		if pa.Exit == "return" {
			nReturns++
			if pa.PosNZ {
				set(key+":return", pos, true, false, "return inside the loop is guarded by pos≠0 (the highlighter passes 0)")
			} else {
				set(key+":return", pos, false, false, "arm %s returns from inside the tokenizer loop without a pos≠0 guard: the highlighted string ends there and the rest of the typed line is lost", key)
			}
			continue
		}
		var text []c34Part
		trunc, truncPos, sawEmit, badTrunc := 0, token.NoPos, false, false
		var unknown *c34Part
		for _, ev := range pa.Events {
			switch ev.Kind {
			case c34EvEmit:
				for _, part := range ev.Parts {
					part := part
					switch part.Kind {
					case c34Colour:
					case c34Unknown:
						if unknown == nil {
							unknown = &part
						}
					default:
						sawEmit = true
						text = append(text, part)
					}
				}
			case c34EvTrunc:
				if sawEmit || trunc > 0 {
					badTrunc = true
				}
				trunc += ev.Trunc
				truncPos = ev.Pos
			}
		}
		if unknown != nil {
			set(key, pos, false, true, "arm %s appends %s to the highlighted output: neither a source rune, a literal, nor a colour constant — cannot decide whether text is preserved", key, unknown.Desc)
			continue
		}
		if badTrunc {
			set(key, truncPos, false, false, "arm %s truncates the highlighted output after appending to it in the same iteration", key)
			continue
		}
		// iterations after the comment arm
		if c37HasFact(p, pa, "Comment", true) {
			if len(text) == 0 {
				set(key, pos, true, false, "under Comment nothing is appended (the comment arm already emitted block[i:])")
			} else {
				set(key, pos, false, false, "path under Comment appends %s although the comment arm already emitted the rest of the line: text duplicated", c37Parts(text))
			}
			continue
		}
		nArms++
		n := 1 + pa.Inc
		// comment arm
		if len(text) > 0 && c37HasRest(text) {
			setsComment := false
			for _, st := range pa.stores("Comment") {
				if st.Class == "true" {
					setsComment = true
				}
			}
			switch {
			case len(text) != 1 || text[0].Off != 0 || pa.Inc != 0:
				set(key, pos, false, false, "arm %s appends %s: the rest-of-line emission must be exactly block[i:] and nothing else", key, c37Parts(text))
			case !setsComment:
				set(key, pos, false, false, "arm %s appends block[i:] (the whole rest of the line) without setting Comment: every later iteration appends its rune again", key)
			default:
				set(key, pos, true, false, "emits block[i:] once and sets Comment")
			}
			continue
		}
		start := 0
		bad := ""
		if trunc > 0 {
			// the trimmed bytes must be known single-byte runes that are re-emitted
			for k := 1; k <= trunc; k++ {
				rs := pa.Known[-k]
				if len(rs) == 0 {
					bad = fmt.Sprintf("trims %d byte(s) of output but block[i-%d] is not pinned to a rune by the arm's guard", trunc, k)
					break
				}
				for _, r := range rs {
					if r >= 0x80 {
						bad = fmt.Sprintf("trims %d byte(s) but block[i-%d] may be the multi-byte rune %q", trunc, k, r)
					}
				}
			}
			start = -trunc
		}
		cur := start
		for _, part := range text {
			if bad != "" {
				break
			}
			switch part.Kind {
			case c34Src:
				if part.Off != cur {
					bad = fmt.Sprintf("appends source rune at offset %+d where offset %+d is due", part.Off, cur)
				}
				cur++
			case c34Slice:
				if part.Off != cur {
					bad = fmt.Sprintf("appends source runes from offset %+d where offset %+d is due", part.Off, cur)
				}
				cur += part.N
			case c34Lit:
				for _, r := range part.Lit {
					ks := pa.Known[cur]
					if len(ks) != 1 || ks[0] != r {
						what := "an unconstrained rune"
						if len(ks) > 0 {
							what = "one of " + c37Runes(ks)
						}
						bad = fmt.Sprintf("appends the literal %q where the source rune at offset %+d is %s", string(r), cur, what)
						break
					}
					cur++
				}
			}
		}
		if bad == "" && cur != n {
			if cur < n {
				bad = fmt.Sprintf("consumes %d source rune(s) (offsets %+d…%+d) but appends text for %d: %s — the remaining rune(s) vanish from the highlighted line", n-start, start, n-1, cur-start, c37Parts(text))
			} else {
				bad = fmt.Sprintf("consumes %d source rune(s) but appends text for %d: %s — text is duplicated", n-start, cur-start, c37Parts(text))
			}
		}
		if bad != "" {
			set(key, pos, false, false, "arm %s %s; stripping the colour codes no longer gives back the typed line", key, bad)
		} else {
			set(key, pos, true, false, "consumes %d, appends %s", n, c37Parts(text))
		}
	}
	var keys []string
	for k := range res {
		keys = append(keys, k)
	}
	sort.Strings(keys)
	for _, k := range keys {
		r := res[k]
		switch {
		case r.ok:
			c.OK(rule, k, r.pos, "%s [%d path(s)]", r.msg, r.seen)
		case r.und:
			c.Undecided(rule, k, r.pos, "%s", r.msg)
		default:
			c.Viol(rule, k, r.pos, "%s", r.msg)
		}
	}
	for name, list := range map[string][]*c34Path{"prologue": p.pro, "epilogue": p.epi} {
		ok, msg, pos := true, "colours only", p.fd.Pos()
		n := 0
		for _, pa := range list {
			for _, ev := range pa.Events {
				if ev.Kind == c34EvTrunc {
					ok, msg, pos = false, "truncates the highlighted output outside the loop", ev.Pos
				}
				if ev.Kind != c34EvEmit {
					continue
				}
				n++
				for _, part := range ev.Parts {
					if part.Kind != c34Colour {
						ok, msg, pos = false, fmt.Sprintf("appends %s outside the tokenizer loop: text that is not part of the typed line", part), ev.Pos
					}
				}
			}
			if pa.Exit != "end" && name == "prologue" {
				ok, msg = false, "leaves Parse before the loop"
			}
		}
		c.Check(ok, rule, name, pos, "parser.Parse %s: %s (%d emission(s))", name, msg, n)
	}
	c.MinCount(rule, "arm paths of the tokenizer loop", nArms, 150)
	c.MinCount(rule, "distinct arms", len(keys), 120)
	c.MinCount(rule, "in-loop returns (pos-guarded)", nReturns, 8)
	c.MinCount(rule, "Comment=true stores", commentStores, 1)
}

func c37HasRest(ps []c34Part) bool {
	for _, p := range ps {
		if p.Kind == c34Rest {
			return true
		}
	}
	return false
}

func c37Parts(ps []c34Part) string {
	if len(ps) == 0 {
		return "nothing"
	}
	var s []string
	for _, p := range ps {
		s = append(s, p.String())
	}
	return strings.Join(s, " + ")
}

func c37Runes(rs []rune) string {
	var s []string
	for _, r := range rs {
		s = append(s, c34Q(r))
	}
	return "{" + strings.Join(s, ",") + "}"
}

// c37HasFact: the path decided pt.<field> (a bare boolean field) with the given truth.
func c37HasFact(p *c34Parser, pa *c34Path, field string, truth bool) bool {
	for _, d := range pa.Decs {
		for _, f := range factsOf([]Guard{{Cond: d.E, Neg: !d.Truth}}) {
			if n, _ := p.ptField(f.E); n == field && f.True == truth {
				return true
			}
		}
	}
	return false
}

// ---------------------------------------------------------------- R37b

// c37Atom: an atomic fact about tokenizer state only (pt fields, constants).
type c37Atom struct {
	e      ast.Expr
	truth  bool
	fields []string
	seq    int
}

func (c *Ctx) c37StateAtoms(p *c34Parser, pa *c34Path) []c37Atom {
	var out []c37Atom
	for _, d := range pa.Decs {
		if d.Off != 0 && false {
			continue
		}
		for _, f := range factsOf([]Guard{{Cond: d.E, Neg: !d.Truth}}) {
			fields, pure := c37StateExpr(p, f.E)
			if pure && len(fields) > 0 {
				out = append(out, c37Atom{f.E, f.True, fields, d.Seq})
			}
		}
	}
	return out
}

// c37StateExpr: the expression reads only pt.<field>s, constants and
// comparison/arith operators → (fields read, true).
func c37StateExpr(p *c34Parser, e ast.Expr) ([]string, bool) {
	var fields []string
	pure := true
	var visit func(e ast.Expr)
	visit = func(e ast.Expr) {
		e = unparen(e)
		if constOf(p.info, e) != nil {
			return
		}
		if f, _ := p.ptField(e); f != "" {
			fields = append(fields, f)
			return
		}
		switch v := e.(type) {
		case *ast.BinaryExpr:
			visit(v.X)
			visit(v.Y)
		case *ast.UnaryExpr:
			visit(v.X)
		default:
			pure = false
		}
	}
	visit(e)
	return fields, pure
}

// c37EvalAtom evaluates a state atom under constant values for fields.
func c37EvalAtom(p *c34Parser, e ast.Expr, env map[string]constant.Value) (constant.Value, bool) {
	e = unparen(e)
	if cv := constOf(p.info, e); cv != nil {
		return cv, true
	}
	if f, _ := p.ptField(e); f != "" {
		v, ok := env[f]
		return v, ok
	}
	switch v := e.(type) {
	case *ast.UnaryExpr:
		x, ok := c37EvalAtom(p, v.X, env)
		if !ok {
			return nil, false
		}
		if v.Op == token.NOT && x.Kind() == constant.Bool {
			return constant.MakeBool(!constant.BoolVal(x)), true
		}
		if v.Op == token.SUB && x.Kind() == constant.Int {
			return constant.UnaryOp(token.SUB, x, 0), true
		}
	case *ast.BinaryExpr:
		x, ok1 := c37EvalAtom(p, v.X, env)
		y, ok2 := c37EvalAtom(p, v.Y, env)
		if !ok1 || !ok2 || x.Kind() != y.Kind() {
			return nil, false
		}
		switch v.Op {
		case token.EQL, token.NEQ, token.LSS, token.LEQ, token.GTR, token.GEQ:
			if x.Kind() == constant.Bool {
				if v.Op == token.EQL {
					return constant.MakeBool(constant.BoolVal(x) == constant.BoolVal(y)), true
				}
				if v.Op == token.NEQ {
					return constant.MakeBool(constant.BoolVal(x) != constant.BoolVal(y)), true
				}
				return nil, false
			}
			return constant.MakeBool(constant.Compare(x, v.Op, y)), true
		case token.LAND:
			return constant.MakeBool(constant.BoolVal(x) && constant.BoolVal(y)), true
		case token.LOR:
			return constant.MakeBool(constant.BoolVal(x) || constant.BoolVal(y)), true
		}
	}
	return nil, false
}

// c37Compatible: can an iteration taking path q be followed directly by one
// taking path pa? false only if a state atom required by pa is contradicted by
// q's post-state: a field q stores a constant to, or a fact q decided about
// fields it does not modify afterwards.
func (c *Ctx) c37Compatible(p *c34Parser, q, pa *c34Path) (bool, string) {
	// q's post-state
	lastStore := map[string]int{} // field -> event index of last store
	constStore := map[string]constant.Value{}
	for k, ev := range q.Events {
		if ev.Kind != c34EvStore || ev.Store.Obj == nil {
			continue
		}
		if f, ok := ev.Store.Obj.(*types.Var); ok && f.IsField() {
			lastStore[f.Name()] = k
			delete(constStore, f.Name())
			if ev.Store.Op == token.ASSIGN && ev.Store.Rhs != nil {
				if cv := constOf(p.info, ev.Store.Rhs); cv != nil {
					constStore[f.Name()] = cv
				}
			}
		}
	}
	qAtoms := c.c37StateAtoms(p, q)
	for _, need := range c.c37StateAtoms(p, pa) {
		// only pa's facts decided before pa modifies anything matter; pa's guards
		// are all evaluated on the state q left (atoms decided after a store to
		// one of their fields within pa are skipped)
		skip := false
		for k, ev := range pa.Events {
			if k >= need.seq {
				break
			}
			if ev.Kind == c34EvStore && ev.Store.Obj != nil {
				for _, f := range need.fields {
					if ev.Store.Obj.Name() == f {
						skip = true
					}
				}
			}
		}
		if skip {
			continue
		}
		// (1) constant stores of q decide the atom
		env := map[string]constant.Value{}
		all := true
		for _, f := range need.fields {
			if v, ok := constStore[f]; ok {
				env[f] = v
			} else {
				all = false
			}
		}
		if all {
			if v, ok := c37EvalAtom(p, need.e, env); ok && v.Kind() == constant.Bool && constant.BoolVal(v) != need.truth {
				return false, fmt.Sprintf("%s leaves %s=%v", q.Key(), p.render(need.e), constant.BoolVal(v))
			}
		}
		// (2) the same atom decided by q with the opposite truth, fields untouched since
		for _, have := range qAtoms {
			if have.truth == need.truth || !c.sameExpr(have.e, need.e) {
				continue
			}
			touched := false
			for _, f := range have.fields {
				if k, ok := lastStore[f]; ok && k >= 0 {
					touched = true
				}
			}
			if !touched {
				return false, fmt.Sprintf("%s keeps %s=%v", q.Key(), p.render(need.e), have.truth)
			}
		}
	}
	return true, ""
}

// c37EndsRaw: the last thing the path appends is the raw source rune at its
// last consumed offset (or a literal pinned to it).
func c37EndsRaw(pa *c34Path) (bool, string) {
	var last *c34Part
	for _, ev := range pa.Events {
		if ev.Kind == c34EvEmit {
			for k := range ev.Parts {
				last = &ev.Parts[k]
			}
		}
	}
	if last == nil {
		return false, "appends nothing"
	}
	switch last.Kind {
	case c34Src:
		return last.Off == pa.Inc, last.String()
	case c34Slice:
		return last.Off+last.N-1 == pa.Inc, last.String()
	case c34Lit:
		return true, last.String()
	}
	return false, last.String()
}

func (c *Ctx) c37Trim(p *c34Parser) {
	const rule = "R37b"
	nTrim := 0
	seen := map[string]bool{}
	for _, pa := range p.paths {
		var tr *c34Event
		for k := range pa.Events {
			if pa.Events[k].Kind == c34EvTrunc {
				tr = &pa.Events[k]
			}
		}
		if tr == nil || pa.Exit == "return" {
			continue
		}
		key := "trim@" + pa.Key()
		runes := pa.Known[-1]
		if tr.Trunc != 1 || len(runes) == 0 {
			if !seen[key] {
				seen[key] = true
				nTrim++
				c.Undecided(rule, key, tr.Pos, "arm %s trims %d byte(s) of the highlighted output but its guard does not pin block[i-1] to a set of runes — cannot decide what is cut off", pa.Key(), tr.Trunc)
			}
			continue
		}
		// guarded by strings.HasSuffix(out, string(block[i-1]))?
		if c.c37SuffixGuard(p, pa) {
			if !seen[key] {
				seen[key] = true
				nTrim++
				c.OK(rule, key, tr.Pos, "arm %s trims the output only where strings.HasSuffix shows it ends with the raw rune block[i-1]", pa.Key())
			}
			continue
		}
		if !seen[key] {
			seen[key] = true
			nTrim++
		}
		// every predecessor path that may have handled one of `runes` as its last consumed rune
		for _, q := range p.paths {
			if q.Exit == "return" {
				continue
			}
			last := q.Inc
			var cand []rune
			for _, r := range runes {
				if ks, ok := q.Known[last]; ok {
					in := false
					for _, k := range ks {
						if k == r {
							in = true
						}
					}
					if !in {
						continue
					}
				}
				ex := false
				for _, k := range q.Excl[last] {
					if k == r {
						ex = true
					}
				}
				if !ex {
					cand = append(cand, r)
				}
			}
			if len(cand) == 0 {
				continue
			}
			if c37HasFact(p, q, "Comment", true) {
				continue // nothing is emitted under Comment and the trimming arm is not reached
			}
			okc, _ := c.c37Compatible(p, q, pa)
			if !okc {
				continue
			}
			raw, lastPart := c37EndsRaw(q)
			k2 := fmt.Sprintf("%s:after:%s", key, q.Key())
			if seen[k2+fmt.Sprint(raw)] {
				continue
			}
			seen[k2+fmt.Sprint(raw)] = true
			if raw {
				c.OK(rule, k2, tr.Pos, "predecessor %s ends its emission with the raw rune (%s)", q.Key(), lastPart)
			} else {
				c.Viol(rule, k2, tr.Pos, "arm %s cuts the last byte off the highlighted output expecting it to be the %s it re-emits in pipe colour, but when the previous rune was handled by arm %s the output ends with %s: the byte removed belongs to a colour code — the code is left torn and the rune is duplicated, so stripping colours does not give back the typed text (e.g. a backslash-escaped %s followed by '>')", pa.Key(), c37Runes(cand), q.Key(), lastPart, c37Runes(cand))
			}
		}
	}
	c.MinCount(rule, "output truncations in the tokenizer loop", nTrim, 0)
}

// c37SuffixGuard: a decision on the path is strings.HasSuffix(out, string(block[i-1])) = true.
func (c *Ctx) c37SuffixGuard(p *c34Parser, pa *c34Path) bool {
	for _, d := range pa.Decs {
		for _, f := range factsOf([]Guard{{Cond: d.E, Neg: !d.Truth}}) {
			call, ok := unparen(f.E).(*ast.CallExpr)
			if !ok || !f.True || !callIs(p.info, call, "strings", "", "HasSuffix") || len(call.Args) != 2 {
				continue
			}
			if !p.isObj(call.Args[0], p.out) {
				continue
			}
			st := p.newState()
			st.off = d.Off
			parts := p.evalString(call.Args[1], st)
			if len(parts) == 1 && parts[0].Kind == c34Src && parts[0].Off == -1 {
				return true
			}
		}
	}
	return false
}

// ---------------------------------------------------------------- R37c

func (c *Ctx) c37Plumbing(p *c34Parser) {
	const rule = "R37c"
	// colour variables
	n := 0
	sc := p.pk.Types.Scope()
	for _, name := range sc.Names() {
		v, ok := sc.Lookup(name).(*types.Var)
		if !ok {
			continue
		}
		used := false
		ast.Inspect(p.fd.Body, func(x ast.Node) bool {
			if id, ok := x.(*ast.Ident); ok && p.info.Uses[id] == v {
				used = true
			}
			return !used
		})
		if !used {
			continue
		}
		isStr := false
		if b, ok := v.Type().Underlying().(*types.Basic); ok && b.Kind() == types.String {
			isStr = true
		}
		isStrSlice := false
		if sl, ok := v.Type().Underlying().(*types.Slice); ok {
			if b, ok := sl.Elem().Underlying().(*types.Basic); ok && b.Kind() == types.String {
				isStrSlice = true
			}
		}
		switch {
		case isStr:
			n++
			c.Check(p.colourVarOK(v), rule, "colour:"+name, v.Pos(), "package variable %s used by Parse is initialised from ANSI SGR constants (ESC[…m) only and never reassigned — otherwise its value is text the colour stripper leaves in the line", name)
		case isStrSlice:
			n++
			c.Check(p.colourSliceOK(v), rule, "colour:"+name, v.Pos(), "package table %s used by Parse holds ANSI SGR constants only and is never reassigned", name)
		}
	}
	c.MinCount(rule, "colour variables used by Parse", n, 10)

	// shell.syntaxHighlight → parse → parser.Parse(line, 0)
	c.c37LoadShellParser()
	fdP, pkS := c.MustFunc(rule, "shell", "", "parse")
	fdH, _ := c.MustFunc(rule, "shell", "", "syntaxHighlight")
	if fdP == nil || fdH == nil {
		return
	}
	info := pkS.TypesInfo
	parseObj := p.info.Defs[p.fd.Name]
	// parse: `return parser.Parse(param, 0)`, or the same through its named results
	// (`pt, hl = parser.Parse(param, 0); return`)
	isParserParse := func(fd *ast.FuncDecl, call *ast.CallExpr) (bool, string) {
		co := callee(info, call)
		if co == nil || co.Pkg() == nil || parseObj == nil || co.Pkg().Path() != parseObj.Pkg().Path() || co.Name() != parseObj.Name() || len(call.Args) != 2 {
			return false, ""
		}
		id, ok := unparen(call.Args[0]).(*ast.Ident)
		if !ok || !c37IsParam(info, fd, id) {
			return false, "first argument is not the unmodified parameter"
		}
		if k, ok := constInt(info, call.Args[1]); !ok || k != 0 {
			return false, "pos argument is not the constant 0: with pos≠0 Parse returns early and the highlighted string is cut short"
		}
		return true, ""
	}
	okP, why := false, "no `return parser.Parse(<parameter>, 0)`"
	var results []types.Object
	if fdP.Type.Results != nil {
		for _, f := range fdP.Type.Results.List {
			for _, nm := range f.Names {
				results = append(results, info.Defs[nm])
			}
		}
	}
	returnsResults := func(rs *ast.ReturnStmt) bool {
		if len(results) != 2 {
			return false
		}
		if len(rs.Results) == 0 {
			return true
		}
		if len(rs.Results) != 2 {
			return false
		}
		for k, r := range rs.Results {
			id, ok := unparen(r).(*ast.Ident)
			if !ok || info.ObjectOf(id) != results[k] {
				return false
			}
		}
		return true
	}
	switch len(fdP.Body.List) {
	case 1:
		if rs, ok := fdP.Body.List[0].(*ast.ReturnStmt); ok && len(rs.Results) == 1 {
			if call, ok := unparen(rs.Results[0]).(*ast.CallExpr); ok {
				if good, w := isParserParse(fdP, call); good {
					okP = true
				} else if w != "" {
					why = w
				}
			}
		}
	case 2:
		as, ok1 := fdP.Body.List[0].(*ast.AssignStmt)
		rs, ok2 := fdP.Body.List[1].(*ast.ReturnStmt)
		if ok1 && ok2 && as.Tok == token.ASSIGN && len(as.Lhs) == 2 && len(as.Rhs) == 1 && len(results) == 2 && returnsResults(rs) {
			inOrder := true
			for k, l := range as.Lhs {
				id, ok := unparen(l).(*ast.Ident)
				if !ok || info.ObjectOf(id) != results[k] {
					inOrder = false
				}
			}
			if call, ok := unparen(as.Rhs[0]).(*ast.CallExpr); ok && inOrder {
				if good, w := isParserParse(fdP, call); good {
					okP = true
				} else if w != "" {
					why = w
				}
			}
		}
	default:
		why = "shell.parse is no longer a single return of parser.Parse (directly or through its named results)"
	}
	c.Check(okP, rule, "shell.parse:call", fdP.Pos(), "shell.parse hands its argument to parser.Parse with pos=0%s", c37Why(okP, why))
	// syntaxHighlight: `_, h := parse(r); return h` (or parser.Parse(r, 0) called directly)
	okH, whyH := false, "not `_, h := parse(<parameter>); return h`"
	if len(fdH.Body.List) == 2 {
		as, ok1 := fdH.Body.List[0].(*ast.AssignStmt)
		rs, ok2 := fdH.Body.List[1].(*ast.ReturnStmt)
		if ok1 && ok2 && len(as.Lhs) == 2 && len(as.Rhs) == 1 && len(rs.Results) == 1 {
			call, ok := unparen(as.Rhs[0]).(*ast.CallExpr)
			if ok && len(call.Args) >= 1 {
				co := callee(info, call)
				id, isId := unparen(call.Args[0]).(*ast.Ident)
				h, isH := as.Lhs[1].(*ast.Ident)
				r, isR := unparen(rs.Results[0]).(*ast.Ident)
				viaParse := co != nil && co == info.Defs[fdP.Name] && len(call.Args) == 1
				direct, w := isParserParse(fdH, call)
				if w != "" {
					whyH = w
				}
				if (viaParse || direct) && isId && c37IsParam(info, fdH, id) && isH && isR && info.ObjectOf(h) == info.ObjectOf(r) && h.Name != "_" {
					okH = true
				}
			}
		}
	}
	c.Check(okH, rule, "shell.syntaxHighlight:passthrough", fdH.Pos(), "shell.syntaxHighlight returns parse's highlighted string unchanged%s", c37Why(okH, whyH))
}

func c37Why(ok bool, why string) string {
	if ok {
		return ""
	}
	return " — VIOLATED: " + why
}

func c37IsParam(info *types.Info, fd *ast.FuncDecl, id *ast.Ident) bool {
	o := info.ObjectOf(id)
	for _, f := range fd.Type.Params.List {
		for _, n := range f.Names {
			if info.Defs[n] == o {
				// never assigned in the body
				assigned := false
				ast.Inspect(fd.Body, func(x ast.Node) bool {
					if as, ok := x.(*ast.AssignStmt); ok {
						for _, l := range as.Lhs {
							if lid, ok := unparen(l).(*ast.Ident); ok && info.ObjectOf(lid) == o {
								assigned = true
							}
							if ix, ok := unparen(l).(*ast.IndexExpr); ok {
								if lid, ok := unparen(ix.X).(*ast.Ident); ok && info.ObjectOf(lid) == o {
									assigned = true
								}
							}
						}
					}
					return true
				})
				return !assigned
			}
		}
	}
	return false
}

type c37Importer struct{ c *Ctx }

func (im c37Importer) Import(path string) (*types.Package, error) {
	if pk, ok := im.c.All[path]; ok && pk.Types != nil {
		return pk.Types, nil
	}
	return nil, fmt.Errorf("package %s not loaded", path)
}

// c37LoadShellParser makes shell.parse / shell.syntaxHighlight available
// without loading package shell's 280-package dependency closure: the file
// shell/parser.go imports only utils/parser and is type-checked on its own
// against the already loaded utils/parser. If the two functions are not in a
// self-contained shell/parser.go any more, the whole package is loaded (deps
// from export data) instead.
func (c *Ctx) c37LoadShellParser() {
	if c.Pkg("shell") != nil {
		return
	}
	path := filepath.Join(c.Repo, "shell", "parser.go")
	src, ok := c.Overlay[path]
	if !ok {
		b, err := os.ReadFile(path)
		if err == nil {
			src, ok = b, true
		}
	}
	if ok {
		f, err := goparser.ParseFile(c.Fset, path, src, goparser.ParseComments)
		if err == nil {
			var errs []error
			conf := types.Config{Importer: c37Importer{c}, Error: func(e error) { errs = append(errs, e) }}
			info := &types.Info{Types: map[ast.Expr]types.TypeAndValue{}, Defs: map[*ast.Ident]types.Object{}, Uses: map[*ast.Ident]types.Object{},
				Selections: map[*ast.SelectorExpr]*types.Selection{}, Implicits: map[ast.Node]types.Object{}, Scopes: map[ast.Node]*types.Scope{}}
			tp, _ := conf.Check(mx("shell"), c.Fset, []*ast.File{f}, info)
			has := func(name string) bool { return tp != nil && tp.Scope().Lookup(name) != nil }
			if len(errs) == 0 && has("parse") && has("syntaxHighlight") {
				c.All[mx("shell")] = &packages.Package{ID: mx("shell"), Name: "shell", PkgPath: mx("shell"), Fset: c.Fset,
					Syntax: []*ast.File{f}, Types: tp, TypesInfo: info, GoFiles: []string{path}, CompiledGoFiles: []string{path}}
				c.configs = append(c.configs, "shell/parser.go type-checked stand-alone against utils/parser")
				return
			}
		}
	}
	c.c38Load("shell")
}
