package main

// C10 — escaped command lines parse back to the original argv.
//
// R10a  metacharacter agreement between the statement parser's main switch
//       (lang/expressions.parseStatement) and the table of escape.CommandLine.
// R10b  the escape table decodes back under the statement parser's escape
//       switch (round trip of a model extracted from both tables) and the
//       `\` replacement precedes every replacement that emits a `\`.
// R10c  argvToCmdLineStr / cmdEscapeCli pass every element through
//       escape.CommandLine before strings.Join(…, " "); main hands all of
//       flag.Args() to argvToCmdLineStr.
//
// The arms of the parser are not pattern-matched: a small three-valued
// evaluator (c10Eval) walks every path of an arm for a concrete rune r, a
// concrete value of tree.nextChar(), a concrete `exec` and "a command is
// already present" (argument position); everything else is unknown and both
// branches are taken. A leaf is *plain* when its only effects are one
// appendToParam(tree, r) and stores to benign parser state.

import (
	"fmt"
	"go/ast"
	"go/constant"
	"go/token"
	"go/types"
	"sort"
	"strings"
)

func init() {
	register("C10", "Decides: (R10a) every rune that the statement parser treats specially in argument position — alone, or together with a given next rune — is escaped by escape.CommandLine (table agreement, extracted from the type-checked switch arms of parseStatement by path evaluation, and from the strings.Replace chain of CommandLine); (R10b) every escaped form produced by CommandLine decodes to the original rune under parseStatement's escape switch, for all 1- and 2-rune strings over the escaped alphabet (model round trip), and `\\` is replaced before any replacement that emits `\\`; (R10c) both callers escape every element and join with one space. Does NOT decide: text that parses as an *expression* before the statement parser is tried (`out = 1`), the command-name position, value-level behaviour of the builtins that receive the parameters.", runC10)
}

const (
	c10ExprPkg = "lang/expressions"
	c10EscPkg  = "utils/escape"
)

type c10Tri int

const (
	c10False c10Tri = iota
	c10True
	c10Unknown
)

func c10Not(a c10Tri) c10Tri {
	switch a {
	case c10True:
		return c10False
	case c10False:
		return c10True
	}
	return c10Unknown
}
func c10And(a, b c10Tri) c10Tri {
	if a == c10False || b == c10False {
		return c10False
	}
	if a == c10True && b == c10True {
		return c10True
	}
	return c10Unknown
}
func c10Or(a, b c10Tri) c10Tri {
	if a == c10True || b == c10True {
		return c10True
	}
	if a == c10False && b == c10False {
		return c10False
	}
	return c10Unknown
}

// c10Leaf is the summary of one path through an arm.
type c10Leaf struct {
	appendR   int      // appends of the current rune (ident r, or a constant equal to it)
	appendK   []rune   // appends of other rune constants
	special   []string // effects that make the rune a metacharacter (first one ends the path)
	unknown   []string // conditions that were unknown on this path
	escSet    int      // 0 untouched, 1 set true, 2 set false (last store)
	exit      string   // fall | continue | return
	retNil    bool     // inlined callee returned literal nil
	nilKnown  map[types.Object]bool
	boolKnown map[types.Object]bool
}

func (l c10Leaf) clone() c10Leaf {
	o := l
	o.appendK = append([]rune(nil), l.appendK...)
	o.special = append([]string(nil), l.special...)
	o.unknown = append([]string(nil), l.unknown...)
	o.nilKnown = map[types.Object]bool{}
	for k, v := range l.nilKnown {
		o.nilKnown[k] = v
	}
	o.boolKnown = map[types.Object]bool{}
	for k, v := range l.boolKnown {
		o.boolKnown[k] = v
	}
	return o
}

func (l c10Leaf) isSpecial() bool { return len(l.special) > 0 }

type c10Eval struct {
	c      *Ctx
	info   *types.Info
	defs   defMap
	rObj   types.Object
	rVal   rune
	rKnown bool
	execs  map[types.Object]bool // objects that hold the value of `exec`
	execV  bool
	next   rune // value of tree.nextChar(); c10Other = "none of the runes the arm compares it with"
	nextK  bool
	escObj types.Object // the local "previous rune was a backslash" flag
	benign map[*types.Var]bool
	inline map[types.Object]*ast.FuncDecl
	leaves []c10Leaf
	depth  int
	steps  int
}

const c10Other rune = 0x10FFFE

var c10StatementT = mx(c10ExprPkg) + ".StatementT"
var c10ParserT = mx(c10ExprPkg) + ".ParserT"

// pure accessors: calls that only read parser state
func (e *c10Eval) isPureCall(call *ast.CallExpr) bool {
	if _, ok := isBuiltinCall(e.info, call, "len"); ok {
		return true
	}
	if tv, ok := e.info.Types[call.Fun]; ok && tv.IsType() {
		return true // conversion
	}
	o := callee(e.info, call)
	for _, n := range []string{"nextChar", "prevChar", "currentChar"} {
		if objIs(o, mx(c10ExprPkg), "ParserT", n) {
			return true
		}
	}
	return objIs(o, mx(c10ExprPkg), "", "isBareChar")
}

func (e *c10Eval) pureExpr(x ast.Expr) bool {
	ok := true
	ast.Inspect(x, func(n ast.Node) bool {
		switch v := n.(type) {
		case *ast.CallExpr:
			if !e.isPureCall(v) {
				ok = false
			}
		case *ast.FuncLit:
			ok = false
		case *ast.UnaryExpr:
			if v.Op == token.ARROW {
				ok = false
			}
		}
		return ok
	})
	return ok
}

func (e *c10Eval) isNextChar(x ast.Expr) bool {
	x = e.defs.resolve1(e.info, x)
	call, ok := unparen(x).(*ast.CallExpr)
	return ok && callIs(e.info, call, mx(c10ExprPkg), "ParserT", "nextChar")
}

func (e *c10Eval) runeOf(x ast.Expr) (rune, bool) {
	x = unparen(x)
	if v, ok := constInt(e.info, x); ok {
		return rune(v), true
	}
	if id, ok := x.(*ast.Ident); ok && e.rKnown && e.info.ObjectOf(id) == e.rObj {
		return e.rVal, true
	}
	if e.nextK && e.isNextChar(x) {
		return e.next, true
	}
	return 0, false
}

func (e *c10Eval) isCmdLen(x ast.Expr) bool {
	call, ok := isBuiltinCall(e.info, unparen(x), "len")
	return ok && len(call.Args) == 1 && isField(e.info, call.Args[0], c10StatementT, "command")
}

func (e *c10Eval) cond(x ast.Expr, l *c10Leaf) c10Tri {
	x = unparen(x)
	switch v := x.(type) {
	case *ast.UnaryExpr:
		if v.Op == token.NOT {
			return c10Not(e.cond(v.X, l))
		}
	case *ast.BinaryExpr:
		switch v.Op {
		case token.LAND:
			return c10And(e.cond(v.X, l), e.cond(v.Y, l))
		case token.LOR:
			return c10Or(e.cond(v.X, l), e.cond(v.Y, l))
		case token.EQL, token.NEQ, token.LSS, token.LEQ, token.GTR, token.GEQ:
			// nil tests of a local known to be nil
			if v.Op == token.EQL || v.Op == token.NEQ {
				for _, p := range [][2]ast.Expr{{v.X, v.Y}, {v.Y, v.X}} {
					if id, ok := unparen(p[1]).(*ast.Ident); ok && id.Name == "nil" && e.info.ObjectOf(id) == types.Universe.Lookup("nil") {
						if lid, ok := unparen(p[0]).(*ast.Ident); ok {
							if isNil, known := l.nilKnown[e.info.ObjectOf(lid)]; known {
								if (v.Op == token.EQL) == isNil {
									return c10True
								}
								return c10False
							}
						}
					}
				}
			}
			// argument position: a command is present, len(command) >= 1
			if y, op, k, ok := cmpNorm(e.info, v); ok && e.isCmdLen(y) {
				p := intPred(op, k)
				if samePredOnRange(p, func(int64) bool { return true }, 1, 6) {
					return c10True
				}
				if samePredOnRange(p, func(int64) bool { return false }, 1, 6) {
					return c10False
				}
				return c10Unknown
			}
			a, okA := e.runeOf(v.X)
			b, okB := e.runeOf(v.Y)
			if okA && okB {
				if intPred(v.Op, int64(b))(int64(a)) {
					return c10True
				}
				return c10False
			}
		}
	case *ast.Ident:
		o := e.info.ObjectOf(v)
		if e.execs[o] {
			if e.execV {
				return c10True
			}
			return c10False
		}
		if b, ok := constBool(e.info, v); ok {
			if b {
				return c10True
			}
			return c10False
		}
		if b, ok := l.boolKnown[o]; ok {
			if b {
				return c10True
			}
			return c10False
		}
	}
	return c10Unknown
}

// after is the continuation: what runs once the statement list is done.
type c10Cont func(l c10Leaf)

func (e *c10Eval) emit(l c10Leaf) { e.leaves = append(e.leaves, l) }

func (e *c10Eval) fail(l c10Leaf, why string) {
	l.special = append(l.special, why)
	e.emit(l)
}

// run evaluates a statement list. brk = continuation of an enclosing switch
// (for `break`), k = continuation after the list; ft = continuation for `fallthrough`.
func (e *c10Eval) run(list []ast.Stmt, l c10Leaf, k c10Cont, brk c10Cont, ft c10Cont, ret c10Cont) {
	e.steps++
	if e.steps > 200000 {
		e.fail(l, "path explosion (evaluation bound reached)")
		return
	}
	if len(list) == 0 {
		k(l)
		return
	}
	s, rest := list[0], list[1:]
	next := func(l c10Leaf) { e.run(rest, l, k, brk, ft, ret) }
	switch s := s.(type) {
	case *ast.EmptyStmt:
		next(l)
	case *ast.BlockStmt:
		e.run(s.List, l, next, brk, ft, ret)
	case *ast.DeclStmt:
		if e.pureExpr0(s) {
			next(l)
		} else {
			e.fail(l, "declaration with side effects: "+e.c.src(s))
		}
	case *ast.ExprStmt:
		call, ok := s.X.(*ast.CallExpr)
		if !ok {
			e.fail(l, "statement "+e.c.src(s))
			return
		}
		e.call(call, nil, l, next)
	case *ast.IncDecStmt:
		e.fail(l, "moves the parser/changes state: "+e.c.src(s))
	case *ast.AssignStmt:
		e.assign(s, l, next)
	case *ast.ReturnStmt:
		if ret == nil {
			l.exit = "return"
			e.fail(l, "ends the statement ("+e.c.src(s)+")")
			return
		}
		// inlined callee: results must be call-free; literal nil is remembered
		l.retNil = false
		if len(s.Results) == 1 {
			if id, ok := unparen(s.Results[0]).(*ast.Ident); ok && id.Name == "nil" {
				l.retNil = true
			} else if !e.pureExpr(s.Results[0]) {
				e.fail(l, "helper returns "+e.c.src(s.Results[0]))
				return
			}
		} else if len(s.Results) > 1 {
			e.fail(l, "helper returns several values: "+e.c.src(s))
			return
		}
		l.exit = "return"
		ret(l)
	case *ast.BranchStmt:
		switch s.Tok {
		case token.CONTINUE:
			if s.Label != nil || ret != nil {
				e.fail(l, "labelled/nested continue")
				return
			}
			l.exit = "continue"
			e.emit(l)
		case token.BREAK:
			if s.Label != nil || brk == nil {
				e.fail(l, "break out of the parser loop: "+e.c.src(s))
				return
			}
			brk(l)
		case token.FALLTHROUGH:
			if ft == nil {
				e.fail(l, "fallthrough without a following clause")
				return
			}
			ft(l)
		default:
			e.fail(l, "goto")
		}
	case *ast.IfStmt:
		withInit := func(l c10Leaf) {
			t := e.cond(s.Cond, &l)
			doThen := func(l c10Leaf) { e.run(s.Body.List, l, next, brk, ft, ret) }
			doElse := func(l c10Leaf) {
				switch el := s.Else.(type) {
				case nil:
					next(l)
				case *ast.BlockStmt:
					e.run(el.List, l, next, brk, ft, ret)
				default:
					e.run([]ast.Stmt{el}, l, next, brk, ft, ret)
				}
			}
			switch t {
			case c10True:
				doThen(l)
			case c10False:
				doElse(l)
			default:
				a, b := l.clone(), l.clone()
				a.unknown = append(a.unknown, e.c.src(s.Cond))
				b.unknown = append(b.unknown, "!("+e.c.src(s.Cond)+")")
				doThen(a)
				doElse(b)
			}
		}
		if s.Init != nil {
			e.run([]ast.Stmt{s.Init}, l, withInit, nil, nil, ret)
		} else {
			withInit(l)
		}
	case *ast.SwitchStmt:
		withInit := func(l c10Leaf) { e.doSwitch(s, l, next, ret) }
		if s.Init != nil {
			e.run([]ast.Stmt{s.Init}, l, withInit, nil, nil, ret)
		} else {
			withInit(l)
		}
	default:
		e.fail(l, fmt.Sprintf("%T: %s", s, e.c.src(s)))
	}
}

func (e *c10Eval) pureExpr0(n ast.Node) bool {
	ok := true
	ast.Inspect(n, func(x ast.Node) bool {
		if call, isC := x.(*ast.CallExpr); isC && !e.isPureCall(call) {
			ok = false
		}
		return ok
	})
	return ok
}

func (e *c10Eval) doSwitch(s *ast.SwitchStmt, l c10Leaf, after c10Cont, ret c10Cont) {
	clauses := make([]*ast.CaseClause, 0, len(s.Body.List))
	for _, st := range s.Body.List {
		clauses = append(clauses, st.(*ast.CaseClause))
	}
	var runClause func(i int, l c10Leaf)
	runClause = func(i int, l c10Leaf) {
		var ft c10Cont
		if i+1 < len(clauses) {
			ft = func(l c10Leaf) { runClause(i+1, l) }
		}
		e.run(clauses[i].Body, l, after, after, ft, ret)
	}
	dflt := -1
	for i, cc := range clauses {
		if cc.List == nil {
			dflt = i
		}
	}
	if s.Tag != nil {
		tv, known := e.runeOf(s.Tag)
		if !e.pureExpr(s.Tag) {
			e.fail(l, "switch tag with side effects: "+e.c.src(s.Tag))
			return
		}
		if known {
			for i, cc := range clauses {
				for _, x := range cc.List {
					if v, ok := constInt(e.info, x); ok && rune(v) == tv {
						runClause(i, l)
						return
					} else if !ok {
						e.fail(l, "non-constant case "+e.c.src(x))
						return
					}
				}
			}
			if dflt >= 0 {
				runClause(dflt, l)
			} else {
				after(l)
			}
			return
		}
		// unknown tag: every clause is possible
		for i := range clauses {
			b := l.clone()
			b.unknown = append(b.unknown, "switch "+e.c.src(s.Tag)+" arm "+itoa(i))
			runClause(i, b)
		}
		if dflt < 0 {
			after(l.clone())
		}
		return
	}
	// tagless: first clause whose condition holds
	var step func(i int, l c10Leaf)
	step = func(i int, l c10Leaf) {
		for ; i < len(clauses); i++ {
			cc := clauses[i]
			if cc.List == nil {
				continue
			}
			t := c10False
			for _, x := range cc.List {
				t = c10Or(t, e.cond(x, &l))
			}
			switch t {
			case c10True:
				runClause(i, l)
				return
			case c10False:
				continue
			default:
				a := l.clone()
				a.unknown = append(a.unknown, e.c.src(cc.List[0]))
				runClause(i, a)
				b := l.clone()
				b.unknown = append(b.unknown, "!("+e.c.src(cc.List[0])+")")
				step(i+1, b)
				return
			}
		}
		if dflt >= 0 {
			runClause(dflt, l)
		} else {
			after(l)
		}
	}
	step(0, l)
}

func (e *c10Eval) assign(s *ast.AssignStmt, l c10Leaf, next c10Cont) {
	// single call on the right: x := f(...) / x, err := f(...)
	if len(s.Rhs) == 1 {
		if call, ok := unparen(s.Rhs[0]).(*ast.CallExpr); ok && !e.isPureCall(call) {
			e.call(call, s.Lhs, l, next)
			return
		}
	}
	for _, r := range s.Rhs {
		if !e.pureExpr(r) {
			e.fail(l, "computes "+e.c.src(r))
			return
		}
	}
	for i, lh := range s.Lhs {
		lh = unparen(lh)
		if id, ok := lh.(*ast.Ident); ok {
			o := e.info.ObjectOf(id)
			if id.Name == "_" {
				continue
			}
			if o != nil && o == e.escObj {
				if len(s.Rhs) == len(s.Lhs) {
					if b, ok := constBool(e.info, s.Rhs[i]); ok {
						if b {
							l.escSet = 1
							e.fail(l, "arms the escape flag ("+e.c.src(s)+"): the next rune is read under the escape table")
							return
						}
						l.escSet = 2
						continue
					}
				}
				e.fail(l, "stores the escape flag: "+e.c.src(s))
				return
			}
			if v, ok := o.(*types.Var); ok && !v.IsField() && v.Parent() != nil && v.Parent() != v.Pkg().Scope() {
				// a function-local variable: harmless by itself; remember constant bools
				if len(s.Rhs) == len(s.Lhs) {
					if b, ok := constBool(e.info, s.Rhs[i]); ok {
						l.boolKnown[o] = b
					} else {
						delete(l.boolKnown, o)
					}
				}
				continue
			}
			e.fail(l, "stores "+e.c.src(lh))
			return
		}
		if fv, _ := fieldOf(e.info, lh); fv != nil && e.benign[fv] {
			continue
		}
		e.fail(l, "changes parser state: "+e.c.src(s))
		return
	}
	next(l)
}

// call handles appendToParam, inlinable helpers and everything else.
func (e *c10Eval) call(call *ast.CallExpr, lhs []ast.Expr, l c10Leaf, next c10Cont) {
	o := callee(e.info, call)
	if objIs(o, mx(c10ExprPkg), "", "appendToParam") {
		if call.Ellipsis.IsValid() || len(call.Args) < 2 {
			e.fail(l, "appends computed text: "+e.c.src(call))
			return
		}
		for _, a := range call.Args[1:] {
			if v, ok := e.runeOf(a); ok && !e.isNextChar(a) {
				if e.rKnown && v == e.rVal {
					l.appendR++
				} else {
					l.appendK = append(l.appendK, v)
				}
				continue
			}
			e.fail(l, "appends "+e.c.src(a)+" (not the rune itself)")
			return
		}
		next(l)
		return
	}
	if e.isPureCall(call) {
		next(l)
		return
	}
	fd := e.inline[o]
	if fd != nil && e.depth < 2 {
		// bind parameters: only plain identifiers / constants may be passed
		var params []*ast.Ident
		for _, f := range fd.Type.Params.List {
			params = append(params, f.Names...)
		}
		if len(params) != len(call.Args) || fd.Recv != nil {
			e.fail(l, "calls "+objName(o))
			return
		}
		added := []types.Object{}
		for i, a := range call.Args {
			a = unparen(a)
			po := e.info.ObjectOf(params[i])
			if id, ok := a.(*ast.Ident); ok {
				if e.execs[e.info.ObjectOf(id)] {
					e.execs[po] = true
					added = append(added, po)
				}
				continue
			}
			if constOf(e.info, a) != nil {
				continue
			}
			e.fail(l, "calls "+objName(o)+" with computed argument "+e.c.src(a))
			return
		}
		after := func(l c10Leaf) {
			// back in the caller
			e.depth--
			defer func() { e.depth++ }()
			if len(lhs) == 1 {
				if id, ok := unparen(lhs[0]).(*ast.Ident); ok {
					if l.retNil {
						l.nilKnown[e.info.ObjectOf(id)] = true
					} else {
						delete(l.nilKnown, e.info.ObjectOf(id))
					}
				}
			} else if len(lhs) > 1 {
				e.fail(l, "multi-value helper result")
				return
			}
			l.exit = ""
			next(l)
		}
		e.depth++
		// falling off the end of the helper (no result) = return
		e.run(fd.Body.List, l, func(l c10Leaf) { l.retNil = false; after(l) }, nil, nil, after)
		e.depth--
		for _, po := range added {
			delete(e.execs, po)
		}
		return
	}
	name := "a function value"
	if o != nil {
		name = objName(o)
	}
	e.fail(l, "calls "+name)
}

func c10NewLeaf() c10Leaf {
	return c10Leaf{nilKnown: map[types.Object]bool{}, boolKnown: map[types.Object]bool{}}
}

// ---------------------------------------------------------------------------

type c10Parser struct {
	fd      *ast.FuncDecl
	info    *types.Info
	loop    *ast.ForStmt
	rObj    types.Object
	execObj types.Object
	escObj  types.Object
	escIf   *ast.IfStmt
	main    *ast.SwitchStmt
	benign  map[*types.Var]bool
	inline  map[types.Object]*ast.FuncDecl
	defs    defMap
}

// c10FindParser locates, by resolved facts, the rune loop of parseStatement:
// r := tree.expression[tree.charPos]; the escape flag (the bool local stored
// `true` in the arm of '\\'); the `if <flag>` block; the main `switch r`.
func (c *Ctx) c10FindParser(rule string) *c10Parser {
	fd, pk := c.MustFunc(rule, c10ExprPkg, "ParserT", "parseStatement")
	if fd == nil {
		return nil
	}
	info := pk.TypesInfo
	p := &c10Parser{fd: fd, info: info, defs: localDefs(info, fd.Body), benign: map[*types.Var]bool{}, inline: map[types.Object]*ast.FuncDecl{}}
	if fd.Type.Params != nil {
		for _, f := range fd.Type.Params.List {
			for _, n := range f.Names {
				if b, ok := info.TypeOf(f.Type).Underlying().(*types.Basic); ok && b.Kind() == types.Bool {
					p.execObj = info.Defs[n]
				}
			}
		}
	}
	for _, s := range fd.Body.List {
		if f, ok := s.(*ast.ForStmt); ok {
			p.loop = f
			break
		}
	}
	if p.loop == nil || p.execObj == nil {
		c.Undecided(rule, "parseStatement:shape", fd.Pos(), "parseStatement has no top-level rune loop / no bool parameter — recognised form: for ; charPos < len(expression); charPos++ { r := expression[charPos]; if escape {…}; switch r {…} }")
		return nil
	}
	for _, s := range p.loop.Body.List {
		if as, ok := s.(*ast.AssignStmt); ok && as.Tok == token.DEFINE && len(as.Lhs) == 1 && len(as.Rhs) == 1 {
			if ix, ok := unparen(as.Rhs[0]).(*ast.IndexExpr); ok && isField(info, ix.X, c10ParserT, "expression") && isField(info, ix.Index, c10ParserT, "charPos") {
				p.rObj = info.ObjectOf(as.Lhs[0].(*ast.Ident))
			}
		}
	}
	if p.rObj == nil {
		c.Undecided(rule, "parseStatement:shape", p.loop.Pos(), "the loop does not define r := tree.expression[tree.charPos]")
		return nil
	}
	for _, s := range p.loop.Body.List {
		if sw, ok := s.(*ast.SwitchStmt); ok && sw.Tag != nil {
			if id, ok := unparen(sw.Tag).(*ast.Ident); ok && info.ObjectOf(id) == p.rObj {
				p.main = sw
			}
		}
	}
	if p.main == nil || p.loop.Body.List[len(p.loop.Body.List)-1] != ast.Stmt(p.main) {
		c.Undecided(rule, "parseStatement:shape", p.loop.Pos(), "the loop body does not end with `switch r` (a `continue` in an arm would then skip trailing statements)")
		return nil
	}
	// escape flag: bool local assigned constant true in the clause of '\\'
	for _, st := range p.main.Body.List {
		cc := st.(*ast.CaseClause)
		has := false
		for _, x := range cc.List {
			if v, ok := constInt(info, x); ok && v == '\\' {
				has = true
			}
		}
		if !has {
			continue
		}
		for _, s := range cc.Body {
			if as, ok := s.(*ast.AssignStmt); ok && len(as.Lhs) == 1 && len(as.Rhs) == 1 {
				if id, ok := as.Lhs[0].(*ast.Ident); ok {
					if b, ok := constBool(info, as.Rhs[0]); ok && b {
						if v, ok := info.ObjectOf(id).(*types.Var); ok && !v.IsField() {
							p.escObj = v
						}
					}
				}
			}
		}
	}
	if p.escObj != nil {
		for _, s := range p.loop.Body.List {
			if is, ok := s.(*ast.IfStmt); ok {
				if id, ok := unparen(is.Cond).(*ast.Ident); ok && info.ObjectOf(id) == p.escObj {
					p.escIf = is
				}
			}
		}
	}
	// every loop-body statement is one of: r := …, if escape {…}, switch r
	for _, s := range p.loop.Body.List {
		switch {
		case s == ast.Stmt(p.main), p.escIf != nil && s == ast.Stmt(p.escIf):
		default:
			if as, ok := s.(*ast.AssignStmt); ok && len(as.Lhs) == 1 {
				if id, ok := as.Lhs[0].(*ast.Ident); ok && info.ObjectOf(id) == p.rObj {
					continue
				}
			}
			c.Undecided(rule, "parseStatement:shape", s.Pos(), "unrecognised statement in the rune loop before the main switch: %s", c.src(s))
			return nil
		}
	}
	// benign parser state: StatementT.validFunction (only enables name(…) calls,
	// and '(' is itself an obligation) and StatementT fields that nothing reads.
	c.c10Benign(pk.Syntax, info, p)
	// helpers that may be evaluated in place: package-level functions of the package
	for _, f := range pk.Syntax {
		for _, d := range f.Decls {
			if h, ok := d.(*ast.FuncDecl); ok && h.Recv == nil && h.Body != nil {
				p.inline[info.Defs[h.Name]] = h
			}
		}
	}
	delete(p.inline, pk.Types.Scope().Lookup("appendToParam"))
	return p
}

func (c *Ctx) c10Benign(files []*ast.File, info *types.Info, p *c10Parser) {
	st := c.Pkg(c10ExprPkg).Types.Scope().Lookup("StatementT")
	if st == nil {
		return
	}
	sT := structOf(st.Type())
	if sT == nil {
		return
	}
	read := map[*types.Var]bool{}
	for _, f := range files {
		walkStack(f, func(n ast.Node, stack []ast.Node) bool {
			se, ok := n.(*ast.SelectorExpr)
			if !ok {
				return true
			}
			fv, _ := fieldOf(info, se)
			if fv == nil {
				return true
			}
			// a read unless it is exactly the LHS of a plain assignment
			if len(stack) >= 2 {
				if as, ok := stack[len(stack)-2].(*ast.AssignStmt); ok && as.Tok == token.ASSIGN {
					for _, l := range as.Lhs {
						if l == ast.Expr(se) {
							return true
						}
					}
				}
			}
			read[fv] = true
			return true
		})
	}
	for i := 0; i < sT.NumFields(); i++ {
		f := sT.Field(i)
		if !read[f] {
			p.benign[f] = true
		}
		if f.Name() == "validFunction" {
			p.benign[f] = true
		}
	}
}

func (p *c10Parser) eval(c *Ctx, r rune, next rune, nextK bool, exec bool) *c10Eval {
	return &c10Eval{c: c, info: p.info, defs: p.defs, rObj: p.rObj, rVal: r, rKnown: true,
		execs: map[types.Object]bool{p.execObj: true}, execV: exec, next: next, nextK: nextK,
		escObj: p.escObj, benign: p.benign, inline: p.inline}
}

// nextRunes: constants the clause (and helpers it calls) compares tree.nextChar() with.
func (p *c10Parser) nextRunes(c *Ctx, body []ast.Stmt) []rune {
	set := map[rune]bool{}
	e := &c10Eval{c: c, info: p.info, defs: p.defs}
	var scan func(n ast.Node, depth int)
	scan = func(n ast.Node, depth int) {
		ast.Inspect(n, func(x ast.Node) bool {
			switch v := x.(type) {
			case *ast.BinaryExpr:
				for _, pr := range [][2]ast.Expr{{v.X, v.Y}, {v.Y, v.X}} {
					if e.isNextChar(pr[0]) {
						if k, ok := constInt(p.info, pr[1]); ok {
							set[rune(k)] = true
						}
					}
				}
			case *ast.SwitchStmt:
				if v.Tag != nil && e.isNextChar(v.Tag) {
					for _, st := range v.Body.List {
						for _, cx := range st.(*ast.CaseClause).List {
							if k, ok := constInt(p.info, cx); ok {
								set[rune(k)] = true
							}
						}
					}
				}
			case *ast.CallExpr:
				if h := p.inline[callee(p.info, v)]; h != nil && depth < 2 {
					scan(h.Body, depth+1)
				}
			}
			return true
		})
	}
	for _, s := range body {
		scan(s, 0)
	}
	var out []rune
	for k := range set {
		out = append(out, k)
	}
	sort.Slice(out, func(i, j int) bool { return out[i] < out[j] })
	return out
}

func c10Q(r rune) string {
	switch r {
	case '\t':
		return `'\t'`
	case '\r':
		return `'\r'`
	case '\n':
		return `'\n'`
	case 0:
		return `'\0'`
	}
	return "'" + string(r) + "'"
}

// written form of an empty element ("" when CommandLine has no such step)
var (
	c10EmptyForm string
	c10EmptyPos  token.Pos
)

// c10Pair is one strings.Replace step of CommandLine.
type c10Pair struct {
	from, to string
	pos      token.Pos
}

// c10EscapeTable extracts the ordered replacement chain of escape.CommandLine.
func (c *Ctx) c10EscapeTable(rule string) ([]c10Pair, bool) {
	c10EmptyForm, c10EmptyPos = "", token.NoPos
	fd, pk := c.MustFunc(rule, c10EscPkg, "", "CommandLine")
	if fd == nil {
		return nil, false
	}
	info := pk.TypesInfo
	var param types.Object
	if fd.Type.Params != nil && len(fd.Type.Params.List) == 1 && len(fd.Type.Params.List[0].Names) == 1 {
		param = info.Defs[fd.Type.Params.List[0].Names[0]]
	}
	// Recognised shape: [if len(s) == 0 { return }] followed by ONE loop over every element:
	//   for i := range s {…}   |   for i, v := range s {…}   |   for i := 0; i < len(s); i++ {…}
	// The element is s[i]; with a range value variable v (or a leading `v := s[i]`) the replacements may be
	// applied to v, in which case the body must end with the write-back `s[i] = v`.
	isParam := func(x ast.Expr) bool {
		id, ok := unparen(x).(*ast.Ident)
		return ok && param != nil && info.ObjectOf(id) == param
	}
	lenOfParam := func(x ast.Expr) bool {
		call, ok := isBuiltinCall(info, x, "len")
		return ok && len(call.Args) == 1 && isParam(call.Args[0])
	}
	isZero := func(p func(int64) bool) bool {
		return samePredOnRange(p, func(v int64) bool { return v == 0 }, 0, 4)
	}
	var loopPos token.Pos
	var loopBody *ast.BlockStmt
	var keyObj, aliasObj types.Object
	allElems, whyNot := false, ""
	for _, s := range fd.Body.List {
		switch v := s.(type) {
		case *ast.IfStmt:
			// `if len(s) == 0 { return }` before the loop changes nothing (the loop would not run)
			if loopBody == nil && v.Init == nil && v.Else == nil && len(v.Body.List) == 1 {
				if rs, ok := v.Body.List[0].(*ast.ReturnStmt); ok && len(rs.Results) == 0 {
					if x, op, k, ok := cmpNorm(info, v.Cond); ok && lenOfParam(x) && isZero(intPred(op, k)) {
						continue
					}
				}
			}
		case *ast.RangeStmt:
			if loopBody == nil && v.Tok == token.DEFINE {
				loopBody, loopPos = v.Body, v.Pos()
				if id, ok := v.Key.(*ast.Ident); ok && id.Name != "_" {
					keyObj = info.ObjectOf(id)
				}
				if id, ok := v.Value.(*ast.Ident); ok && id.Name != "_" {
					aliasObj = info.ObjectOf(id)
				}
				allElems = isParam(v.X)
				whyNot = "ranges over " + c.src(v.X)
				continue
			}
		case *ast.ForStmt:
			if loopBody == nil && v.Init != nil && v.Cond != nil && v.Post != nil {
				init, ok1 := v.Init.(*ast.AssignStmt)
				cond, ok2 := unparen(v.Cond).(*ast.BinaryExpr)
				if ok1 && ok2 && init.Tok == token.DEFINE && len(init.Lhs) == 1 && len(init.Rhs) == 1 {
					id := init.Lhs[0].(*ast.Ident)
					ko := info.ObjectOf(id)
					isKey := func(x ast.Expr) bool {
						kid, ok := unparen(x).(*ast.Ident)
						return ok && info.ObjectOf(kid) == ko
					}
					// i < len(s)  |  len(s) > i
					condOK := (cond.Op == token.LSS && isKey(cond.X) && lenOfParam(cond.Y)) || (cond.Op == token.GTR && isKey(cond.Y) && lenOfParam(cond.X))
					// i++  |  i += 1
					postOK := false
					switch ps := v.Post.(type) {
					case *ast.IncDecStmt:
						postOK = ps.Tok == token.INC && isKey(ps.X)
					case *ast.AssignStmt:
						if ps.Tok == token.ADD_ASSIGN && len(ps.Lhs) == 1 && len(ps.Rhs) == 1 && isKey(ps.Lhs[0]) {
							one, ok := constInt(info, ps.Rhs[0])
							postOK = ok && one == 1
						}
					}
					if start, ok := constInt(info, init.Rhs[0]); ok && condOK && postOK {
						loopBody, loopPos, keyObj = v.Body, v.Pos(), ko
						allElems = start == 0
						whyNot = "starts at index " + c.src(init.Rhs[0])
						// the index must not be changed inside the body
						ast.Inspect(v.Body, func(n ast.Node) bool {
							switch st := n.(type) {
							case *ast.AssignStmt:
								for _, l := range st.Lhs {
									if isKey(l) {
										allElems, whyNot = false, "changes its index inside the loop"
									}
								}
							case *ast.IncDecStmt:
								if isKey(st.X) {
									allElems, whyNot = false, "changes its index inside the loop"
								}
							}
							return true
						})
						continue
					}
				}
			}
		}
		c.Undecided(rule, "CommandLine:shape", s.Pos(), "statement outside the element loop: %s (recognised form: for i := range s { s[i] = strings.Replace(s[i], c, esc, -1) … })", c.src(s))
		return nil, false
	}
	if loopBody == nil || param == nil {
		c.Undecided(rule, "CommandLine:shape", fd.Pos(), "no `for i := range s` over the parameter")
		return nil, false
	}
	if !allElems {
		c.Viol(rule, "CommandLine:all-elements", loopPos, "escape.CommandLine %s, not over its whole parameter: some elements are joined unescaped", whyNot)
		return nil, false
	}
	c.OK(rule, "CommandLine:all-elements", loopPos, "CommandLine ranges over every element of its parameter")
	slot := func(x ast.Expr) bool { // s[i]
		ix, ok := unparen(x).(*ast.IndexExpr)
		if !ok {
			return false
		}
		b, ok2 := unparen(ix.Index).(*ast.Ident)
		return isParam(ix.X) && ok2 && info.ObjectOf(b) == keyObj && keyObj != nil
	}
	isAlias := func(x ast.Expr) bool {
		id, ok := unparen(x).(*ast.Ident)
		return ok && aliasObj != nil && info.ObjectOf(id) == aliasObj
	}
	body := loopBody.List
	// leading `v := s[i]`
	if aliasObj == nil && len(body) > 0 {
		if as, ok := body[0].(*ast.AssignStmt); ok && as.Tok == token.DEFINE && len(as.Lhs) == 1 && len(as.Rhs) == 1 && slot(as.Rhs[0]) {
			if id, ok := as.Lhs[0].(*ast.Ident); ok {
				aliasObj = info.ObjectOf(id)
				body = body[1:]
			}
		}
	}
	// which of the two carries the replacements? the alias, when the body ends with the write-back s[i] = v
	viaAlias := false
	if aliasObj != nil && len(body) > 0 {
		if as, ok := body[len(body)-1].(*ast.AssignStmt); ok && as.Tok == token.ASSIGN && len(as.Lhs) == 1 && len(as.Rhs) == 1 && slot(as.Lhs[0]) && isAlias(as.Rhs[0]) {
			viaAlias = true
			body = body[:len(body)-1]
		}
	}
	elem := func(x ast.Expr) bool { // the value being rewritten
		if viaAlias {
			return isAlias(x)
		}
		return slot(x)
	}
	elemRead := func(x ast.Expr) bool { // reads before any rewrite: both spellings denote the element
		return slot(x) || isAlias(x)
	}
	var pairs []c10Pair
	for _, s := range body {
		// `if s[i] == "" { s[i] = <const>; continue }` — the written form of an empty element
		if is, ok := s.(*ast.IfStmt); ok && is.Init == nil && is.Else == nil && len(is.Body.List) == 2 {
			isEmptyTest := false
			if b, ok := unparen(is.Cond).(*ast.BinaryExpr); ok && b.Op == token.EQL {
				for _, pr := range [][2]ast.Expr{{b.X, b.Y}, {b.Y, b.X}} {
					if v, ok := constString(info, pr[1]); ok && v == "" && elemRead(pr[0]) {
						isEmptyTest = true
					}
				}
			}
			if x, op, k, ok := cmpNorm(info, is.Cond); ok {
				if call, ok := isBuiltinCall(info, x, "len"); ok && len(call.Args) == 1 && elemRead(call.Args[0]) && isZero(intPred(op, k)) {
					isEmptyTest = true
				}
			}
			as, ok1 := is.Body.List[0].(*ast.AssignStmt)
			br, ok2 := is.Body.List[1].(*ast.BranchStmt)
			if isEmptyTest && (len(pairs) == 0 || !viaAlias) && ok1 && ok2 && br.Tok == token.CONTINUE && br.Label == nil && as.Tok == token.ASSIGN && len(as.Lhs) == 1 && len(as.Rhs) == 1 && slot(as.Lhs[0]) {
				if v, ok := constString(info, as.Rhs[0]); ok {
					c10EmptyForm, c10EmptyPos = v, as.Pos()
					continue
				}
			}
		}
		// a constant declared inside the loop
		if ds, ok := s.(*ast.DeclStmt); ok {
			if gd, ok := ds.Decl.(*ast.GenDecl); ok && gd.Tok == token.CONST {
				continue
			}
		}
		as, ok := s.(*ast.AssignStmt)
		if !ok || as.Tok != token.ASSIGN || len(as.Lhs) != 1 || len(as.Rhs) != 1 || !elem(as.Lhs[0]) {
			c.Undecided(rule, "CommandLine:shape", s.Pos(), "unrecognised statement in the element loop: %s", c.src(s))
			return nil, false
		}
		call, ok := unparen(as.Rhs[0]).(*ast.CallExpr)
		if !ok {
			c.Undecided(rule, "CommandLine:shape", s.Pos(), "element is not assigned from a replacement call: %s", c.src(s))
			return nil, false
		}
		o := callee(info, call)
		all := false
		switch {
		case objIs(o, "strings", "", "ReplaceAll") && len(call.Args) == 3:
			all = true
		case objIs(o, "strings", "", "Replace") && len(call.Args) == 4:
			if n, ok := constInt(info, call.Args[3]); ok && n < 0 {
				all = true
			}
		default:
			c.Undecided(rule, "CommandLine:shape", s.Pos(), "element is rewritten by %s, not by strings.Replace/ReplaceAll with constants", c.src(call.Fun))
			return nil, false
		}
		from, ok1 := constString(info, call.Args[1])
		to, ok2 := constString(info, call.Args[2])
		if !elem(call.Args[0]) || !ok1 || !ok2 {
			c.Undecided(rule, "CommandLine:shape", s.Pos(), "replacement is not of the element itself with constant strings: %s", c.src(s))
			return nil, false
		}
		if !all {
			c.Viol(rule, "CommandLine:replace-all:"+c10QS(from), call.Pos(), "strings.Replace of %q is limited to %s occurrences: later occurrences in an argument stay unescaped and are parsed as syntax", from, c.src(call.Args[3]))
			continue
		}
		pairs = append(pairs, c10Pair{from, to, call.Pos()})
	}
	return pairs, true
}

func c10QS(s string) string {
	rs := []rune(s)
	if len(rs) == 1 {
		return c10Q(rs[0])
	}
	return fmt.Sprintf("%q", s)
}

func runC10(c *Ctx) {
	c.Load(c10ExprPkg, c10EscPkg, "builtins/core/escape", ".")
	c.Rule("R10a", "metacharacter agreement: every case rune of parseStatement's main switch that, in argument position (a command is present), can take a path other than `appendToParam(tree, r)` — for exec=true (final argv) or exec=false (statement boundaries) — is a `from` string of escape.CommandLine; a rune that is special only when tree.nextChar()==X needs r or X escaped")
	c.Rule("R10b", "escape table decodes back: for every 1- and 2-rune string over the escaped alphabet (+ `\\`, s, t, r, n, #), applying CommandLine's replacement chain and then parseStatement's escape handling (flag set by '\\', table of the `if escape` block) yields the original runes, in exec=true; in exec=false no escaped rune ends the statement; `\\` is replaced before every replacement whose output contains `\\`")
	c.Rule("R10c", "argvToCmdLineStr and cmdEscapeCli call escape.CommandLine on the whole slice (bare identifier, unconditionally, before the join, no later stores to it) and join exactly that slice with \" \"; main passes all of flag.Args()")

	pairs, okT := c.c10EscapeTable("R10a")
	E := map[rune]string{}
	if okT {
		for _, p := range pairs {
			rs := []rune(p.from)
			if len(rs) == 1 {
				E[rs[0]] = p.to
			}
		}
		c.MinCount("R10a", "replacement steps in escape.CommandLine", len(pairs), 17)
	}
	p := c.c10FindParser("R10a")
	if p != nil && okT {
		c.c10Metachars(p, E)
	}
	if p != nil && okT {
		c.c10RoundTrip(p, pairs)
	}
	c.c10Callers()
	c.c10BlockTable()
	c.Rule("R10d", "expression-first parsing: preParser tries parseExpression before ParseStatement and accepts the text when it validates; validateExpression accepts a bareword on the left of every operator of the assignment class (the clause that tests isSymbolAssignable, which admits symbols.Bareword); therefore for every operator symbol of that class, at least one rune of the operator text that parseExpression's arm recognises must be escaped by escape.CommandLine (the `\\` makes the expression parser reject the line and hand it to the statement parser)")
	if okT {
		c.c10ExprFirst(E)
	}
}

// c10Metachars is R10a.
func (c *Ctx) c10Metachars(p *c10Parser, E map[rune]string) {
	type armRes struct {
		special bool
		why     string
	}
	evalArm := func(body []ast.Stmt, ft func(e *c10Eval) c10Cont, r, next rune) armRes {
		for _, exec := range []bool{true, false} {
			e := p.eval(c, r, next, true, exec)
			var ftc c10Cont
			if ft != nil {
				ftc = ft(e)
			}
			e.run(body, c10NewLeaf(), func(l c10Leaf) { l.exit = "fall"; e.emit(l) }, func(l c10Leaf) { l.exit = "fall"; e.emit(l) }, ftc, nil)
			for _, l := range e.leaves {
				mode := "exec=true"
				if !exec {
					mode = "exec=false"
				}
				if l.isSpecial() {
					u := ""
					if len(l.unknown) > 0 {
						u = " when " + strings.Join(l.unknown, " && ")
					}
					return armRes{true, fmt.Sprintf("%s: %s%s", mode, l.special[0], u)}
				}
				if exec {
					if l.appendR != 1 || len(l.appendK) != 0 {
						return armRes{true, fmt.Sprintf("%s: the rune is not appended exactly once as itself (appends of r: %d, other constants: %q)", mode, l.appendR, string(l.appendK))}
					}
				}
			}
			if len(e.leaves) == 0 {
				return armRes{true, "no path evaluated"}
			}
		}
		return armRes{}
	}
	clauses := []*ast.CaseClause{}
	for _, st := range p.main.Body.List {
		clauses = append(clauses, st.(*ast.CaseClause))
	}
	var ftOf func(i int) func(e *c10Eval) c10Cont
	ftOf = func(i int) func(e *c10Eval) c10Cont {
		if i+1 >= len(clauses) {
			return nil
		}
		return func(e *c10Eval) c10Cont {
			return func(l c10Leaf) {
				var ftc c10Cont
				if f := ftOf(i + 1); f != nil {
					ftc = f(e)
				}
				fall := func(l c10Leaf) { l.exit = "fall"; e.emit(l) }
				e.run(clauses[i+1].Body, l, fall, fall, ftc, nil)
			}
		}
	}
	n := 0
	var plain, specials []string
	seen := map[rune]bool{}
	check := func(i int, r rune, pos token.Pos) {
		n++
		body := clauses[i].Body
		if seen[r] {
			return
		}
		seen[r] = true
		key := "metachar:" + c10Q(r)
		other := evalArm(body, ftOf(i), r, c10Other)
		if other.special {
			specials = append(specials, c10Q(r))
			if _, ok := E[r]; ok {
				c.OK("R10a", key, pos, "special in argument position (%s) and escaped by CommandLine as %q", other.why, E[r])
			} else {
				c.Viol("R10a", key, pos, "the statement parser treats %s specially in argument position (%s) but escape.CommandLine leaves it unescaped: an argv element containing it is not passed verbatim by `murex --execute`/`esccli`", c10Q(r), other.why)
			}
			return
		}
		ks := p.nextRunes(c, body)
		anyPair := false
		for _, k := range ks {
			res := evalArm(body, ftOf(i), r, k)
			if !res.special {
				continue
			}
			anyPair = true
			pkey := "metachar:'" + string(r) + string(k) + "'"
			specials = append(specials, "'"+string(r)+string(k)+"'")
			_, okR := E[r]
			_, okK := E[k]
			if okR || okK {
				c.OK("R10a", pkey, pos, "%s followed by %s is special (%s); CommandLine escapes %s", c10Q(r), c10Q(k), res.why, map[bool]string{true: c10Q(r), false: c10Q(k)}[okR])
			} else {
				c.Viol("R10a", pkey, pos, "the statement parser treats %s followed by %s specially in argument position (%s) but escape.CommandLine escapes neither rune: an argv element containing %q is not passed verbatim by `murex --execute`/`esccli`", c10Q(r), c10Q(k), res.why, string(r)+string(k))
			}
		}
		if !anyPair {
			plain = append(plain, c10Q(r))
			c.OK("R10a", key, pos, "plain in argument position: every path appends the rune once and touches only benign state")
		}
	}
	for i, cc := range clauses {
		if cc.List == nil {
			// default arm: representatives of a bare and a non-bare rune, and every
			// escaped rune that has no case of its own
			for _, r := range []rune{'a', ')', '!', ']', '^', ','} {
				check(i, r, cc.Pos())
				n--
			}
			continue
		}
		for _, x := range cc.List {
			v, ok := constInt(p.info, x)
			if !ok {
				c.Undecided("R10a", "case:"+c.src(x), x.Pos(), "non-constant case in the main switch of parseStatement")
				continue
			}
			check(i, rune(v), x.Pos())
		}
	}
	c.MinCount("R10a", "case runes of parseStatement's main switch", n, 28)
	c.Info("R10a special in argument position: %s", strings.Join(specials, " "))
	c.Info("R10a plain in argument position: %s", strings.Join(plain, " "))
	var bn []string
	for f := range p.benign {
		bn = append(bn, f.Name())
	}
	sort.Strings(bn)
	c.Info("R10a benign parser state (never read, or validFunction whose only reader is the '(' arm): %s", strings.Join(bn, " "))
}

// c10RoundTrip is R10b.
func (c *Ctx) c10RoundTrip(p *c10Parser, pairs []c10Pair) {
	// ordering: `\` first among the steps that emit `\`
	bsIdx := -1
	for i, pr := range pairs {
		if pr.from == `\` {
			bsIdx = i
		}
	}
	first := -1
	for i, pr := range pairs {
		if strings.Contains(pr.to, `\`) && pr.from != `\` {
			first = i
			break
		}
	}
	switch {
	case bsIdx < 0:
		c.Viol("R10b", "order:backslash-first", p.fd.Pos(), "escape.CommandLine has no replacement for `\\`: a literal backslash in an argument escapes the rune after it")
	case first >= 0 && bsIdx > first:
		c.Viol("R10b", "order:backslash-first", pairs[bsIdx].pos, "the `\\` replacement is step %d, after step %d (%q→%q) which emits a backslash: the backslashes of earlier escapes are escaped again (double escaping), %q decodes to a literal backslash followed by a live %q", bsIdx+1, first+1, pairs[first].from, pairs[first].to, pairs[first].from, pairs[first].from)
	default:
		c.OK("R10b", "order:backslash-first", pairs[bsIdx].pos, "`\\` is replaced before every step that emits a backslash")
	}
	if p.escObj == nil || p.escIf == nil {
		c.Undecided("R10b", "escape-block", p.loop.Pos(), "no `escape` flag (bool local stored true in the '\\\\' arm) with an `if escape {…}` block at the top of the rune loop: the decode table cannot be extracted")
		return
	}
	c.OK("R10b", "escape-block", p.escIf.Pos(), "escape flag and `if escape` block located by their roles")
	encode := func(s string) string {
		for _, pr := range pairs {
			s = strings.ReplaceAll(s, pr.from, pr.to)
		}
		return s
	}
	// decodeEsc: what the `if escape` block does with rune x followed by next
	type dres struct {
		out  []rune
		ok   bool
		why  string
		keep bool // escape flag not reset
	}
	cache := map[[3]rune]dres{}
	decodeEsc := func(x, next rune, exec bool) dres {
		ck := [3]rune{x, next, 0}
		if exec {
			ck[2] = 1
		}
		if d, ok := cache[ck]; ok {
			return d
		}
		e := p.eval(c, x, next, true, exec)
		fall := func(l c10Leaf) {
			// falling out of the escape block means the rune is parsed again by the main switch
			l.special = append(l.special, "falls through to the main switch (rune parsed as unescaped)")
			e.emit(l)
		}
		e.run(p.escIf.Body.List, c10NewLeaf(), fall, nil, nil, nil)
		d := dres{ok: true}
		if len(e.leaves) == 0 {
			d = dres{ok: false, why: "no path"}
		}
		for i, l := range e.leaves {
			if l.isSpecial() {
				u := ""
				if len(l.unknown) > 0 {
					u = " when " + strings.Join(l.unknown, " && ")
				}
				d = dres{ok: false, why: l.special[0] + u}
				break
			}
			var out []rune
			for k := 0; k < l.appendR; k++ {
				out = append(out, x)
			}
			out = append(out, l.appendK...)
			if l.appendR > 0 && len(l.appendK) > 0 {
				// order of mixed appends is not tracked; exec=false appends '\\', r
				if exec {
					d = dres{ok: false, why: "appends several runes"}
					break
				}
			}
			keep := l.escSet != 2
			if i > 0 && (string(out) != string(d.out) || keep != d.keep) {
				d = dres{ok: false, why: "result depends on unknown state (" + strings.Join(l.unknown, " && ") + ")"}
				break
			}
			d.out, d.keep = out, keep
		}
		cache[ck] = d
		return d
	}
	decode := func(enc string, exec bool) (string, string) {
		rs := []rune(enc)
		var out []rune
		esc := false
		for i, x := range rs {
			nx := rune(0)
			if i+1 < len(rs) {
				nx = rs[i+1]
			}
			if esc {
				d := decodeEsc(x, nx, exec)
				if !d.ok {
					return "", fmt.Sprintf("escaped %s followed by %s: %s", c10Q(x), c10Q(nx), d.why)
				}
				if d.keep {
					return "", fmt.Sprintf("escaped %s leaves the escape flag set", c10Q(x))
				}
				out = append(out, d.out...)
				esc = false
				continue
			}
			if x == '\\' {
				esc = true
				continue
			}
			out = append(out, x)
		}
		if esc {
			return "", "dangling backslash at the end of the encoded text"
		}
		return string(out), ""
	}
	alpha := map[rune]bool{'\\': true, 's': true, 't': true, 'r': true, 'n': true, '#': true, 'a': true}
	for _, pr := range pairs {
		for _, r := range pr.from {
			alpha[r] = true
		}
	}
	var al []rune
	for r := range alpha {
		al = append(al, r)
	}
	sort.Slice(al, func(i, j int) bool { return al[i] < al[j] })
	nStr := 0
	for _, pr := range pairs {
		frs := []rune(pr.from)
		key := "decode:" + c10QS(pr.from)
		if len(frs) != 1 {
			c.Undecided("R10b", key, pr.pos, "multi-rune replacement %q→%q is outside the per-rune model", pr.from, pr.to)
			continue
		}
		bad := ""
		tests := []string{pr.from}
		for _, b := range al {
			tests = append(tests, pr.from+string(b), string(b)+pr.from)
		}
		for _, s := range tests {
			nStr++
			enc := encode(s)
			got, why := decode(enc, true)
			if why != "" {
				bad = fmt.Sprintf("%q is written as %q; %s", s, enc, why)
				break
			}
			if got != s {
				bad = fmt.Sprintf("%q is written as %q which the statement parser reads back as %q", s, enc, got)
				break
			}
			if _, why := decode(enc, false); why != "" {
				bad = fmt.Sprintf("%q is written as %q; while splitting the block (exec=false) %s", s, enc, why)
				break
			}
		}
		if bad == "" {
			c.OK("R10b", key, pr.pos, "%q→%q reads back as the original alone and next to every rune of the alphabet (%d strings)", pr.from, pr.to, len(tests))
		} else {
			c.Viol("R10b", key, pr.pos, "escape.CommandLine's form for %s does not parse back to it: %s", c10QS(pr.from), bad)
		}
	}
	// the empty element: it must be written as something the parser turns into
	// one zero-length parameter (a pair of quotes whose arm sets canHaveZeroLenStr)
	{
		pos := c10EmptyPos
		if !pos.IsValid() && len(pairs) > 0 {
			pos = pairs[0].pos
		}
		form := []rune(c10EmptyForm)
		good, why := false, ""
		switch {
		case len(form) == 0:
			why = "an empty argv element is written as nothing: after strings.Join it disappears and the command receives one argument fewer (`murex --execute out '' x` prints `x`, not ` x`)"
		case len(form) == 2 && form[0] == form[1] && (form[0] == '\'' || form[0] == '"'):
			// the quote arm must allow a zero-length parameter
			for _, st := range p.main.Body.List {
				cc := st.(*ast.CaseClause)
				has := false
				for _, x := range cc.List {
					if v, ok := constInt(p.info, x); ok && rune(v) == form[0] {
						has = true
					}
				}
				if !has {
					continue
				}
				for _, s := range cc.Body {
					if as, ok := s.(*ast.AssignStmt); ok && len(as.Lhs) == 1 && len(as.Rhs) == 1 && isField(p.info, as.Lhs[0], c10StatementT, "canHaveZeroLenStr") {
						if b, ok := constBool(p.info, as.Rhs[0]); ok && b {
							good = true
						}
					}
				}
			}
			if !good {
				why = "the quote arm of parseStatement does not set canHaveZeroLenStr: " + c10EmptyForm + " yields no parameter"
			}
		default:
			why = fmt.Sprintf("an empty element is written as %q, which is not an empty pair of quotes", c10EmptyForm)
		}
		if good {
			c.OK("R10b", "decode:empty", pos, "an empty element is written as %s, whose arm sets canHaveZeroLenStr: it is read back as one zero-length parameter", c10EmptyForm)
		} else {
			c.Viol("R10b", "decode:empty", pos, "%s", why)
		}
	}
	// runes that are NOT escaped must not be produced as the second rune of an
	// escape with a different meaning: `\s`,`\t`,`\r`,`\n` decode to white space,
	// so the letters themselves must never follow a raw backslash — covered by
	// the pair tests above (`\`+letter).
	c.MinCount("R10b", "model strings round-tripped", nStr, 17*3)
}

// c10Callers is R10c.
func (c *Ctx) c10Callers() {
	type site struct{ pkg, recv, name string }
	for _, st := range []site{{"", "", "argvToCmdLineStr"}, {"builtins/core/escape", "", "cmdEscapeCli"}} {
		fd, pk := c.MustFunc("R10c", st.pkg, st.recv, st.name)
		if fd == nil {
			continue
		}
		info := pk.TypesInfo
		var joins, escs []*ast.CallExpr
		for _, call := range calls(fd.Body, true) {
			o := callee(info, call)
			if objIs(o, "strings", "", "Join") {
				joins = append(joins, call)
			}
			if objIs(o, mx(c10EscPkg), "", "CommandLine") {
				escs = append(escs, call)
			}
		}
		key := st.name
		if len(joins) != 1 || len(joins[0].Args) != 2 {
			c.Undecided("R10c", key+":join", fd.Pos(), "%s has %d strings.Join calls (recognised form: one)", st.name, len(joins))
			continue
		}
		join := joins[0]
		sep, okS := constString(info, join.Args[1])
		c.Check(okS && sep == " ", "R10c", key+":separator", join.Pos(), "%s joins the escaped elements with %s (must be one space: any other separator merges or splits arguments when parsed back)", st.name, c.src(join.Args[1]))
		jid, ok := unparen(join.Args[0]).(*ast.Ident)
		if !ok {
			c.Viol("R10c", key+":escapes-all", join.Pos(), "%s joins %s, not the slice that was escaped as a whole", st.name, c.src(join.Args[0]))
			continue
		}
		X := info.ObjectOf(jid)
		var esc *ast.CallExpr
		for _, e := range escs {
			if len(e.Args) == 1 {
				if id, ok := unparen(e.Args[0]).(*ast.Ident); ok && info.ObjectOf(id) == X {
					esc = e
				}
			}
		}
		if esc == nil {
			what := "never calls escape.CommandLine on it"
			if len(escs) > 0 {
				what = "calls escape.CommandLine on " + c.src(escs[0].Args[0]) + " instead"
			}
			c.Viol("R10c", key+":escapes-all", join.Pos(), "%s joins %s but %s: elements reach the parser unescaped", st.name, jid.Name, what)
			continue
		}
		// unconditional top-level statement of the function body, before the join
		ei := -1
		for i, s := range fd.Body.List {
			if es, ok := s.(*ast.ExprStmt); ok && es.X == ast.Expr(esc) {
				ei = i
			}
		}
		ji := topLevelIndex(fd.Body.List, join)
		if ei < 0 || ji < 0 || ei >= ji {
			c.Viol("R10c", key+":escapes-all", esc.Pos(), "escape.CommandLine(%s) is not an unconditional statement before the join in %s (escape@%d join@%d): on some path the elements are joined unescaped", jid.Name, st.name, ei, ji)
			continue
		}
		// no store to X (or its elements) between escape and join; the slice must not
		// have been cut before
		bad := ""
		for _, s := range fd.Body.List[ei+1 : ji+1] {
			ast.Inspect(s, func(n ast.Node) bool {
				if as, ok := n.(*ast.AssignStmt); ok {
					for _, l := range as.Lhs {
						if mentions(info, l, X) {
							bad = "stored after escaping: " + c.src(as)
						}
					}
				}
				return true
			})
		}
		// definitions of X: no slice expression cutting elements off
		ast.Inspect(fd.Body, func(n ast.Node) bool {
			switch v := n.(type) {
			case *ast.AssignStmt:
				for i, l := range v.Lhs {
					if id, ok := unparen(l).(*ast.Ident); ok && info.ObjectOf(id) == X && i < len(v.Rhs) {
						if c10HasSlice(v.Rhs[i]) {
							bad = "slice is cut: " + c.src(v)
						}
					}
				}
			case *ast.CallExpr:
				if cp, ok := isBuiltinCall(info, v, "copy"); ok && len(cp.Args) == 2 && mentions(info, cp.Args[0], X) {
					if c10HasSlice(cp.Args[0]) || c10HasSlice(cp.Args[1]) {
						bad = "partial copy: " + c.src(v)
					}
				}
			}
			return true
		})
		c.Check(bad == "", "R10c", key+":escapes-all", esc.Pos(), "%s escapes the whole slice %s and joins exactly that slice %s", st.name, jid.Name, bad)
	}
	// main: runCommandString(argvToCmdLineStr(flag.Args()))
	if pk := c.Pkg(""); pk != nil {
		info := pk.TypesInfo
		n := 0
		eachFunc(pk, func(fd *ast.FuncDecl) {
			for _, call := range calls(fd.Body, true) {
				if !callIs(info, call, modPath, "", "argvToCmdLineStr") || len(call.Args) != 1 {
					continue
				}
				n++
				// the argument, or the single definition of the local that is passed (`args := flag.Args()`)
				inner, ok := localDefs(info, fd.Body).resolve1(info, call.Args[0]).(*ast.CallExpr)
				good := ok && callIs(info, inner, "flag", "", "Args") && len(inner.Args) == 0
				c.Check(good, "R10c", "main:execute-argv", call.Pos(), "--execute hands all of flag.Args() to argvToCmdLineStr (got %s)", c.src(call.Args[0]))
			}
		})
		c.MinCount("R10c", "callers of argvToCmdLineStr", n, 1)
	} else {
		c.Lost("R10c", "pkg:main", "package main not loaded")
	}
}

func c10HasSlice(x ast.Expr) bool {
	found := false
	ast.Inspect(x, func(n ast.Node) bool {
		if _, ok := n.(*ast.SliceExpr); ok {
			found = true
		}
		return !found
	})
	return found
}

// c10BlockTable reports (evidence only) the runes ParseBlock dispatches on.
func (c *Ctx) c10BlockTable() {
	fd, pk := c.FuncDecl(c10ExprPkg, "BlockT", "ParseBlock")
	if fd == nil {
		return
	}
	var rs []string
	ast.Inspect(fd.Body, func(n ast.Node) bool {
		if sw, ok := n.(*ast.SwitchStmt); ok && sw.Tag != nil && len(rs) == 0 {
			for _, st := range sw.Body.List {
				for _, x := range st.(*ast.CaseClause).List {
					if v, ok := constInt(pk.TypesInfo, x); ok {
						rs = append(rs, c10Q(rune(v)))
					}
				}
			}
		}
		return true
	})
	c.Info("R10a ParseBlock dispatches on %s — it only sees the runes parseStatement hands back (its terminators, all obligations above) and the first rune of a statement (the plain command name): no further obligation", strings.Join(rs, " "))
}

// c10ExprFirst is R10d.
func (c *Ctx) c10ExprFirst(E map[rune]string) {
	pk := c.Pkg(c10ExprPkg)
	info := pk.TypesInfo
	// F1: preParser order
	fdPre, _ := c.MustFunc("R10d", c10ExprPkg, "ParserT", "preParser")
	if fdPre == nil {
		return
	}
	exprIdx, stmtIdx, retIdx := -1, -1, -1
	for i, st := range fdPre.Body.List {
		for _, call := range calls(st, false) {
			if callIs(info, call, mx(c10ExprPkg), "ParserT", "parseExpression") && exprIdx < 0 {
				exprIdx = i
			}
			if callIs(info, call, mx(c10ExprPkg), "ParserT", "ParseStatement") && stmtIdx < 0 {
				stmtIdx = i
			}
		}
		// a success exit (`return <pos>, nil`) anywhere inside a statement that follows the parseExpression call
		// and precedes the first ParseStatement call
		if exprIdx >= 0 && stmtIdx < 0 {
			ast.Inspect(st, func(n ast.Node) bool {
				if _, ok := n.(*ast.FuncLit); ok {
					return false
				}
				if rs, ok := n.(*ast.ReturnStmt); ok && len(rs.Results) == 2 {
					if id, ok := unparen(rs.Results[1]).(*ast.Ident); ok {
						if _, isNil := info.ObjectOf(id).(*types.Nil); isNil {
							retIdx = i
						}
					}
				}
				return true
			})
		}
	}
	switch {
	case exprIdx < 0:
		c.OK("R10d", "preParser:order", fdPre.Pos(), "preParser does not consult the expression parser: no expression-first obligation")
		return
	case stmtIdx >= 0 && stmtIdx < exprIdx:
		c.OK("R10d", "preParser:order", fdPre.Pos(), "preParser tries the statement parser first: no expression-first obligation")
		return
	case retIdx < 0:
		c.Undecided("R10d", "preParser:order", fdPre.Pos(), "preParser calls parseExpression but the success exit (`if expErr == nil { return pos, nil }`) before ParseStatement was not recognised")
		return
	}
	c.OK("R10d", "preParser:order", fdPre.Body.List[exprIdx].Pos(), "preParser accepts the text as an expression (return at statement %d) before ParseStatement (statement %d) is tried", retIdx, stmtIdx)

	// F2: the operator class whose left operand may be a bareword
	fdVal, _ := c.MustFunc("R10d", c10ExprPkg, "ParserT", "validateExpression")
	fdAsg, _ := c.MustFunc("R10d", c10ExprPkg, "", "isSymbolAssignable")
	symPk := c.Pkg("lang/expressions/symbols")
	if fdVal == nil || fdAsg == nil || symPk == nil {
		return
	}
	consts := enumConsts(symPk.Types, "Exp")
	val := func(name string) (int64, bool) {
		k, ok := consts[name]
		if !ok {
			return 0, false
		}
		return constant.Int64Val(constant.ToInt(k))
	}
	bare, okB := val("Bareword")
	// isSymbolAssignable(Bareword) must be true: evaluate the function on that constant
	// (return of a boolean combination of `sym OP constant`, `switch sym { case …: return … }`, `if … { return … }`)
	accepts := false
	if okB && fdAsg.Type.Params != nil && len(fdAsg.Type.Params.List) == 1 && len(fdAsg.Type.Params.List[0].Names) == 1 {
		param := info.Defs[fdAsg.Type.Params.List[0].Names[0]]
		v, decided := c10EvalSymPred(info, fdAsg.Body.List, param, bare)
		if !decided {
			c.Undecided("R10d", "assignable:bareword", fdAsg.Pos(), "isSymbolAssignable is not built from sym == <constant> tests (boolean expression, switch on the parameter, if/return)")
			return
		}
		accepts = v
	} else {
		c.Undecided("R10d", "assignable:bareword", fdAsg.Pos(), "isSymbolAssignable does not take one symbol parameter / symbols.Bareword not found")
		return
	}
	if !accepts {
		c.OK("R10d", "assignable:bareword", fdAsg.Pos(), "isSymbolAssignable rejects symbols.Bareword: `name OP value` never validates as an expression, no obligation")
		return
	}
	c.OK("R10d", "assignable:bareword", fdAsg.Pos(), "isSymbolAssignable admits symbols.Bareword: `name OP value` validates for every operator that reaches the assignable test")
	// the switch of validateExpression that holds the isSymbolAssignable clause
	var sw *ast.SwitchStmt
	var asgClause *ast.CaseClause
	walkStack(fdVal.Body, func(n ast.Node, stack []ast.Node) bool {
		var s *ast.SwitchStmt
		switch v := n.(type) {
		case *ast.SwitchStmt:
			if v.Tag == nil {
				s = v
			}
		case *ast.IfStmt:
			// the head of an if / else-if chain is read as the equivalent tagless switch
			isElse := false
			if len(stack) >= 2 {
				if parent, ok := stack[len(stack)-2].(*ast.IfStmt); ok && parent.Else == ast.Stmt(v) {
					isElse = true
				}
			}
			if !isElse && v.Else != nil {
				s = c09IfChain(v)
			}
		}
		if s == nil {
			return true
		}
		for _, st := range s.Body.List {
			cc := st.(*ast.CaseClause)
			for _, call := range calls(&ast.BlockStmt{List: cc.Body}, false) {
				if callIs(info, call, mx(c10ExprPkg), "", "isSymbolAssignable") {
					sw, asgClause = s, cc
				}
			}
			for _, x := range cc.List {
				for _, call := range calls(x, false) {
					if callIs(info, call, mx(c10ExprPkg), "", "isSymbolAssignable") {
						sw, asgClause = s, cc
					}
				}
			}
		}
		return true
	})
	if sw == nil {
		c.Undecided("R10d", "validate:class", fdVal.Pos(), "validateExpression has no tagless switch with a clause that tests isSymbolAssignable")
		return
	}
	astNodeT := mx(c10ExprPkg) + ".astNodeT"
	// which object is "the current node": the local whose .key most conditions test
	var nodeObj types.Object
	cnt := map[types.Object]int{}
	for _, st := range sw.Body.List {
		for _, x := range st.(*ast.CaseClause).List {
			ast.Inspect(x, func(n ast.Node) bool {
				if se, ok := n.(*ast.SelectorExpr); ok && isField(info, se, astNodeT, "key") {
					if id, ok := unparen(se.X).(*ast.Ident); ok {
						cnt[info.ObjectOf(id)]++
					}
				}
				return true
			})
		}
	}
	for o, n := range cnt {
		if nodeObj == nil || n > cnt[nodeObj] {
			nodeObj = o
		}
	}
	// condition of a clause for "the operator node has key k, both neighbours exist":
	// boolean combination of `<node>.key OP constant` and nil tests of other locals (false: the operands exist)
	var condOf func(x ast.Expr, k int64) (bool, bool)
	condOf = func(x ast.Expr, k int64) (bool, bool) {
		x = unparen(x)
		if _, op, ok := c08NilCmp(info, x); ok {
			return op == token.NEQ, true
		}
		switch v := x.(type) {
		case *ast.UnaryExpr:
			if v.Op == token.NOT {
				b, ok := condOf(v.X, k)
				return !b, ok
			}
		case *ast.BinaryExpr:
			if v.Op == token.LAND || v.Op == token.LOR {
				a, ok1 := condOf(v.X, k)
				b, ok2 := condOf(v.Y, k)
				if v.Op == token.LAND {
					return a && b, ok1 && ok2
				}
				return a || b, ok1 && ok2
			}
			if y, op, kv, ok := cmpNorm(info, v); ok {
				se, ok := y.(*ast.SelectorExpr)
				if !ok || !isField(info, se, astNodeT, "key") {
					return false, false
				}
				if id, ok := unparen(se.X).(*ast.Ident); !ok || info.ObjectOf(id) != nodeObj {
					return false, false
				}
				return intPred(op, kv)(k), true
			}
		}
		return false, false
	}
	selected := func(k int64) (*ast.CaseClause, bool) {
		var dflt *ast.CaseClause
		for _, st := range sw.Body.List {
			cc := st.(*ast.CaseClause)
			if cc.List == nil {
				dflt = cc
				continue
			}
			for _, x := range cc.List {
				b, ok := condOf(x, k)
				if !ok {
					return nil, false
				}
				if b {
					return cc, true
				}
			}
		}
		return dflt, true
	}
	var class []string
	for name, kv := range consts {
		k, ok := constant.Int64Val(constant.ToInt(kv))
		if !ok {
			continue
		}
		cc, ok := selected(k)
		if !ok {
			c.Undecided("R10d", "validate:class", sw.Pos(), "a clause condition of validateExpression's operator switch is not a comparison of node.key with a symbols constant")
			return
		}
		ops, _ := val("Operations")
		if cc == asgClause && k > ops {
			class = append(class, name)
		}
	}
	sort.Strings(class)
	c.MinCount("R10d", "operator symbols that accept a bareword on the left", len(class), 7)
	c.Info("R10d operators whose left operand may be a bareword: %s", strings.Join(class, " "))

	// F3: the runes of each such operator in parseExpression
	fdPE, _ := c.MustFunc("R10d", c10ExprPkg, "ParserT", "parseExpression")
	if fdPE == nil {
		return
	}
	var rObj types.Object
	ast.Inspect(fdPE.Body, func(n ast.Node) bool {
		if as, ok := n.(*ast.AssignStmt); ok && as.Tok == token.DEFINE && len(as.Lhs) == 1 && len(as.Rhs) == 1 && rObj == nil {
			if ix, ok := unparen(as.Rhs[0]).(*ast.IndexExpr); ok && isField(info, ix.X, c10ParserT, "expression") && isField(info, ix.Index, c10ParserT, "charPos") {
				rObj = info.ObjectOf(as.Lhs[0].(*ast.Ident))
			}
		}
		return true
	})
	if rObj == nil {
		c.Undecided("R10d", "parseExpression:shape", fdPE.Pos(), "parseExpression does not define r := tree.expression[tree.charPos]")
		return
	}
	defs := localDefs(info, fdPE.Body)
	isNext := func(x ast.Expr) bool {
		x = defs.resolve1(info, x)
		call, ok := unparen(x).(*ast.CallExpr)
		return ok && callIs(info, call, mx(c10ExprPkg), "ParserT", "nextChar")
	}
	inClass := map[int64]string{}
	for _, n := range class {
		k, _ := val(n)
		inClass[k] = n
	}
	found := map[string]bool{}
	// a backslash arm in the expression parser would void the argument
	hasBS := false
	walkStack(fdPE.Body, func(n ast.Node, stack []ast.Node) bool {
		if cc, ok := n.(*ast.CaseClause); ok {
			for _, x := range cc.List {
				if k, ok := constInt(info, x); ok && k == '\\' {
					if len(stack) >= 3 {
						if s, ok := stack[len(stack)-3].(*ast.SwitchStmt); ok && s.Tag != nil {
							if id, ok := unparen(s.Tag).(*ast.Ident); ok && info.ObjectOf(id) == rObj {
								hasBS = true
							}
						}
					}
				}
			}
		}
		call, ok := n.(*ast.CallExpr)
		if !ok || !callIs(info, call, mx(c10ExprPkg), "ParserT", "appendAst") || len(call.Args) < 1 {
			return true
		}
		k, ok := constInt(info, call.Args[0])
		name, isIn := inClass[k]
		if !ok || !isIn {
			return true
		}
		var first, second []rune
		secondOpen := false // default arm of the nextChar switch: any next rune
		for _, g := range guardsAt(info, stack) {
			if g.Tag != nil {
				if id, ok := unparen(g.Tag).(*ast.Ident); ok && info.ObjectOf(id) == rObj && !g.Neg {
					for _, cx := range g.Cases {
						if v, ok := constInt(info, cx); ok {
							first = append(first, rune(v))
						}
					}
				}
				if isNext(g.Tag) {
					if g.Neg {
						secondOpen = true
					} else {
						for _, cx := range g.Cases {
							if v, ok := constInt(info, cx); ok {
								second = append(second, rune(v))
							}
						}
					}
				}
			}
		}
		for _, f := range factsOf(guardsAt(info, stack)) {
			// tree.nextChar() == 'K' (either operand order) known true, or != known false
			if x, op, v, ok := cmpNorm(info, f.E); ok && isNext(x) && ((op == token.EQL && f.True) || (op == token.NEQ && !f.True)) {
				second = append(second, rune(v))
			}
		}
		_ = secondOpen
		for _, a := range first {
			ops := []string{string(a)}
			if len(second) > 0 {
				ops = nil
				for _, b := range second {
					ops = append(ops, string(a)+string(b))
				}
			}
			for _, op := range ops {
				found[name] = true
				key := "exprop:'" + op + "'"
				esc := ""
				for _, r := range op {
					if _, ok := E[r]; ok {
						esc = c10Q(r)
					}
				}
				if esc != "" {
					c.OK("R10d", key, call.Pos(), "operator %q (%s) contains %s which CommandLine escapes: the escaped line is not a valid expression", op, name, esc)
				} else {
					c.Viol("R10d", key, call.Pos(), "`cmd %s value` is accepted by the expression parser (symbols.%s takes a bareword on its left) before the statement parser is tried, and escape.CommandLine escapes no rune of %q: `murex --execute cmd %s value` runs an assignment to the variable `cmd` instead of the command", op, name, op, op)
				}
			}
		}
		return true
	})
	if hasBS {
		c.Undecided("R10d", "parseExpression:backslash", fdPE.Pos(), "parseExpression has an arm for '\\': an escaped rune no longer makes the line an invalid expression, the argument of this rule does not hold")
	} else {
		c.OK("R10d", "parseExpression:backslash", fdPE.Pos(), "parseExpression has no arm for '\\' (a backslash is an unexpected symbol)")
	}
	for _, n := range class {
		if !found[n] {
			c.Info("R10d symbols.%s is never produced by parseExpression with a constant rune pair (no obligation)", n)
		}
	}
}

// c10EvalSymPred evaluates a small predicate function over one integer-constant parameter on the value k:
// `return <bool expr>`, `switch param { case A, B: return … }`, `if <bool expr> { return … }` in sequence.
// Leaves of boolean expressions: `param OP constant` (either operand order), true/false. ok=false when the
// function leaves this fragment.
func c10EvalSymPred(info *types.Info, list []ast.Stmt, param types.Object, k int64) (val bool, ok bool) {
	var cond func(x ast.Expr) (bool, bool)
	cond = func(x ast.Expr) (bool, bool) {
		x = unparen(x)
		if b, ok := constBool(info, x); ok {
			return b, true
		}
		switch v := x.(type) {
		case *ast.UnaryExpr:
			if v.Op == token.NOT {
				b, ok := cond(v.X)
				return !b, ok
			}
		case *ast.BinaryExpr:
			if v.Op == token.LAND || v.Op == token.LOR {
				a, ok1 := cond(v.X)
				b, ok2 := cond(v.Y)
				if v.Op == token.LAND {
					return a && b, ok1 && ok2
				}
				return a || b, ok1 && ok2
			}
			if y, op, kv, ok := cmpNorm(info, v); ok {
				if id, ok := y.(*ast.Ident); ok && info.ObjectOf(id) == param {
					return intPred(op, kv)(k), true
				}
			}
		}
		return false, false
	}
	// exec returns (value, returned, ok)
	var exec func(list []ast.Stmt) (bool, bool, bool)
	exec = func(list []ast.Stmt) (bool, bool, bool) {
		for _, s := range list {
			switch v := s.(type) {
			case *ast.ReturnStmt:
				if len(v.Results) != 1 {
					return false, false, false
				}
				b, ok := cond(v.Results[0])
				return b, true, ok
			case *ast.BlockStmt:
				if b, ret, ok := exec(v.List); !ok || ret {
					return b, ret, ok
				}
			case *ast.IfStmt:
				if v.Init != nil {
					return false, false, false
				}
				t, ok := cond(v.Cond)
				if !ok {
					return false, false, false
				}
				var arm []ast.Stmt
				if t {
					arm = v.Body.List
				} else if v.Else != nil {
					arm = []ast.Stmt{v.Else}
				}
				if b, ret, ok := exec(arm); !ok || ret {
					return b, ret, ok
				}
			case *ast.SwitchStmt:
				if v.Init != nil || v.Tag == nil {
					return false, false, false
				}
				if id, ok := unparen(v.Tag).(*ast.Ident); !ok || info.ObjectOf(id) != param {
					return false, false, false
				}
				var arm []ast.Stmt
				matched := false
				var dflt *ast.CaseClause
				for _, st := range v.Body.List {
					cc := st.(*ast.CaseClause)
					if cc.List == nil {
						dflt = cc
					}
					for _, x := range cc.List {
						kv, ok := constInt(info, x)
						if !ok {
							return false, false, false
						}
						if kv == k && !matched {
							matched, arm = true, cc.Body
						}
					}
				}
				if !matched && dflt != nil {
					arm = dflt.Body
				}
				for _, st := range arm {
					if br, ok := st.(*ast.BranchStmt); ok && br.Tok == token.FALLTHROUGH {
						return false, false, false
					}
				}
				if b, ret, ok := exec(arm); !ok || ret {
					return b, ret, ok
				}
			default:
				return false, false, false
			}
		}
		return false, false, true
	}
	b, ret, ok := exec(list)
	return b, ok && ret
}
