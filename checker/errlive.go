package main

import (
	"fmt"
	"go/ast"
	"go/token"
	"go/types"

	"golang.org/x/tools/go/cfg"
)

// Error liveness (shared by R26f): the error result of a target call must be
// READ on every control-flow path before the variable holding it is overwritten
// or the function ends. Accepted idioms (closed set):
//
//	return <call>                     (result handed straight to the caller)
//	<call> ==/!= nil                  (tested in place)
//	x, err := <call> / err = <call>   followed on every path by a read of err
//	                                   (`if err != nil`, `return err`, passing it on)
//
// Everything else — `_ = <call>`, a bare call statement, an assignment that is
// overwritten (e.g. by the next loop iteration) or reaches the end of the function
// unread — drops an error. Returns the number of target calls seen.
func (c *Ctx) errorsReachCaller(rule, keyPrefix string, info *types.Info, body *ast.BlockStmt, isTarget func(*ast.CallExpr) (string, bool)) int {
	n := 0
	var bodies []*ast.BlockStmt
	bodies = append(bodies, body)
	ast.Inspect(body, func(nd ast.Node) bool {
		if fl, ok := nd.(*ast.FuncLit); ok {
			bodies = append(bodies, fl.Body)
		}
		return true
	})
	for _, b := range bodies {
		n += c.errLiveBody(rule, keyPrefix, info, b, isTarget)
	}
	return n
}

func (c *Ctx) errLiveBody(rule, keyPrefix string, info *types.Info, body *ast.BlockStmt, isTarget func(*ast.CallExpr) (string, bool)) int {
	g := cfg.New(body, func(call *ast.CallExpr) bool {
		if id, ok := call.Fun.(*ast.Ident); ok && id.Name == "panic" {
			return false
		}
		return true
	})
	// reads(node,obj): obj is used other than as a plain assignment target
	reads := func(nd ast.Node, obj types.Object) bool {
		found := false
		var visit func(x ast.Node) bool
		visit = func(x ast.Node) bool {
			if found {
				return false
			}
			switch s := x.(type) {
			case *ast.FuncLit:
				// a closure that mentions obj may read it later: count as a read
				if mentions(info, s.Body, obj) {
					found = true
				}
				return false
			case *ast.AssignStmt:
				for _, r := range s.Rhs {
					ast.Inspect(r, visit)
				}
				for _, l := range s.Lhs {
					if _, ok := l.(*ast.Ident); ok && s.Tok != token.ADD_ASSIGN {
						continue // plain target
					}
					ast.Inspect(l, visit)
				}
				return false
			case *ast.Ident:
				if info.Uses[s] == obj {
					found = true
				}
			}
			return true
		}
		ast.Inspect(nd, visit)
		return found
	}
	kills := func(nd ast.Node, obj types.Object) bool {
		as, ok := nd.(*ast.AssignStmt)
		if !ok {
			return false
		}
		for _, l := range as.Lhs {
			if id, ok := l.(*ast.Ident); ok && info.ObjectOf(id) == obj {
				return true
			}
		}
		return false
	}
	count := 0
	seen := map[*ast.CallExpr]bool{}
	ord := map[string]int{}
	for _, blk := range g.Blocks {
		if !blk.Live {
			continue
		}
		for idx, nd := range blk.Nodes {
			var found []*ast.CallExpr
			ast.Inspect(nd, func(x ast.Node) bool {
				if _, ok := x.(*ast.FuncLit); ok {
					return false
				}
				if call, ok := x.(*ast.CallExpr); ok {
					if _, ok := isTarget(call); ok && !seen[call] {
						found = append(found, call)
					}
				}
				return true
			})
			for _, call := range found {
				seen[call] = true
				count++
				what, _ := isTarget(call)
				key := keyPrefix + ":" + what
				ord[key]++
				if ord[key] > 1 {
					key = fmt.Sprintf("%s#%d", key, ord[key])
				}
				switch s := nd.(type) {
				case *ast.ReturnStmt:
					direct := false
					for _, r := range s.Results {
						if unparen(r) == ast.Expr(call) {
							direct = true
						}
					}
					if direct {
						c.OK(rule, key, call.Pos(), "%s: result returned to the caller directly", what)
					} else {
						c.Undecided(rule, key, call.Pos(), "%s is nested inside a return expression: %s", what, c.src(s))
					}
					continue
				case *ast.ExprStmt:
					if unparen(s.X) == ast.Expr(call) {
						c.Viol(rule, key, call.Pos(), "%s is called as a statement: its error never reaches the caller", what)
						continue
					}
				case *ast.AssignStmt:
					if len(s.Rhs) == 1 && unparen(s.Rhs[0]) == ast.Expr(call) {
						last := s.Lhs[len(s.Lhs)-1]
						id, ok := last.(*ast.Ident)
						if !ok {
							c.Undecided(rule, key, call.Pos(), "%s: error stored into %s", what, c.src(last))
							continue
						}
						if id.Name == "_" {
							c.Viol(rule, key, call.Pos(), "%s: error assigned to _ — an operation on a missing pipe reports success", what)
							continue
						}
						obj := info.ObjectOf(id)
						// forward walk
						type st struct {
							b *cfg.Block
							i int
						}
						visited := map[*cfg.Block]bool{}
						bad := ""
						var badPos token.Pos
						work := []st{{blk, idx + 1}}
						for len(work) > 0 && bad == "" {
							cur := work[len(work)-1]
							work = work[:len(work)-1]
							read := false
							for i := cur.i; i < len(cur.b.Nodes); i++ {
								x := cur.b.Nodes[i]
								if reads(x, obj) {
									read = true
									break
								}
								if kills(x, obj) {
									bad, badPos = "overwritten by `"+c.src(x)+"` before it is looked at", x.Pos()
									break
								}
							}
							if read || bad != "" {
								continue
							}
							if len(cur.b.Succs) == 0 {
								bad, badPos = "the function ends without looking at it", call.Pos()
								if len(cur.b.Nodes) > 0 {
									badPos = cur.b.Nodes[len(cur.b.Nodes)-1].Pos()
								}
								break
							}
							for _, sc := range cur.b.Succs {
								if sc == blk {
									// back to the defining block: nodes before the definition, then the definition itself kills
									r := false
									for i := 0; i < idx && !r; i++ {
										if reads(sc.Nodes[i], obj) {
											r = true
										}
									}
									if !r {
										bad, badPos = "the next loop iteration overwrites it before it is looked at", nd.Pos()
									}
									continue
								}
								if !visited[sc] {
									visited[sc] = true
									work = append(work, st{sc, 0})
								}
							}
						}
						if bad != "" {
							c.Viol(rule, key, call.Pos(), "%s: the error is stored in %s but on some path %s (%s): a failed operation is reported as success", what, id.Name, bad, c.pos(badPos))
						} else {
							c.OK(rule, key, call.Pos(), "%s: error held in %s is read on every path before it is overwritten or the function ends", what, id.Name)
						}
						continue
					}
				}
				// tested in place?
				inPlace := false
				ast.Inspect(nd, func(x ast.Node) bool {
					if be, ok := x.(*ast.BinaryExpr); ok && (be.Op == token.NEQ || be.Op == token.EQL) {
						if unparen(be.X) == ast.Expr(call) || unparen(be.Y) == ast.Expr(call) {
							inPlace = true
						}
					}
					return true
				})
				if inPlace {
					c.OK(rule, key, call.Pos(), "%s: result compared with nil in place", what)
				} else {
					c.Undecided(rule, key, call.Pos(), "%s used in an unrecognised context: %s", what, c.src(nd))
				}
			}
		}
	}
	return count
}
