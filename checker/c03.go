package main

import (
	"go/ast"
	"go/token"
	"go/types"
	"sort"
	"strings"

	"golang.org/x/tools/go/cfg"
	"golang.org/x/tools/go/packages"
)

func init() {
	register("C03", "Decides three structural necessary conditions of 'sequential programs always finish with schedule-independent output': (a) every path through executeProcess signals termination (destroyProcess) so no waiter is left blocked; (b) in every scheduler a non-method command is started only after a synchronous wait on its predecessor, and the block's exit number is read after waiting for the last command; (c) the run-mode dispatch is exhaustive so the `unknown run mode` panic is dead. Does NOT decide determinism in general, deadlock freedom or races (needs a schedule explorer).", runC03)
}

var schedNames = []string{"runModeNormal", "runModeTry", "runModeTryPipe"}

// mustPass: every path from entry to a return / fall-off-end of fd passes a
// node satisfying target. Returns the position of the first offending exit.
func mustPass(fd *ast.FuncDecl, target func(n ast.Node) bool) (bool, token.Pos, int) {
	g := cfg.New(fd.Body, func(call *ast.CallExpr) bool {
		if id, ok := call.Fun.(*ast.Ident); ok && id.Name == "panic" {
			return false
		}
		return true
	})
	seen := map[int32]bool{}
	ok := true
	var bad token.Pos
	exits := 0
	var visit func(b *cfg.Block)
	visit = func(b *cfg.Block) {
		if seen[b.Index] {
			return
		}
		seen[b.Index] = true
		for _, n := range b.Nodes {
			hit := false
			ast.Inspect(n, func(x ast.Node) bool {
				if _, isLit := x.(*ast.FuncLit); isLit {
					return false
				}
				if target(x) {
					hit = true
				}
				return !hit
			})
			if hit {
				exits++
				return
			}
			if rs, isRet := n.(*ast.ReturnStmt); isRet {
				ok = false
				if bad == token.NoPos {
					bad = rs.Pos()
				}
				return
			}
		}
		if len(b.Succs) == 0 {
			if !b.Live {
				return
			}
			// fell off the end (or a no-return call)
			endsNoReturn := false
			if len(b.Nodes) > 0 {
				if es, isE := b.Nodes[len(b.Nodes)-1].(*ast.ExprStmt); isE {
					if call, isC := es.X.(*ast.CallExpr); isC {
						if id, isI := call.Fun.(*ast.Ident); isI && id.Name == "panic" {
							endsNoReturn = true
						}
					}
				}
			}
			if !endsNoReturn {
				ok = false
				if bad == token.NoPos {
					bad = fd.Body.Rbrace
				}
			}
			return
		}
		for _, s := range b.Succs {
			visit(s)
		}
	}
	visit(g.Blocks[0])
	return ok, bad, exits
}

func runC03(c *Ctx) {
	c.Load("lang", streamsPkg)
	pk := c.Pkg("lang")
	info := pk.TypesInfo

	c.Rule("R03a", "must-pass-through: every path through executeProcess from entry to return passes a call of destroyProcess(p) (which signals WaitForTermination); a deferred call also counts")
	if fd, _ := c.MustFunc("R03a", "lang", "", "executeProcess"); fd != nil {
		isDestroy := func(n ast.Node) bool {
			call, ok := n.(*ast.CallExpr)
			return ok && callIs(info, call, mx("lang"), "", "destroyProcess")
		}
		deferred := false
		for _, s := range fd.Body.List {
			if d, ok := s.(*ast.DeferStmt); ok && isDestroy(d.Call) {
				deferred = true
			}
		}
		ok, bad, exits := mustPass(fd, isDestroy)
		if deferred {
			ok = true
		}
		if bad == token.NoPos {
			bad = fd.Pos()
		}
		c.Check(ok, "R03a", "executeProcess:destroyProcess-on-all-paths", bad, "every exit of executeProcess is preceded by destroyProcess(p) (%d exits checked); an exit without it leaves waitProcess blocked forever", exits)
		c.MinCount("R03a", "exits of executeProcess reaching destroyProcess", exits, 2)
	}
	if fd, _ := c.MustFunc("R03a", "lang", "", "destroyProcess"); fd != nil {
		// destroyProcess sends on WaitForTermination unless the process is `bg` or a fork
		sends := 0
		ast.Inspect(fd.Body, func(n ast.Node) bool {
			if s, ok := n.(*ast.SendStmt); ok {
				if se, ok := unparen(s.Chan).(*ast.SelectorExpr); ok && se.Sel.Name == "WaitForTermination" {
					sends++
				}
			}
			return true
		})
		c.Check(sends == 1, "R03a", "destroyProcess:signals", fd.Pos(), "destroyProcess signals WaitForTermination exactly once (%d sends)", sends)
		dereg := false
		for _, call := range calls(fd.Body, false) {
			if callIs(info, call, mx("lang"), "", "deregisterProcess") {
				dereg = true
			}
		}
		c.Check(dereg, "R03a", "destroyProcess:deregisters", fd.Pos(), "destroyProcess calls deregisterProcess (closes stdout/stderr so downstream readers see EOF)")
	}
	if fd, _ := c.MustFunc("R03a", "lang", "", "waitProcess"); fd != nil {
		recv := false
		ast.Inspect(fd.Body, func(n ast.Node) bool {
			if u, ok := n.(*ast.UnaryExpr); ok && u.Op == token.ARROW {
				if se, ok := unparen(u.X).(*ast.SelectorExpr); ok && se.Sel.Name == "WaitForTermination" {
					recv = true
				}
			}
			return true
		})
		c.Check(recv, "R03a", "waitProcess:receives", fd.Pos(), "waitProcess blocks on WaitForTermination")
	}

	c.Rule("R03d", "output order: executeProcess's final destroyProcess(p) is preceded by the wait loop `for !p.Previous.HasTerminated() {…}` (a stage that finishes early must not let following commands overtake its slower upstream stage); the non-draining readers lift back-pressure (max=0) before they start waiting ; (*Stdin).Write admits a blocked writer whenever len(buffer)<max or max==0, whatever the size of the write (otherwise producer and consumer wait on each other — the program never finishes)")
	if fd, _ := c.MustFunc("R03d", "lang", "", "executeProcess"); fd != nil {
		// last top-level destroyProcess call and the statement before it
		idx := -1
		for i, s := range fd.Body.List {
			if es, ok := s.(*ast.ExprStmt); ok {
				if call, ok := es.X.(*ast.CallExpr); ok && callIs(info, call, mx("lang"), "", "destroyProcess") {
					idx = i
				}
			}
		}
		ok := false
		defs := localDefs(info, fd.Body)
		// <param>.Previous.HasTerminated() — the receiver may have been put into a local first
		isPrevTerminated := func(e ast.Expr) bool {
			call, isC := unparen(e).(*ast.CallExpr)
			if !isC {
				return false
			}
			se, isS := call.Fun.(*ast.SelectorExpr)
			if !isS || se.Sel.Name != "HasTerminated" {
				return false
			}
			inner, isI := defs.resolve1(info, se.X).(*ast.SelectorExpr)
			if !isI || inner.Sel.Name != "Previous" {
				return false
			}
			id, isId := unparen(inner.X).(*ast.Ident)
			return isId && isParam(info, fd, id)
		}
		if idx > 0 {
			for _, s := range fd.Body.List[:idx] {
				fs, isFor := s.(*ast.ForStmt)
				if !isFor {
					continue
				}
				// the loop's exit: its condition `for !prev.HasTerminated() {`, or — with no
				// condition — one top-level `if prev.HasTerminated() { break }` in its body
				found := false
				var exitIf *ast.IfStmt
				if fs.Cond != nil {
					for _, f := range factsOf([]Guard{{Cond: fs.Cond}}) {
						if !f.True && isPrevTerminated(f.E) {
							found = true
						}
					}
				} else {
					for _, bs := range fs.Body.List {
						is, isIf := bs.(*ast.IfStmt)
						if !isIf || is.Else != nil || is.Init != nil || len(is.Body.List) != 1 {
							continue
						}
						if br, isBr := is.Body.List[0].(*ast.BranchStmt); !isBr || br.Tok != token.BREAK || br.Label != nil {
							continue
						}
						fs2 := factsOf([]Guard{{Cond: is.Cond}})
						if len(fs2) == 1 && fs2[0].True && isPrevTerminated(fs2[0].E) {
							found = true
							exitIf = is
						}
					}
				}
				if !found {
					continue
				}
				// the loop must not contain an exit other than that one
				hasBreak := false
				ast.Inspect(fs.Body, func(x ast.Node) bool {
					if x == ast.Node(exitIf) && exitIf != nil {
						return false
					}
					switch y := x.(type) {
					case *ast.BranchStmt:
						if y.Tok == token.BREAK || y.Tok == token.GOTO {
							hasBreak = true
						}
					case *ast.ReturnStmt:
						hasBreak = true
					}
					return true
				})
				ok = !hasBreak
			}
		}
		pos := fd.Pos()
		if idx >= 0 {
			pos = fd.Body.List[idx].Pos()
		}
		c.Check(ok, "R03d", "executeProcess:waits-for-previous", pos, "before destroying itself executeProcess loops until p.Previous.HasTerminated()")
	}
	if spk := c.Pkg(streamsPkg); spk != nil {
		for _, name := range []string{"ReadAll", "ReadFrom"} {
			if fd, _ := c.MustFunc("R03d", streamsPkg, "Stdin", name); fd != nil {
				maxZeroRule = "R03d"
				c.checkMaxZeroBeforeLoop(spk.TypesInfo, fd)
				maxZeroRule = "R01e"
			}
		}
		// a writer over the limit is admitted as soon as the buffer is below it (or unbounded): otherwise a
		// stage that writes more than the limit in one call waits on a streaming reader for ever
		if fd, _ := c.MustFunc("R03d", streamsPkg, "Stdin", "Write"); fd != nil {
			backPressureRule = "R03d"
			c.checkBackPressure(spk.TypesInfo, fd)
			backPressureRule = "R01e"
		}
	}

	c.Rule("R03b", "E2c path rule: in each scheduler START(k) directly after START(k-1) needs a synchronous waitProcess(k-1) on the path unless procs[k].IsMethod is known true; the block's exit number is read from the last process after waiting for it")
	for _, name := range schedNames {
		if fd, _ := c.MustFunc("R03b", "lang", "", name); fd != nil {
			c.exploreScheduler("lang", fd, info, "", "R03b", "", name != "runModeNormal")
		}
	}
	c.checkNormalExit(info, "R03b")

	c.Rule("R03c", "exhaustiveness: the `switch fork.RunMode` in Fork.Execute has a case for every constant of type runmode.RunMode, so panic(\"unknown run mode\") is dead")
	c.checkRunModeSwitch(pk, "R03c")

	if c.Tier == "thorough" {
		c.schedJSVariant(func(c2 *Ctx, info2 *types.Info) {
			for _, name := range schedNames {
				if fd, _ := c2.FuncDecl("lang", "", name); fd != nil {
					c.exploreSchedulerFrom(c2, "js:", fd, info2, "", "R03b", "", name != "runModeNormal")
				}
			}
		})
	}
}

// checkNormalExit: runModeNormal waits for the last process, then reads its ExitNum.
func (c *Ctx) checkNormalExit(info *types.Info, rule string) {
	fd, _ := c.MustFunc(rule, "lang", "", "runModeNormal")
	if fd == nil {
		return
	}
	ex := &schedExplorer{c: c, info: info, fd: fd}
	if fd.Type.Params != nil && len(fd.Type.Params.List) > 0 {
		ex.procs = info.Defs[fd.Type.Params.List[0].Names[0]]
	}
	// single-definition locals are looked through: last := len(*procs) - 1 ; last := &(*procs)[len(*procs)-1]
	defs := localDefs(info, fd.Body)
	isLast := func(e ast.Expr) bool {
		for k := 0; k < 3; k++ {
			e = unparen(e)
			if u, ok := e.(*ast.UnaryExpr); ok && u.Op == token.AND {
				e = unparen(u.X)
			}
			if _, isId := e.(*ast.Ident); !isId {
				break
			}
			r := defs.resolve1(info, e)
			if r == e {
				break
			}
			e = r
		}
		ix, ok := e.(*ast.IndexExpr)
		if !ok || !ex.isProcs(ix.X) {
			return false
		}
		v := ex.evalIdx(defs.resolve1(info, ix.Index), (&schedState{}).clone())
		return v.kind == 2 && v.sym == "LEN" && v.off == -1
	}
	waitIdx, readIdx := -1, -1
	for i, s := range fd.Body.List {
		if es, ok := s.(*ast.ExprStmt); ok {
			if call, ok := es.X.(*ast.CallExpr); ok && callIs(info, call, mx("lang"), "", "waitProcess") && len(call.Args) == 1 && isLast(call.Args[0]) {
				waitIdx = i
			}
		}
		var val ast.Expr
		switch x := s.(type) {
		case *ast.AssignStmt:
			if len(x.Lhs) == 1 && len(x.Rhs) == 1 {
				if id, ok := x.Lhs[0].(*ast.Ident); ok && len(resultNames(fd)) == 1 && id.Name == resultNames(fd)[0] {
					val = x.Rhs[0]
				}
			}
		case *ast.ReturnStmt:
			if len(x.Results) == 1 {
				val = x.Results[0]
			}
		}
		if val != nil {
			if se, ok := unparen(val).(*ast.SelectorExpr); ok && se.Sel.Name == "ExitNum" && isLast(se.X) {
				readIdx = i
			}
		}
	}
	c.Check(waitIdx >= 0 && readIdx > waitIdx, rule, "runModeNormal:exit-of-last-after-wait", fd.Pos(), "the block's exit number is procs[len-1].ExitNum read after waitProcess(procs[len-1]) (wait@%d read@%d)", waitIdx, readIdx)
}

func (c *Ctx) checkRunModeSwitch(pk *packages.Package, rule string) {
	info := pk.TypesInfo
	fd, _ := c.MustFunc(rule, "lang", "Fork", "Execute")
	if fd == nil {
		return
	}
	rmPkg := c.Pkg("lang/runmode")
	if rmPkg == nil {
		c.Lost(rule, "pkg:runmode", "lang/runmode not loaded")
		return
	}
	consts := enumConsts(rmPkg.Types, "RunMode")
	var sw *ast.SwitchStmt
	ast.Inspect(fd.Body, func(n ast.Node) bool {
		if s, ok := n.(*ast.SwitchStmt); ok && s.Tag != nil {
			if namedPath(info.TypeOf(s.Tag)) == mx("lang/runmode")+".RunMode" {
				sw = s
			}
		}
		return true
	})
	if sw == nil {
		c.Lost(rule, "switch:RunMode", "no switch over runmode.RunMode in Fork.Execute")
		return
	}
	covered := map[string]bool{}
	for _, s := range sw.Body.List {
		cc := s.(*ast.CaseClause)
		for _, e := range cc.List {
			if v := constOf(info, e); v != nil {
				for n, cv := range consts {
					if cv.ExactString() == v.ExactString() {
						covered[n] = true
					}
				}
			}
		}
	}
	var names []string
	for n := range consts {
		names = append(names, n)
	}
	sort.Strings(names)
	for _, n := range names {
		c.Check(covered[n], rule, "case:runmode."+n, sw.Pos(), "run mode %s has a case in Fork.Execute (otherwise a block in that mode panics `unknown run mode`)", n)
	}
	c.MinCount(rule, "RunMode constants", len(names), 17)
}

// schedJSVariant loads package lang under GOOS=js GOARCH=wasm (the build-tagged
// sibling interpreter_js.go) and hands its type info to f.
func (c *Ctx) schedJSVariant(f func(c2 *Ctx, info *types.Info)) {
	c2 := &Ctx{Prop: c.Prop, Tier: c.Tier, Repo: c.Repo, VerifD: c.VerifD, Fset: c.Fset, All: map[string]*packages.Package{}, Overlay: c.Overlay,
		Env: []string{"GOOS=js", "GOARCH=wasm", "CGO_ENABLED=0"}, start: c.start}
	defer func() {
		if r := recover(); r != nil {
			c.Info("js/wasm configuration could not be analysed: %v", r)
		}
	}()
	c2.Load("lang")
	c.configs = append(c.configs, c2.configs...)
	pk := c2.Pkg("lang")
	if pk == nil {
		c.Info("js/wasm: package lang not loaded")
		return
	}
	has := false
	for _, f := range pk.CompiledGoFiles {
		if strings.HasSuffix(f, "interpreter_js.go") {
			has = true
		}
	}
	if !has {
		c.Lost("R03b", "js:interpreter_js.go", "interpreter_js.go is not part of the js/wasm build of package lang")
		return
	}
	f(c2, pk.TypesInfo)
}

// exploreSchedulerFrom runs the explorer on a function of another load (c2)
// and copies the obligations into c with a key prefix.
func (c *Ctx) exploreSchedulerFrom(c2 *Ctx, prefix string, fd *ast.FuncDecl, info *types.Info, ruleExam, ruleWait, ruleExit string, tryMode bool) {
	before := len(c2.Obls)
	c2.exploreScheduler("lang", fd, info, ruleExam, ruleWait, ruleExit, tryMode)
	for _, o := range c2.Obls[before:] {
		o.Key = o.Rule + "/" + prefix + strings.TrimPrefix(o.Key, o.Rule+"/")
		c.Obls = append(c.Obls, o)
	}
	c2.Obls = c2.Obls[:before]
}
