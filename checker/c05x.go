package main

import (
	"go/ast"
	"go/token"
	"go/types"
	"strings"
)

// R05g — which run mode a block gets. A `try {}` / `trypipe {}` block states its
// own mode (p.RunMode of the process that forks the block); a `runmode … function`
// statement sets the mode of the enclosing scope (p.Scope.RunMode) and a
// `runmode … module` statement the module default. The property's "try checks the
// last command of each pipeline, trypipe every command" is decided by this
// precedence: block > function scope > module.
func init() {
	extend("C05", func(c *Ctx) {
		c.Rule("R05g", "run-mode precedence (small model over {block mode set, scope mode set}): the statements of Process.Fork that store the fork's RunMode are evaluated for all 4 combinations; the result is the forking process's own mode when that is set, else the scope's mode when that is set, else untouched; Fork.Execute applies the module's mode only where the fork's RunMode is still Default")
		fd, pk := c.MustFunc("R05g", "lang", "Process", "Fork")
		if fd == nil {
			return
		}
		info := pk.TypesInfo
		var recv types.Object
		if fd.Recv != nil && len(fd.Recv.List) == 1 && len(fd.Recv.List[0].Names) == 1 {
			recv = info.Defs[fd.Recv.List[0].Names[0]]
		}
		// classify a selector chain ending in .RunMode
		xdefs := localDefs(info, fd.Body)
		classify := func(e ast.Expr) string {
			var names []string
			// a mode read into a single-definition local first (own := p.RunMode)
			cur := xdefs.resolve1(info, e)
			for {
				se, ok := cur.(*ast.SelectorExpr)
				if !ok {
					break
				}
				names = append([]string{se.Sel.Name}, names...)
				cur = unparen(se.X)
			}
			id, ok := cur.(*ast.Ident)
			// a pointer read into a single-definition local first (scope := p.Scope; scope.RunMode)
			for hops := 0; ok && hops < 3 && info.ObjectOf(id) != recv; hops++ {
				base := xdefs.resolve1(info, id)
				if base == ast.Expr(id) {
					break
				}
				var more []string
				for {
					se, isSel := base.(*ast.SelectorExpr)
					if !isSel {
						break
					}
					more = append([]string{se.Sel.Name}, more...)
					base = unparen(se.X)
				}
				bid, isID := base.(*ast.Ident)
				if !isID || len(more) == 0 {
					break // defined by a call (fork := new(Fork)) or the like: the local itself is the base
				}
				names = append(more, names...)
				id = bid
			}
			if !ok || len(names) == 0 || names[len(names)-1] != "RunMode" {
				// a local of the run-mode type that is assigned more than once (mode := scope's; if … { mode = block's })
				if lid, isID := unparen(e).(*ast.Ident); isID && len(names) == 0 {
					if v, isVar := info.ObjectOf(lid).(*types.Var); isVar && !v.IsField() && namedName(v.Type()) == "RunMode" && len(xdefs[v]) > 1 {
						return "var"
					}
				}
				return ""
			}
			o := info.ObjectOf(id)
			path := strings.Join(names, ".")
			if o == recv {
				switch path {
				case "RunMode":
					return "block"
				case "Scope.RunMode":
					return "scope"
				}
				return ""
			}
			if v, ok := o.(*types.Var); ok && namedName(v.Type()) == "Fork" && (path == "RunMode" || path == "Process.RunMode") {
				return "fork"
			}
			return ""
		}
		isDefault := func(e ast.Expr) bool {
			e = unparen(e)
			if tv, ok := info.Types[e]; ok && tv.Value != nil {
				return tv.Value.ExactString() == "0"
			}
			return false
		}
		// a condition over locals that hold run modes (own > runmode.Default)
		mentionsModeLocal := func(e ast.Expr) bool {
			found := false
			ast.Inspect(e, func(x ast.Node) bool {
				if id, ok := x.(*ast.Ident); ok {
					if r := xdefs.resolve1(info, id); r != ast.Expr(id) && strings.Contains(c.src(r), "RunMode") {
						found = true
					}
					if v, isVar := info.ObjectOf(id).(*types.Var); isVar && !v.IsField() && namedName(v.Type()) == "RunMode" {
						found = true
					}
				}
				return true
			})
			return found
		}
		// find the block that holds the stores
		var holder *ast.BlockStmt
		walkStack(fd.Body, func(nd ast.Node, stack []ast.Node) bool {
			as, ok := nd.(*ast.AssignStmt)
			if !ok || len(as.Lhs) != 1 || classify(as.Lhs[0]) != "fork" {
				return true
			}
			// outermost block that is not the function body: the else-branch of `if flags&F_FUNCTION`
			for i := len(stack) - 1; i >= 0; i-- {
				if b, ok := stack[i].(*ast.BlockStmt); ok {
					// the nearest block whose parent is not an if (or a tagless switch) testing run modes
					if i > 0 {
						if ifs, ok := stack[i-1].(*ast.IfStmt); ok && (strings.Contains(c.src(ifs.Cond), "RunMode") || mentionsModeLocal(ifs.Cond)) {
							continue
						}
						if sw, ok := stack[i-1].(*ast.SwitchStmt); ok && sw.Tag == nil && sw.Body == b {
							continue
						}
					}
					if holder == nil {
						holder = b
					} else if holder != b {
						holder = nil
						return false
					}
					break
				}
			}
			return true
		})
		if holder == nil {
			c.Undecided("R05g", "Fork:stores", fd.Pos(), "the stores to the fork's RunMode in Process.Fork are not in one block (or there are none)")
			return
		}
		type env struct{ block, scope bool }
		undec := ""
		// modeVars: what a several-times-assigned local of the run-mode type holds on the path being evaluated
		modeVars := map[types.Object]string{}
		varOf := func(e ast.Expr) types.Object {
			if id, ok := unparen(e).(*ast.Ident); ok {
				return info.ObjectOf(id)
			}
			return nil
		}
		var evalCond func(e ast.Expr, en env, cur string) bool
		evalCond = func(e ast.Expr, en env, cur string) bool {
			e = unparen(e)
			switch x := e.(type) {
			case *ast.Ident:
				// a test kept in a boolean local defined once (blockHasMode := p.RunMode > runmode.Default)
				if d := xdefs.resolve1(info, x); d != ast.Expr(x) {
					if tv, ok := info.Types[d]; ok && tv.Type != nil && types.Identical(tv.Type.Underlying(), types.Typ[types.Bool]) {
						return evalCond(d, en, cur)
					}
				}
			case *ast.UnaryExpr:
				if x.Op == token.NOT {
					return !evalCond(x.X, en, cur)
				}
			case *ast.BinaryExpr:
				switch x.Op {
				case token.LAND:
					return evalCond(x.X, en, cur) && evalCond(x.Y, en, cur)
				case token.LOR:
					return evalCond(x.X, en, cur) || evalCond(x.Y, en, cur)
				}
				l, r, op := x.X, x.Y, x.Op
				if isDefault(l) { // Default < x  ⇒  x > Default
					l, r = r, l
					switch op {
					case token.LSS:
						op = token.GTR
					case token.GTR:
						op = token.LSS
					case token.LEQ:
						op = token.GEQ
					case token.GEQ:
						op = token.LEQ
					}
				}
				if isDefault(r) {
					set := false
					switch classify(l) {
					case "block":
						set = en.block
					case "scope":
						set = en.scope
					case "fork":
						set = cur != "untouched"
					case "var":
						switch modeVars[varOf(l)] {
						case "block":
							set = en.block
						case "scope":
							set = en.scope
						default:
							undec = "condition " + c.src(e) + " over a local with no recognised value"
							return false
						}
					default:
						undec = "condition " + c.src(e)
						return false
					}
					switch op {
					case token.GTR, token.NEQ:
						return set
					case token.EQL, token.LEQ:
						return !set
					}
				}
			}
			undec = "condition " + c.src(e)
			return false
		}
		var exec func(list []ast.Stmt, en env, cur string) string
		exec = func(list []ast.Stmt, en env, cur string) string {
			for _, s := range list {
				touches := false
				ast.Inspect(s, func(x ast.Node) bool {
					if as, ok := x.(*ast.AssignStmt); ok {
						for _, l := range as.Lhs {
							if k := classify(l); k == "fork" || k == "var" {
								touches = true
							}
						}
					}
					return true
				})
				if !touches {
					continue
				}
				switch st := s.(type) {
				case *ast.AssignStmt:
					if len(st.Lhs) == 1 && len(st.Rhs) == 1 {
						val := classify(st.Rhs[0])
						if val == "var" {
							val = modeVars[varOf(st.Rhs[0])]
						}
						if val == "block" || val == "scope" {
							if classify(st.Lhs[0]) == "var" {
								modeVars[varOf(st.Lhs[0])] = val
							} else {
								cur = val
							}
							continue
						}
					}
					undec = "store " + c.src(st)
				case *ast.IfStmt:
					if st.Init != nil {
						undec = "if with init " + c.src(st.Cond)
						return cur
					}
					if evalCond(st.Cond, en, cur) {
						cur = exec(st.Body.List, en, cur)
					} else if st.Else != nil {
						switch el := st.Else.(type) {
						case *ast.BlockStmt:
							cur = exec(el.List, en, cur)
						case *ast.IfStmt:
							cur = exec([]ast.Stmt{el}, en, cur)
						}
					}
				case *ast.BlockStmt:
					cur = exec(st.List, en, cur)
				case *ast.SwitchStmt:
					// tagless switch = if / else-if chain: the first clause with a true case runs
					if st.Tag != nil || st.Init != nil {
						undec = "tagged switch " + c.src(st.Tag)
						return cur
					}
					var chosen, dflt *ast.CaseClause
					for _, cl := range st.Body.List {
						cc := cl.(*ast.CaseClause)
						if cc.List == nil {
							dflt = cc
							continue
						}
						if chosen != nil {
							continue
						}
						for _, ce := range cc.List {
							if evalCond(ce, en, cur) {
								chosen = cc
								break
							}
						}
					}
					if chosen == nil {
						chosen = dflt
					}
					if chosen != nil {
						if n := len(chosen.Body); n > 0 {
							if br, isBr := chosen.Body[n-1].(*ast.BranchStmt); isBr && br.Tok == token.FALLTHROUGH {
								undec = "fallthrough in " + c.src(st)
								return cur
							}
						}
						cur = exec(chosen.Body, en, cur)
					}
				default:
					undec = "statement " + c.src(s)
				}
				if undec != "" {
					return cur
				}
			}
			return cur
		}
		bad := ""
		for _, en := range []env{{false, false}, {false, true}, {true, false}, {true, true}} {
			for k := range modeVars {
				delete(modeVars, k)
			}
			got := exec(holder.List, en, "untouched")
			if undec != "" {
				break
			}
			want := "untouched"
			if en.block {
				want = "block"
			} else if en.scope {
				want = "scope"
			}
			if got != want {
				bad = "block-mode-set=" + boolStr(en.block) + " scope-mode-set=" + boolStr(en.scope) + ": the fork gets the " + got + " mode, expected " + want
				break
			}
		}
		switch {
		case undec != "":
			c.Undecided("R05g", "Fork:precedence", holder.Pos(), "the run-mode stores of Process.Fork contain a form outside the small model: %s", undec)
		case bad != "":
			c.Viol("R05g", "Fork:precedence", holder.Pos(), "%s — a `try {}`/`trypipe {}` block must keep its own mode inside a function that declares another `runmode`", bad)
		default:
			c.OK("R05g", "Fork:precedence", holder.Pos(), "4 combinations: block's own mode, else the scope's, else untouched")
		}

		// module default only over Default
		fe, _ := c.MustFunc("R05g", "lang", "Fork", "Execute")
		if fe == nil {
			return
		}
		n := 0
		walkStack(fe.Body, func(nd ast.Node, stack []ast.Node) bool {
			as, ok := nd.(*ast.AssignStmt)
			if !ok || len(as.Lhs) != 1 || classify(as.Lhs[0]) != "fork" {
				return true
			}
			n++
			guarded := false
			for _, ft := range flagFacts(info, fe.Body, localDefs(info, fe.Body), factsOf(guardsAt(info, stack)), as.Pos()) {
				be, ok := unparen(ft.E).(*ast.BinaryExpr)
				if !ok {
					continue
				}
				l, r := be.X, be.Y
				if isDefault(l) {
					l, r = r, l
				}
				if classify(l) == "fork" && isDefault(r) && ((be.Op == token.EQL && ft.True) || ((be.Op == token.NEQ || be.Op == token.GTR) && !ft.True)) {
					guarded = true
				}
			}
			c.Check(guarded, "R05g", "Execute:module-mode#"+itoa(n), as.Pos(), "Fork.Execute stores %s into the fork's RunMode only where that is still Default (a block's or function's own mode is never replaced by the module's)", c.src(as.Rhs[0]))
			return true
		})
		c.MinCount("R05g", "stores of the module run mode in Fork.Execute", n, 1)
	})
}
