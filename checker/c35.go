package main

// C35 escape / eschtml / escurl are undone by their ! forms.
//
// R35a  the encoder applied when !IsNot and the decoder applied when IsNot form a stdlib inverse pair;
//       a second decoder is only tolerated as a fallback under the primary decoder's err != nil.
// R35b  value flow: both directions read the same, untrimmed input (all of p.Stdin.ReadAll() as a
//       method), every assignment to the emitted variable is input | encode(input) | decode(input),
//       and the result is emitted once with Write (not Writeln).
// R35c  `name` and `!name` are registered to the same handler; IsNot is derived from the leading '!'.

import (
	"go/ast"
	"go/token"
	"go/types"
	"sort"
)

func init() {
	register("C35", "Decides structurally, for cmdEscape/cmdHtml/cmdUrl: the function applied in the plain direction and the one applied in the ! direction are a stdlib encoder/decoder inverse pair (strconv.Quote*/Unquote, html.EscapeString/UnescapeString, url.PathEscape/PathUnescape, url.QueryEscape/QueryUnescape) selected by p.IsNot with the right polarity; both directions consume the same whole input (string(<p.Stdin.ReadAll() result>) as a method) with no other transformation of the value on the way, and emit it exactly once through p.Stdout.Write([]byte(v)); `X` and `!X` share one handler and Process.IsNot is set only from name[0]=='!'. Does NOT decide that the stdlib pairs are inverses on every byte string (trusted), nor the data-type plumbing around the builtins.", runC35)
}

var c35ProcT = mx("lang") + ".Process"

type c35codec struct{ pkg, name string }

// encoder -> decoder
var c35Pairs = map[c35codec]c35codec{
	{"strconv", "Quote"}:          {"strconv", "Unquote"},
	{"strconv", "QuoteToASCII"}:   {"strconv", "Unquote"},
	{"strconv", "QuoteToGraphic"}: {"strconv", "Unquote"},
	{"html", "EscapeString"}:      {"html", "UnescapeString"},
	{"net/url", "PathEscape"}:     {"net/url", "PathUnescape"},
	{"net/url", "QueryEscape"}:    {"net/url", "QueryUnescape"},
}

func c35CodecOf(info *types.Info, e ast.Expr) (call *ast.CallExpr, cd c35codec, kind string) {
	call, ok := unparen(e).(*ast.CallExpr)
	if !ok {
		return nil, cd, ""
	}
	o := callee(info, call)
	if o == nil || o.Pkg() == nil {
		return nil, cd, ""
	}
	cd = c35codec{o.Pkg().Path(), o.Name()}
	if _, ok := c35Pairs[cd]; ok {
		return call, cd, "enc"
	}
	for _, d := range c35Pairs {
		if d == cd {
			return call, cd, "dec"
		}
	}
	return nil, cd, ""
}

func c35Fact(info *types.Info, facts []Fact, field string) int {
	for _, f := range facts {
		if isField(info, f.E, c35ProcT, field) {
			if f.True {
				return 1
			}
			return -1
		}
	}
	return 0
}

// c35ProcField: e is `<x>.<field>` with field a direct field of lang.Process
func c35ProcField(info *types.Info, e ast.Expr, field string) bool {
	return isField(info, e, c35ProcT, field)
}

func runC35(c *Ctx) {
	c.Load("builtins/core/escape")
	c.Rule("R35a", "in each of cmdEscape/cmdHtml/cmdUrl exactly one encoder is applied where p.IsNot is false and exactly one primary decoder where p.IsNot is true, and (encoder, decoder) is a stdlib inverse pair; any further decoder call is reachable only under `err != nil` of the primary decoder")
	c.Rule("R35b", "value flow: the emitted variable is assigned only (i) string(b) with b the untouched result of p.Stdin.ReadAll() (method) or p.Parameters.StringAll() (function), outside the IsNot split, (ii) encoder(v) / decoder(v) of that same variable; it is emitted exactly once, after the split, by p.Stdout.Write([]byte(v)) — no Writeln, no trimming or other call on the value")
	c.Rule("R35c", "`X` and `!X` (X in escape, eschtml, escurl) are registered with one and the same handler, which is one of the three checked functions; lang.Process.IsNot is stored true only under name[0]=='!' of the command name")

	pk := c.Pkg("builtins/core/escape")
	if pk == nil {
		c.Lost("R35a", "pkg:builtins/core/escape", "package not loaded")
		return
	}
	info := pk.TypesInfo
	checked := map[types.Object]string{}
	nFn := 0
	for _, name := range []string{"cmdEscape", "cmdHtml", "cmdUrl"} {
		fd, _ := c.MustFunc("R35a", "builtins/core/escape", "", name)
		if fd == nil {
			continue
		}
		nFn++
		checked[info.Defs[fd.Name]] = name
		c.c35CheckCmd(info, fd)
	}
	c.MinCount("R35a", "escape handlers analysed", nFn, 3)

	// ---- R35c registrations
	reg := map[string]types.Object{}
	regPos := map[string]token.Pos{}
	eachFunc(pk, func(fd *ast.FuncDecl) {
		if fd.Name.Name != "init" || fd.Recv != nil {
			return
		}
		for _, call := range calls(fd.Body, false) {
			if !callIs(info, call, mx("lang"), "", "DefineMethod") && !callIs(info, call, mx("lang"), "", "DefineFunction") {
				continue
			}
			if len(call.Args) < 2 {
				continue
			}
			n, ok := constString(info, call.Args[0])
			if !ok {
				continue
			}
			if id, ok := unparen(call.Args[1]).(*ast.Ident); ok {
				reg[n] = info.ObjectOf(id)
				regPos[n] = call.Pos()
			}
		}
	})
	for _, x := range []string{"escape", "eschtml", "escurl"} {
		key := "register:" + x
		f, g := reg[x], reg["!"+x]
		switch {
		case f == nil || g == nil:
			c.Viol("R35c", key, regPos[x], "`%s` and/or `!%s` is not registered with a constant name and a named handler in builtins/core/escape init: the pair cannot be used", x, x)
		case f != g:
			c.Viol("R35c", key, regPos["!"+x], "`%s` is handled by %s but `!%s` by %s: the ! form decodes with another codec and does not undo `%s`", x, f.Name(), x, g.Name(), x)
		case checked[f] == "":
			c.Undecided("R35c", key, regPos[x], "`%s`/`!%s` are handled by %s, which is not one of the analysed handlers (cmdEscape, cmdHtml, cmdUrl)", x, x, f.Name())
		default:
			c.OK("R35c", key, regPos[x], "`%s` and `!%s` -> %s", x, x, f.Name())
		}
	}
	c.c35IsNot()
}

func (c *Ctx) c35CheckCmd(info *types.Info, fd *ast.FuncDecl) {
	fn := fd.Name.Name
	// ---- emit
	type emitT struct {
		call *ast.CallExpr
		name string
	}
	var emits []emitT
	for _, call := range calls(fd.Body, true) {
		se, ok := call.Fun.(*ast.SelectorExpr)
		if !ok || !c35ProcField(info, se.X, "Stdout") {
			continue
		}
		if len(se.Sel.Name) >= 5 && se.Sel.Name[:5] == "Write" {
			emits = append(emits, emitT{call, se.Sel.Name})
		}
	}
	if len(emits) != 1 {
		c.Viol("R35b", fn+":emit", fd.Pos(), "%s writes to p.Stdout %d times, expected exactly one Write of the converted text: extra or missing output breaks the byte-for-byte round trip", fn, len(emits))
		return
	}
	em := emits[0]
	if em.name != "Write" {
		c.Viol("R35b", fn+":emit", em.call.Pos(), "%s emits with p.Stdout.%s: a byte (newline) is added that the ! form does not remove / does not expect, so `!X` no longer gives back the original text", fn, em.name)
		return
	}
	defs := localDefs(info, fd.Body)
	var outVar types.Object
	// valNode: the expression whose evaluation fixes the bytes that are written — the argument itself, or
	// the single definition `out := []byte(v)` of a local that is passed instead.
	var valNode ast.Node = em.call
	if len(em.call.Args) == 1 {
		arg := unparen(em.call.Args[0])
		if id, ok := arg.(*ast.Ident); ok {
			if r := defs.resolve1(info, id); r != ast.Expr(id) {
				arg, valNode = r, r
			}
		}
		if conv, ok := arg.(*ast.CallExpr); ok && len(conv.Args) == 1 {
			if tv, ok := info.Types[conv.Fun]; ok && tv.IsType() {
				if id, ok := unparen(conv.Args[0]).(*ast.Ident); ok {
					outVar = info.ObjectOf(id)
				}
			}
		}
	}
	if outVar == nil {
		c.Undecided("R35b", fn+":emit", em.call.Pos(), "%s emits %s, not []byte(<variable>): cannot follow the value that is written", fn, c.src(em.call.Args[0]))
		return
	}
	emitIdx := topLevelIndex(fd.Body.List, valNode)
	if emitIdx < 0 || len(pathTo(fd.Body, em.call)) == 0 || len(pathTo(fd.Body, valNode)) == 0 {
		c.Undecided("R35b", fn+":emit", em.call.Pos(), "emit is not in the function body")
		return
	}
	// the emit (and the conversion it writes) must be unconditional with respect to IsNot/IsMethod
	for _, nd := range []ast.Node{em.call, valNode} {
		cond := false
		for _, f := range factsOf(guardsAt(info, pathTo(fd.Body, nd))) {
			// earlier `if err != nil { return err }` exits are fine; IsNot/IsMethod conditions are not
			if c35ProcField(info, f.E, "IsNot") || c35ProcField(info, f.E, "IsMethod") {
				cond = true
			}
		}
		if cond {
			c.Viol("R35b", fn+":emit", em.call.Pos(), "%s emits only in one of the IsNot/IsMethod branches: the other direction prints nothing", fn)
			return
		}
	}
	c.OK("R35b", fn+":emit", em.call.Pos(), "one p.Stdout.Write([]byte(%s))", outVar.Name())

	// ---- ReadAll results: b, err := p.Stdin.ReadAll()
	readAll := map[types.Object]bool{}
	ast.Inspect(fd.Body, func(x ast.Node) bool {
		as, ok := x.(*ast.AssignStmt)
		if !ok || len(as.Rhs) != 1 || len(as.Lhs) != 2 {
			return true
		}
		call, ok := unparen(as.Rhs[0]).(*ast.CallExpr)
		if !ok {
			return true
		}
		if se, ok := call.Fun.(*ast.SelectorExpr); ok && se.Sel.Name == "ReadAll" && c35ProcField(info, se.X, "Stdin") {
			if id, ok := as.Lhs[0].(*ast.Ident); ok {
				readAll[info.ObjectOf(id)] = true
			}
		}
		return true
	})

	isOut := func(e ast.Expr) bool {
		id, ok := unparen(e).(*ast.Ident)
		return ok && info.ObjectOf(id) == outVar
	}

	// ---- all assignments to a given variable
	type asg struct {
		as    *ast.AssignStmt
		rhs   ast.Expr
		errLH types.Object // Lhs[1] of a 2-value assign
		stack []ast.Node
	}
	assignsTo := func(v types.Object) []asg {
		var out []asg
		walkStack(fd.Body, func(x ast.Node, st []ast.Node) bool {
			as, ok := x.(*ast.AssignStmt)
			if !ok {
				return true
			}
			for i, l := range as.Lhs {
				id, ok := l.(*ast.Ident)
				if !ok || info.ObjectOf(id) != v {
					continue
				}
				a := asg{as: as, stack: append([]ast.Node(nil), st...)}
				if len(as.Rhs) == len(as.Lhs) {
					a.rhs = unparen(as.Rhs[i])
				} else if len(as.Rhs) == 1 && i == 0 {
					a.rhs = unparen(as.Rhs[0])
					if len(as.Lhs) == 2 {
						if eid, ok := as.Lhs[1].(*ast.Ident); ok {
							a.errLH = info.ObjectOf(eid)
						}
					}
				}
				if as.Tok != token.ASSIGN && as.Tok != token.DEFINE {
					a.rhs = nil
				}
				out = append(out, a)
			}
			return true
		})
		return out
	}

	type use struct {
		cd    c35codec
		kind  string
		a     asg
		call  *ast.CallExpr
		isNot int
		viaT  bool
	}
	var uses []use
	nIn := 0
	lastInputIdx, firstCodecIdx := -1, 1<<30
	bad := false
	ord := 0
	for _, a := range assignsTo(outVar) {
		facts := factsOf(guardsAt(info, a.stack))
		isNot := c35Fact(info, facts, "IsNot")
		isMethod := c35Fact(info, facts, "IsMethod")
		idx := topLevelIndex(fd.Body.List, a.as)
		if a.rhs == nil {
			bad = true
			c.Undecided("R35b", fn+":assign", a.as.Pos(), "%s: unrecognised assignment form %s to the emitted variable", fn, c.src(a.as))
			continue
		}
		// (i) input
		if conv, ok := a.rhs.(*ast.CallExpr); ok && len(conv.Args) == 1 {
			if tv, ok := info.Types[conv.Fun]; ok && tv.IsType() {
				if id, ok := unparen(conv.Args[0]).(*ast.Ident); ok && readAll[info.ObjectOf(id)] && len(defs[info.ObjectOf(id)]) == 1 {
					nIn++
					if isNot != 0 || isMethod != 1 {
						bad = true
						c.Viol("R35b", fn+":input:stdin", a.as.Pos(), "%s reads its piped input inside an IsNot branch or outside the IsMethod branch: the two directions do not consume the same input", fn)
					} else {
						c.OK("R35b", fn+":input:stdin", a.as.Pos(), "input = string(all bytes of p.Stdin.ReadAll()), shared by both directions")
					}
					if idx > lastInputIdx {
						lastInputIdx = idx
					}
					continue
				}
			}
		}
		if call, ok := a.rhs.(*ast.CallExpr); ok && callIs(info, call, mx("lang/parameters"), "Parameters", "StringAll") {
			nIn++
			if isNot != 0 || isMethod != -1 {
				bad = true
				c.Viol("R35b", fn+":input:params", a.as.Pos(), "%s takes its parameters as input inside an IsNot branch or while a method: the piped text is ignored in one direction", fn)
			} else {
				c.OK("R35b", fn+":input:params", a.as.Pos(), "input = p.Parameters.StringAll() when not a method")
			}
			if idx > lastInputIdx {
				lastInputIdx = idx
			}
			continue
		}
		// (ii) codec(v)
		if call, cd, kind := c35CodecOf(info, a.rhs); call != nil {
			if len(call.Args) != 1 || !isOut(call.Args[0]) {
				bad = true
				c.Viol("R35b", fn+":codec-arg:"+cd.name, call.Pos(), "%s applies %s.%s to %s, not to the input variable: the text converted is not the text read", fn, cd.pkg, cd.name, c.src(call.Args[0]))
				continue
			}
			uses = append(uses, use{cd: cd, kind: kind, a: a, call: call, isNot: isNot})
			if idx < firstCodecIdx {
				firstCodecIdx = idx
			}
			continue
		}
		// (iii) via a temporary: v = t, every assignment to t is decoder(v)
		if id, ok := a.rhs.(*ast.Ident); ok {
			t := info.ObjectOf(id)
			if _, isVar := t.(*types.Var); isVar && t != outVar && t.Parent() != nil && t.Parent() != t.Pkg().Scope() {
				okT := true
				var tu []use
				for _, ta := range assignsTo(t) {
					call, cd, kind := c35CodecOf(info, ta.rhs)
					if call == nil || len(call.Args) != 1 || !isOut(call.Args[0]) {
						okT = false
						break
					}
					tfacts := factsOf(guardsAt(info, ta.stack))
					tu = append(tu, use{cd: cd, kind: kind, a: ta, call: call, isNot: c35Fact(info, tfacts, "IsNot"), viaT: true})
					if i := topLevelIndex(fd.Body.List, ta.as); i < firstCodecIdx {
						firstCodecIdx = i
					}
				}
				if okT && len(tu) > 0 {
					// the copy-back itself must be in the same IsNot direction as its definitions
					for i := range tu {
						if tu[i].isNot != isNot {
							okT = false
						}
					}
				}
				if okT && len(tu) > 0 {
					uses = append(uses, tu...)
					continue
				}
			}
		}
		bad = true
		ord++
		key := fn + ":assign"
		if ord > 1 {
			key += "#" + string(rune('0'+ord))
		}
		c.Undecided("R35b", key, a.as.Pos(), "%s assigns %s to the emitted variable — not the input, not encoder(v)/decoder(v): a transformation (trim, case, slice…) on the way breaks the byte-for-byte round trip, or the idiom is new to this rule", fn, c.src(a.rhs))
	}
	if nIn < 2 && !bad {
		c.Viol("R35b", fn+":input", fd.Pos(), "%s: expected the input to be assigned from p.Stdin.ReadAll() (method) and p.Parameters.StringAll() (function); found %d input assignments", fn, nIn)
		bad = true
	}
	if !bad {
		c.Check(lastInputIdx < firstCodecIdx && firstCodecIdx <= emitIdx, "R35b", fn+":order", fd.Pos(), "%s reads the input, then converts, then emits (statement order input < codec <= emit)", fn)
	}

	// ---- R35a pairing
	var encs, prim, fallback []use
	for _, u := range uses {
		switch {
		case u.kind == "enc":
			encs = append(encs, u)
		default:
			// decoder: primary unless guarded by err != nil of another decoder's error
			isFb := false
			for _, f := range factsOf(guardsAt(info, u.a.stack)) {
				b, ok := unparen(f.E).(*ast.BinaryExpr)
				if !ok {
					continue
				}
				for _, p := range uses {
					if p.kind == "dec" && p.a.errLH != nil && p.a.as != u.a.as {
						if c35NilTest(info, b, p.a.errLH) {
							// polarity: must be "err != nil" holds
							holds := (b.Op == token.NEQ) == f.True
							if holds {
								isFb = true
							} else {
								c.Viol("R35a", fn+":fallback-polarity", u.call.Pos(), "%s applies %s.%s when the primary decoder SUCCEEDED (err == nil): valid `%s` output is decoded twice / by the wrong codec", fn, u.cd.pkg, u.cd.name, fn)
								isFb = true
							}
						}
					}
				}
			}
			if isFb {
				fallback = append(fallback, u)
			} else {
				prim = append(prim, u)
			}
		}
	}
	key := fn + ":pair"
	switch {
	case len(encs) != 1 || len(prim) != 1:
		c.Viol("R35a", key, fd.Pos(), "%s applies %d encoder(s) and %d unconditional decoder(s) to its input, expected one of each selected by p.IsNot: one direction is missing or applied twice", fn, len(encs), len(prim))
	case encs[0].isNot != -1 || prim[0].isNot != 1:
		c.Viol("R35a", key, encs[0].call.Pos(), "%s: encoder %s runs where IsNot=%s and decoder %s where IsNot=%s — the plain command must encode and the ! command decode", fn, encs[0].cd.name, c35Tri(encs[0].isNot), prim[0].cd.name, c35Tri(prim[0].isNot))
	case c35Pairs[encs[0].cd] != prim[0].cd:
		want := c35Pairs[encs[0].cd]
		c.Viol("R35a", key, prim[0].call.Pos(), "%s encodes with %s.%s but decodes with %s.%s; the inverse is %s.%s — e.g. a space or '+' / '&' in the text does not survive the round trip", fn, encs[0].cd.pkg, encs[0].cd.name, prim[0].cd.pkg, prim[0].cd.name, want.pkg, want.name)
	default:
		c.OK("R35a", key, encs[0].call.Pos(), "%s.%s / %s.%s selected by p.IsNot", encs[0].cd.pkg, encs[0].cd.name, prim[0].cd.pkg, prim[0].cd.name)
	}
	sort.Slice(fallback, func(i, j int) bool { return fallback[i].call.Pos() < fallback[j].call.Pos() })
	for _, u := range fallback {
		c.OK("R35a", fn+":fallback:"+u.cd.name, u.call.Pos(), "%s.%s only when the primary decoder failed (input was not produced by the encoder)", u.cd.pkg, u.cd.name)
	}
}

func c35Tri(v int) string {
	switch v {
	case 1:
		return "true"
	case -1:
		return "false"
	}
	return "unconstrained"
}

// c35NilTest: b is `obj ==/!= nil`
func c35NilTest(info *types.Info, b *ast.BinaryExpr, obj types.Object) bool {
	if b.Op != token.EQL && b.Op != token.NEQ {
		return false
	}
	is := func(e ast.Expr, want types.Object) bool {
		id, ok := unparen(e).(*ast.Ident)
		return ok && info.ObjectOf(id) == want
	}
	isNil := func(e ast.Expr) bool {
		id, ok := unparen(e).(*ast.Ident)
		if !ok {
			return false
		}
		_, n := info.ObjectOf(id).(*types.Nil)
		return n
	}
	return (is(b.X, obj) && isNil(b.Y)) || (is(b.Y, obj) && isNil(b.X))
}

// c35IsNot: lang.Process.IsNot is derived from the command name's leading '!'.
func (c *Ctx) c35IsNot() { c.c35IsNotRule("R35c") }

func (c *Ctx) c35IsNotRule(R string) {
	pk := c.Pkg("lang")
	fd, _ := c.MustFunc(R, "lang", "", "createProcess")
	if fd == nil || pk == nil {
		return
	}
	info := pk.TypesInfo
	defs := localDefs(info, fd.Body)
	// isName: e is (a single-definition local holding) <p>.Name.String()
	isName := func(e ast.Expr) bool {
		call, ok := defs.resolve1(info, e).(*ast.CallExpr)
		if !ok {
			return false
		}
		se, ok := call.Fun.(*ast.SelectorExpr)
		return ok && se.Sel.Name == "String" && len(call.Args) == 0 && isField(info, se.X, c35ProcT, "Name")
	}
	// bangTest: +1 when e holds exactly where the command name starts with '!' (name[0] == '!',
	// '!' == name[0], a local holding name[0], strings.HasPrefix(name, "!")), -1 for its negation, else 0
	var bangTest func(e ast.Expr) int
	bangTest = func(e ast.Expr) int {
		e = defs.resolve1(info, e)
		switch x := e.(type) {
		case *ast.UnaryExpr:
			if x.Op == token.NOT {
				return -bangTest(x.X)
			}
		case *ast.CallExpr:
			if callIs(info, x, "strings", "", "HasPrefix") && len(x.Args) == 2 && isName(x.Args[0]) {
				if s, ok := constString(info, x.Args[1]); ok && s == "!" {
					return 1
				}
			}
		case *ast.BinaryExpr:
			if x.Op != token.EQL && x.Op != token.NEQ {
				return 0
			}
			xx, yy := unparen(x.X), unparen(x.Y)
			if _, isK := constInt(info, xx); isK {
				xx, yy = yy, xx
			}
			k, isK := constInt(info, yy)
			ix, isIx := defs.resolve1(info, xx).(*ast.IndexExpr)
			if !isK || k != '!' || !isIx {
				return 0
			}
			if i0, ok := constInt(info, ix.Index); !ok || i0 != 0 {
				return 0
			}
			if !isName(ix.X) {
				return 0
			}
			if x.Op == token.EQL {
				return 1
			}
			return -1
		}
		return 0
	}
	n := 0
	walkStack(fd.Body, func(x ast.Node, st []ast.Node) bool {
		as, ok := x.(*ast.AssignStmt)
		if !ok || len(as.Lhs) != 1 || len(as.Rhs) != 1 || !isField(info, as.Lhs[0], c35ProcT, "IsNot") {
			return true
		}
		n++
		v, isC := constBool(info, as.Rhs[0])
		bang := 0
		for _, f := range factsOf(guardsAt(info, st)) {
			t := bangTest(f.E)
			if t == 0 {
				continue
			}
			if (t == 1) == f.True {
				bang = 1
			} else {
				bang = -1
			}
		}
		switch {
		case !isC:
			// IsNot = <test>: the stored value is the test itself (a fresh Process starts with IsNot == false,
			// so this is the same as `if <test> { IsNot = true }`)
			switch t := bangTest(as.Rhs[0]); {
			case t == 1 && bang != -1:
				c.OK(R, "createProcess:IsNot", as.Pos(), "IsNot = (command name starts with '!')")
			case t == -1:
				c.Viol(R, "createProcess:IsNot", as.Pos(), "Process.IsNot = %s is the negation of name[0]=='!': `X` decodes and `!X` encodes, so the ! form does not undo the plain one", c.src(as.Rhs[0]))
			default:
				c.Undecided(R, "createProcess:IsNot", as.Pos(), "Process.IsNot is assigned the non-constant %s", c.src(as.Rhs[0]))
			}
		case v && bang == 1, !v && bang == -1:
			c.OK(R, "createProcess:IsNot", as.Pos(), "IsNot=%v exactly where the command name starts with '!'", v)
		default:
			c.Viol(R, "createProcess:IsNot", as.Pos(), "Process.IsNot = %v is not tied to name[0]=='!' with that polarity: `X` and `!X` run the same direction, so the ! form does not undo the plain one", v)
		}
		return true
	})
	if n == 0 {
		c.Viol(R, "createProcess:IsNot", fd.Pos(), "createProcess never sets Process.IsNot: `!X` behaves like `X`")
	}
}
