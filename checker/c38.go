package main

// C38 List builtins preserve their elements.
//
// R38a  match / !match: the write condition over (contains, IsNot) is XOR; contains is
//       bytes.Contains(<element>, <parameters>); the element written is the element read.
// R38b  msort: collect every element, sort ascending, marshal that very slice, write it.
//       mtac: each type-switch arm reverses its slice (decided by small-scope evaluation of the
//       loop's index arithmetic for lengths 0..7), the reversed value is what is marshalled.
// R38c  prepend / append: abstract sequence of the marshalled slice is <given><stdin> resp.
//       <stdin><given>; every parameter and every stdin element is appended unconditionally.
// R38d  per-element builtins (left, right, prefix, suffix, list.case): every path through the
//       ReadArray callback writes exactly one element; the array writer comes from
//       p.Stdout.WriteArray(<stdin data type>) and is Closed on the normal return.
// R38e  left / right / prefix / suffix: table of written bytes per (element length, count) obtained
//       by small-scope evaluation equals the documented substring / concatenation.
// R38f  left / right count characters (documented): the count must not be used as a raw byte index
//       into the element's UTF-8 bytes.

import (
	"fmt"
	"go/ast"
	"go/token"
	"go/types"
	"os"
	"strings"
	"unicode/utf8"

	"golang.org/x/tools/go/packages"
)

func init() {
	register("C38", "Decides structurally for builtins/core/lists: match's write condition is contains XOR IsNot on the element read (R38a); msort appends every element, sorts ascending and marshals/writes that slice; every arm of mtac's type switch is an in-place reversal for all lengths 0..7 and the reversed value is marshalled (R38b); prepend/append marshal <given><stdin> / <stdin><given> with no element skipped (R38c); left/right/prefix/suffix/list.case write exactly one element per element read on every path and close the array writer (R38d); the bytes left/right/prefix/suffix write equal the documented substring/concatenation for every element length 0..5, count -7..7, affix length 0..3 (R38e, small-scope evaluation of the index arithmetic under contract summaries of the stdio API — no murex code is run); left/right do not use the character count as a raw byte index (R38f). Does NOT decide ReadArray/WriteArray/MarshalData themselves (per data type), sort.Strings, list.case's case mapping, nor cancellation paths.", runC38)
}

const c38Lists = "builtins/core/lists"

var c38ProcT = mx("lang") + ".Process"

// c38Load type-checks only the named murex packages from source and takes their dependencies
// (x/text's large tables among them) from export data: the rules below only look inside
// builtins/core/lists and lang. Same bookkeeping as (*Ctx).Load.
func (c *Ctx) c38Load(rel ...string) {
	cfg := &packages.Config{
		Mode: packages.NeedName | packages.NeedFiles | packages.NeedCompiledGoFiles | packages.NeedImports |
			packages.NeedTypes | packages.NeedSyntax | packages.NeedTypesInfo | packages.NeedTypesSizes | packages.NeedModule,
		Dir:     c.Repo,
		Fset:    c.Fset,
		Tests:   false,
		Overlay: c.Overlay,
		Env:     append(os.Environ(), c.Env...),
	}
	if c.Tags != "" {
		cfg.BuildFlags = []string{"-tags=" + c.Tags}
	}
	var pats []string
	for _, r := range rel {
		pats = append(pats, modPath+"/"+r)
	}
	pkgs, err := packages.Load(cfg, pats...)
	if err != nil {
		fatal("load: %v", err)
	}
	if len(pkgs) != len(pats) {
		fatal("load: %d packages for %v", len(pkgs), pats)
	}
	nerr := 0
	for _, p := range pkgs {
		for _, e := range p.Errors {
			fmt.Fprintf(os.Stderr, "load error: %s: %v\n", p.PkgPath, e)
			nerr++
		}
		c.All[p.PkgPath] = p
	}
	if nerr > 0 {
		fatal("load: %d package errors — the tree does not type-check, no verdict", nerr)
	}
	c.Roots = append(c.Roots, pkgs...)
	c.configs = append(c.configs, fmt.Sprintf("patterns=%v tags=%q env=%v roots=%d (dependencies from export data)", rel, c.Tags, c.Env, len(pkgs)))
}

func runC38(c *Ctx) {
	c.c38Load(c38Lists, "lang")
	pk := c.Pkg(c38Lists)
	if pk == nil {
		c.Lost("R38a", "pkg:"+c38Lists, "package not loaded")
		return
	}
	reg := c.c38Registrations(pk)
	c.c38Match(pk, reg)
	c.c38Msort(pk, reg)
	c.c38Mtac(pk, reg)
	c.c38AddElems(pk, reg)
	c.c38PerElement(pk, reg)
	c.c38Bounds(pk, reg)
	c.c38Chars(pk, reg)
}

// c38Registrations: builtin name -> handler declaration (through lang.DefineMethod/DefineFunction
// with a constant name).
func (c *Ctx) c38Registrations(pk *packages.Package) map[string]*ast.FuncDecl {
	info := pk.TypesInfo
	decl := map[types.Object]*ast.FuncDecl{}
	eachFunc(pk, func(fd *ast.FuncDecl) {
		if fd.Recv == nil {
			decl[info.Defs[fd.Name]] = fd
		}
	})
	out := map[string]*ast.FuncDecl{}
	eachFunc(pk, func(fd *ast.FuncDecl) {
		if fd.Name.Name != "init" || fd.Recv != nil {
			return
		}
		for _, call := range calls(fd.Body, false) {
			if !callIs(info, call, mx("lang"), "", "DefineMethod") && !callIs(info, call, mx("lang"), "", "DefineFunction") {
				continue
			}
			if len(call.Args) < 2 {
				continue
			}
			n, ok := constString(info, call.Args[0])
			if !ok {
				continue
			}
			if id, ok := unparen(call.Args[1]).(*ast.Ident); ok {
				if d := decl[info.ObjectOf(id)]; d != nil {
					out[n] = d
				}
			}
		}
	})
	return out
}

func (c *Ctx) c38Handler(rule string, reg map[string]*ast.FuncDecl, name string) *ast.FuncDecl {
	fd := reg[name]
	if fd == nil {
		c.Lost(rule, "builtin:"+name, "no lang.DefineMethod(%q, <handler>) with a constant name and a package-level handler in %s: the builtin moved or was renamed", name, c38Lists)
	}
	return fd
}

// ---------------------------------------------------------------- shared structure helpers

// c38Callback finds calls `p.Stdin.<method>(ctx, func(...){...})` in fd; returns the call and literal.
type c38CB struct {
	call  *ast.CallExpr
	lit   *ast.FuncLit
	param types.Object // first parameter of the callback (nil when unnamed)
}

func c38Callbacks(info *types.Info, fd *ast.FuncDecl, method string) []c38CB {
	var out []c38CB
	for _, call := range calls(fd.Body, false) {
		se, ok := call.Fun.(*ast.SelectorExpr)
		if !ok || se.Sel.Name != method || !isField(info, se.X, c38ProcT, "Stdin") || len(call.Args) != 2 {
			continue
		}
		lit, ok := unparen(call.Args[1]).(*ast.FuncLit)
		if !ok {
			continue
		}
		cb := c38CB{call: call, lit: lit}
		if ps := lit.Type.Params.List; len(ps) > 0 && len(ps[0].Names) > 0 && ps[0].Names[0].Name != "_" {
			cb.param = info.ObjectOf(ps[0].Names[0])
		}
		out = append(out, cb)
	}
	return out
}

func c38IsObj(info *types.Info, e ast.Expr, o types.Object) bool {
	id, ok := unparen(e).(*ast.Ident)
	return ok && o != nil && info.ObjectOf(id) == o
}

// c38AppendStmt: `S = append(S, x)` (non-variadic): returns S's object and x.
func c38AppendStmt(info *types.Info, s ast.Stmt) (types.Object, ast.Expr, bool) {
	as, ok := s.(*ast.AssignStmt)
	if !ok || len(as.Lhs) != 1 || len(as.Rhs) != 1 || as.Tok != token.ASSIGN {
		return nil, nil, false
	}
	call, ok := isBuiltinCall(info, as.Rhs[0], "append")
	if !ok || len(call.Args) != 2 || call.Ellipsis.IsValid() {
		return nil, nil, false
	}
	lid, ok := as.Lhs[0].(*ast.Ident)
	if !ok {
		return nil, nil, false
	}
	o := info.ObjectOf(lid)
	if !c38IsObj(info, call.Args[0], o) {
		return nil, nil, false
	}
	return o, unparen(call.Args[1]), true
}

// c38MarshalWrite finds `b, err := lang.MarshalData(p, dt, X)` and `p.Stdout.Write(b)`; returns X,
// the marshal statement and whether the marshalled bytes are what is written.
func c38MarshalWrite(info *types.Info, fd *ast.FuncDecl) (x ast.Expr, marshal *ast.AssignStmt, written bool, nMarshal int) {
	var bObj types.Object
	ast.Inspect(fd.Body, func(n ast.Node) bool {
		as, ok := n.(*ast.AssignStmt)
		if !ok || len(as.Rhs) != 1 || len(as.Lhs) != 2 {
			return true
		}
		call, ok := unparen(as.Rhs[0]).(*ast.CallExpr)
		if !ok || !callIs(info, call, mx("lang"), "", "MarshalData") || len(call.Args) != 3 {
			return true
		}
		nMarshal++
		x = unparen(call.Args[2])
		marshal = as
		if id, ok := as.Lhs[0].(*ast.Ident); ok {
			bObj = info.ObjectOf(id)
		}
		return true
	})
	if marshal == nil {
		return
	}
	nw := 0
	for _, call := range calls(fd.Body, true) {
		se, ok := call.Fun.(*ast.SelectorExpr)
		if !ok || !isField(info, se.X, c38ProcT, "Stdout") || !strings.HasPrefix(se.Sel.Name, "Write") {
			continue
		}
		nw++
		if se.Sel.Name == "Write" && len(call.Args) == 1 && c38IsObj(info, call.Args[0], bObj) && call.Pos() > marshal.Pos() {
			written = true
		}
	}
	if nw != 1 {
		written = false
	}
	return
}

// c38AssignedBetween: some assignment to object o (other than `skip`) lies in (from, to).
func c38AssignedBetween(info *types.Info, root ast.Node, o types.Object, from, to token.Pos, skip ast.Node) bool {
	found := false
	ast.Inspect(root, func(n ast.Node) bool {
		if n == nil || n == skip {
			return n != skip
		}
		switch s := n.(type) {
		case *ast.AssignStmt:
			if s.Pos() > from && s.Pos() < to {
				for _, l := range s.Lhs {
					if c38IsObj(info, l, o) {
						found = true
					}
					if ix, ok := unparen(l).(*ast.IndexExpr); ok && c38IsObj(info, ix.X, o) {
						found = true
					}
				}
			}
		case *ast.IncDecStmt:
			if s.Pos() > from && s.Pos() < to && c38IsObj(info, s.X, o) {
				found = true
			}
		}
		return true
	})
	return found
}

// ================================================================= R38a match

func (c *Ctx) c38Match(pk *packages.Package, reg map[string]*ast.FuncDecl) {
	const R = "R38a"
	c.Rule(R, "`match` and `!match` share one handler; in its ReadArray callback the element is written under exactly one condition whose truth table over (contains, p.IsNot) is contains XOR IsNot, where contains = bytes.Contains(<callback element>, p.Parameters.ByteAll()) and the value written is the callback element itself; Process.IsNot is set only from the leading '!' of the command name")
	info := pk.TypesInfo
	fd := c.c38Handler(R, reg, "match")
	fdn := c.c38Handler(R, reg, "!match")
	if fd == nil || fdn == nil {
		return
	}
	if !c.Check(fd == fdn, R, "match:handler", fd.Pos(), "`match` and `!match` are registered with the same handler (two handlers cannot be shown complementary by this rule)") {
		return
	}
	cbs := c38Callbacks(info, fd, "ReadArray")
	if len(cbs) != 1 || cbs[0].param == nil {
		c.Undecided(R, "match:callback", fd.Pos(), "%s: expected exactly one p.Stdin.ReadArray(ctx, func(b []byte){…}) with a named parameter, found %d", fd.Name.Name, len(cbs))
		return
	}
	cb := cbs[0]
	defs := localDefs(info, cb.lit.Body)
	// the write(s)
	type wr struct {
		call  *ast.CallExpr
		stack []ast.Node
	}
	var writes []wr
	walkStack(cb.lit.Body, func(n ast.Node, st []ast.Node) bool {
		if call, ok := n.(*ast.CallExpr); ok && c38IsAWWrite(info, call) {
			writes = append(writes, wr{call, append([]ast.Node(nil), st...)})
		}
		return true
	})
	if len(writes) != 1 {
		c.Viol(R, "match:write", cb.lit.Pos(), "the match callback has %d array-writer writes, expected exactly one conditional write: an element is emitted twice or never", len(writes))
		return
	}
	w := writes[0]
	// value written
	arg := unparen(w.call.Args[0])
	if conv, ok := arg.(*ast.CallExpr); ok && len(conv.Args) == 1 {
		if tv, ok := info.Types[conv.Fun]; ok && tv.IsType() {
			arg = unparen(conv.Args[0])
		}
	}
	if c38IsObj(info, arg, cb.param) {
		c.OK(R, "match:written-value", w.call.Pos(), "match writes the element it read (the callback parameter)")
	} else {
		c.Viol(R, "match:written-value", w.call.Pos(), "match writes %s, not the element it read (the callback parameter): the output is not a subsequence of the input", c.src(w.call.Args[0]))
	}
	// guards of the write inside the callback
	gs := guardsAt(info, w.stack)
	var conds []Guard
	for _, g := range gs {
		if g.Cond != nil {
			conds = append(conds, g)
		}
	}
	if len(conds) == 0 {
		c.Undecided(R, "match:condition", w.call.Pos(), "the write is guarded by %d conditions (expected at least one `if`): cannot build the truth table", len(conds))
		return
	}
	// the write happens where every guard holds: positive `if` arms as they are, earlier
	// `if c { return }` exits and else arms negated
	var cond ast.Expr
	for _, g := range conds {
		var e ast.Expr = &ast.ParenExpr{Lparen: g.Cond.Pos(), X: g.Cond, Rparen: g.Cond.End()}
		if g.Neg {
			e = &ast.UnaryExpr{OpPos: g.Cond.Pos(), Op: token.NOT, X: e}
		}
		if cond == nil {
			cond = e
		} else {
			cond = &ast.BinaryExpr{X: cond, OpPos: g.Cond.Pos(), Op: token.LAND, Y: e}
		}
	}
	if len(conds) == 1 && !conds[0].Neg {
		cond = conds[0].Cond
	}
	var containsCall *ast.CallExpr
	atom := func(e ast.Expr) (string, bool, bool) {
		e = unparen(e)
		if isField(info, e, c38ProcT, "IsNot") {
			return "isnot", false, true
		}
		r := defs.resolve1(info, e)
		if call, ok := r.(*ast.CallExpr); ok && (callIs(info, call, "bytes", "", "Contains") || callIs(info, call, "strings", "", "Contains")) {
			containsCall = call
			return "contains", false, true
		}
		return "", false, false
	}
	tbl, unk := c38TruthTable(cond, []string{"contains", "isnot"}, atom)
	if len(unk) > 0 {
		c.Undecided(R, "match:condition", cond.Pos(), "write condition %s has leaves other than p.IsNot and a Contains(...) result: %v", c.src(cond), unk)
		return
	}
	okX := true
	var rows []string
	for m := 0; m < 4; m++ {
		contains, isnot := m&1 != 0, m&2 != 0
		if tbl[m] != (contains != isnot) {
			okX = false
			rows = append(rows, fmt.Sprintf("contains=%v,IsNot=%v -> written=%v", contains, isnot, tbl[m]))
		}
	}
	if okX {
		c.OK(R, "match:condition", cond.Pos(), "write condition == contains XOR IsNot")
	} else {
		c.Viol(R, "match:condition", cond.Pos(), "write condition %s is not contains XOR IsNot (%s): `match` and `!match` are not complementary — some element appears in both outputs or in neither", c.src(cond), strings.Join(rows, "; "))
	}
	if containsCall == nil {
		c.Undecided(R, "match:contains", cond.Pos(), "no Contains call feeds the write condition")
		return
	}
	a0 := unparen(containsCall.Args[0])
	if conv, ok := a0.(*ast.CallExpr); ok && len(conv.Args) == 1 {
		if tv, ok := info.Types[conv.Fun]; ok && tv.IsType() {
			a0 = unparen(conv.Args[0])
		}
	}
	needleOK := false
	// the pattern: the call itself, or a local of the handler defined once from it
	if nc, ok := localDefs(info, fd.Body).resolve1(info, containsCall.Args[1]).(*ast.CallExpr); ok {
		if callIs(info, nc, mx("lang/parameters"), "Parameters", "ByteAll") || callIs(info, nc, mx("lang/parameters"), "Parameters", "StringAll") {
			needleOK = true
		}
	}
	if c38IsObj(info, a0, cb.param) && needleOK {
		c.OK(R, "match:contains", containsCall.Pos(), "contains = %s", c.src(containsCall))
	} else {
		c.Viol(R, "match:contains", containsCall.Pos(), "the containment test is %s, expected Contains(<element>, <all parameters>) in that operand order: as written it asks whether the pattern contains the element (or tests something other than the element read), so the wrong elements are selected", c.src(containsCall))
	}
	c.c35IsNotRule(R)
}

// c38EvalBool is match.go's evalBool plus ==/!= between boolean sub-expressions (so that
// `contains != p.IsNot` is read as the XOR it is).
func c38EvalBool(e ast.Expr, atom atomFn, env map[string]bool, unknown *[]string) bool {
	e = unparen(e)
	if name, neg, ok := atom(e); ok {
		return env[name] != neg
	}
	switch x := e.(type) {
	case *ast.UnaryExpr:
		if x.Op == token.NOT {
			return !c38EvalBool(x.X, atom, env, unknown)
		}
	case *ast.BinaryExpr:
		switch x.Op {
		case token.LAND:
			return c38EvalBool(x.X, atom, env, unknown) && c38EvalBool(x.Y, atom, env, unknown)
		case token.LOR:
			return c38EvalBool(x.X, atom, env, unknown) || c38EvalBool(x.Y, atom, env, unknown)
		case token.EQL:
			return c38EvalBool(x.X, atom, env, unknown) == c38EvalBool(x.Y, atom, env, unknown)
		case token.NEQ:
			return c38EvalBool(x.X, atom, env, unknown) != c38EvalBool(x.Y, atom, env, unknown)
		}
	case *ast.Ident:
		if x.Name == "true" {
			return true
		}
		if x.Name == "false" {
			return false
		}
	}
	*unknown = append(*unknown, strings.TrimSpace(types.ExprString(e)))
	return false
}

func c38TruthTable(e ast.Expr, atoms []string, atom atomFn) (map[int]bool, []string) {
	out := map[int]bool{}
	var unk []string
	for m := 0; m < 1<<len(atoms); m++ {
		env := map[string]bool{}
		for i, a := range atoms {
			env[a] = m&(1<<i) != 0
		}
		out[m] = c38EvalBool(e, atom, env, &unk)
	}
	return out, unk
}

// c38IsAWWrite: call of stdio.ArrayWriter.Write / WriteString
func c38IsAWWrite(info *types.Info, call *ast.CallExpr) bool {
	o := callee(info, call)
	if o == nil || o.Pkg() == nil || o.Pkg().Path() != mx("lang/stdio") {
		return false
	}
	fn, ok := o.(*types.Func)
	if !ok || (o.Name() != "Write" && o.Name() != "WriteString") {
		return false
	}
	sig := fn.Type().(*types.Signature)
	return sig.Recv() != nil && namedName(sig.Recv().Type()) == "ArrayWriter" && len(call.Args) == 1
}

// ================================================================= R38b msort

func (c *Ctx) c38Msort(pk *packages.Package, reg map[string]*ast.FuncDecl) {
	const R = "R38b"
	c.Rule(R, "msort: the ReadArray callback appends string(<element>) to one slice on every path except after cancellation; that slice is sorted ascending (sort.Strings / slices.Sort / sort.Sort|Stable(sort.StringSlice)) after the read, is not reassigned before lang.MarshalData(p, dt, slice), and the marshalled bytes are the single p.Stdout.Write. mtac: every non-default arm of the type switch leaves its slice reversed for all lengths 0..7 (small-scope evaluation of the swap loop), the default arm fails, and the switched value is what is marshalled and written")
	info := pk.TypesInfo
	fd := c.c38Handler(R, reg, "msort")
	if fd == nil {
		return
	}
	cbs := c38Callbacks(info, fd, "ReadArray")
	if len(cbs) != 1 || cbs[0].param == nil {
		c.Undecided(R, "msort:callback", fd.Pos(), "msort: expected exactly one p.Stdin.ReadArray callback with a named parameter, found %d", len(cbs))
		return
	}
	cb := cbs[0]
	var S types.Object
	nApp := 0
	okApp := true
	why := ""
	walkStack(cb.lit.Body, func(n ast.Node, st []ast.Node) bool {
		s, ok := n.(ast.Stmt)
		if !ok {
			return true
		}
		o, x, ok := c38AppendStmt(info, s)
		if !ok {
			return true
		}
		nApp++
		S = o
		// value appended: string(b) / b
		if conv, ok := x.(*ast.CallExpr); ok && len(conv.Args) == 1 {
			if tv, ok := info.Types[conv.Fun]; ok && tv.IsType() {
				x = unparen(conv.Args[0])
			}
		}
		if !c38IsObj(info, x, cb.param) {
			okApp = false
			why = "appends " + c.src(x) + " instead of the element read"
		}
		for _, f := range factsOf(guardsAt(info, st)) {
			call, isCall := unparen(f.E).(*ast.CallExpr)
			if isCall && callIs(info, call, mx("lang"), "Process", "HasCancelled") && !f.True {
				continue
			}
			okApp = false
			why = "the append is conditional on " + c.src(f.E) + ": elements are dropped"
		}
		return true
	})
	if nApp != 1 {
		c.Viol(R, "msort:collect", cb.lit.Pos(), "msort's callback has %d `s = append(s, element)` statements, expected 1: elements are dropped or duplicated, the output is not a permutation of the input", nApp)
		return
	}
	if !okApp {
		c.Viol(R, "msort:collect", cb.lit.Pos(), "msort does not collect every element: %s — the output is not a permutation of the input", why)
		return
	}
	c.OK(R, "msort:collect", cb.lit.Pos(), "msort appends every element read (except after cancellation)")
	// sort
	readIdx := topLevelIndex(fd.Body.List, cb.call)
	sortIdx := -1
	var sortCall *ast.CallExpr
	for i, s := range fd.Body.List {
		es, ok := s.(*ast.ExprStmt)
		if !ok {
			continue
		}
		call, ok := es.X.(*ast.CallExpr)
		if !ok || len(call.Args) != 1 {
			continue
		}
		arg := unparen(call.Args[0])
		asc := false
		switch {
		case callIs(info, call, "sort", "", "Strings"), callIs(info, call, "slices", "", "Sort"):
			asc = true
		case callIs(info, call, "sort", "", "Sort"), callIs(info, call, "sort", "", "Stable"):
			if conv, ok := arg.(*ast.CallExpr); ok && len(conv.Args) == 1 {
				if tv, ok := info.Types[conv.Fun]; ok && tv.IsType() && namedPath(tv.Type) == "sort.StringSlice" {
					asc = true
					arg = unparen(conv.Args[0])
				}
			}
		}
		if o := callee(info, call); o != nil && o.Pkg() != nil && (o.Pkg().Path() == "sort" || o.Pkg().Path() == "slices") {
			sortCall = call
			if asc && c38IsObj(info, arg, S) {
				sortIdx = i
			}
		}
	}
	mx3, marshal, written, nM := c38MarshalWrite(info, fd)
	switch {
	case sortIdx < 0 && sortCall != nil:
		c.Viol(R, "msort:sort", sortCall.Pos(), "msort sorts with %s — not an ascending string sort of the collected slice (sort.Strings/slices.Sort/sort.Sort(sort.StringSlice(s))): the output is not in non-decreasing order", c.src(sortCall))
	case sortIdx < 0:
		c.Viol(R, "msort:sort", fd.Pos(), "msort never sorts the collected slice at the top level of the function: the output keeps input order")
	case sortIdx <= readIdx:
		c.Viol(R, "msort:sort", fd.Body.List[sortIdx].Pos(), "msort sorts before the elements are read: later elements are unsorted")
	default:
		c.OK(R, "msort:sort", fd.Body.List[sortIdx].Pos(), "ascending string sort of the collected slice after the read")
	}
	switch {
	case marshal == nil || nM != 1:
		c.Undecided(R, "msort:marshal", fd.Pos(), "msort: expected exactly one `b, err := lang.MarshalData(p, dt, s)`, found %d", nM)
	case !c38IsObj(info, mx3, S):
		c.Viol(R, "msort:marshal", marshal.Pos(), "msort marshals %s, not the collected+sorted slice: elements are dropped/added", c.src(mx3))
	case sortIdx >= 0 && topLevelIndex(fd.Body.List, marshal) <= sortIdx:
		c.Viol(R, "msort:marshal", marshal.Pos(), "msort marshals before sorting: the output is in input order")
	case sortIdx >= 0 && c38AssignedBetween(info, fd.Body, S, fd.Body.List[sortIdx].Pos(), marshal.Pos(), nil):
		c.Viol(R, "msort:marshal", marshal.Pos(), "the collected slice is reassigned between the sort and MarshalData: what is written is not the sorted permutation")
	case !written:
		c.Viol(R, "msort:marshal", marshal.Pos(), "msort does not write exactly the marshalled bytes once with p.Stdout.Write")
	default:
		c.OK(R, "msort:marshal", marshal.Pos(), "MarshalData(collected slice) -> single Stdout.Write")
	}
}

// ================================================================= R38b mtac

func (c *Ctx) c38Mtac(pk *packages.Package, reg map[string]*ast.FuncDecl) {
	const R = "R38b"
	info := pk.TypesInfo
	fd := c.c38Handler(R, reg, "mtac")
	if fd == nil {
		return
	}
	var ts *ast.TypeSwitchStmt
	for _, s := range fd.Body.List {
		if t, ok := s.(*ast.TypeSwitchStmt); ok {
			ts = t
		}
	}
	if ts == nil {
		c.Undecided(R, "mtac:switch", fd.Pos(), "mtac has no top-level type switch over the unmarshalled value: idiom not recognised")
		return
	}
	// switched operand object
	var operand types.Object
	var ta *ast.TypeAssertExpr
	switch a := ts.Assign.(type) {
	case *ast.AssignStmt:
		ta, _ = unparen(a.Rhs[0]).(*ast.TypeAssertExpr)
	case *ast.ExprStmt:
		ta, _ = unparen(a.X).(*ast.TypeAssertExpr)
	}
	if ta != nil {
		if id, ok := unparen(ta.X).(*ast.Ident); ok {
			operand = info.ObjectOf(id)
		}
	}
	if operand == nil {
		c.Undecided(R, "mtac:switch", ts.Pos(), "type switch operand is not a plain variable")
		return
	}
	nArms := 0
	for _, cs := range ts.Body.List {
		cc := cs.(*ast.CaseClause)
		if cc.List == nil {
			c.Check(terminates(info, cc.Body), R, "mtac:default", cc.Pos(), "mtac's default arm (unknown array type) returns an error instead of writing the input unreversed")
			continue
		}
		tname := c.src(cc.List[0])
		key := "mtac:reverse:" + tname
		nArms++
		v := info.Implicits[cc]
		if len(cc.List) != 1 || v == nil {
			c.Undecided(R, key, cc.Pos(), "arm lists several types or binds no variable: cannot evaluate")
			continue
		}
		if _, ok := v.Type().Underlying().(*types.Slice); !ok {
			c.Undecided(R, key, cc.Pos(), "arm type %s is not a slice", tname)
			continue
		}
		// slices.Reverse(v) is accepted directly
		if len(cc.Body) == 1 {
			if es, ok := cc.Body[0].(*ast.ExprStmt); ok {
				if call, ok := es.X.(*ast.CallExpr); ok && callIs(info, call, "slices", "", "Reverse") && len(call.Args) == 1 && c38IsObj(info, call.Args[0], v) {
					c.OK(R, key, cc.Pos(), "slices.Reverse")
					continue
				}
			}
		}
		ev := c.c38NewEval(pk, nil)
		bad := ""
		for n := 0; n <= 7 && bad == ""; n++ {
			cells := make([]int64, n)
			for i := range cells {
				cells[i] = int64(i)
			}
			val := c38BytesV(cells)
			env := c38NewEnv(nil)
			env.define(v, val)
			failMsg, panicMsg := ev.run(func() { ev.block(cc.Body, env) })
			switch {
			case failMsg != "":
				bad = "U" + failMsg
			case panicMsg != "":
				bad = fmt.Sprintf("Vfor a %d-element array: %s", n, panicMsg)
			default:
				got := val.arr.cells
				for i := range got {
					if got[i] != int64(n-1-i) {
						bad = fmt.Sprintf("Va %d-element array [0..%d] comes out as %v — not the reverse order", n, n-1, got)
						break
					}
				}
			}
		}
		switch {
		case bad == "":
			c.OK(R, key, cc.Pos(), "arm reverses in place for every length 0..7")
		case bad[0] == 'U':
			c.Undecided(R, key, cc.Pos(), "arm %s is outside the evaluated subset (%s)", tname, bad[1:])
		default:
			c.Viol(R, key, cc.Pos(), "mtac arm %s: %s", tname, bad[1:])
		}
	}
	c.MinCount(R, "mtac type-switch arms", nArms, 6)
	x, marshal, written, nM := c38MarshalWrite(info, fd)
	switch {
	case marshal == nil || nM != 1:
		c.Undecided(R, "mtac:marshal", fd.Pos(), "mtac: expected exactly one lang.MarshalData call, found %d", nM)
	case !c38IsObj(info, x, operand):
		c.Viol(R, "mtac:marshal", marshal.Pos(), "mtac marshals %s, not the value whose slice was reversed", c.src(x))
	case marshal.Pos() < ts.End():
		c.Viol(R, "mtac:marshal", marshal.Pos(), "mtac marshals before/inside the reversing switch")
	case !written:
		c.Viol(R, "mtac:marshal", marshal.Pos(), "mtac does not write exactly the marshalled bytes once with p.Stdout.Write")
	default:
		c.OK(R, "mtac:marshal", marshal.Pos(), "MarshalData(reversed value) -> single Stdout.Write")
	}
}

// ================================================================= R38c prepend / append

func (c *Ctx) c38AddElems(pk *packages.Package, reg map[string]*ast.FuncDecl) {
	const R = "R38c"
	c.Rule(R, "prepend/append: abstracting the slices to sequences over {S = every stdin element (callback appends its value parameter unconditionally), G = every parameter (a range over p.Parameters.StringArray() appends ConvertGoType(params[k], …) for the loop's own k, leaving only through `if err != nil { return }`)}, the value passed to lang.MarshalData is exactly G·S for prepend and S·G for append, and the marshalled bytes are the single Stdout.Write")
	info := pk.TypesInfo
	for _, b := range []struct{ name, want string }{{"prepend", "GS"}, {"append", "SG"}} {
		fd := c.c38Handler(R, reg, b.name)
		if fd == nil {
			continue
		}
		key := b.name + ":sequence"
		cbs := c38Callbacks(info, fd, "ReadArrayWithType")
		if len(cbs) != 1 || cbs[0].param == nil {
			c.Undecided(R, key, fd.Pos(), "%s: expected exactly one p.Stdin.ReadArrayWithType callback with a named value parameter, found %d", b.name, len(cbs))
			continue
		}
		cb := cbs[0]
		// abstract interpretation of the top-level statement list
		seq := map[types.Object]string{}
		var params types.Object
		problem := ""
		viol := ""
		x, marshal, written, nM := c38MarshalWrite(info, fd)
		if marshal == nil || nM != 1 {
			c.Undecided(R, key, fd.Pos(), "%s: expected exactly one lang.MarshalData call, found %d", b.name, nM)
			continue
		}
		mIdx := topLevelIndex(fd.Body.List, marshal)
		for i, s := range fd.Body.List {
			if i >= mIdx || problem != "" {
				break
			}
			switch st := s.(type) {
			case *ast.AssignStmt:
				// the read
				if topLevelIndex([]ast.Stmt{s}, cb.call) == 0 {
					o, why := c.c38CallbackCollect(info, cb)
					if o == nil {
						viol = why
						problem = why
						break
					}
					seq[o] += "S"
					continue
				}
				// params := p.Parameters.StringArray()
				if len(st.Lhs) == 1 && len(st.Rhs) == 1 {
					if call, ok := unparen(st.Rhs[0]).(*ast.CallExpr); ok && callIs(info, call, mx("lang/parameters"), "Parameters", "StringArray") {
						if id, ok := st.Lhs[0].(*ast.Ident); ok {
							params = info.ObjectOf(id)
							continue
						}
					}
					// X = append(A, B...)
					if call, ok := isBuiltinCall(info, st.Rhs[0], "append"); ok && len(call.Args) == 2 && call.Ellipsis.IsValid() {
						lid, ok1 := st.Lhs[0].(*ast.Ident)
						a, ok2 := unparen(call.Args[0]).(*ast.Ident)
						bb, ok3 := unparen(call.Args[1]).(*ast.Ident)
						if ok1 && ok2 && ok3 {
							seq[info.ObjectOf(lid)] = seq[info.ObjectOf(a)] + seq[info.ObjectOf(bb)]
							continue
						}
					}
				}
				// other assignments: must not touch the tracked slices
				for _, l := range st.Lhs {
					if id, ok := unparen(l).(*ast.Ident); ok {
						if _, tracked := seq[info.ObjectOf(id)]; tracked {
							problem = "slice " + id.Name + " is assigned by " + c.src(st) + " — a form this rule does not model"
						}
					}
				}
			case *ast.ExprStmt:
				if topLevelIndex([]ast.Stmt{s}, cb.call) == 0 {
					o, why := c.c38CallbackCollect(info, cb)
					if o == nil {
						viol = why
						problem = why
						break
					}
					seq[o] += "S"
				}
			case *ast.RangeStmt:
				tgt, why, isV := c.c38GivenLoop(info, st, params)
				if tgt == nil {
					problem = why
					if isV {
						viol = why
					}
					break
				}
				seq[tgt] += "G"
			case *ast.ForStmt:
				// `for k := 0; k < len(params); k++ {…}` visits the same indices as `for k := range params`
				k := c38CountingLoopOver(info, st, params)
				if k == nil {
					problem = "a for loop before MarshalData is not `for k := 0; k < len(<params>); k++` over p.Parameters.StringArray() (or a range over it)"
					break
				}
				tgt, why, isV := c.c38GivenBody(info, st.Body, params, k, nil)
				if tgt == nil {
					problem = why
					if isV {
						viol = why
					}
					break
				}
				seq[tgt] += "G"
			}
		}
		mid, okM := x.(*ast.Ident)
		switch {
		case viol != "":
			c.Viol(R, key, fd.Pos(), "%s: %s", b.name, viol)
		case problem != "":
			c.Undecided(R, key, fd.Pos(), "%s: %s", b.name, problem)
		case !okM:
			c.Undecided(R, key, marshal.Pos(), "%s marshals %s, not a slice variable", b.name, c.src(x))
		case seq[info.ObjectOf(mid)] != b.want:
			got := seq[info.ObjectOf(mid)]
			c.Viol(R, key, marshal.Pos(), "%s marshals the sequence %q (S = stdin elements, G = given parameters), expected %q: the given elements are %s", b.name, got, b.want, c38SeqWhy(got, b.want))
		case !written:
			c.Viol(R, key, marshal.Pos(), "%s does not write exactly the marshalled bytes once with p.Stdout.Write", b.name)
		default:
			c.OK(R, key, marshal.Pos(), "%s marshals %s", b.name, b.want)
		}
	}
}

func c38SeqWhy(got, want string) string {
	switch {
	case !strings.Contains(got, "G"):
		return "never added"
	case !strings.Contains(got, "S"):
		return "the only output (stdin elements dropped)"
	case strings.Count(got, "G") > 1 || strings.Count(got, "S") > 1:
		return "or the stdin elements duplicated"
	}
	if want == "GS" {
		return "added at the end instead of the start"
	}
	return "added at the start instead of the end"
}

// c38CallbackCollect: callback body appends its first parameter to one captured slice, unconditionally,
// exactly once. Returns that slice's object.
func (c *Ctx) c38CallbackCollect(info *types.Info, cb c38CB) (types.Object, string) {
	var S types.Object
	n := 0
	why := ""
	walkStack(cb.lit.Body, func(nd ast.Node, st []ast.Node) bool {
		s, ok := nd.(ast.Stmt)
		if !ok {
			return true
		}
		o, x, ok := c38AppendStmt(info, s)
		if !ok {
			return true
		}
		n++
		S = o
		if !c38IsObj(info, x, cb.param) {
			why = "the stdin callback appends " + c.src(x) + " instead of the element it was given"
		}
		if len(factsOf(guardsAt(info, st))) > 0 {
			why = "the stdin callback appends conditionally: some stdin elements are dropped"
		}
		return true
	})
	if n != 1 && why == "" {
		why = fmt.Sprintf("the stdin callback has %d `s = append(s, v)` statements, expected 1: stdin elements are dropped or duplicated", n)
	}
	if why != "" {
		return nil, why
	}
	return S, ""
}

// c38GivenLoop: `for k[, s] := range params { v, err := types.ConvertGoType(params[k] | s, …); if err != nil {return}; T = append(T, v) }`
func (c *Ctx) c38GivenLoop(info *types.Info, rs *ast.RangeStmt, params types.Object) (types.Object, string, bool) {
	if params == nil || !c38IsObj(info, rs.X, params) {
		return nil, "a range loop before MarshalData does not range over p.Parameters.StringArray()", false
	}
	var keyObj, valObj types.Object
	if id, ok := rs.Key.(*ast.Ident); ok && id.Name != "_" {
		keyObj = info.ObjectOf(id)
	}
	if id, ok := rs.Value.(*ast.Ident); ok && id.Name != "_" {
		valObj = info.ObjectOf(id)
	}
	return c.c38GivenBody(info, rs.Body, params, keyObj, valObj)
}

// c38CountingLoopOver: fs is `for k := 0; k < len(params); k++ { … }` (also `len(params) > k`, `k += 1`)
// and k is not assigned in the body; returns k.
func c38CountingLoopOver(info *types.Info, fs *ast.ForStmt, params types.Object) types.Object {
	if params == nil || fs.Init == nil || fs.Cond == nil || fs.Post == nil {
		return nil
	}
	as, ok := fs.Init.(*ast.AssignStmt)
	if !ok || as.Tok != token.DEFINE || len(as.Lhs) != 1 || len(as.Rhs) != 1 {
		return nil
	}
	id, ok := as.Lhs[0].(*ast.Ident)
	if !ok {
		return nil
	}
	if v, ok := constInt(info, as.Rhs[0]); !ok || v != 0 {
		return nil
	}
	k := info.ObjectOf(id)
	be, ok := unparen(fs.Cond).(*ast.BinaryExpr)
	if !ok {
		return nil
	}
	x, y := be.X, be.Y
	switch be.Op {
	case token.LSS:
	case token.GTR:
		x, y = y, x
	default:
		return nil
	}
	lc, ok := isBuiltinCall(info, y, "len")
	if !c38IsObj(info, x, k) || !ok || len(lc.Args) != 1 || !c38IsObj(info, lc.Args[0], params) {
		return nil
	}
	switch p := fs.Post.(type) {
	case *ast.IncDecStmt:
		if p.Tok != token.INC || !c38IsObj(info, p.X, k) {
			return nil
		}
	case *ast.AssignStmt:
		if p.Tok != token.ADD_ASSIGN || len(p.Lhs) != 1 || len(p.Rhs) != 1 || !c38IsObj(info, p.Lhs[0], k) {
			return nil
		}
		if v, ok := constInt(info, p.Rhs[0]); !ok || v != 1 {
			return nil
		}
	default:
		return nil
	}
	if c38AssignedBetween(info, fs.Body, k, fs.Body.Pos(), fs.Body.End(), nil) {
		return nil
	}
	return k
}

// c38GivenBody: the body of the parameter loop (k = index variable, v = value variable; either may be nil).
func (c *Ctx) c38GivenBody(info *types.Info, body *ast.BlockStmt, params, keyObj, valObj types.Object) (types.Object, string, bool) {
	var tgt types.Object
	n := 0
	why := ""
	isV := false
	var convObj types.Object
	walkStack(body, func(nd ast.Node, st []ast.Node) bool {
		if as, ok := nd.(*ast.AssignStmt); ok && len(as.Rhs) == 1 && len(as.Lhs) == 2 {
			if call, ok := unparen(as.Rhs[0]).(*ast.CallExpr); ok && callIs(info, call, mx("lang/types"), "", "ConvertGoType") && len(call.Args) == 2 {
				a := unparen(call.Args[0])
				okArg := c38IsObj(info, a, valObj)
				if ix, ok := a.(*ast.IndexExpr); ok && c38IsObj(info, ix.X, params) && c38IsObj(info, ix.Index, keyObj) {
					okArg = true
				}
				if !okArg {
					why = "the parameter loop converts " + c.src(a) + " instead of the parameter of the current iteration: a given element is replaced by another"
					isV = true
				}
				if id, ok := as.Lhs[0].(*ast.Ident); ok {
					convObj = info.ObjectOf(id)
				}
			}
		}
		s, ok := nd.(ast.Stmt)
		if !ok {
			return true
		}
		o, x, ok := c38AppendStmt(info, s)
		if !ok {
			return true
		}
		n++
		tgt = o
		okX := c38IsObj(info, x, convObj) || c38IsObj(info, x, valObj)
		if ix, ok := x.(*ast.IndexExpr); ok && c38IsObj(info, ix.X, params) && c38IsObj(info, ix.Index, keyObj) {
			okX = true
		}
		if !okX {
			why = "the parameter loop appends " + c.src(x) + ", not the (converted) parameter of the current iteration"
			isV = true
		}
		for _, f := range factsOf(guardsAt(info, st)) {
			if b, ok := unparen(f.E).(*ast.BinaryExpr); ok && b.Op == token.NEQ && !f.True {
				if id, ok := unparen(b.Y).(*ast.Ident); ok {
					if _, isNil := info.ObjectOf(id).(*types.Nil); isNil {
						continue
					}
				}
			}
			why = "the parameter loop appends only when `" + c.src(f.E) + "` is " + map[bool]string{true: "true", false: "false"}[f.True] + ": some given elements are not added"
			isV = true
		}
		return true
	})
	if n != 1 && why == "" {
		why = fmt.Sprintf("the parameter loop has %d append statements, expected 1", n)
		isV = true
	}
	if why != "" {
		return nil, why, isV
	}
	return tgt, "", false
}

// ================================================================= R38d exactly one write per element

// c38WriteCount: (min,max) number of array-writer writes on a path through the statements.
func c38WriteCount(info *types.Info, list []ast.Stmt) (int, int, bool) {
	mn, mx := 0, 0
	for _, s := range list {
		a, b, ok := c38WriteCountStmt(info, s)
		if !ok {
			return 0, 0, false
		}
		mn += a
		mx += b
	}
	return mn, mx, true
}

func c38WriteCountStmt(info *types.Info, s ast.Stmt) (int, int, bool) {
	countIn := func(n ast.Node) int {
		k := 0
		if n == nil {
			return 0
		}
		for _, call := range calls(n, false) {
			if c38IsAWWrite(info, call) {
				k++
			}
		}
		return k
	}
	switch x := s.(type) {
	case *ast.IfStmt:
		k := countIn(x.Init) + countIn(x.Cond)
		a1, b1, ok := c38WriteCount(info, x.Body.List)
		if !ok {
			return 0, 0, false
		}
		a2, b2 := 0, 0
		if x.Else != nil {
			switch e := x.Else.(type) {
			case *ast.BlockStmt:
				a2, b2, ok = c38WriteCount(info, e.List)
			case *ast.IfStmt:
				a2, b2, ok = c38WriteCountStmt(info, e)
			}
			if !ok {
				return 0, 0, false
			}
		}
		mn, mx := a1, b1
		if a2 < mn {
			mn = a2
		}
		if b2 > mx {
			mx = b2
		}
		return k + mn, k + mx, true
	case *ast.BlockStmt:
		return c38WriteCount(info, x.List)
	case *ast.SwitchStmt:
		mn, mx := 1<<30, 0
		hasDefault := false
		for _, cs := range x.Body.List {
			cc := cs.(*ast.CaseClause)
			if cc.List == nil {
				hasDefault = true
			}
			a, b, ok := c38WriteCount(info, cc.Body)
			if !ok {
				return 0, 0, false
			}
			if a < mn {
				mn = a
			}
			if b > mx {
				mx = b
			}
		}
		if !hasDefault || mn == 1<<30 {
			mn = 0
		}
		return mn, mx, true
	case *ast.ForStmt, *ast.RangeStmt, *ast.SelectStmt, *ast.TypeSwitchStmt, *ast.LabeledStmt, *ast.GoStmt, *ast.DeferStmt:
		if countIn(s) > 0 {
			return 0, 0, false // writes under a loop/other construct: not counted by this rule
		}
		return 0, 0, true
	case *ast.ReturnStmt:
		// an early return inside the callback ends the path; treat conservatively: only allowed
		// when no write can follow (handled by caller through min/max of the enclosing if)
		return countIn(s), countIn(s), true
	default:
		k := countIn(s)
		return k, k, true
	}
}

func (c *Ctx) c38PerElement(pk *packages.Package, reg map[string]*ast.FuncDecl) {
	const R = "R38d"
	c.Rule(R, "left, right, prefix, suffix and list.case (method form): every path through each p.Stdin.ReadArray callback performs exactly one ArrayWriter.Write/WriteString (no element added or dropped); the ArrayWriter comes from p.Stdout.WriteArray(dt) with dt = p.Stdin.GetDataType(); the function's normal return is aw.Close()")
	info := pk.TypesInfo
	seen := map[*ast.FuncDecl]bool{}
	nCB := 0
	for _, name := range []string{"left", "right", "prefix", "suffix", "list.case"} {
		fd := c.c38Handler(R, reg, name)
		if fd == nil {
			continue
		}
		// follow thin wrappers: a handler that only returns a call of a package-local function
		// which holds the callbacks (cmdPrefix -> cmdFix, cmdCase -> caseMethod)
		targets := []*ast.FuncDecl{fd}
		if len(c38Callbacks(info, fd, "ReadArray")) == 0 {
			targets = nil
			for _, call := range calls(fd.Body, false) {
				o := callee(info, call)
				if o == nil || o.Pkg() != pk.Types {
					continue
				}
				eachFunc(pk, func(d *ast.FuncDecl) {
					if info.Defs[d.Name] == o && len(c38Callbacks(info, d, "ReadArray")) > 0 {
						targets = append(targets, d)
					}
				})
			}
		}
		if len(targets) == 0 {
			c.Undecided(R, name+":callbacks", fd.Pos(), "`%s`: no p.Stdin.ReadArray callback found in its handler or in a package-local function the handler calls", name)
			continue
		}
		for _, t := range targets {
			if seen[t] {
				continue
			}
			seen[t] = true
			fn := t.Name.Name
			for i, cb := range c38Callbacks(info, t, "ReadArray") {
				nCB++
				key := fmt.Sprintf("%s:callback#%d:one-write", fn, i+1)
				mn, mx, ok := c38WriteCount(info, cb.lit.Body.List)
				switch {
				case !ok:
					c.Undecided(R, key, cb.lit.Pos(), "%s: the callback writes inside a loop or other construct this rule does not count", fn)
				case mn == 1 && mx == 1:
					c.OK(R, key, cb.lit.Pos(), "exactly one write per element on every path")
				case mn == 0:
					c.Viol(R, key, cb.lit.Pos(), "%s: some path through the callback writes nothing: that input element is dropped from the output (writes per element: min %d, max %d)", fn, mn, mx)
				default:
					c.Viol(R, key, cb.lit.Pos(), "%s: some path through the callback writes %d elements for one input element: elements are added", fn, mx)
				}
			}
			// array writer origin and Close
			var aw, dt types.Object
			ast.Inspect(t.Body, func(n ast.Node) bool {
				as, ok := n.(*ast.AssignStmt)
				if !ok || len(as.Rhs) != 1 {
					return true
				}
				call, ok := unparen(as.Rhs[0]).(*ast.CallExpr)
				if !ok {
					return true
				}
				se, ok := call.Fun.(*ast.SelectorExpr)
				if !ok {
					return true
				}
				if se.Sel.Name == "WriteArray" && isField(info, se.X, c38ProcT, "Stdout") && len(as.Lhs) == 2 && len(call.Args) == 1 {
					if id, ok := as.Lhs[0].(*ast.Ident); ok {
						aw = info.ObjectOf(id)
					}
					if id, ok := unparen(call.Args[0]).(*ast.Ident); ok {
						dt = info.ObjectOf(id)
					}
				}
				return true
			})
			dtOK := false
			if dt != nil {
				ast.Inspect(t.Body, func(n ast.Node) bool {
					as, ok := n.(*ast.AssignStmt)
					if !ok || len(as.Lhs) != 1 || len(as.Rhs) != 1 || !c38IsObj(info, as.Lhs[0], dt) {
						return true
					}
					if call, ok := unparen(as.Rhs[0]).(*ast.CallExpr); ok {
						if se, ok := call.Fun.(*ast.SelectorExpr); ok && se.Sel.Name == "GetDataType" && isField(info, se.X, c38ProcT, "Stdin") {
							dtOK = true
						}
					}
					return true
				})
			}
			c.Check(aw != nil && dtOK, R, fn+":writer", t.Pos(), "%s writes through p.Stdout.WriteArray(dt) with dt = p.Stdin.GetDataType() (another type re-encodes the elements in a different array format)", fn)
			// after the last read, every return is `return aw.Close()` unless p.HasCancelled() is known to hold
			// there (the cancelled path gives up the output), and the function cannot run off its end otherwise
			closeOK := false
			if aw != nil && len(t.Body.List) > 0 {
				var lastRead token.Pos
				for _, cb := range c38Callbacks(info, t, "ReadArray") {
					if cb.call.End() > lastRead {
						lastRead = cb.call.End()
					}
				}
				nClose, nBad := 0, 0
				walkStack(t.Body, func(n ast.Node, st []ast.Node) bool {
					if _, ok := n.(*ast.FuncLit); ok {
						return false
					}
					rs, ok := n.(*ast.ReturnStmt)
					if !ok || rs.Pos() < lastRead {
						return true
					}
					if len(rs.Results) == 1 {
						if call, ok := unparen(rs.Results[0]).(*ast.CallExpr); ok {
							if se, ok := call.Fun.(*ast.SelectorExpr); ok && se.Sel.Name == "Close" && c38IsObj(info, se.X, aw) {
								nClose++
								return true
							}
						}
					}
					// …or the failure path: `return err` where err != nil is known (the read itself failed)
					cancelled := false
					var retObj types.Object
					if len(rs.Results) == 1 {
						if id, ok := unparen(rs.Results[0]).(*ast.Ident); ok {
							retObj = info.ObjectOf(id)
						}
					}
					for _, f := range factsOf(guardsAt(info, st)) {
						if call, ok := unparen(f.E).(*ast.CallExpr); ok && f.True && callIs(info, call, mx("lang"), "Process", "HasCancelled") {
							cancelled = true
						}
						if be, ok := unparen(f.E).(*ast.BinaryExpr); ok && retObj != nil && ((be.Op == token.NEQ && f.True) || (be.Op == token.EQL && !f.True)) {
							for _, pr := range [][2]ast.Expr{{be.X, be.Y}, {be.Y, be.X}} {
								if tv, ok := info.Types[pr[1]]; ok && tv.IsNil() && c38IsObj(info, pr[0], retObj) {
									cancelled = true
								}
							}
						}
					}
					if !cancelled {
						nBad++
					}
					return true
				})
				_, endsInReturn := t.Body.List[len(t.Body.List)-1].(*ast.ReturnStmt)
				closeOK = nClose > 0 && nBad == 0 && endsInReturn
			}
			c.Check(closeOK, R, fn+":close", t.Pos(), "%s ends with `return aw.Close()` (without it buffered elements / the closing bracket are never written)", fn)
		}
	}
	c.MinCount(R, "per-element ReadArray callbacks", nCB, 8)
}

// ================================================================= R38e bounds table by small-scope evaluation

type c38Model struct {
	N       int64
	fix     []int64
	elems   [][]int64
	isNot   bool
	out     [][]int64
	closed  int
	aborted bool
}

// c38ModelBytes: the bytes of a model slice value.
func c38ModelBytes(v c38V) []byte {
	b := make([]byte, 0, v.length())
	for i := v.lo; i < v.hi; i++ {
		b = append(b, byte(v.arr.cells[i]))
	}
	return b
}

// c38Chars / c38FromChars: an element as characters (the unit `left`/`right` count in) and back.
func c38Chars(e []int64) []rune {
	b := make([]byte, len(e))
	for i := range e {
		b[i] = byte(e[i])
	}
	return []rune(string(b))
}

func c38FromChars(r []rune) []int64 {
	var out []int64
	for _, b := range []byte(string(r)) {
		out = append(out, int64(b))
	}
	return out
}

func c38ElemOfLen(l int) []int64 {
	b := make([]int64, l)
	for i := range b {
		b[i] = int64(97 + i) // 'a', 'b', ... distinct ASCII bytes
	}
	return b
}

// c38ListsHook: contract summaries of the Process / stdio API used by the per-element builtins.
func (c *Ctx) c38ListsHook(m *c38Model) c38Hook {
	return func(ev *c38Eval, call *ast.CallExpr, env *c38Env) (c38V, bool) {
		info := ev.info
		o := callee(info, call)
		if o == nil {
			return c38V{}, false
		}
		tup := func(v ...c38V) c38V { return c38V{k: c38Tuple, tup: v} }
		// field of func type: p.Done()
		if v, ok := o.(*types.Var); ok && v.IsField() && v.Name() == "Done" {
			m.aborted = true
			return tup(), true
		}
		fn, ok := o.(*types.Func)
		if !ok || o.Pkg() == nil {
			return c38V{}, false
		}
		sig := fn.Type().(*types.Signature)
		recv := ""
		if sig.Recv() != nil {
			recv = namedPath(sig.Recv().Type())
		}
		full := recv + "." + o.Name()
		if recv == "" {
			full = o.Pkg().Path() + "." + o.Name()
		}
		switch full {
		case mx("lang/stdio") + ".Io.GetDataType":
			return c38OpaqueV("dt"), true
		case mx("lang/stdio") + ".Io.SetDataType":
			return tup(), true
		case mx("lang") + ".Process.ErrIfNotAMethod":
			return c38NilV(), true
		case mx("lang") + ".Process.HasCancelled":
			return c38BoolV(m.aborted), true
		case mx("lang/parameters") + ".Parameters.Int":
			return tup(c38IntV(m.N), c38NilV()), true
		case mx("lang/parameters") + ".Parameters.ByteAll":
			return c38BytesV(m.fix), true
		case mx("lang/stdio") + ".Io.WriteArray":
			return tup(c38OpaqueV("aw"), c38NilV()), true
		case mx("lang/stdio") + ".Io.ForceClose":
			m.aborted = true
			return tup(), true
		case mx("lang/stdio") + ".Io.ReadArray":
			if len(call.Args) != 2 {
				return c38V{}, false
			}
			cl := ev.eval(call.Args[1], env)
			if cl.k != c38Closure {
				return c38V{}, false
			}
			for _, e := range m.elems {
				if m.aborted {
					break
				}
				ev.callClosure(cl, []c38V{c38BytesV(e)})
			}
			return c38NilV(), true
		case mx("lang/stdio") + ".ArrayWriter.Write", mx("lang/stdio") + ".ArrayWriter.WriteString":
			v := ev.eval(call.Args[0], env)
			if v.k != c38Slice {
				return c38V{}, false
			}
			m.out = append(m.out, v.bytes())
			return c38NilV(), true
		case mx("lang/stdio") + ".ArrayWriter.Close":
			m.closed++
			return c38NilV(), true
		// UTF-8 helpers: the Go standard library is called by the checker on the model bytes
		case "unicode/utf8.DecodeRune", "unicode/utf8.DecodeRuneInString":
			v := ev.eval(call.Args[0], env)
			if v.k != c38Slice {
				return c38V{}, false
			}
			r, size := utf8.DecodeRune(c38ModelBytes(v))
			return tup(c38IntV(int64(r)), c38IntV(int64(size))), true
		case "unicode/utf8.DecodeLastRune", "unicode/utf8.DecodeLastRuneInString":
			v := ev.eval(call.Args[0], env)
			if v.k != c38Slice {
				return c38V{}, false
			}
			r, size := utf8.DecodeLastRune(c38ModelBytes(v))
			return tup(c38IntV(int64(r)), c38IntV(int64(size))), true
		case "unicode/utf8.RuneCount", "unicode/utf8.RuneCountInString":
			v := ev.eval(call.Args[0], env)
			if v.k != c38Slice {
				return c38V{}, false
			}
			return c38IntV(int64(utf8.RuneCount(c38ModelBytes(v)))), true
		}
		return c38V{}, false
	}
}

func c38FmtBytes(b []int64) string {
	var sb strings.Builder
	sb.WriteByte('"')
	for _, x := range b {
		switch {
		case x == -1:
			sb.WriteString("\\0")
		case x >= 32 && x < 127:
			sb.WriteByte(byte(x))
		default:
			fmt.Fprintf(&sb, "\\x%02x", x)
		}
	}
	sb.WriteByte('"')
	return sb.String()
}

func c38EqBytes(a, b []int64) bool {
	if len(a) != len(b) {
		return false
	}
	for i := range a {
		if a[i] != b[i] {
			return false
		}
	}
	return true
}

// c38RunBuiltin evaluates handler fd on model m; returns ("", "") or (undecidedMsg, violMsg).
func (c *Ctx) c38RunBuiltin(pk *packages.Package, fd *ast.FuncDecl, m *c38Model) (string, string) {
	ev := c.c38NewEval(pk, c.c38ListsHook(m))
	env := c38NewEnv(nil)
	for _, f := range fd.Type.Params.List {
		for _, n := range f.Names {
			env.define(pk.TypesInfo.ObjectOf(n), c38OpaqueV("p"))
		}
	}
	var named []types.Object
	if fd.Type.Results != nil {
		for _, f := range fd.Type.Results.List {
			for _, n := range f.Names {
				o := pk.TypesInfo.ObjectOf(n)
				env.define(o, c38NilV())
				named = append(named, o)
			}
		}
	}
	var ret c38V
	failMsg, panicMsg := ev.run(func() {
		ev.ret = c38V{}
		ctl := ev.block(fd.Body.List, env)
		ret = ev.ret
		if ctl == c38Return && ret.k == c38Tuple && len(ret.tup) == 0 && len(named) == 1 {
			ret = *env.lookup(named[0])
		}
	})
	if failMsg != "" {
		return failMsg, ""
	}
	if panicMsg != "" {
		return "", panicMsg
	}
	if ret.k != c38Nil {
		return "", "returns a non-nil error / no result on a well-formed input"
	}
	if m.aborted {
		return "", "cancels the pipeline (ForceClose/Done) although no write failed"
	}
	if m.closed != 1 {
		return "", fmt.Sprintf("closes the array writer %d times on the normal path, expected once", m.closed)
	}
	return "", ""
}

func (c *Ctx) c38Bounds(pk *packages.Package, reg map[string]*ast.FuncDecl) {
	const R = "R38e"
	c.Rule(R, "small-scope table (elements of 0..5 distinct ASCII bytes plus six elements with 2- and 3-byte UTF-8 characters, count N in -7..7 CHARACTERS, affix length 0..3; stdio API replaced by contract summaries): `left N` writes e[:min(N,len)] for N>0, e[:max(len+N,0)] for N<0, \"\" for N=0; `right N` writes e[len-min(N,len):] for N>0, e[min(-N,len):] for N<0, \"\" for N=0; `prefix s` writes s·e and `suffix s` writes e·s — one output per input element, in order, without a modelled panic (index/slice out of range)")
	var elems [][]int64
	for l := 0; l <= 5; l++ {
		elems = append(elems, c38ElemOfLen(l))
	}
	// multi-byte characters (2- and 3-byte UTF-8 sequences, alone and mixed with ASCII): the counts are
	// characters, so the byte offsets differ from the counts
	for _, t := range []string{"é", "aé", "éa", "日本", "a日éb", "éé日"} {
		var e []int64
		for _, b := range []byte(t) {
			e = append(e, int64(b))
		}
		elems = append(elems, e)
	}
	minI := func(a, b int) int {
		if a < b {
			return a
		}
		return b
	}
	maxI := func(a, b int) int {
		if a > b {
			return a
		}
		return b
	}
	type spec struct {
		name string
		want func(e []int64, n int) []int64
	}
	for _, sp := range []spec{
		{"left", func(eb []int64, n int) []int64 {
			e := c38Chars(eb)
			l := len(e)
			switch {
			case n > 0:
				return c38FromChars(e[:minI(n, l)])
			case n < 0:
				return c38FromChars(e[:maxI(l+n, 0)])
			}
			return nil
		}},
		{"right", func(eb []int64, n int) []int64 {
			e := c38Chars(eb)
			l := len(e)
			switch {
			case n > 0:
				return c38FromChars(e[l-minI(n, l):])
			case n < 0:
				return c38FromChars(e[minI(-n, l):])
			}
			return nil
		}},
	} {
		fd := c.c38Handler(R, reg, sp.name)
		if fd == nil {
			continue
		}
		key := sp.name + ":table"
		und, viol := "", ""
		cases := 0
		for n := -7; n <= 7 && und == "" && viol == ""; n++ {
			m := &c38Model{N: int64(n), elems: elems}
			u, v := c.c38RunBuiltin(pk, fd, m)
			if u != "" {
				und = u
				break
			}
			if v != "" {
				viol = fmt.Sprintf("`%s %d`: %s", sp.name, n, v)
				break
			}
			if len(m.out) != len(elems) {
				viol = fmt.Sprintf("`%s %d` on %d elements writes %d elements: elements are added or dropped", sp.name, n, len(elems), len(m.out))
				break
			}
			for i, e := range elems {
				cases++
				w := sp.want(e, n)
				if !c38EqBytes(m.out[i], w) {
					viol = fmt.Sprintf("`%s %d` on element %s writes %s, documented result is %s", sp.name, n, c38FmtBytes(e), c38FmtBytes(m.out[i]), c38FmtBytes(w))
					break
				}
			}
		}
		switch {
		case und != "":
			c.Undecided(R, key, fd.Pos(), "`%s`: handler is outside the evaluated subset: %s", sp.name, und)
		case viol != "":
			c.Viol(R, key, fd.Pos(), "%s", viol)
		default:
			c.OK(R, key, fd.Pos(), "%d (element, count) cases agree with the documented substring", cases)
		}
	}
	for _, sp := range []struct {
		name string
		pre  bool
	}{{"prefix", true}, {"suffix", false}} {
		fd := c.c38Handler(R, reg, sp.name)
		if fd == nil {
			continue
		}
		key := sp.name + ":table"
		und, viol := "", ""
		cases := 0
		for fl := 0; fl <= 3 && und == "" && viol == ""; fl++ {
			fix := make([]int64, fl)
			for i := range fix {
				fix[i] = int64(48 + i) // '0','1','2'
			}
			m := &c38Model{fix: fix, elems: elems}
			u, v := c.c38RunBuiltin(pk, fd, m)
			if u != "" {
				und = u
				break
			}
			if v != "" {
				viol = fmt.Sprintf("`%s %s`: %s", sp.name, c38FmtBytes(fix), v)
				break
			}
			if len(m.out) != len(elems) {
				viol = fmt.Sprintf("`%s` on %d elements writes %d elements: elements are added or dropped", sp.name, len(elems), len(m.out))
				break
			}
			for i, e := range elems {
				cases++
				var w []int64
				if sp.pre {
					w = append(append(w, fix...), e...)
				} else {
					w = append(append(w, e...), fix...)
				}
				if !c38EqBytes(m.out[i], w) {
					viol = fmt.Sprintf("`%s %s` on element %s writes %s, expected %s", sp.name, c38FmtBytes(fix), c38FmtBytes(e), c38FmtBytes(m.out[i]), c38FmtBytes(w))
					break
				}
			}
		}
		switch {
		case und != "":
			c.Undecided(R, key, fd.Pos(), "`%s`: handler is outside the evaluated subset: %s", sp.name, und)
		case viol != "":
			c.Viol(R, key, fd.Pos(), "%s", viol)
		default:
			c.OK(R, key, fd.Pos(), "%d (element, affix) cases agree with the concatenation", cases)
		}
	}
}

// ================================================================= R38f characters vs bytes

func (c *Ctx) c38Chars(pk *packages.Package, reg map[string]*ast.FuncDecl) {
	const R = "R38f"
	c.Rule(R, "left/right document their parameter as a number of CHARACTERS: the count (the value of p.Parameters.Int) must not appear in the bounds of a slice expression taken directly on the element's UTF-8 bytes ([]byte/string); it has to go through []rune or utf8 offsets, otherwise a multi-byte character is cut in the middle and the element becomes invalid text")
	info := pk.TypesInfo
	for _, name := range []string{"left", "right"} {
		fd := c.c38Handler(R, reg, name)
		if fd == nil {
			continue
		}
		// the count variable
		var cnt types.Object
		ast.Inspect(fd.Body, func(n ast.Node) bool {
			as, ok := n.(*ast.AssignStmt)
			if !ok || len(as.Rhs) != 1 || len(as.Lhs) != 2 {
				return true
			}
			if call, ok := unparen(as.Rhs[0]).(*ast.CallExpr); ok && callIs(info, call, mx("lang/parameters"), "Parameters", "Int") {
				if id, ok := as.Lhs[0].(*ast.Ident); ok {
					cnt = info.ObjectOf(id)
				}
			}
			return true
		})
		key := name + ":count-as-byte-index"
		if cnt == nil {
			c.Undecided(R, key, fd.Pos(), "`%s`: no `n, err := p.Parameters.Int(…)` found: cannot identify the character count", name)
			continue
		}
		var sites []string
		var first token.Pos
		ast.Inspect(fd.Body, func(n ast.Node) bool {
			se, ok := n.(*ast.SliceExpr)
			if !ok {
				return true
			}
			t := info.TypeOf(se.X)
			if t == nil {
				return true
			}
			isBytes := false
			switch u := t.Underlying().(type) {
			case *types.Slice:
				if b, ok := u.Elem().Underlying().(*types.Basic); ok && b.Kind() == types.Uint8 {
					isBytes = true
				}
			case *types.Basic:
				isBytes = u.Info()&types.IsString != 0
			}
			if !isBytes {
				return true
			}
			uses := false
			for _, b := range []ast.Expr{se.Low, se.High} {
				if b != nil && c38MentionsArith(info, b, cnt) {
					uses = true
				}
			}
			if uses {
				sites = append(sites, c.src(se))
				if !first.IsValid() {
					first = se.Pos()
				}
			}
			return true
		})
		if len(sites) == 0 {
			c.OK(R, key, fd.Pos(), "`%s` does not index the element's bytes by the character count", name)
		} else {
			c.Viol(R, key, first, "`%s` slices the element's UTF-8 bytes at the user's character count (%s): an element starting/ending with a multi-byte character is cut inside the character (`%%[é] -> %s 1` outputs \"\\ufffd\" instead of \"é\")", name, strings.Join(sites, ", "), name)
		}
	}
}

// c38MentionsArith: obj occurs in e as an operand of the bound's own arithmetic, i.e. not merely as an
// argument of a call that computes an offset from it (leftChars(b, n), utf8 helpers …).
func c38MentionsArith(info *types.Info, e ast.Expr, obj types.Object) bool {
	found := false
	ast.Inspect(e, func(n ast.Node) bool {
		if found {
			return false
		}
		switch x := n.(type) {
		case *ast.CallExpr:
			if tv, ok := info.Types[x.Fun]; ok && tv.IsType() {
				return true // conversion: int(n) is still the count
			}
			if id, ok := unparen(x.Fun).(*ast.Ident); ok {
				if _, isB := info.Uses[id].(*types.Builtin); isB {
					return true // min(n, len(b)), max(…): still the count used as a byte offset
				}
			}
			return false
		case *ast.Ident:
			if info.ObjectOf(x) == obj {
				found = true
			}
		}
		return true
	})
	return found
}
