package main

import (
	"flag"
	"fmt"
	"go/token"
	"os"
	"path/filepath"
	"sort"
	"strings"
	"time"

	"golang.org/x/tools/go/packages"
)

// props maps a property id to the function that runs its rules.
var props = map[string]func(c *Ctx){}

// explanations: per property, which clause is decided and which is not.
var explanations = map[string]string{}

func register(id, explanation string, f func(c *Ctx)) {
	props[id] = f
	explanations[id] = explanation
}

func main() {
	repo := flag.String("repo", "/repo", "path of the murex tree to analyse")
	verif := flag.String("verif", "", "verif directory (default: parent of the checker binary's dir)")
	explain := flag.String("explain", "", "print the full report (replay)")
	overlay := flag.String("overlay", "", "self-test: comma separated list of <file in repo>=<replacement file>; the replacement is analysed instead of the file on disk")
	noev := flag.Bool("noevidence", false, "self-test: do not write evidence/report files")
	flag.Usage = func() {
		fmt.Fprintf(os.Stderr, "usage: murexlint [flags] <property|list> [quick|thorough]\n")
		flag.PrintDefaults()
	}
	flag.Parse()
	args := flag.Args()
	if len(args) < 1 {
		flag.Usage()
		os.Exit(2)
	}
	if args[0] == "list" {
		var ids []string
		for id := range props {
			ids = append(ids, id)
		}
		sort.Strings(ids)
		for _, id := range ids {
			fmt.Println(id)
		}
		return
	}
	tier := "quick"
	if len(args) > 1 {
		tier = args[1]
	}
	if t := os.Getenv("VERIF_TIER"); t != "" && len(args) < 2 {
		tier = t
	}
	if tier != "quick" && tier != "thorough" {
		fatal("tier must be quick or thorough")
	}
	f, ok := props[args[0]]
	if !ok {
		fatal("unknown property %s", args[0])
	}
	vd := *verif
	if vd == "" {
		exe, _ := os.Executable()
		vd = filepath.Dir(filepath.Dir(exe))
	}
	abs, _ := filepath.Abs(*repo)
	c := &Ctx{Prop: args[0], Tier: tier, Repo: abs, VerifD: vd, Fset: token.NewFileSet(),
		All: map[string]*packages.Package{}, start: time.Now(), Explain: *explain, NoEvidence: *noev}
	if *overlay != "" {
		c.Overlay = map[string][]byte{}
		for _, kv := range strings.Split(*overlay, ",") {
			p := strings.SplitN(kv, "=", 2)
			if len(p) != 2 {
				fatal("bad -overlay")
			}
			b, err := os.ReadFile(p[1])
			if err != nil {
				fatal("overlay: %v", err)
			}
			c.Overlay[filepath.Join(abs, p[0])] = b
		}
	}
	defer func() {
		if r := recover(); r != nil {
			fmt.Fprintf(os.Stderr, "checker panic: %v\n", r)
			panic(r)
		}
	}()
	f(c)
	os.Exit(c.Finish())
}
