package main

// R05h: see functionForkModeRule in c04x.go (registered here because extensions must be
// initialised after the property's own file, and files initialise in name order).
func init() {
	extend("C05", func(c *Ctx) { functionForkModeRule(c, "R05h") })
}
