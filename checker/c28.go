package main

import (
	"fmt"
	"go/ast"
	"go/constant"
	"go/token"
	"go/types"
	"sort"
	"strings"

	"golang.org/x/tools/go/ssa"
)

func init() {
	register("C28", "Decides structural necessary conditions of 'FIDs unique and released': the FID counter is only advanced by atomic.AddUint32 and a process Id is only stored from that result (or copied from the parent for a fork that shares its parent's entry); the FID table is accessed under its mutex; and a typestate rule over every Process.Fork call site of the module: a fork whose flags register a FID reaches a discharging call (Execute, deregisterProcess/destroyProcess, GlobalFIDs.Deregister, or Kill for non-function forks) on every path to the function's exit, unless the fork value escapes the function. Does NOT decide the asynchronous timing of deregistration ('session is quiet') nor forks whose value escapes.", runC28)
}

var funcIDT = mx("lang") + ".funcID"

func runC28(c *Ctx) {
	c.Load("./...")
	pk := c.Pkg("lang")
	info := pk.TypesInfo

	c.Rule("R28L", "E1 lockset: funcID.list is accessed only with funcID.mutex held")
	n := c.runLockset("R28L", LockSpec{Pkg: "lang", Type: "funcID", Mutex: "mutex", Fields: []string{"list"}})
	c.MinCount("R28L", "guarded accesses to funcID.list", n, 6)

	c.Rule("R28a", "uniqueness: funcID.latest is modified only by atomic.AddUint32(&f.latest, 1) and never stored directly; Register stores the returned value as the table key and as Process.Id; outside Register, Process.Id is only assigned from another process's Id under F_PARENT_VARTABLE in Process.Fork (shared entry) or in the shell-process bootstrap")
	nLatest := 0
	for _, p := range c.MurexPkgs() {
		pinfo := p.TypesInfo
		eachFunc(p, func(fd *ast.FuncDecl) {
			ast.Inspect(fd.Body, func(nd ast.Node) bool {
				switch s := nd.(type) {
				case *ast.AssignStmt:
					for _, l := range s.Lhs {
						if isField(pinfo, l, funcIDT, "latest") {
							nLatest++
							c.Viol("R28a", "latest:store@"+fd.Name.Name, s.Pos(), "direct store to the FID counter (%s): two processes can get the same FID", c.src(s))
						}
					}
				case *ast.IncDecStmt:
					if isField(pinfo, s.X, funcIDT, "latest") {
						nLatest++
						c.Viol("R28a", "latest:incdec@"+fd.Name.Name, s.Pos(), "non-atomic update of the FID counter")
					}
				case *ast.CallExpr:
					o := callee(pinfo, s)
					if o == nil || o.Pkg() == nil || o.Pkg().Path() != "sync/atomic" || len(s.Args) == 0 {
						return true
					}
					u, ok := unparen(s.Args[0]).(*ast.UnaryExpr)
					if !ok || u.Op != token.AND || !isField(pinfo, u.X, funcIDT, "latest") {
						return true
					}
					if strings.HasPrefix(o.Name(), "Load") {
						return true
					}
					nLatest++
					good := o.Name() == "AddUint32" && len(s.Args) == 2
					if good {
						d, isC := constInt(pinfo, s.Args[1])
						good = isC && d == 1
					}
					c.Check(good, "R28a", "latest:"+o.Name()+"@"+fd.Name.Name, s.Pos(), "FID counter advanced by atomic.AddUint32(&latest, 1)")
				}
				return true
			})
		})
	}
	c.MinCount("R28a", "updates of the FID counter", nLatest, 1)
	if fd, _ := c.MustFunc("R28a", "lang", "funcID", "Register"); fd != nil {
		// fid = atomic.AddUint32(...); list[fid] = p; p.Id = fid
		res := resultNames(fd)
		var fidObj types.Object
		if len(res) == 1 && res[0] != "" {
			fidObj = info.Defs[fd.Type.Results.List[0].Names[0]]
		} else if len(res) == 1 {
			// unnamed result: the one local every return statement returns (`fid := atomic.AddUint32(…); …; return fid`)
			ast.Inspect(fd.Body, func(nd ast.Node) bool {
				if _, isLit := nd.(*ast.FuncLit); isLit {
					return false
				}
				if rs, ok := nd.(*ast.ReturnStmt); ok && len(rs.Results) == 1 {
					if id, ok := unparen(rs.Results[0]).(*ast.Ident); ok {
						fidObj = info.ObjectOf(id)
					}
				}
				return true
			})
		}
		defs := localDefs(info, fd)
		fromAtomic := false
		if fidObj != nil && len(defs[fidObj]) == 1 && defs[fidObj][0] != nil {
			if call, ok := unparen(defs[fidObj][0]).(*ast.CallExpr); ok {
				if o := callee(info, call); o != nil && o.Pkg() != nil && o.Pkg().Path() == "sync/atomic" && o.Name() == "AddUint32" {
					fromAtomic = true
				}
			}
		}
		keyOK, idOK := false, false
		ast.Inspect(fd.Body, func(nd ast.Node) bool {
			as, ok := nd.(*ast.AssignStmt)
			if !ok || len(as.Lhs) != 1 || len(as.Rhs) != 1 {
				return true
			}
			if ix, ok := unparen(as.Lhs[0]).(*ast.IndexExpr); ok && isField(info, ix.X, funcIDT, "list") {
				if id, ok := unparen(ix.Index).(*ast.Ident); ok && info.ObjectOf(id) == fidObj {
					if v, ok := unparen(as.Rhs[0]).(*ast.Ident); ok && isParam(info, fd, v) {
						keyOK = true
					}
				}
			}
			if se, ok := as.Lhs[0].(*ast.SelectorExpr); ok && se.Sel.Name == "Id" {
				if v, ok := unparen(as.Rhs[0]).(*ast.Ident); ok && info.ObjectOf(v) == fidObj {
					idOK = true
				}
			}
			return true
		})
		c.Check(fromAtomic && keyOK && idOK, "R28a", "Register:uses-fresh-fid", fd.Pos(), "Register: fid comes from the atomic add (%v), list[fid]=p (%v), p.Id=fid (%v), and fid is assigned once", fromAtomic, keyOK, idOK)
	}
	// stores to Process.Id across the module
	procT := mx("lang") + ".Process"
	nId := 0
	for _, p := range c.MurexPkgs() {
		pinfo := p.TypesInfo
		rel := relPkg(p.PkgPath)
		eachFunc(p, func(fd *ast.FuncDecl) {
			walkStack(fd.Body, func(nd ast.Node, stack []ast.Node) bool {
				as, ok := nd.(*ast.AssignStmt)
				if !ok {
					return true
				}
				for i, l := range as.Lhs {
					if !isField(pinfo, l, procT, "Id") {
						continue
					}
					nId++
					key := "Process.Id:store@" + funcKey(rel, fd)
					where := funcKey(rel, fd)
					switch {
					case where == "lang.(funcID).Register":
						c.OK("R28a", key, as.Pos(), "Id assigned in Register")
					case where == "lang.(Process).Fork":
						// fork.Id = p.Id under F_PARENT_VARTABLE
						okSrc := false
						if i < len(as.Rhs) && isField(pinfo, as.Rhs[i], procT, "Id") {
							okSrc = true
						}
						// under a test of the F_PARENT_VARTABLE bit that is known to have found it set (the test is
						// recognised by what it computes — see flagBitTest — not by its text)
						under := false
						fdefs := localDefs(pinfo, fd.Body)
						for _, f := range factsOf(guardsAt(pinfo, stack)) {
							if pol, ok := flagBitTest(pinfo, fdefs, f.E, c.forkFlagConsts()["F_PARENT_VARTABLE"]); ok && pol == f.True {
								under = true
							}
						}
						c.Check(okSrc && under, "R28a", key, as.Pos(), "Fork copies the parent's Id only in the F_PARENT_VARTABLE arm (a fork that shares its parent's table entry)")
					case where == "lang.InitEnv" || where == "lang.ShellProcess" || strings.HasSuffix(where, ".init"):
						c.OK("R28a", key, as.Pos(), "shell-process bootstrap")
					default:
						v := ""
						if i < len(as.Rhs) {
							v = c.src(as.Rhs[i])
						}
						// constant 0 / ShellFork bootstrap is the shell itself
						if k, ok := constInt(pinfo, as.Rhs[i]); ok && k == 0 {
							c.OK("R28a", key, as.Pos(), "Id := 0 (the shell's reserved FID)")
						} else {
							c.Viol("R28a", key, as.Pos(), "Process.Id is assigned %s outside Register/Fork: the FID may collide with one handed out by the counter", v)
						}
					}
				}
				return true
			})
		})
	}
	c.MinCount("R28a", "stores to Process.Id", nId, 2)

	c.Rule("R28b", "typestate: a Process.Fork whose constant flags register a FID (F_FUNCTION set, or F_PARENT_VARTABLE clear) reaches Execute / deregisterProcess / destroyProcess / GlobalFIDs.Deregister (or Kill, for non-F_FUNCTION forks) on every path from the call to the function's exits, unless the fork value escapes (returned, stored outside the function, passed whole to another function)")
	c.checkForkTypestate()

	c.Rule("R28d", "processes the try/trypipe schedulers skip or abort without ever starting are released: every skip arm and abort loop applies Stdout.Close, Stderr.Close and GlobalFIDs.Deregister to the same process index (compile registered them; nothing else will release them)")
	tryCleanupRule = "R28d"
	for _, name := range []string{"runModeTry", "runModeTryPipe"} {
		if fd, _ := c.MustFunc("R28d", "lang", "", name); fd != nil {
			c.checkTryCleanup(info, fd, "")
		}
	}
	tryCleanupRule = "R05e"

	c.Rule("R28c", "Execute releases what Fork registered: Fork.Execute defers deregisterProcess when fidRegistered; deregisterProcess calls GlobalFIDs.Deregister(p.Id); funcID.Deregister deletes the entry for the given fid")
	if fd, _ := c.MustFunc("R28c", "lang", "Fork", "Execute"); fd != nil {
		ok := false
		walkStack(fd.Body, func(nd ast.Node, stack []ast.Node) bool {
			d, isD := nd.(*ast.DeferStmt)
			if !isD || !callIs(info, d.Call, mx("lang"), "", "deregisterProcess") {
				return true
			}
			fs := factsOf(guardsAt(info, stack))
			if len(fs) == 1 {
				// fork.fidRegistered, possibly named by a single-definition local
				if se, isS := localDefs(info, fd.Body).resolve1(info, fs[0].E).(*ast.SelectorExpr); isS && se.Sel.Name == "fidRegistered" && fs[0].True {
					ok = true
				}
			}
			// must be at the top level of an if directly in the body (runs on every path after it)
			return true
		})
		c.Check(ok, "R28c", "Execute:defer-deregister", fd.Pos(), "Fork.Execute defers deregisterProcess(fork.Process) under exactly the condition fork.fidRegistered (no further condition)")
		// the defer precedes every return that can happen after Open()
		firstRet, deferPos := token.NoPos, token.NoPos
		for _, s := range fd.Body.List {
			ast.Inspect(s, func(x ast.Node) bool {
				if _, isLit := x.(*ast.FuncLit); isLit {
					return false
				}
				if r, isR := x.(*ast.ReturnStmt); isR && firstRet == token.NoPos {
					firstRet = r.Pos()
				}
				if d, isD := x.(*ast.DeferStmt); isD && callIs(info, d.Call, mx("lang"), "", "deregisterProcess") {
					deferPos = d.Pos()
				}
				return true
			})
		}
		c.Check(deferPos != token.NoPos && (firstRet == token.NoPos || deferPos < firstRet), "R28c", "Execute:defer-before-returns", fd.Pos(), "the deferred deregistration is installed before the first return of Execute (parse/compile errors also release the FID)")
	}
	if fd, _ := c.MustFunc("R28c", "lang", "", "deregisterProcess"); fd != nil {
		ok := false
		ddefs := localDefs(info, fd.Body)
		for _, call := range calls(fd.Body, true) {
			if callIs(info, call, mx("lang"), "funcID", "Deregister") && len(call.Args) == 1 {
				// p.Id, possibly read into a single-definition local first (`fid := p.Id; go func() { … Deregister(fid) }`)
				if se, isS := ddefs.resolve1(info, call.Args[0]).(*ast.SelectorExpr); isS && se.Sel.Name == "Id" {
					if id, isI := se.X.(*ast.Ident); isI && isParam(info, fd, id) {
						ok = true
					}
				}
			}
		}
		c.Check(ok, "R28c", "deregisterProcess:Deregister(p.Id)", fd.Pos(), "deregisterProcess removes its own process's FID")
	}
	if fd, _ := c.MustFunc("R28c", "lang", "funcID", "Deregister"); fd != nil {
		ok := false
		for _, call := range calls(fd.Body, false) {
			if dc, isD := isBuiltinCall(info, call, "delete"); isD && len(dc.Args) == 2 && isField(info, dc.Args[0], funcIDT, "list") {
				if id, isI := unparen(dc.Args[1]).(*ast.Ident); isI && isParam(info, fd, id) {
					ok = true
				}
			}
		}
		c.Check(ok, "R28c", "Deregister:delete(list, fid)", fd.Pos(), "funcID.Deregister deletes the entry of the fid it was given")
	}
	// Fork sets fidRegistered exactly where it registers
	if fd, _ := c.MustFunc("R28c", "lang", "Process", "Fork"); fd != nil {
		regs, flags := 0, 0
		walkStack(fd.Body, func(nd ast.Node, stack []ast.Node) bool {
			var list []ast.Stmt
			switch b := nd.(type) {
			case *ast.BlockStmt:
				list = b.List
			case *ast.CaseClause:
				list = b.Body
			}
			for i, s := range list {
				if es, isE := s.(*ast.ExprStmt); isE {
					if call, isC := es.X.(*ast.CallExpr); isC && callIs(info, call, mx("lang"), "funcID", "Register") {
						regs++
						// a statement of the same list (same arm, before or after the call: the two are independent)
						// sets fidRegistered = true
						_ = i
						for _, t := range list {
							if as, isA := t.(*ast.AssignStmt); isA && len(as.Lhs) == 1 {
								if se, isS := as.Lhs[0].(*ast.SelectorExpr); isS && se.Sel.Name == "fidRegistered" {
									if b, isB := constBool(info, as.Rhs[0]); isB && b {
										flags++
									}
								}
							}
						}
					}
				}
			}
			return true
		})
		c.Check(regs >= 2 && regs == flags, "R28c", "Fork:fidRegistered-pairs-Register", fd.Pos(), "every GlobalFIDs.Register in Process.Fork is followed by fidRegistered = true in the same arm (%d/%d)", flags, regs)
	}
}

// ------------------------------------------------------------------ typestate

type forkSite struct {
	fn    *ssa.Function
	call  *ssa.Call
	key   string
	flags []int64 // possible values (nil = unknown)
}

func (c *Ctx) forkFlagConsts() map[string]int64 {
	out := map[string]int64{}
	pk := c.Pkg("lang")
	sc := pk.Types.Scope()
	for _, n := range sc.Names() {
		if k, ok := sc.Lookup(n).(*types.Const); ok && strings.HasPrefix(n, "F_") {
			if v, ok := constant.Int64Val(k.Val()); ok {
				out[n] = v
			}
		}
	}
	return out
}

// possibleInts evaluates an SSA int value to its finite set of possible
// values (consts, |, phi); nil = unknown.
func possibleInts(v ssa.Value, depth int) []int64 {
	if depth > 6 {
		return nil
	}
	switch x := v.(type) {
	case *ssa.Const:
		if x.Value != nil && x.Value.Kind() == constant.Int {
			if i, ok := constant.Int64Val(x.Value); ok {
				return []int64{i}
			}
		}
		return nil
	case *ssa.BinOp:
		if x.Op == token.OR {
			a, b := possibleInts(x.X, depth+1), possibleInts(x.Y, depth+1)
			if a == nil || b == nil {
				return nil
			}
			var out []int64
			for _, i := range a {
				for _, j := range b {
					out = append(out, i|j)
				}
			}
			return out
		}
	case *ssa.Phi:
		var out []int64
		for _, e := range x.Edges {
			p := possibleInts(e, depth+1)
			if p == nil {
				return nil
			}
			out = append(out, p...)
		}
		return out
	case *ssa.Convert:
		return possibleInts(x.X, depth+1)
	case *ssa.ChangeType:
		return possibleInts(x.X, depth+1)
	}
	return nil
}

func (c *Ctx) checkForkTypestate() {
	prog := c.SSA()
	F := c.forkFlagConsts()
	fFunc, fParent := F["F_FUNCTION"], F["F_PARENT_VARTABLE"]
	if fFunc == 0 || fParent == 0 {
		c.Lost("R28b", "const:F_FUNCTION/F_PARENT_VARTABLE", "fork flag constants not found")
		return
	}
	langPk := c.Pkg("lang")
	forkObj, _, _ := types.LookupFieldOrMethod(types.NewPointer(langPk.Types.Scope().Lookup("Process").Type()), true, langPk.Types, "Fork")
	forkFn := prog.FuncValue(forkObj.(*types.Func))
	if forkFn == nil {
		c.Lost("R28b", "func:Process.Fork", "no SSA function for Process.Fork")
		return
	}
	var sites []*forkSite
	var all []*ssa.Function
	for _, p := range c.MurexPkgs() {
		sp := c.ssaPkgs[p.PkgPath]
		if sp == nil {
			continue
		}
		sp.Build()
		for _, m := range sp.Members {
			if fn, ok := m.(*ssa.Function); ok {
				all = append(all, fn)
			}
			if t, ok := m.(*ssa.Type); ok {
				for _, tt := range []types.Type{t.Type(), types.NewPointer(t.Type())} {
					ms := prog.MethodSets.MethodSet(tt)
					for i := 0; i < ms.Len(); i++ {
						if fn := prog.MethodValue(ms.At(i)); fn != nil && fn.Pkg == sp && fn.Synthetic == "" {
							all = append(all, fn)
						}
					}
				}
			}
		}
	}
	seen := map[*ssa.Function]bool{}
	var addAnon func(fn *ssa.Function)
	var fns []*ssa.Function
	addAnon = func(fn *ssa.Function) {
		if seen[fn] || fn.Blocks == nil {
			return
		}
		seen[fn] = true
		fns = append(fns, fn)
		for _, a := range fn.AnonFuncs {
			addAnon(a)
		}
	}
	for _, fn := range all {
		addAnon(fn)
	}
	counts := map[string]int{}
	for _, fn := range fns {
		for _, b := range fn.Blocks {
			for _, ins := range b.Instrs {
				call, ok := ins.(*ssa.Call)
				if !ok || call.Call.StaticCallee() != forkFn {
					continue
				}
				name := ssaFuncKey(fn)
				counts[name]++
				key := name
				if counts[name] > 1 {
					key = fmt.Sprintf("%s#%d", name, counts[name])
				}
				s := &forkSite{fn: fn, call: call, key: key}
				if len(call.Call.Args) == 2 {
					s.flags = possibleInts(call.Call.Args[1], 0)
				}
				sites = append(sites, s)
			}
		}
	}
	sort.Slice(sites, func(i, j int) bool { return sites[i].key < sites[j].key })
	nReg := 0
	for _, s := range sites {
		pos := s.call.Pos()
		if s.flags == nil {
			c.Undecided("R28b", "fork@"+s.key, pos, "fork flags are not a constant expression (or a phi/| of constants): cannot tell whether this fork registers a FID")
			continue
		}
		registers, isFunc, mixed := false, false, false
		for i, f := range s.flags {
			r := f&fFunc != 0 || f&fParent == 0
			if i > 0 && r != registers {
				mixed = true
			}
			registers = registers || r
			if f&fFunc != 0 {
				isFunc = true
			}
		}
		_ = mixed
		if !registers {
			c.OK("R28b", "fork@"+s.key, pos, "flags %v: shares the parent's FID entry (F_PARENT_VARTABLE) — no registration, no obligation", s.flags)
			continue
		}
		nReg++
		res := analyseForkSite(prog, s, isFunc)
		switch {
		case res.escapes != "":
			c.OK("R28b", "fork@"+s.key, pos, "registers a FID; the fork value escapes (%s) — obligation passes to the holder (not decided here)", res.escapes)
		case res.leakAt == nil:
			ex := ""
			if len(res.excused) > 0 {
				ex = "; infeasible error edges pruned: " + strings.Join(res.excused, " | ")
			}
			c.OK("R28b", "fork@"+s.key, pos, "registers a FID; discharged on every path by %s%s", strings.Join(res.discharges, ", "), ex)
		default:
			c.Viol("R28b", "fork@"+s.key, pos, "fork registers a FID (flags %v) but a path from here to the exit at %s reaches no Execute/deregisterProcess/Deregister%s: the FID stays in the table (fid-list) after the program finished", s.flags, c.pos(res.leakAt.Pos()), map[bool]string{true: "", false: "/Kill"}[isFunc])
		}
	}
	c.MinCount("R28b", "Process.Fork call sites", len(sites), 80)
	c.MinCount("R28b", "registering forks analysed", nReg, 40)
}

func ssaFuncKey(fn *ssa.Function) string {
	name := fn.Name()
	if fn.Parent() != nil {
		return ssaFuncKey(fn.Parent()) + "$" + strings.TrimPrefix(name, fn.Parent().Name()+"$")
	}
	pk := ""
	if fn.Pkg != nil {
		pk = relPkg(fn.Pkg.Pkg.Path())
	}
	if fn.Signature.Recv() != nil {
		return pk + ".(" + namedName(fn.Signature.Recv().Type()) + ")." + name
	}
	return pk + "." + name
}

type forkResult struct {
	escapes    string
	discharges []string
	leakAt     ssa.Instruction
	excused    []string
}

// excusedErrorEdge: the block ends in `if err != nil` / `if err == nil` where
// err is the result of a call that cannot fail at this site. Frozen, reviewed
// table — one callee each, with the reason:
//   - Write/Writeln on the fork's own Stdin: a stream created for this fork;
//     streams.Stdin.Write fails only after its context was cancelled, which
//     nothing can have done yet.
//   - (*config.Config).Set with constant app/key: fails only for keys that
//     were never defined; constant keys are defined at start-up.
//   - types.ConvertGoType(_, types.String): every murex value has a string form.
//   - (*lang.Variables).Set with a constant variable name: fails for reserved
//     names or unconvertible values only; the constant names used are not reserved.
//
// Returns the index of the successor edge that is infeasible (-1: none).
func excusedErrorEdge(ifi *ssa.If, procVals map[ssa.Value]bool) (int, string) {
	b, ok := ifi.Cond.(*ssa.BinOp)
	if !ok || (b.Op != token.NEQ && b.Op != token.EQL) {
		return -1, ""
	}
	x, y := b.X, b.Y
	if c, ok := x.(*ssa.Const); ok && c.IsNil() {
		x, y = y, x
	}
	if c, ok := y.(*ssa.Const); !ok || !c.IsNil() {
		return -1, ""
	}
	var call *ssa.Call
	switch v := x.(type) {
	case *ssa.Extract:
		call, _ = v.Tuple.(*ssa.Call)
	case *ssa.Call:
		call = v
	}
	if call == nil {
		return -1, ""
	}
	why := ""
	cc := &call.Call
	if cc.IsInvoke() {
		if cc.Method.Name() == "Write" || cc.Method.Name() == "Writeln" {
			if ld, ok := cc.Value.(*ssa.UnOp); ok && ld.Op == token.MUL {
				if fa, ok := ld.X.(*ssa.FieldAddr); ok && procVals[fa.X] {
					if st := structOf(fa.X.Type()); st != nil && st.Field(fa.Field).Name() == "Stdin" {
						why = "Write on the fork's own Stdin cannot fail before the fork runs"
					}
				}
			}
		}
	} else if sc := cc.StaticCallee(); sc != nil && sc.Pkg != nil {
		isConstStr := func(v ssa.Value) bool {
			k, ok := v.(*ssa.Const)
			return ok && k.Value != nil && k.Value.Kind() == constant.String
		}
		switch sc.Pkg.Pkg.Path() + "." + sc.Name() {
		case mx("config") + ".Set":
			if len(cc.Args) >= 3 && isConstStr(cc.Args[1]) && isConstStr(cc.Args[2]) {
				why = "Config.Set of a constant, start-up defined key"
			}
		case mx("lang/types") + ".ConvertGoType":
			if len(cc.Args) == 2 && isConstStr(cc.Args[1]) && constant.StringVal(cc.Args[1].(*ssa.Const).Value) == "str" {
				why = "ConvertGoType(_, str) always succeeds"
			}
		case mx("lang") + ".Set":
			if sc.Signature.Recv() != nil && namedName(sc.Signature.Recv().Type()) == "Variables" && len(cc.Args) >= 3 && isConstStr(cc.Args[2]) {
				why = "Variables.Set of a constant, non-reserved name"
			}
		}
	}
	if why == "" {
		return -1, ""
	}
	if b.Op == token.NEQ {
		return 0, why
	}
	return 1, why
}

func analyseForkSite(prog *ssa.Program, s *forkSite, isFunc bool) forkResult {
	var res forkResult
	// aliases of the *Fork value, per function (site function and its closures)
	forkVals := map[ssa.Value]bool{s.call: true}
	procVals := map[ssa.Value]bool{} // *Process of the fork
	cells := map[ssa.Value]bool{}    // Alloc cells / FreeVars holding the fork
	funcs := []*ssa.Function{s.fn}
	var addClosures func(fn *ssa.Function)
	addClosures = func(fn *ssa.Function) {
		for _, a := range fn.AnonFuncs {
			funcs = append(funcs, a)
			addClosures(a)
		}
	}
	addClosures(s.fn)
	discharging := map[ssa.Instruction]string{}
	closureDischarges := map[*ssa.Function]string{}
	changed := true
	for iter := 0; changed && iter < 10; iter++ {
		changed = false
		for _, fn := range funcs {
			for _, b := range fn.Blocks {
				for _, ins := range b.Instrs {
					switch x := ins.(type) {
					case *ssa.Store:
						if forkVals[x.Val] {
							if _, isAlloc := x.Addr.(*ssa.Alloc); isAlloc {
								if !cells[x.Addr] {
									cells[x.Addr] = true
									changed = true
								}
							} else if _, isFV := x.Addr.(*ssa.FreeVar); isFV {
								if !cells[x.Addr] {
									cells[x.Addr] = true
									changed = true
								}
							}
						}
					case *ssa.UnOp:
						if x.Op == token.MUL {
							if cells[x.X] && !forkVals[x] {
								forkVals[x] = true
								changed = true
							}
							if fa, ok := x.X.(*ssa.FieldAddr); ok && forkVals[fa.X] && isProcessPtr(x.Type()) && !procVals[x] {
								procVals[x] = true
								changed = true
							}
						}
					case *ssa.Phi:
						for _, e := range x.Edges {
							if forkVals[e] && !forkVals[x] {
								forkVals[x] = true
								changed = true
							}
							if procVals[e] && !procVals[x] {
								procVals[x] = true
								changed = true
							}
						}
					case *ssa.MakeClosure:
						cf := x.Fn.(*ssa.Function)
						for i, bnd := range x.Bindings {
							if cells[bnd] && i < len(cf.FreeVars) && !cells[cf.FreeVars[i]] {
								cells[cf.FreeVars[i]] = true
								changed = true
							}
							if forkVals[bnd] && i < len(cf.FreeVars) && !forkVals[cf.FreeVars[i]] {
								forkVals[cf.FreeVars[i]] = true
								changed = true
							}
						}
					}
				}
			}
		}
	}
	isDischargeCall := func(cc *ssa.CallCommon) string {
		if sc := cc.StaticCallee(); sc != nil {
			switch {
			case sc.Name() == "Execute" && sc.Signature.Recv() != nil && namedName(sc.Signature.Recv().Type()) == "Fork":
				if len(cc.Args) > 0 && forkVals[cc.Args[0]] {
					return "Execute"
				}
			case (sc.Name() == "deregisterProcess" || sc.Name() == "destroyProcess") && sc.Pkg != nil && sc.Pkg.Pkg.Path() == mx("lang"):
				if len(cc.Args) == 1 && procVals[cc.Args[0]] {
					return sc.Name()
				}
			case sc.Name() == "Deregister" && sc.Signature.Recv() != nil && namedName(sc.Signature.Recv().Type()) == "funcID":
				// Deregister(f, x.Id) with x a fork process
				if len(cc.Args) == 2 {
					if ld, ok := cc.Args[1].(*ssa.UnOp); ok {
						if fa, ok := ld.X.(*ssa.FieldAddr); ok && procVals[fa.X] {
							return "GlobalFIDs.Deregister"
						}
					}
				}
			}
			return ""
		}
		// dynamic call of the Kill field: t = *(&proc.Kill); t()
		if !isFunc {
			if ld, ok := cc.Value.(*ssa.UnOp); ok && ld.Op == token.MUL {
				if fa, ok := ld.X.(*ssa.FieldAddr); ok && procVals[fa.X] {
					if st := structOf(fa.X.Type()); st != nil && fa.Field < st.NumFields() && st.Field(fa.Field).Name() == "Kill" {
						return "Kill"
					}
				}
			}
		}
		return ""
	}
	// classify
	for _, fn := range funcs {
		for _, b := range fn.Blocks {
			for _, ins := range b.Instrs {
				var cc *ssa.CallCommon
				switch x := ins.(type) {
				case *ssa.Call:
					cc = &x.Call
				case *ssa.Go:
					cc = &x.Call
				case *ssa.Defer:
					cc = &x.Call
				case *ssa.Return:
					for _, r := range x.Results {
						if forkVals[r] && fn == s.fn {
							res.escapes = "returned"
						}
					}
				case *ssa.Store:
					if forkVals[x.Val] && !cells[x.Addr] {
						res.escapes = "stored outside the function's locals"
					}
				case *ssa.MakeInterface:
					if forkVals[x.X] {
						res.escapes = "converted to an interface"
					}
				case *ssa.Send:
					if forkVals[x.X] {
						res.escapes = "sent on a channel"
					}
				case *ssa.MapUpdate:
					if forkVals[x.Value] {
						res.escapes = "stored in a map"
					}
				}
				if cc == nil {
					continue
				}
				if d := isDischargeCall(cc); d != "" {
					if fn == s.fn {
						discharging[ins] = d
					} else {
						// inside a closure: the closure discharges
						f := fn
						for f.Parent() != nil && f.Parent() != s.fn {
							f = f.Parent()
						}
						closureDischarges[f] = d + " (in closure)"
					}
					continue
				}
				// passing the whole *Fork to another function = escape
				for i, a := range cc.Args {
					if forkVals[a] {
						if sc := cc.StaticCallee(); sc != nil && i == 0 && sc.Signature.Recv() != nil && namedName(sc.Signature.Recv().Type()) == "Fork" {
							continue // other methods on Fork
						}
						res.escapes = "passed to " + calleeStr(cc)
					}
				}
			}
		}
	}
	if res.escapes != "" {
		return res
	}
	// closures that discharge: their MakeClosure instruction counts when the
	// closure is created on the path (it is then run by go/defer/call)
	for _, b := range s.fn.Blocks {
		for _, ins := range b.Instrs {
			if mc, ok := ins.(*ssa.MakeClosure); ok {
				if d, ok := closureDischarges[mc.Fn.(*ssa.Function)]; ok {
					discharging[mc] = d
				}
			}
		}
	}
	dset := map[string]bool{}
	for _, d := range discharging {
		dset[d] = true
	}
	for d := range dset {
		res.discharges = append(res.discharges, d)
	}
	sort.Strings(res.discharges)
	// must-pass from the call site
	type pt struct {
		b *ssa.BasicBlock
		i int
	}
	visited := map[*ssa.BasicBlock]bool{}
	var leak ssa.Instruction
	var walk func(b *ssa.BasicBlock, from int)
	walk = func(b *ssa.BasicBlock, from int) {
		if leak != nil {
			return
		}
		for i := from; i < len(b.Instrs); i++ {
			ins := b.Instrs[i]
			if _, ok := discharging[ins]; ok {
				return
			}
			switch ins.(type) {
			case *ssa.Return:
				leak = ins
				return
			case *ssa.Panic:
				return
			}
		}
		skip := -1
		if len(b.Instrs) > 0 {
			if ifi, ok := b.Instrs[len(b.Instrs)-1].(*ssa.If); ok {
				if edge, why := excusedErrorEdge(ifi, procVals); edge >= 0 {
					skip = edge
					res.excused = append(res.excused, why)
				}
			}
		}
		for i, succ := range b.Succs {
			if i == skip {
				continue
			}
			if !visited[succ] {
				visited[succ] = true
				walk(succ, 0)
			}
		}
	}
	blk := s.call.Block()
	idx := 0
	for i, ins := range blk.Instrs {
		if ins == s.call {
			idx = i + 1
		}
	}
	walk(blk, idx)
	res.leakAt = leak
	return res
}

func isProcessPtr(t types.Type) bool {
	p, ok := t.(*types.Pointer)
	if !ok {
		return false
	}
	return namedPath(p.Elem()) == mx("lang")+".Process"
}

func calleeStr(cc *ssa.CallCommon) string {
	if sc := cc.StaticCallee(); sc != nil {
		return sc.String()
	}
	return "a dynamic callee"
}
