package main

import (
	"go/ast"
	"go/token"
	"go/types"
)

func init() {
	register("C02", "Decides (structurally, on every path of SetDataType/GetDataType of streams.Stdin and streams.Tee): the only store to the pipe's data type is the first-wins store in SetDataType (guarded by dataType==\"\" in the same critical section, empty and null rejected before), the generic type `*` is handed out only after all writers closed (or the context was cancelled), a declared type is returned as soon as it is non-empty, every access holds the mutex, and Tee forwards to both/primary. Does NOT decide that the blocking wait terminates, nor the sibling Io implementations (net, file, term) which are listed as INFO.", runC02)
}

func runC02(c *Ctx) {
	c.Load(streamsPkg, "lang/types")
	pk := c.Pkg(streamsPkg)
	info := pk.TypesInfo

	c.Rule("R02L", "E1 lockset: Stdin.dataType (and dependents, which decides the `*` answer) are accessed only with Stdin.mutex held")
	n := c.runLockset("R02L", LockSpec{Pkg: streamsPkg, Type: "Stdin", Mutex: "mutex", Fields: []string{"dataType", "dependents"}, Atomic: map[string]bool{"dependents": true}})
	c.MinCount("R02L", "guarded accesses", n, 8)

	c.Rule("R02a", "who-may-write: the only store to Stdin.dataType is in (*Stdin).SetDataType, guarded by dataType==\"\" evaluated in the same critical section (first declaration wins)")
	nStore := 0
	eachFunc(pk, func(fd *ast.FuncDecl) {
		walkStack(fd.Body, func(nd ast.Node, stack []ast.Node) bool {
			as, ok := nd.(*ast.AssignStmt)
			if !ok {
				return true
			}
			for _, l := range as.Lhs {
				if !isField(info, l, stdinT, "dataType") {
					continue
				}
				nStore++
				key := "store@" + fd.Name.Name
				if fd.Name.Name != "SetDataType" || recvName(fd) != "Stdin" {
					c.Viol("R02a", key, as.Pos(), "store to the pipe's data type outside SetDataType: %s — the type could change after it was first declared", c.src(as))
					continue
				}
				// guard: dataType == "" (or len(dataType)==0) is known true at the store — from an
				// enclosing if-arm or from an earlier `if dataType != "" { return }` exit; the field
				// may have been read into a single-definition local first — and no Lock/Unlock lies
				// between that read of the field and the store (one critical section)
				defs := localDefs(info, fd.Body)
				subject := func(e ast.Expr) bool { return isField(info, defs.resolve1(info, e), stdinT, "dataType") }
				guarded := false
				testPos := token.NoPos
				for _, f := range factsOf(guardsAt(info, stack)) {
					if !c.isEmptyTypeTest(info, f.E, f.True, subject) {
						continue
					}
					guarded = true
					tp := f.E.Pos()
					ast.Inspect(f.E, func(x ast.Node) bool {
						if id, ok := x.(*ast.Ident); ok {
							if ds := defs[info.ObjectOf(id)]; len(ds) == 1 && ds[0] != nil && ds[0].Pos() < tp {
								tp = ds[0].Pos()
							}
						}
						return true
					})
					if testPos == token.NoPos || tp < testPos {
						testPos = tp
					}
				}
				sameCS := guarded
				if guarded {
					// arms that leave the function before the store (`if dataType != "" { Unlock(); return }`)
					// are not on the way from the test to the store
					exitArm := map[*ast.BlockStmt]bool{}
					ast.Inspect(fd.Body, func(x ast.Node) bool {
						if is, ok := x.(*ast.IfStmt); ok && is.Else == nil && terminates(info, is.Body.List) &&
							!(is.Body.Pos() <= as.Pos() && as.End() <= is.Body.End()) {
							if rs, isRet := is.Body.List[len(is.Body.List)-1].(*ast.ReturnStmt); isRet && rs != nil {
								exitArm[is.Body] = true
							}
						}
						return true
					})
					ast.Inspect(fd.Body, func(x ast.Node) bool {
						if _, isDefer := x.(*ast.DeferStmt); isDefer {
							return false // runs at function exit, not here
						}
						if blk, isBlk := x.(*ast.BlockStmt); isBlk && exitArm[blk] {
							return false
						}
						if call, ok := x.(*ast.CallExpr); ok && x.Pos() > testPos && x.Pos() < as.Pos() {
							if _, op := mutexOp(info, call); op == "Unlock" || op == "Lock" {
								sameCS = false
							}
						}
						return true
					})
				}
				// the value stored is the parameter
				isParamV := false
				if len(as.Rhs) == 1 {
					if id, ok := unparen(as.Rhs[0]).(*ast.Ident); ok && isParam(info, fd, id) {
						isParamV = true
					}
				}
				c.Check(guarded && sameCS && isParamV, "R02a", key, as.Pos(), "store is first-wins: guarded by dataType==\"\"=%v, test and store in one critical section=%v, stores the declared parameter=%v", guarded, sameCS, isParamV)
			}
			return true
		})
	})
	c.MinCount("R02a", "stores to Stdin.dataType", nStore, 1)

	c.Rule("R02b", "SetDataType ignores the empty type and `null`: both are rejected by an early return that precedes the store")
	if fd, _ := c.MustFunc("R02b", streamsPkg, "Stdin", "SetDataType"); fd != nil {
		var param types.Object
		if fd.Type.Params != nil && len(fd.Type.Params.List) == 1 && len(fd.Type.Params.List[0].Names) == 1 {
			param = info.Defs[fd.Type.Params.List[0].Names[0]]
		}
		isP := func(e ast.Expr) bool {
			id, ok := unparen(e).(*ast.Ident)
			return ok && info.ObjectOf(id) == param
		}
		// facts holding at the store
		var storeStack []ast.Node
		walkStack(fd.Body, func(nd ast.Node, stack []ast.Node) bool {
			if as, ok := nd.(*ast.AssignStmt); ok {
				for _, l := range as.Lhs {
					if isField(info, l, stdinT, "dataType") {
						storeStack = append([]ast.Node(nil), stack...)
					}
				}
			}
			return true
		})
		if storeStack == nil {
			c.Viol("R02b", "SetDataType:store", fd.Pos(), "SetDataType never stores the type")
		} else {
			notEmpty, notNull := false, false
			for _, f := range factsOf(guardsAt(info, storeStack)) {
				if c.isEmptyTypeTest(info, f.E, !f.True, isP) {
					notEmpty = true
				}
				if b, ok := unparen(f.E).(*ast.BinaryExpr); ok && (b.Op == token.EQL || b.Op == token.NEQ) {
					x, y := b.X, b.Y
					if isP(y) {
						x, y = y, x
					}
					if isP(x) {
						if s, ok := constString(info, y); ok && s == "null" {
							if (b.Op == token.EQL) != f.True {
								notNull = true
							}
						}
					}
				}
			}
			c.Check(notEmpty, "R02b", "SetDataType:reject-empty", fd.Pos(), "the store is reached only when the declared type is non-empty")
			c.Check(notNull, "R02b", "SetDataType:reject-null", fd.Pos(), "the store is reached only when the declared type is not `null`")
		}
	}

	c.Rule("R02c", "GetDataType: every return of the generic type `*` is in the cancelled-context arm or guarded by dependents<1 read under the lock; every other return yields the field value and only when it is non-empty; the loop has no other exit")
	if fd, _ := c.MustFunc("R02c", streamsPkg, "Stdin", "GetDataType"); fd != nil {
		defs := localDefs(info, fd.Body)
		res := resultNames(fd)
		var resObj types.Object
		if len(res) == 1 && res[0] != "" {
			resObj = info.Defs[fd.Type.Results.List[0].Names[0]]
		}
		nRet := 0
		walkStack(fd.Body, func(nd ast.Node, stack []ast.Node) bool {
			if _, ok := nd.(*ast.FuncLit); ok {
				return false
			}
			if br, ok := nd.(*ast.BranchStmt); ok && (br.Tok == token.BREAK || br.Tok == token.GOTO) {
				// a break that leaves the for loop would fall off the end with dt possibly ""
				inSelect := false
				for _, s := range stack {
					if _, ok := s.(*ast.SelectStmt); ok {
						inSelect = true
					}
					if _, ok := s.(*ast.SwitchStmt); ok {
						inSelect = true
					}
				}
				if !inSelect || br.Label != nil {
					c.Viol("R02c", "GetDataType:loop-exit", br.Pos(), "the wait loop is left by %s: the caller can receive an undeclared (empty) type while writers are still open", br.Tok)
				}
			}
			rs, ok := nd.(*ast.ReturnStmt)
			if !ok {
				return true
			}
			nRet++
			key := "GetDataType:return#" + itoa(nRet)
			facts := flagFacts(info, fd.Body, defs, factsOf(guardsAt(info, stack)), rs.Pos()) // c02x.go: `empty := dt == ""; if empty {…}`
			var val ast.Expr
			if len(rs.Results) == 1 {
				val = unparen(rs.Results[0])
			} else if resObj != nil {
				val = ast.NewIdent(res[0])
			}
			isGeneric := false
			if val != nil && len(rs.Results) == 1 {
				if s, ok := constString(info, val); ok && s == "*" {
					isGeneric = true
				} else if ok {
					c.Viol("R02c", key, rs.Pos(), "returns the constant %q", s)
					return true
				}
			}
			if isGeneric {
				if inDoneArm(info, stack) {
					c.OK("R02c", key, rs.Pos(), "generic type in the cancelled-context arm")
					return true
				}
				closed := false
				for _, f := range facts {
					if c.isClosedTest(info, defs, f.E, f.True) {
						closed = true
					}
				}
				c.Check(closed, "R02c", key, rs.Pos(), "generic type `*` returned only after all writers closed (dependents<1); otherwise a reader that asks early gets `*` although a writer is about to declare a type")
				return true
			}
			// returns the result variable / field: must be known non-empty
			isRes := func(e ast.Expr) bool {
				if id, ok := unparen(e).(*ast.Ident); ok {
					if resObj != nil && (info.ObjectOf(id) == resObj || (len(rs.Results) == 0 && id.Name == res[0])) {
						return true
					}
					if r := defs.resolve1(info, id); isField(info, r, stdinT, "dataType") {
						return true
					}
					// an ordinary local used as the result (unnamed result): every value it is
					// ever given is the field
					if v, isVar := info.ObjectOf(id).(*types.Var); isVar && !v.IsField() && len(defs[v]) > 0 {
						all := true
						for _, d := range defs[v] {
							if d == nil || !isField(info, d, stdinT, "dataType") {
								all = false
							}
						}
						if all {
							return true
						}
					}
				}
				return isField(info, e, stdinT, "dataType")
			}
			if val == nil || !(isRes(val)) {
				c.Undecided("R02c", key, rs.Pos(), "return value %s is neither the generic constant nor the data type read from the field", c.src(val))
				return true
			}
			nonEmpty := false
			for _, f := range facts {
				if c.isEmptyTypeTest(info, f.E, !f.True, isRes) {
					nonEmpty = true
				}
			}
			// the result variable must have been loaded from the field (all its assignments)
			fromField := true
			if resObj != nil {
				for _, d := range defs[resObj] {
					if d == nil || !isField(info, d, stdinT, "dataType") {
						fromField = false
					}
				}
				if len(defs[resObj]) == 0 {
					fromField = false
				}
			}
			c.Check(nonEmpty && fromField, "R02c", key, rs.Pos(), "declared type returned only when non-empty (%v) and loaded from the field (%v)", nonEmpty, fromField)
			return true
		})
		c.MinCount("R02c", "returns in GetDataType", nRet, 4)
	}

	c.Rule("R02d", "Tee.SetDataType forwards the declared type to both streams; Tee.GetDataType answers from the primary")
	if fd, _ := c.MustFunc("R02d", streamsPkg, "Tee", "SetDataType"); fd != nil {
		sec, prim := false, false
		for _, call := range calls(fd.Body, false) {
			se, ok := call.Fun.(*ast.SelectorExpr)
			if !ok || se.Sel.Name != "SetDataType" || len(call.Args) != 1 {
				continue
			}
			id, ok := unparen(call.Args[0]).(*ast.Ident)
			if !ok || !isParam(info, fd, id) {
				continue
			}
			switch selPath(se.X) {
			case recvVar(fd) + ".secondary":
				sec = true
			case recvVar(fd) + ".primary":
				prim = true
			}
		}
		c.Check(sec && prim, "R02d", "Tee.SetDataType:both", fd.Pos(), "forwards to secondary=%v primary=%v", sec, prim)
	}
	if fd, _ := c.MustFunc("R02d", streamsPkg, "Tee", "GetDataType"); fd != nil {
		ok := false
		for _, call := range calls(fd.Body, false) {
			if se, ok2 := call.Fun.(*ast.SelectorExpr); ok2 && se.Sel.Name == "GetDataType" && selPath(se.X) == recvVar(fd)+".primary" {
				ok = true
			}
		}
		c.Check(ok, "R02d", "Tee.GetDataType:primary", fd.Pos(), "answers from the primary stream")
	}
	// constant check: types.Generic is "*", types.Null is "null" (the property's wording)
	if tp := c.Pkg("lang/types"); tp != nil {
		for name, want := range map[string]string{"Generic": "*", "Null": "null"} {
			o, _ := tp.Types.Scope().Lookup(name).(*types.Const)
			got := ""
			if o != nil {
				got, _ = constStringVal(o)
			}
			c.Check(got == want, "R02c", "const:types."+name, token.NoPos, "types.%s == %q (got %q)", name, want, got)
		}
	}
	c.Info("INFO siblings not claimed: other stdio.Io implementations (net.Net, streams.Reader/ReadCloser, file, term, null) overwrite or ignore SetDataType by design; the property's \"murex pipe\" is streams.Stdin/Tee")
}

func constStringVal(o *types.Const) (string, bool) {
	if o.Val() == nil {
		return "", false
	}
	s := o.Val().ExactString()
	if len(s) >= 2 && s[0] == '"' {
		return s[1 : len(s)-1], true
	}
	return s, false
}

// isEmptyTypeTest: expression e with truth value `truth` means "<subject> is
// the empty string" (forms: s == "", s != "", len(s) == 0, len(s) < 1 ...).
func (c *Ctx) isEmptyTypeTest(info *types.Info, e ast.Expr, truth bool, subject func(ast.Expr) bool) bool {
	e = unparen(e)
	if b, ok := e.(*ast.BinaryExpr); ok && (b.Op == token.EQL || b.Op == token.NEQ) {
		x, y := b.X, b.Y
		if subject(y) {
			x, y = y, x
		}
		if subject(x) {
			if s, ok := constString(info, y); ok && s == "" {
				return (b.Op == token.EQL) == truth
			}
		}
	}
	if x, op, k, ok := cmpNorm(info, e); ok {
		if call, ok := isBuiltinCall(info, x, "len"); ok && len(call.Args) == 1 && subject(call.Args[0]) {
			p := intPred(op, k)
			if !truth {
				q := p
				p = func(v int64) bool { return !q(v) }
			}
			return samePredOnRange(p, func(v int64) bool { return v == 0 }, 0, 4)
		}
	}
	return false
}
