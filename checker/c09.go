package main

// C09 — quoted string literals evaluate to exactly their contents.
//
// The two rune loops of lang/expressions/parse_quotes.go (parseString: single
// quote / parse-only; parseStringInfix: double quote and %(…)) are not
// pattern-matched. For every rune of a sample alphabet (all runes the code
// compares against + a set rich in syntax characters), every quote kind and
// both values of the escape flag, the clause that the tagless switch selects is
// computed by evaluating the clause conditions on those concrete values, the
// statements it executes are flattened (nested switch/if on the same values are
// resolved) and classified, and the class is compared with the table the
// property states.

import (
	"fmt"
	"go/ast"
	"go/token"
	"go/types"
	"sort"
	"strings"
)

func init() {
	register("C09", "Decides, for lang/expressions.parseString and parseStringInfix with exec=true: (R09a) under the escape flag the table is exactly s→' ' t→TAB r→CR n→LF, every other rune itself, and the flag is cleared; `\\` starts an escape only when the closing rune is not ')'; the flag is tested before every other clause; (R09b) in a single-quoted literal every rune except the closing quote is appended verbatim (no `$`, `~`, `\\`, `(` handling) and parseString hands only non-single quotes to parseStringInfix; nothing else is appended outside the loop; (R09c) in double-quoted and %(…) literals the only special runes are `\\` (not in %(…)), `$`, `~`, the closing rune, and `(` inside %(…) (kept balanced); everything else incl. newline is appended verbatim; (R09d) every caller passes a matching (open, close) pair from the quote runes of its own case arm. Does NOT decide value-level results of `$`/`~` expansion, ansi.ExpandConsts on %(…), or the parse-only (exec=false) text.", runC09)
}

const c09Pkg = "lang/expressions"

type c09Fn struct {
	c      *Ctx
	fd     *ast.FuncDecl
	info   *types.Info
	loop   *ast.ForStmt
	sw     *ast.SwitchStmt
	rObj   types.Object
	valObj types.Object // the []rune result being built
	flag   types.Object // escape flag (nil in parseString)
	qStart types.Object
	qEnd   types.Object
	exec   types.Object
}

type c09Env struct {
	r, qStart, qEnd rune
	flag, exec      bool
}

// c09Find locates the loop, r := tree.expression[tree.charPos], the tagless
// switch and the value variable (the []rune local that is returned).
func (c *Ctx) c09Find(rule, name string) *c09Fn {
	fd, pk := c.MustFunc(rule, c09Pkg, "ParserT", name)
	if fd == nil {
		return nil
	}
	f := &c09Fn{c: c, fd: fd, info: pk.TypesInfo}
	info := f.info
	var runeParams []types.Object
	for _, fl := range fd.Type.Params.List {
		for _, n := range fl.Names {
			o := info.Defs[n]
			if b, ok := o.Type().Underlying().(*types.Basic); ok {
				switch b.Kind() {
				case types.Bool:
					f.exec = o
				case types.Int32:
					runeParams = append(runeParams, o)
				}
			}
		}
	}
	switch len(runeParams) {
	case 1:
		f.qEnd = runeParams[0]
	case 2:
		f.qStart, f.qEnd = runeParams[0], runeParams[1]
	}
	for _, s := range fd.Body.List {
		if l, ok := s.(*ast.ForStmt); ok {
			f.loop = l
		}
	}
	if f.loop == nil || f.qEnd == nil || f.exec == nil {
		c.Undecided(rule, name+":shape", fd.Pos(), "%s: no rune loop / no (quote rune, exec bool) parameters", name)
		return nil
	}
	// Loop body = local definitions without calls (one of them reads the current rune:
	// r := tree.expression[tree.charPos], possibly through a position local), then ONE dispatch:
	// a tagless switch or the equivalent if / else-if chain (normalised to a switch here).
	defs := localDefs(info, f.loop.Body)
	isRuneRead := func(e ast.Expr) bool {
		ix, ok := unparen(e).(*ast.IndexExpr)
		return ok && isField(info, ix.X, c10ParserT, "expression") && isField(info, defs.resolve1(info, ix.Index), c10ParserT, "charPos")
	}
	pureDefine := func(lhs *ast.Ident, rhs ast.Expr) bool {
		if f.sw != nil {
			return false // definitions after the dispatch are not part of the recognised shape
		}
		if isRuneRead(rhs) {
			f.rObj = info.ObjectOf(lhs)
			return true
		}
		return len(calls(rhs, true)) == 0
	}
	for _, s := range f.loop.Body.List {
		switch v := s.(type) {
		case *ast.AssignStmt:
			if v.Tok == token.DEFINE && len(v.Lhs) == 1 && len(v.Rhs) == 1 {
				if id, ok := v.Lhs[0].(*ast.Ident); ok && pureDefine(id, v.Rhs[0]) {
					continue
				}
			}
			c.Undecided(rule, name+":shape", s.Pos(), "%s: unrecognised statement in the rune loop: %s", name, c.src(s))
			return nil
		case *ast.DeclStmt:
			okDecl := false
			if gd, ok := v.Decl.(*ast.GenDecl); ok && gd.Tok == token.VAR && len(gd.Specs) == 1 {
				if vs, ok := gd.Specs[0].(*ast.ValueSpec); ok && len(vs.Names) == 1 && len(vs.Values) == 1 {
					okDecl = pureDefine(vs.Names[0], vs.Values[0])
				}
			}
			if !okDecl {
				c.Undecided(rule, name+":shape", s.Pos(), "%s: unrecognised statement in the rune loop: %s", name, c.src(s))
				return nil
			}
		case *ast.SwitchStmt:
			if v.Tag != nil || v.Init != nil || f.sw != nil {
				c.Undecided(rule, name+":shape", s.Pos(), "%s: the rune loop is not one tagless switch", name)
				return nil
			}
			f.sw = v
		case *ast.IfStmt:
			sw := c09IfChain(v)
			if sw == nil || f.sw != nil {
				c.Undecided(rule, name+":shape", s.Pos(), "%s: the rune loop is not one tagless switch / if-else chain", name)
				return nil
			}
			f.sw = sw
		default:
			c.Undecided(rule, name+":shape", s.Pos(), "%s: unrecognised statement in the rune loop: %s", name, c.src(s))
			return nil
		}
	}
	if f.rObj == nil || f.sw == nil {
		c.Undecided(rule, name+":shape", f.loop.Pos(), "%s: loop without r := tree.expression[tree.charPos] and a tagless switch", name)
		return nil
	}
	// the value variable: the local []rune returned as result 0 by the last return
	ast.Inspect(fd.Body, func(n ast.Node) bool {
		if _, ok := n.(*ast.FuncLit); ok {
			return false
		}
		if rs, ok := n.(*ast.ReturnStmt); ok && len(rs.Results) == 2 {
			if id, ok := unparen(rs.Results[0]).(*ast.Ident); ok {
				if v, ok := info.ObjectOf(id).(*types.Var); ok && !v.IsField() {
					if _, isSlice := v.Type().Underlying().(*types.Slice); isSlice {
						f.valObj = v
					}
				}
			}
		}
		return true
	})
	if f.valObj == nil {
		c.Undecided(rule, name+":shape", fd.Pos(), "%s: no local []rune is returned", name)
		return nil
	}
	// the escape flag: the bool local (not a parameter) that clause conditions test
	for _, st := range f.sw.Body.List {
		for _, x := range st.(*ast.CaseClause).List {
			ast.Inspect(x, func(n ast.Node) bool {
				if id, ok := n.(*ast.Ident); ok {
					if v, ok := info.ObjectOf(id).(*types.Var); ok && !v.IsField() && v != f.exec && !isParam(info, fd, id) {
						if b, ok := v.Type().Underlying().(*types.Basic); ok && b.Kind() == types.Bool {
							f.flag = v
						}
					}
				}
				return true
			})
		}
	}
	return f
}

// c09IfChain renders `if a {A} else if b {B} else {C}` as the tagless switch
// `switch { case a: A; case b: B; default: C }` (same clause selection); nil when an arm has an init statement.
func c09IfChain(is *ast.IfStmt) *ast.SwitchStmt {
	sw := &ast.SwitchStmt{Switch: is.Pos(), Body: &ast.BlockStmt{Lbrace: is.Body.Lbrace, Rbrace: is.End()}}
	for cur := is; ; {
		if cur.Init != nil {
			return nil
		}
		sw.Body.List = append(sw.Body.List, &ast.CaseClause{Case: cur.Pos(), List: []ast.Expr{cur.Cond}, Colon: cur.Body.Lbrace, Body: cur.Body.List})
		switch e := cur.Else.(type) {
		case nil:
			return sw
		case *ast.IfStmt:
			cur = e
		case *ast.BlockStmt:
			sw.Body.List = append(sw.Body.List, &ast.CaseClause{Case: e.Pos(), Colon: e.Lbrace, Body: e.List})
			return sw
		default:
			return nil
		}
	}
}

func (f *c09Fn) runeOf(x ast.Expr, env c09Env) (rune, bool) {
	x = unparen(x)
	if v, ok := constInt(f.info, x); ok {
		return rune(v), true
	}
	if id, ok := x.(*ast.Ident); ok {
		switch o := f.info.ObjectOf(id); {
		case o == f.rObj:
			return env.r, true
		case o == f.qEnd:
			return env.qEnd, true
		case f.qStart != nil && o == f.qStart:
			return env.qStart, true
		}
	}
	return 0, false
}

// cond evaluates a clause condition on concrete values; ok=false when a leaf
// is outside {flag, exec, comparisons of r/qStart/qEnd/constants}.
func (f *c09Fn) cond(x ast.Expr, env c09Env) (val bool, ok bool) {
	x = unparen(x)
	switch v := x.(type) {
	case *ast.UnaryExpr:
		if v.Op == token.NOT {
			b, ok := f.cond(v.X, env)
			return !b, ok
		}
	case *ast.BinaryExpr:
		switch v.Op {
		case token.LAND, token.LOR:
			a, ok1 := f.cond(v.X, env)
			b, ok2 := f.cond(v.Y, env)
			if v.Op == token.LAND {
				if (ok1 && !a) || (ok2 && !b) {
					return false, true
				}
				return a && b, ok1 && ok2
			}
			if (ok1 && a) || (ok2 && b) {
				return true, true
			}
			return a || b, ok1 && ok2
		case token.EQL, token.NEQ, token.LSS, token.LEQ, token.GTR, token.GEQ:
			a, ok1 := f.runeOf(v.X, env)
			b, ok2 := f.runeOf(v.Y, env)
			if ok1 && ok2 {
				return intPred(v.Op, int64(b))(int64(a)), true
			}
		}
	case *ast.Ident:
		o := f.info.ObjectOf(v)
		if o == f.exec {
			return env.exec, true
		}
		if f.flag != nil && o == f.flag {
			return env.flag, true
		}
		if b, ok := constBool(f.info, v); ok {
			return b, true
		}
	}
	return false, false
}

// flatten resolves if/switch statements whose conditions are decidable on env
// and returns the simple statements that execute.
func (f *c09Fn) flatten(list []ast.Stmt, env c09Env, out *[]ast.Stmt) {
	for _, s := range list {
		switch v := s.(type) {
		case *ast.BlockStmt:
			f.flatten(v.List, env, out)
		case *ast.IfStmt:
			if v.Init == nil {
				if b, ok := f.cond(v.Cond, env); ok {
					if b {
						f.flatten(v.Body.List, env, out)
					} else if v.Else != nil {
						f.flatten([]ast.Stmt{v.Else}, env, out)
					}
					continue
				}
			}
			*out = append(*out, s)
		case *ast.SwitchStmt:
			if v.Init == nil {
				if body, ok := f.selectClause(v, env); ok {
					f.flatten(body, env, out)
					continue
				}
			}
			*out = append(*out, s)
		default:
			*out = append(*out, s)
		}
	}
}

// selectClause picks the clause a switch executes on env (tagged on a rune
// value, or tagless); ok=false when some condition is not decidable.
func (f *c09Fn) selectClause(sw *ast.SwitchStmt, env c09Env) ([]ast.Stmt, bool) {
	var dflt []ast.Stmt
	hasDflt := false
	var tag rune
	if sw.Tag != nil {
		t, ok := f.runeOf(sw.Tag, env)
		if !ok {
			return nil, false
		}
		tag = t
	}
	for _, st := range sw.Body.List {
		cc := st.(*ast.CaseClause)
		if cc.List == nil {
			dflt, hasDflt = cc.Body, true
			continue
		}
		for _, x := range cc.List {
			if sw.Tag != nil {
				k, ok := f.runeOf(x, env)
				if !ok {
					return nil, false
				}
				if k == tag {
					return cc.Body, !c09EndsWithFallthrough(cc.Body)
				}
				continue
			}
			b, ok := f.cond(x, env)
			if !ok {
				return nil, false
			}
			if b {
				return cc.Body, !c09EndsWithFallthrough(cc.Body)
			}
		}
	}
	if hasDflt {
		return dflt, true
	}
	return nil, true
}

func c09EndsWithFallthrough(body []ast.Stmt) bool {
	if n := len(body); n > 0 {
		if b, ok := body[n-1].(*ast.BranchStmt); ok && b.Tok == token.FALLTHROUGH {
			return true
		}
	}
	return false
}

// c09Class is what the selected statements do with the rune.
type c09Class struct {
	kind   string // verbatim | const | end | escape-start | expand-var | expand-tilde | nested | other
	k      rune   // for const
	detail string
	reset  bool // escape flag stored false
}

func (f *c09Fn) isAppendTo(s ast.Stmt) ([]ast.Expr, bool, bool) {
	as, ok := s.(*ast.AssignStmt)
	if !ok || len(as.Lhs) != 1 || len(as.Rhs) != 1 {
		return nil, false, false
	}
	id, ok := unparen(as.Lhs[0]).(*ast.Ident)
	if !ok || f.info.ObjectOf(id) != f.valObj {
		return nil, false, false
	}
	call, ok := isBuiltinCall(f.info, as.Rhs[0], "append")
	if !ok || len(call.Args) < 2 {
		return nil, true, false // a store to value that is not an append
	}
	if a0, ok := unparen(call.Args[0]).(*ast.Ident); !ok || f.info.ObjectOf(a0) != f.valObj {
		return nil, true, false
	}
	return call.Args[1:], true, call.Ellipsis.IsValid()
}

func (f *c09Fn) classify(stmts []ast.Stmt, env c09Env) c09Class {
	info := f.info
	var appR, appOther int
	var consts []rune
	var callsSeen []string
	var ends, setFlagTrue, reset, otherStore bool
	var unknown []string
	for _, s := range stmts {
		if args, isStore, ell := f.isAppendTo(s); isStore {
			if args == nil {
				otherStore = true
				unknown = append(unknown, f.c.src(s))
				continue
			}
			if ell {
				appOther++
				for _, call := range calls(s, false) {
					if n := calleeName(info, call); n != "" {
						callsSeen = append(callsSeen, n)
					}
				}
				continue
			}
			for _, a := range args {
				if id, ok := unparen(a).(*ast.Ident); ok && info.ObjectOf(id) == f.rObj {
					appR++
				} else if k, ok := constInt(info, a); ok {
					consts = append(consts, rune(k))
				} else {
					appOther++
				}
			}
			continue
		}
		switch v := s.(type) {
		case *ast.BranchStmt:
			if v.Tok == token.GOTO || v.Tok == token.BREAK {
				ends = true
				continue
			}
			unknown = append(unknown, f.c.src(s))
		case *ast.ReturnStmt:
			ends = true
		case *ast.AssignStmt:
			if len(v.Lhs) == 1 && len(v.Rhs) == 1 {
				if id, ok := unparen(v.Lhs[0]).(*ast.Ident); ok && f.flag != nil && info.ObjectOf(id) == f.flag {
					if b, ok := constBool(info, v.Rhs[0]); ok {
						if b {
							setFlagTrue = true
						} else {
							reset = true
						}
						continue
					}
				}
			}
			for _, call := range calls(s, false) {
				if n := calleeName(info, call); n != "" {
					callsSeen = append(callsSeen, n)
				}
			}
			if len(calls(s, false)) == 0 {
				unknown = append(unknown, f.c.src(s))
			}
		case *ast.ExprStmt:
			if call, ok := v.X.(*ast.CallExpr); ok && callIs(info, call, mx(c09Pkg), "ParserT", "crLf") {
				continue // line counting only
			}
			for _, call := range calls(s, false) {
				if n := calleeName(info, call); n != "" {
					callsSeen = append(callsSeen, n)
				}
			}
		default:
			// if err != nil { return … } and other compound statements: collect calls
			cs := calls(s, false)
			for _, call := range cs {
				if n := calleeName(info, call); n != "" {
					callsSeen = append(callsSeen, n)
				}
			}
			ast.Inspect(s, func(n ast.Node) bool {
				if st, ok := n.(ast.Stmt); ok {
					if args, isStore, ell := f.isAppendTo(st); isStore {
						if ell || args == nil {
							appOther++
						} else {
							for _, a := range args {
								if id, ok := unparen(a).(*ast.Ident); ok && info.ObjectOf(id) == f.rObj {
									appR++
								} else if k, ok := constInt(info, a); ok {
									consts = append(consts, rune(k))
								} else {
									appOther++
								}
							}
						}
					}
				}
				return true
			})
		}
	}
	has := func(sub string) bool {
		for _, n := range callsSeen {
			if strings.HasSuffix(n, sub) {
				return true
			}
		}
		return false
	}
	cl := c09Class{reset: reset}
	cl.detail = fmt.Sprintf("appends r×%d const=%q computed×%d calls=%v end=%v", appR, string(consts), appOther, callsSeen, ends)
	switch {
	case len(unknown) > 0 || otherStore:
		cl.kind = "other"
		cl.detail = "unrecognised statement " + strings.Join(unknown, "; ")
	case has(".parseVarScalar") || has(".parseSubShell"):
		cl.kind = "expand-var"
	case has(".parseVarTilde"):
		cl.kind = "expand-tilde"
	case has(".parseParenthesis"):
		cl.kind = "nested"
		open, close := 0, 0
		for _, k := range consts {
			if k == '(' {
				open++
			}
			if k == ')' {
				close++
			}
		}
		cl.detail = fmt.Sprintf("nested parenthesis, re-appended '(' ×%d ')' ×%d", open, close)
		if env.exec && (open != 1 || close != 1) {
			cl.kind = "nested-unbalanced"
		}
	case len(callsSeen) > 0:
		cl.kind = "other"
		cl.detail = "calls " + strings.Join(callsSeen, ", ")
	case setFlagTrue && appR == 0 && len(consts) == 0 && appOther == 0 && !ends:
		cl.kind = "escape-start"
	case ends && appR == 0 && len(consts) == 0 && appOther == 0:
		cl.kind = "end"
	case !ends && appR == 1 && len(consts) == 0 && appOther == 0 && !setFlagTrue:
		cl.kind = "verbatim"
	case !ends && appR == 0 && len(consts) == 1 && appOther == 0 && !setFlagTrue:
		cl.kind, cl.k = "const", consts[0]
	default:
		cl.kind = "other"
	}
	return cl
}

// what the loop does with rune env.r: the clause selected by the tagless switch
func (f *c09Fn) behaviour(env c09Env) (c09Class, token.Pos, bool) {
	body, ok := f.selectClause(f.sw, env)
	if !ok {
		return c09Class{}, f.sw.Pos(), false
	}
	var flat []ast.Stmt
	f.flatten(body, env, &flat)
	pos := f.sw.Pos()
	if len(body) > 0 {
		pos = body[0].Pos()
	}
	return f.classify(flat, env), pos, true
}

// runes the function compares r with
func (f *c09Fn) mentioned() map[rune]bool {
	out := map[rune]bool{}
	ast.Inspect(f.loop, func(n ast.Node) bool {
		switch v := n.(type) {
		case *ast.BinaryExpr:
			for _, p := range [][2]ast.Expr{{v.X, v.Y}, {v.Y, v.X}} {
				if id, ok := unparen(p[0]).(*ast.Ident); ok && f.info.ObjectOf(id) == f.rObj {
					if k, ok := constInt(f.info, p[1]); ok {
						out[rune(k)] = true
					}
				}
			}
		case *ast.SwitchStmt:
			if v.Tag != nil {
				if id, ok := unparen(v.Tag).(*ast.Ident); ok && f.info.ObjectOf(id) == f.rObj {
					for _, st := range v.Body.List {
						for _, x := range st.(*ast.CaseClause).List {
							if k, ok := constInt(f.info, x); ok {
								out[rune(k)] = true
							}
						}
					}
				}
			}
		}
		return true
	})
	return out
}

var c09Sample = []rune{'s', 't', 'r', 'n', 'a', 'e', '0', 'x', 'u', '\\', '\n', '\r', '\t', ' ', '$', '~', '@', '%', '(', ')', '"', '\'', '`', '#', ';', '|', '&', '{', '}', '[', ']', '*', '?', '<', '>', '=', '-', ':', '!', 'é'}

func c09Alphabet(extra map[rune]bool) []rune {
	set := map[rune]bool{}
	for _, r := range c09Sample {
		set[r] = true
	}
	for r := range extra {
		set[r] = true
	}
	var out []rune
	for r := range set {
		out = append(out, r)
	}
	sort.Slice(out, func(i, j int) bool { return out[i] < out[j] })
	return out
}

func runC09(c *Ctx) {
	c.Load(c09Pkg)
	c.Rule("R09a", "escape handling of parseStringInfix (exec=true): with the escape flag set the rune table is exactly s→' ', t→TAB, r→CR, n→LF, any other rune→itself, and the flag is cleared; `\\` sets the flag (appending nothing) iff the closing rune is not ')'")
	c.Rule("R09b", "single-quoted literals (parseString, exec=true, qStart=qEnd='\\''): the closing quote ends the literal, every other rune of the alphabet is appended verbatim; parseString delegates to parseStringInfix only when qStart != '\\''; outside the loop nothing is appended to the value when exec=true")
	c.Rule("R09c", "double-quoted and %(…) literals (parseStringInfix, exec=true, flag clear): `$` → variable/sub-shell expansion, `~` → tilde expansion, the closing rune ends the literal, `(` inside %(…) parses a nested pair and re-appends exactly one '(' and one ')', every other rune (incl. newline, `@`, `*`, `#`, `;`, `|`, quotes of the other kind, and `\\` inside %(…)) is appended verbatim")
	c.Rule("R09d", "every call of parseString passes (open, close) = the same case rune twice from an arm of quote runes, or the constant pairs ('(' , ')') / ('\\'','\\''); parseStringInfix is called with '\"' or the caller's own closing rune")

	// ------------------------------------------------------------------ infix
	if f := c.c09Find("R09a", "parseStringInfix"); f != nil {
		if f.flag == nil {
			c.Viol("R09a", "infix:escape-flag", f.sw.Pos(), "parseStringInfix has no clause that tests an escape flag: `\\\"` cannot be written inside a double-quoted literal")
		} else {
			c.OK("R09a", "infix:escape-flag", f.sw.Pos(), "escape flag %s located as the bool local tested by the clause conditions", f.flag.Name())
			al := c09Alphabet(f.mentioned())
			want := map[rune]rune{'s': ' ', 't': '\t', 'r': '\r', 'n': '\n'}
			nA, nC := 0, 0
			for _, q := range []struct {
				name string
				end  rune
			}{{"dq", '"'}, {"bq", ')'}} {
				for _, r := range al {
					// ---- flag set (R09a)
					env := c09Env{r: r, qEnd: q.end, flag: true, exec: true}
					key := "infix:" + q.name + ":escaped:" + c10Q(r)
					cl, pos, ok := f.behaviour(env)
					nA++
					switch {
					case !ok:
						c.Undecided("R09a", key, pos, "a clause condition of parseStringInfix is not a comparison over r, the closing rune, the escape flag and constants")
					case !cl.reset && cl.kind != "other":
						c.Viol("R09a", key, pos, "after `\\`%s the escape flag is not cleared: the following rune is read as escaped too", c10Q(r))
					default:
						if k, isEsc := want[r]; isEsc {
							c.Check(cl.kind == "const" && cl.k == k, "R09a", key, pos, "`\\%c` must yield %s (documented escape); the code: %s %s", r, c10Q(k), cl.kind, cl.detail)
						} else {
							c.Check(cl.kind == "verbatim", "R09a", key, pos, "`\\`+%s must yield the rune itself (only \\s \\t \\r \\n are escapes); the code: %s %s", c10Q(r), cl.kind, cl.detail)
						}
					}
					// ---- flag clear (R09a for '\\', R09c for the rest)
					env.flag = false
					cl, pos, ok = f.behaviour(env)
					rule, key := "R09c", "infix:"+q.name+":"+c10Q(r)
					if r == '\\' {
						rule = "R09a"
					}
					nC++
					if !ok {
						c.Undecided(rule, key, pos, "a clause condition of parseStringInfix is not a comparison over r, the closing rune, the escape flag and constants")
						continue
					}
					exp := "verbatim"
					switch {
					case r == q.end:
						exp = "end"
					case r == '\\' && q.end != ')':
						exp = "escape-start"
					case r == '$':
						exp = "expand-var"
					case r == '~':
						exp = "expand-tilde"
					case r == '(' && q.end == ')':
						exp = "nested"
					}
					what := map[string]string{
						"verbatim":     "be appended verbatim",
						"end":          "end the literal without being appended",
						"escape-start": "start an escape (set the flag, append nothing)",
						"expand-var":   "start a $variable / ${sub-shell} expansion",
						"expand-tilde": "start a ~ expansion",
						"nested":       "parse a nested ( ) pair and keep both parentheses",
					}[exp]
					qn := map[string]string{"dq": "a double-quoted literal", "bq": "a %(…) literal"}[q.name]
					c.Check(cl.kind == exp, rule, key, pos, "in %s the rune %s must %s; the code: %s (%s)", qn, c10Q(r), what, cl.kind, cl.detail)
				}
			}
			c.MinCount("R09a", "(quote kind, escaped rune) cases evaluated", nA, 80)
			c.MinCount("R09c", "(quote kind, rune) cases evaluated", nC, 80)
			f.noExtra("R09c", "infix:no-extra", c09Env{qEnd: '"', exec: true}, "parseStringInfix")
		}
	}

	// ------------------------------------------------------------------ single quote
	if f := c.c09Find("R09b", "parseString"); f != nil {
		al := c09Alphabet(f.mentioned())
		n := 0
		for _, r := range al {
			env := c09Env{r: r, qStart: '\'', qEnd: '\'', exec: true}
			key := "single:" + c10Q(r)
			cl, pos, ok := f.behaviour(env)
			n++
			if !ok {
				c.Undecided("R09b", key, pos, "a clause condition of parseString is not a comparison over r, the quote runes and constants")
				continue
			}
			exp := "verbatim"
			if r == '\'' {
				exp = "end"
			}
			c.Check(cl.kind == exp, "R09b", key, pos, "in a single-quoted literal the rune %s must be %s; the code: %s (%s)", c10Q(r), map[string]string{"verbatim": "appended verbatim", "end": "the end of the literal"}[exp], cl.kind, cl.detail)
		}
		c.MinCount("R09b", "runes evaluated in a single-quoted literal", n, 40)
		// delegation guard
		info := f.info
		nDel := 0
		walkStack(f.fd.Body, func(nd ast.Node, stack []ast.Node) bool {
			call, ok := nd.(*ast.CallExpr)
			if !ok || !callIs(info, call, mx(c09Pkg), "ParserT", "parseStringInfix") {
				return true
			}
			nDel++
			excluded := false
			for _, fact := range factsOf(guardsAt(info, stack)) {
				b, ok := unparen(fact.E).(*ast.BinaryExpr)
				if !ok {
					continue
				}
				env := c09Env{qStart: '\'', qEnd: '\'', exec: true}
				mentionsQ := false
				for _, side := range []ast.Expr{b.X, b.Y} {
					if id, ok := unparen(side).(*ast.Ident); ok && f.qStart != nil && info.ObjectOf(id) == f.qStart {
						mentionsQ = true
					}
				}
				if !mentionsQ {
					continue
				}
				if v, ok := f.cond(fact.E, env); ok && v != fact.True {
					excluded = true // the guard is false for a single quote
				}
			}
			c.Check(excluded, "R09b", "single:not-infix", call.Pos(), "parseString hands the literal to parseStringInfix only under a guard that is false for qStart='\\'' (otherwise `$`, `~` and `\\` are processed inside single quotes)")
			return true
		})
		c.MinCount("R09b", "delegations to parseStringInfix", nDel, 1)
		f.noExtra("R09b", "single:no-extra", c09Env{qStart: '\'', qEnd: '\'', exec: true}, "parseString")
	}

	// ------------------------------------------------------------------ callers
	c.c09Callers()

	// ------------------------------------------------------------------ R09e: what callers do with the literal's value
	c.Rule("R09e", "the runes returned by parseString reach the statement parameter (appendToParam) in parseStatement/parseSwitch and the AST node (appendAst) in parseExpression only through conversion — no other callee sees them; the statement quote arm sets canHaveZeroLenStr so that '' and \"\" are arguments; inside parseStringInfix the values of `$var`/`${…}` and `~` flow only into the returned runes")
	c.c09Consumers()
}

func (c *Ctx) c09Callers() {
	pk := c.Pkg(c09Pkg)
	if pk == nil {
		c.Lost("R09d", "pkg", "lang/expressions not loaded")
		return
	}
	info := pk.TypesInfo
	quoteRunes := map[rune]bool{'\'': true, '"': true, '`': true}
	n := 0
	perFn := map[string]int{}
	eachFunc(pk, func(fd *ast.FuncDecl) {
		walkStack(fd.Body, func(nd ast.Node, stack []ast.Node) bool {
			call, ok := nd.(*ast.CallExpr)
			if !ok {
				return true
			}
			isPS := callIs(info, call, mx(c09Pkg), "ParserT", "parseString")
			isInfix := callIs(info, call, mx(c09Pkg), "ParserT", "parseStringInfix")
			if !isPS && !isInfix {
				return true
			}
			n++
			perFn[fd.Name.Name]++
			key := fmt.Sprintf("call:%s#%d", fd.Name.Name, perFn[fd.Name.Name])
			// runes of the enclosing case arm when an argument is the switch variable
			armRunes := func(id *ast.Ident) ([]rune, bool) {
				o := info.ObjectOf(id)
				for i := len(stack) - 1; i >= 1; i-- {
					cc, ok := stack[i].(*ast.CaseClause)
					if !ok || i < 2 {
						continue
					}
					sw, ok := stack[i-2].(*ast.SwitchStmt)
					if !ok || sw.Tag == nil {
						continue
					}
					if tid, ok := unparen(sw.Tag).(*ast.Ident); !ok || info.ObjectOf(tid) != o {
						continue
					}
					var rs []rune
					for _, x := range cc.List {
						k, ok := constInt(info, x)
						if !ok {
							return nil, false
						}
						rs = append(rs, rune(k))
					}
					return rs, len(rs) > 0
				}
				return nil, false
			}
			// single-definition locals (`quote := r`) stand for their definition; resolution stops at
			// the switch variable of an enclosing constant arm, at a parameter and at anything that is not a plain copy
			fdefs := localDefs(info, fd.Body)
			resolveArg := func(e ast.Expr) ast.Expr {
				e = unparen(e)
				for i := 0; i < 4; i++ {
					id, ok := e.(*ast.Ident)
					if !ok {
						return e
					}
					if _, inArm := armRunes(id); inArm || isParam(info, fd, id) {
						return id
					}
					ds := fdefs[info.ObjectOf(id)]
					if len(ds) != 1 || ds[0] == nil {
						return id
					}
					next := unparen(ds[0])
					if _, isId := next.(*ast.Ident); !isId {
						if _, isConst := constInt(info, next); !isConst {
							return id
						}
					}
					e = next
				}
				return e
			}
			if isPS && len(call.Args) == 3 {
				a, b := resolveArg(call.Args[0]), resolveArg(call.Args[1])
				ka, okA := constInt(info, a)
				kb, okB := constInt(info, b)
				switch {
				case okA && okB:
					good := (ka == '(' && kb == ')') || (ka == kb && quoteRunes[rune(ka)])
					c.Check(good, "R09d", key, call.Pos(), "%s calls parseString(%s, %s): the pair must be ('(' , ')') or the same quote rune twice", fd.Name.Name, c.src(a), c.src(b))
				default:
					ia, ok1 := a.(*ast.Ident)
					ib, ok2 := b.(*ast.Ident)
					if ok1 && ok2 && info.ObjectOf(ia) == info.ObjectOf(ib) {
						rs, ok := armRunes(ia)
						good := ok
						for _, r := range rs {
							if !quoteRunes[r] {
								good = false
							}
						}
						if ok {
							c.Check(good, "R09d", key, call.Pos(), "%s calls parseString(%s, %s) in the arm of %q: every rune of the arm must be a quote rune", fd.Name.Name, ia.Name, ib.Name, string(rs))
						} else {
							c.Undecided("R09d", key, call.Pos(), "%s calls parseString(%s, %s) outside a constant case arm of that variable", fd.Name.Name, ia.Name, ib.Name)
						}
					} else if ok1 && ok2 && isParam(info, fd, ia) && isParam(info, fd, ib) {
						c.OK("R09d", key, call.Pos(), "%s forwards its own (open, close) parameters", fd.Name.Name)
					} else {
						c.Viol("R09d", key, call.Pos(), "%s calls parseString(%s, %s): open and close runes are neither one variable nor a constant pair — the literal ends at a different rune than it started with", fd.Name.Name, c.src(a), c.src(b))
					}
				}
			}
			if isInfix && len(call.Args) == 2 {
				a := resolveArg(call.Args[0])
				if k, ok := constInt(info, a); ok {
					c.Check(k == '"' || k == ')', "R09d", key, call.Pos(), "%s calls parseStringInfix(%s): closing rune must be '\"' or ')'", fd.Name.Name, c.src(a))
				} else if rs, inArm := c09ArmRunesOf(a, armRunes); inArm {
					// the switch variable inside a constant case arm: its value is one of the arm's runes
					good := true
					for _, r := range rs {
						if r != '"' && r != ')' {
							good = false
						}
					}
					c.Check(good, "R09d", key, call.Pos(), "%s calls parseStringInfix(%s) in the arm of %q: the closing rune must be '\"' or ')'", fd.Name.Name, c.src(a), string(rs))
				} else if id, ok := a.(*ast.Ident); ok && isParam(info, fd, id) && id.Name != "" {
					// must be the *closing* parameter: the last rune parameter
					last := ""
					for _, fl := range fd.Type.Params.List {
						if b, ok := info.TypeOf(fl.Type).Underlying().(*types.Basic); ok && b.Kind() == types.Int32 {
							for _, nm := range fl.Names {
								last = nm.Name
							}
						}
					}
					c.Check(id.Name == last, "R09d", key, call.Pos(), "%s passes %s to parseStringInfix as the closing rune (its closing-rune parameter is %s)", fd.Name.Name, id.Name, last)
				} else {
					c.Undecided("R09d", key, call.Pos(), "%s calls parseStringInfix(%s): closing rune is neither a constant nor the caller's parameter", fd.Name.Name, c.src(a))
				}
			}
			return true
		})
	})
	c.MinCount("R09d", "calls of parseString/parseStringInfix", n, 12)
}

func c09ArmRunesOf(a ast.Expr, armRunes func(*ast.Ident) ([]rune, bool)) ([]rune, bool) {
	id, ok := a.(*ast.Ident)
	if !ok {
		return nil, false
	}
	return armRunes(id)
}

func (c *Ctx) c09Consumers() {
	pk := c.Pkg(c09Pkg)
	if pk == nil {
		return
	}
	info := pk.TypesInfo
	type site struct {
		fn    string
		sinks []string
	}
	n := 0
	for _, st := range []site{
		{"parseStatement", []string{"lang/expressions.appendToParam"}},
		{"parseSwitch", []string{"lang/expressions.appendToParam"}},
		{"parseExpression", []string{"lang/expressions.(ParserT).appendAst"}},
	} {
		fd, _ := c.MustFunc("R09e", c09Pkg, "ParserT", st.fn)
		if fd == nil {
			continue
		}
		fn := c.SSAFunc(pk, fd)
		if fn == nil {
			c.Lost("R09e", "ssa:"+st.fn, "no SSA for %s", st.fn)
			continue
		}
		srcs := c08Sources(fn, map[string]int{"lang/expressions.(ParserT).parseString": 0}, "")
		vals := srcs["lang/expressions.(ParserT).parseString"]
		n += len(vals)
		fl := c.c08NewFlow()
		fl.sinkNames = map[string]bool{}
		for _, s := range st.sinks {
			fl.sinkNames[s] = true
		}
		for _, v := range vals {
			fl.taint(v)
		}
		fl.run()
		key := "literal:" + st.fn
		if len(vals) == 0 {
			c.Viol("R09e", key, fd.Pos(), "%s no longer calls parseString for its quote arm", st.fn)
			continue
		}
		c.c08Report("R09e", key, fd.Pos(), fl, fmt.Sprintf("runes of a quoted literal in %s (%d parseString calls)", st.fn, len(vals)))
	}
	c.MinCount("R09e", "parseString results followed", n, 4)
	// statement quote arm: canHaveZeroLenStr = true
	if p := c.c10FindParser("R09e"); p != nil {
		fall := false // the previous quote arm was `case '\'': fallthrough` — this arm does its work
		for _, st := range p.main.Body.List {
			cc := st.(*ast.CaseClause)
			isQuote := fall
			fall = false
			for _, x := range cc.List {
				if k, ok := constInt(info, x); ok && (k == '\'' || k == '"') {
					isQuote = true
				}
			}
			if !isQuote {
				continue
			}
			good := false
			for _, s := range cc.Body {
				if as, ok := s.(*ast.AssignStmt); ok && len(as.Lhs) == 1 && len(as.Rhs) == 1 && isField(info, as.Lhs[0], c10StatementT, "canHaveZeroLenStr") {
					if b, ok := constBool(info, as.Rhs[0]); ok && b {
						good = true
					}
				}
			}
			if !good && len(cc.Body) > 0 {
				if br, ok := cc.Body[len(cc.Body)-1].(*ast.BranchStmt); ok && br.Tok == token.FALLTHROUGH {
					fall = true
					continue
				}
			}
			c.Check(good, "R09e", "statement-quote-arm:zero-len", cc.Pos(), "the quote arm of parseStatement sets canHaveZeroLenStr unconditionally: an empty literal '' / \"\" is one zero-length argument, not nothing")
		}
	}
	// expansions inside parseStringInfix flow only into the returned runes
	if fd, _ := c.MustFunc("R09e", c09Pkg, "ParserT", "parseStringInfix"); fd != nil {
		if fn := c.SSAFunc(pk, fd); fn != nil {
			srcs := c08Sources(fn, map[string]int{
				"lang/expressions.(ParserT).parseVarScalar": 1,
				"lang/expressions.(ParserT).parseVarTilde":  0,
			}, mx("lang/expressions/primitives")+".FunctionT")
			var names []string
			for k := range srcs {
				names = append(names, k)
			}
			sort.Strings(names)
			for _, k := range names {
				fl := c.c08NewFlow()
				fl.retIdx["lang/expressions.(ParserT).parseStringInfix"] = 0
				for _, v := range srcs[k] {
					fl.taint(v)
				}
				fl.run()
				short := k[strings.LastIndex(k, ".")+1:]
				c.c08Report("R09e", "infix-expansion:"+short, fd.Pos(), fl, fmt.Sprintf("value of %s inside a double-quoted/%%(…) literal", short))
			}
			c.MinCount("R09e", "expansion sources in parseStringInfix", len(names), 3)
		}
	}
}

// noExtra: with exec=true nothing is stored into the value outside the rune loop.
func (f *c09Fn) noExtra(rule, key string, env c09Env, name string) {
	c, info := f.c, f.info
	var flat []ast.Stmt
	var outside []ast.Stmt
	for _, s := range f.fd.Body.List {
		if s != ast.Stmt(f.loop) {
			if ls, ok := s.(*ast.LabeledStmt); ok {
				outside = append(outside, ls.Stmt)
			} else {
				outside = append(outside, s)
			}
		}
	}
	f.flatten(outside, env, &flat)
	extra := ""
	for _, s := range flat {
		if _, isStore, _ := f.isAppendTo(s); isStore {
			extra = c.src(s)
		}
		if as, ok := s.(*ast.AssignStmt); ok && as.Tok == token.ASSIGN {
			for _, l := range as.Lhs {
				if id, ok := unparen(l).(*ast.Ident); ok && info.ObjectOf(id) == f.valObj {
					extra = c.src(s)
				}
			}
		}
	}
	c.Check(extra == "", rule, key, f.fd.Pos(), "with exec=true %s stores nothing into the value outside the rune loop (the quote runes themselves are not part of the value) %s", name, extra)
}
