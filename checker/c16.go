package main

func init() {
	register("C16", "Decides, for every slice index / slice bound in the indexing code (lang/define_index_objects.go, define_element_object.go, define_index_tables.go, utils/alter, builtins/core/{index,element,ranges}, the str/jsonl/jsonconcat line indexers) whose operand derives from a number the user typed (strconv.Atoi/ParseInt, through arithmetic, φ and bounded-index helpers), that it is proven >= 0 and < len(container) on every path from dominating comparisons (sign/bounds domain on go/ssa). A failed proof is a reachable runtime panic for some index in the property's quantifier. Does NOT decide which element is returned (map-key semantics, negative-index arithmetic as a value) nor indices that flow through struct fields, maps or []int containers (the table indexers' row lists).", runC16)
}

var c16Pkgs = []string{"lang", "utils/alter", "builtins/core/index", "builtins/core/element", "builtins/core/ranges", "builtins/types/string", "builtins/types/jsonlines", "builtins/types/jsonconcat"}

func runC16(c *Ctx) {
	c.Load(c16Pkgs...)
	c.Rule("R16a", "E5 sign/bounds: every Index/IndexAddr/Slice operand that derives from strconv.Atoi/ParseInt is proven within [0, len(container)) (slice bounds: [0, len]) on every path; isValidElementIndex is a bounded-index helper (every nil-error return within [0, length))")
	n := c.checkIndexBounds("R16a", c16Pkgs, []string{"isValidElementIndex"})
	c.MinCount("R16a", "user-derived index sites", n, 8)
}
