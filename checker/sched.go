package main

// E2c — between-events path rule for the scheduler functions
// (runModeNormal / runModeTry / runModeTryPipe in lang/interpreter_*.go).
//
// The function body is explored path by path on go/cfg, carrying a tiny
// symbolic environment for the integer locals (loop index, next, prev): a value
// is a constant, or <symbol>+offset, where LEN (= len(*procs)) is a symbol too.
// Branch conditions are expanded with short-circuit semantics; a branch is
// pruned only when the environment proves it infeasible (index vs LEN bounds,
// exit-number interval, a flag already read on this path). Events:
//   START(k)  go executeProcess(&procs[k])
//   SKIP(k)   procs[k] marked terminated without being started
//   WAIT(k)   synchronous waitProcess(&procs[k])
//   EXAM(k)   read of procs[k].OperatorLogicOr/OperatorLogicAnd (IsMethod is recorded with its truth)
// At every event the environment is rebased on the event's index, so the set
// of abstract states is finite and the exploration terminates.
//
// Obligations decided on every path:
//   examined-before-start: START(k), k not the first process, needs EXAM(k)
//     since the previous START, or procs[k].IsMethod known true, or k was just skipped
//     (normal mode starts skipped processes; they return at once).
//   wait-before-next: START(k)/SKIP(k) directly after START(k-1) needs WAIT(k-1),
//     unless procs[k].IsMethod is known true on the path (pipelined stage).
//   exit-after-wait (try modes): reading procs[k].ExitNum needs WAIT(k) on the path.

import (
	"fmt"
	"go/ast"
	"go/token"
	"go/types"
	"os"
	"sort"
	"strings"

	"golang.org/x/tools/go/cfg"
)

type sval struct {
	kind int // 0 unknown, 1 const, 2 sym+off
	sym  string
	off  int64
}

func (v sval) String() string {
	switch v.kind {
	case 1:
		return fmt.Sprint(v.off)
	case 2:
		if v.off == 0 {
			return v.sym
		}
		return fmt.Sprintf("%s%+d", v.sym, v.off)
	}
	return "?"
}

type schedState struct {
	env      map[types.Object]sval
	lt       map[string]int64 // sym -> largest a with sym+a < LEN known
	ge       map[string]int64 // sym -> smallest a with sym+a >= LEN known
	lo       map[string]int64 // sym >= lo
	ilo, ihi map[types.Object]int64
	hasLo    map[types.Object]bool
	hasHi    map[types.Object]bool
	ine      map[types.Object]map[int64]bool // known disequalities
	examined map[string]bool                 // "sym+off"
	method   map[string]int                  // +1 true, -1 false
	flag     map[string]int                  // "Or:idx" -> +1/-1
	waited   map[string]bool
	skipped  map[string]bool
	lastKind string // "", "START", "SKIP"
	lastIdx  sval
	trail    []string
	// bexpr: boolean local -> the expression it was last assigned (isMethod := procs[i].IsMethod,
	// failed := procs[prev].ExitNum != 0). A test of the local is decided by evaluating that
	// expression; the entry is dropped as soon as a variable the expression mentions is reassigned.
	bexpr map[types.Object]ast.Expr
}

func (s *schedState) clone() *schedState {
	n := &schedState{env: map[types.Object]sval{}, lt: map[string]int64{}, ge: map[string]int64{}, lo: map[string]int64{},
		ilo: map[types.Object]int64{}, ihi: map[types.Object]int64{}, hasLo: map[types.Object]bool{}, hasHi: map[types.Object]bool{}, ine: map[types.Object]map[int64]bool{},
		examined: map[string]bool{}, method: map[string]int{}, flag: map[string]int{}, waited: map[string]bool{}, skipped: map[string]bool{},
		lastKind: s.lastKind, lastIdx: s.lastIdx, bexpr: map[types.Object]ast.Expr{}}
	for k, v := range s.env {
		n.env[k] = v
	}
	for k, v := range s.bexpr {
		n.bexpr[k] = v
	}
	for k, v := range s.lt {
		n.lt[k] = v
	}
	for k, v := range s.ge {
		n.ge[k] = v
	}
	for k, v := range s.lo {
		n.lo[k] = v
	}
	for k, v := range s.ilo {
		n.ilo[k] = v
	}
	for k, v := range s.ihi {
		n.ihi[k] = v
	}
	for k, v := range s.hasLo {
		n.hasLo[k] = v
	}
	for k, v := range s.hasHi {
		n.hasHi[k] = v
	}
	for o, m := range s.ine {
		n.ine[o] = map[int64]bool{}
		for k := range m {
			n.ine[o][k] = true
		}
	}
	for k, v := range s.examined {
		n.examined[k] = v
	}
	for k, v := range s.method {
		n.method[k] = v
	}
	for k, v := range s.flag {
		n.flag[k] = v
	}
	for k, v := range s.waited {
		n.waited[k] = v
	}
	for k, v := range s.skipped {
		n.skipped[k] = v
	}
	n.trail = append([]string(nil), s.trail...)
	return n
}

func (s *schedState) sig() string {
	var parts []string
	for o, v := range s.env {
		parts = append(parts, o.Name()+"="+v.String())
	}
	for k, v := range s.lt {
		parts = append(parts, fmt.Sprintf("lt:%s:%d", k, v))
	}
	for k, v := range s.ge {
		parts = append(parts, fmt.Sprintf("ge:%s:%d", k, v))
	}
	for k, v := range s.lo {
		parts = append(parts, fmt.Sprintf("lo:%s:%d", k, v))
	}
	for o := range s.hasLo {
		parts = append(parts, fmt.Sprintf("ilo:%s:%d", o.Name(), s.ilo[o]))
	}
	for o := range s.hasHi {
		parts = append(parts, fmt.Sprintf("ihi:%s:%d", o.Name(), s.ihi[o]))
	}
	for o, m := range s.ine {
		for k := range m {
			parts = append(parts, fmt.Sprintf("ne:%s:%d", o.Name(), k))
		}
	}
	for k := range s.examined {
		parts = append(parts, "ex:"+k)
	}
	for k, v := range s.method {
		parts = append(parts, fmt.Sprintf("m:%s:%d", k, v))
	}
	for k, v := range s.flag {
		parts = append(parts, fmt.Sprintf("f:%s:%d", k, v))
	}
	for k := range s.waited {
		parts = append(parts, "w:"+k)
	}
	for k := range s.skipped {
		parts = append(parts, "s:"+k)
	}
	for o, e := range s.bexpr {
		parts = append(parts, fmt.Sprintf("bx:%s@%d", o.Name(), e.Pos()))
	}
	parts = append(parts, "last:"+s.lastKind+":"+s.lastIdx.String())
	sort.Strings(parts)
	return strings.Join(parts, ",")
}

// rebase renames v's symbol so that v becomes b+0; everything expressed in
// the old symbol is shifted.
func (s *schedState) rebase(v sval) {
	if v.kind == 1 {
		// constant index (first iteration): introduce symbol b = const
		for o, e := range s.env {
			if e.kind == 1 {
				s.env[o] = sval{2, "b", e.off - v.off}
			}
		}
		shift := func(m map[string]bool) map[string]bool {
			n := map[string]bool{}
			for k := range m {
				var c int64
				if _, err := fmt.Sscanf(k, "%d", &c); err == nil && !strings.ContainsAny(k, "bL") {
					n[sval{2, "b", c - v.off}.String()] = true
				} else {
					n[k] = true
				}
			}
			return n
		}
		s.examined, s.waited, s.skipped = shift(s.examined), shift(s.waited), shift(s.skipped)
		nm := map[string]int{}
		for k, t := range s.method {
			var c int64
			if _, err := fmt.Sscanf(k, "%d", &c); err == nil && !strings.ContainsAny(k, "bL") {
				nm[sval{2, "b", c - v.off}.String()] = t
			} else {
				nm[k] = t
			}
		}
		s.method = nm
		s.flag = map[string]int{}
		s.lo["b"] = v.off
		if s.lastIdx.kind == 1 {
			s.lastIdx = sval{2, "b", s.lastIdx.off - v.off}
		}
		return
	}
	if v.kind != 2 || v.sym == "LEN" {
		return
	}
	d := v.off
	old := v.sym
	for o, e := range s.env {
		if e.kind == 2 && e.sym == old {
			s.env[o] = sval{2, "b", e.off - d}
		}
	}
	if s.lastIdx.kind == 2 && s.lastIdx.sym == old {
		s.lastIdx = sval{2, "b", s.lastIdx.off - d}
	}
	reSet := func(m map[string]bool) map[string]bool {
		n := map[string]bool{}
		for k := range m {
			n[shiftKey(k, old, d)] = true
		}
		return n
	}
	s.examined, s.waited, s.skipped = reSet(s.examined), reSet(s.waited), reSet(s.skipped)
	nm := map[string]int{}
	for k, t := range s.method {
		nm[shiftKey(k, old, d)] = t
	}
	s.method = nm
	nf := map[string]int{}
	for k, t := range s.flag {
		p := strings.SplitN(k, ":", 2)
		nf[p[0]+":"+shiftKey(p[1], old, d)] = t
	}
	s.flag = nf
	// bounds: old+a < LEN  => b + (a+d) < LEN
	// (facts are weakened to a bounded range so that the abstract state space is finite)
	if a, ok := s.lt[old]; ok {
		delete(s.lt, old)
		if a-d >= 0 {
			s.lt["b"] = a - d
		}
	}
	if a, ok := s.ge[old]; ok {
		delete(s.ge, old)
		if a-d < 0 {
			s.ge["b"] = 0
		} else {
			s.ge["b"] = a - d
		}
	}
	if l, ok := s.lo[old]; ok {
		delete(s.lo, old)
		if l+d > 1 {
			s.lo["b"] = 1
		} else {
			s.lo["b"] = l + d
		}
	}
}

func shiftKey(k, sym string, d int64) string {
	// k is sval.String(): "sym", "sym+3", "sym-1"
	if k == sym {
		return sval{2, "b", -d}.String()
	}
	if strings.HasPrefix(k, sym+"+") || strings.HasPrefix(k, sym+"-") {
		var off int64
		fmt.Sscanf(k[len(sym):], "%d", &off)
		return sval{2, "b", off - d}.String()
	}
	return k
}

type schedFinding struct {
	rule, key string
	pos       token.Pos
	msg       string
	trail     []string
}

type schedExplorer struct {
	c        *Ctx
	info     *types.Info
	fd       *ast.FuncDecl
	procs    types.Object
	g        *cfg.CFG
	visited  map[string]bool
	okCount  map[string]int
	okPos    map[string]token.Pos
	findings map[string]*schedFinding
	undec    []string
	tryMode  bool
	steps    int
	pseudos  map[string]types.Object
}

// exploreScheduler runs the path exploration and records obligations under
// the given rule ids.
func (c *Ctx) exploreScheduler(pkRel string, fd *ast.FuncDecl, info *types.Info, ruleExam, ruleWait, ruleExit string, tryMode bool) {
	ex := &schedExplorer{c: c, info: info, fd: fd, visited: map[string]bool{}, okCount: map[string]int{}, okPos: map[string]token.Pos{}, findings: map[string]*schedFinding{}, tryMode: tryMode}
	if fd.Type.Params != nil && len(fd.Type.Params.List) > 0 && len(fd.Type.Params.List[0].Names) > 0 {
		ex.procs = info.Defs[fd.Type.Params.List[0].Names[0]]
	}
	if ex.procs == nil {
		c.Undecided(ruleExam, fd.Name.Name+":params", fd.Pos(), "scheduler has no process-list parameter")
		return
	}
	ex.g = cfg.New(fd.Body, func(*ast.CallExpr) bool { return true })
	st := (&schedState{}).clone()
	ex.walk(ex.g.Blocks[0], 0, st)
	fn := fd.Name.Name
	ruleOf := map[string]string{"exam": ruleExam, "wait": ruleWait, "exit": ruleExit}
	keys := map[string]bool{}
	for k := range ex.okCount {
		keys[k] = true
	}
	for k := range ex.findings {
		keys[k] = true
	}
	var ks []string
	for k := range keys {
		ks = append(ks, k)
	}
	sort.Strings(ks)
	for _, k := range ks {
		kind := strings.SplitN(k, ":", 2)[0]
		rule := ruleOf[kind]
		if rule == "" {
			continue
		}
		if f := ex.findings[k]; f != nil {
			c.Viol(rule, fn+":"+k, f.pos, "%s; path: %s", f.msg, strings.Join(f.trail, " → "))
		} else {
			c.OK(rule, fn+":"+k, ex.okPos[k], "holds on all %d explored path segments", ex.okCount[k])
		}
	}
	ur := ruleExam
	if ur == "" {
		ur = ruleWait
	}
	if ur == "" {
		ur = ruleExit
	}
	for _, u := range ex.undec {
		c.Undecided(ur, fn+":explore", fd.Pos(), "%s", u)
	}
	c.Info("%s: explored %d abstract states of %s", ur, len(ex.visited), fn)
}

func (ex *schedExplorer) line(n ast.Node) string {
	return fmt.Sprintf("L%d", ex.c.Fset.Position(n.Pos()).Line)
}

func (ex *schedExplorer) note(kind, sub string, ok bool, pos token.Pos, st *schedState, msg string) {
	k := kind + ":" + sub
	if ok {
		ex.okCount[k]++
		if _, has := ex.okPos[k]; !has {
			ex.okPos[k] = pos
		}
		return
	}
	if ex.findings[k] == nil {
		ex.findings[k] = &schedFinding{pos: pos, msg: msg, trail: append([]string(nil), st.trail...)}
	}
}

// evalIdx evaluates an integer expression to a symbolic value.
func (ex *schedExplorer) evalIdx(e ast.Expr, st *schedState) sval {
	e = unparen(e)
	if v, ok := constInt(ex.info, e); ok {
		return sval{1, "", v}
	}
	switch x := e.(type) {
	case *ast.Ident:
		if o := ex.info.ObjectOf(x); o != nil {
			if v, ok := st.env[o]; ok {
				return v
			}
		}
	case *ast.CallExpr:
		if call, ok := isBuiltinCall(ex.info, x, "len"); ok && len(call.Args) == 1 && ex.isProcs(call.Args[0]) {
			return sval{2, "LEN", 0}
		}
	case *ast.BinaryExpr:
		if x.Op == token.ADD || x.Op == token.SUB {
			a, b := ex.evalIdx(x.X, st), ex.evalIdx(x.Y, st)
			if b.kind == 1 && a.kind != 0 {
				if x.Op == token.ADD {
					a.off += b.off
				} else {
					a.off -= b.off
				}
				return a
			}
			if a.kind == 1 && b.kind == 2 && x.Op == token.ADD {
				b.off += a.off
				return b
			}
		}
	}
	return sval{}
}

func (ex *schedExplorer) isProcs(e ast.Expr) bool {
	e = unparen(e)
	if s, ok := e.(*ast.StarExpr); ok {
		e = unparen(s.X)
	}
	id, ok := e.(*ast.Ident)
	return ok && ex.info.ObjectOf(id) == ex.procs
}

// procIndex: e is (*procs)[idx] (possibly behind &); returns idx value.
func (ex *schedExplorer) procIndex(e ast.Expr, st *schedState) (sval, bool) {
	e = unparen(e)
	if u, ok := e.(*ast.UnaryExpr); ok && u.Op == token.AND {
		e = unparen(u.X)
	}
	// pointer local bound to an element of the list: p := &(*procs)[k] ; p.ExitNum, waitProcess(p)
	if id, ok := e.(*ast.Ident); ok {
		if o := ex.info.ObjectOf(id); o != nil && isPointerVar(o) {
			if v, ok := st.env[o]; ok {
				return v, true
			}
		}
		return sval{}, false
	}
	ix, ok := e.(*ast.IndexExpr)
	if !ok || !ex.isProcs(ix.X) {
		return sval{}, false
	}
	return ex.evalIdx(ix.Index, st), true
}

func isPointerVar(o types.Object) bool {
	if _, ok := o.(*types.Var); !ok {
		return false
	}
	_, ok := o.Type().Underlying().(*types.Pointer)
	return ok
}

// forget drops the boolean-local definitions that mention o (o was reassigned).
func (ex *schedExplorer) forget(o types.Object, st *schedState) {
	for b, e := range st.bexpr {
		if b == o || mentions(ex.info, e, o) {
			delete(st.bexpr, b)
		}
	}
}

// procField: e is (*procs)[idx].Field
func (ex *schedExplorer) procField(e ast.Expr, st *schedState) (sval, string, bool) {
	se, ok := unparen(e).(*ast.SelectorExpr)
	if !ok {
		return sval{}, "", false
	}
	v, ok := ex.procIndex(se.X, st)
	if !ok {
		return sval{}, "", false
	}
	return v, se.Sel.Name, true
}

type condBranch struct {
	st    *schedState
	truth bool
}

// cmp decides `a op b` over symbolic values or returns undecided; on fork it
// records the fact in the branch states.
func (ex *schedExplorer) cmpSym(a, b sval, op token.Token, st *schedState) []condBranch {
	neg := map[token.Token]token.Token{token.LSS: token.GEQ, token.GEQ: token.LSS, token.GTR: token.LEQ, token.LEQ: token.GTR, token.EQL: token.NEQ, token.NEQ: token.EQL}
	both := func() []condBranch { return []condBranch{{st.clone(), true}, {st.clone(), false}} }
	if a.kind == 0 || b.kind == 0 {
		return both()
	}
	// const vs const / same symbol
	if (a.kind == 1 && b.kind == 1) || (a.kind == 2 && b.kind == 2 && a.sym == b.sym) {
		r := intPred(op, b.off)(a.off)
		return []condBranch{{st.clone(), r}}
	}
	// normalise to: s + k  OP  LEN   (s non-LEN symbol)
	if a.kind == 2 && b.kind == 2 && (a.sym == "LEN") != (b.sym == "LEN") {
		if a.sym == "LEN" {
			a, b = b, a
			op = map[token.Token]token.Token{token.LSS: token.GTR, token.GTR: token.LSS, token.LEQ: token.GEQ, token.GEQ: token.LEQ, token.EQL: token.EQL, token.NEQ: token.NEQ}[op]
		}
		k := a.off - b.off // s + k OP LEN
		s := a.sym
		// express each op as set of (lt-fact/ge-fact)
		// s+k <  LEN : lt k        ; s+k >= LEN : ge k
		// s+k <= LEN : lt k-1      ; s+k >  LEN : ge k-1
		// s+k == LEN : ge k & lt k-1
		apply := func(ns *schedState, o token.Token) bool {
			setLT := func(a int64) {
				if cur, ok := ns.lt[s]; !ok || a > cur {
					ns.lt[s] = a
				}
			}
			setGE := func(a int64) {
				if cur, ok := ns.ge[s]; !ok || a < cur {
					ns.ge[s] = a
				}
			}
			switch o {
			case token.LSS:
				setLT(k)
			case token.GEQ:
				setGE(k)
			case token.LEQ:
				setLT(k - 1)
			case token.GTR:
				setGE(k - 1)
			case token.EQL:
				setGE(k)
				setLT(k - 1)
			case token.NEQ:
				// no single fact
			}
			// consistency: s <= LEN-lt-1 and s >= LEN-ge  => LEN-ge <= LEN-lt-1 => ge >= lt+1
			if l, ok := ns.lt[s]; ok {
				if g, ok := ns.ge[s]; ok && g <= l {
					return false
				}
			}
			return true
		}
		var out []condBranch
		t := st.clone()
		if apply(t, op) {
			out = append(out, condBranch{t, true})
		}
		f := st.clone()
		if apply(f, neg[op]) {
			out = append(out, condBranch{f, false})
		}
		return out
	}
	// symbol vs const, using lower bound
	if a.kind == 1 && b.kind == 2 {
		a, b = b, a
		op = map[token.Token]token.Token{token.LSS: token.GTR, token.GTR: token.LSS, token.LEQ: token.GEQ, token.GEQ: token.LEQ, token.EQL: token.EQL, token.NEQ: token.NEQ}[op]
	}
	if a.kind == 2 && b.kind == 1 && a.sym != "LEN" {
		// a.sym + a.off OP b.off ; known a.sym >= lo
		if lo, ok := st.lo[a.sym]; ok {
			min := lo + a.off
			switch op {
			case token.GTR:
				if min > b.off {
					return []condBranch{{st.clone(), true}}
				}
			case token.GEQ:
				if min >= b.off {
					return []condBranch{{st.clone(), true}}
				}
			case token.LSS:
				if min >= b.off {
					return []condBranch{{st.clone(), false}}
				}
			case token.LEQ:
				if min > b.off {
					return []condBranch{{st.clone(), false}}
				}
			case token.EQL:
				if min > b.off {
					return []condBranch{{st.clone(), false}}
				}
			case token.NEQ:
				if min > b.off {
					return []condBranch{{st.clone(), true}}
				}
			}
		}
	}
	return both()
}

func (ex *schedExplorer) evalCond(e ast.Expr, st *schedState) []condBranch {
	e = unparen(e)
	switch x := e.(type) {
	case *ast.UnaryExpr:
		if x.Op == token.NOT {
			bs := ex.evalCond(x.X, st)
			for i := range bs {
				bs[i].truth = !bs[i].truth
			}
			return bs
		}
	case *ast.BinaryExpr:
		switch x.Op {
		case token.LAND, token.LOR:
			var out []condBranch
			for _, b := range ex.evalCond(x.X, st) {
				if (x.Op == token.LAND) == b.truth {
					out = append(out, ex.evalCond(x.Y, b.st)...)
				} else {
					out = append(out, b)
				}
			}
			return out
		case token.LSS, token.LEQ, token.GTR, token.GEQ, token.EQL, token.NEQ:
			// record field reads on either side
			for _, side := range []ast.Expr{x.X, x.Y} {
				ex.noteReads(side, st)
			}
			// procs[k].ExitNum vs const: interval keyed by the process index, so that
			// `ExitNum == 0` and `ExitNum != 0` on one path stay consistent
			for _, sides := range [][2]ast.Expr{{x.X, x.Y}, {x.Y, x.X}} {
				if idx, field, ok := ex.procField(sides[0], st); ok && field == "ExitNum" && idx.kind != 0 {
					if k, ok := constInt(ex.info, sides[1]); ok {
						op := x.Op
						if sides[0] != x.X {
							op = map[token.Token]token.Token{token.LSS: token.GTR, token.GTR: token.LSS, token.LEQ: token.GEQ, token.GEQ: token.LEQ, token.EQL: token.EQL, token.NEQ: token.NEQ}[op]
						}
						return ex.cmpInterval(ex.pseudo("ExitNum:"+idx.String()), op, k, st)
					}
				}
			}
			// opaque int local vs const (exit number interval)
			if id, ok := unparen(x.X).(*ast.Ident); ok {
				if o := ex.info.ObjectOf(id); o != nil {
					if _, tracked := st.env[o]; !tracked {
						if k, ok := constInt(ex.info, x.Y); ok {
							return ex.cmpInterval(o, x.Op, k, st)
						}
					}
				}
			}
			a, b := ex.evalIdx(x.X, st), ex.evalIdx(x.Y, st)
			return ex.cmpSym(a, b, x.Op, st)
		}
	case *ast.Ident:
		if o := ex.info.ObjectOf(x); o != nil {
			if def, ok := st.bexpr[o]; ok {
				return ex.evalCond(def, st)
			}
		}
	case *ast.SelectorExpr:
		if idx, field, ok := ex.procField(x, st); ok {
			key := idx.String()
			switch field {
			case "OperatorLogicOr", "OperatorLogicAnd":
				if idx.kind != 0 {
					st.examined[key] = true
				}
				fk := field + ":" + key
				if t, ok := st.flag[fk]; ok && idx.kind != 0 {
					return []condBranch{{st.clone(), t > 0}}
				}
				t, f := st.clone(), st.clone()
				if idx.kind != 0 {
					t.flag[fk], f.flag[fk] = 1, -1
				}
				return []condBranch{{t, true}, {f, false}}
			case "IsMethod":
				if t, ok := st.method[key]; ok && idx.kind != 0 {
					return []condBranch{{st.clone(), t > 0}}
				}
				t, f := st.clone(), st.clone()
				if idx.kind != 0 {
					t.method[key], f.method[key] = 1, -1
				}
				return []condBranch{{t, true}, {f, false}}
			}
		}
	}
	ex.noteReads(e, st)
	return []condBranch{{st.clone(), true}, {st.clone(), false}}
}

// pseudo returns a stable fake object used as an interval key.
func (ex *schedExplorer) pseudo(name string) types.Object {
	if ex.pseudos == nil {
		ex.pseudos = map[string]types.Object{}
	}
	if o, ok := ex.pseudos[name]; ok {
		return o
	}
	o := types.NewVar(token.NoPos, nil, name, types.Typ[types.Int])
	ex.pseudos[name] = o
	return o
}

func (ex *schedExplorer) cmpInterval(o types.Object, op token.Token, k int64, st *schedState) []condBranch {
	mk := func(o2 token.Token) *schedState {
		n := st.clone()
		setLo := func(v int64) {
			if !n.hasLo[o] || v > n.ilo[o] {
				n.ilo[o], n.hasLo[o] = v, true
			}
		}
		setHi := func(v int64) {
			if !n.hasHi[o] || v < n.ihi[o] {
				n.ihi[o], n.hasHi[o] = v, true
			}
		}
		switch o2 {
		case token.LSS:
			setHi(k - 1)
		case token.LEQ:
			setHi(k)
		case token.GTR:
			setLo(k + 1)
		case token.GEQ:
			setLo(k)
		case token.EQL:
			setLo(k)
			setHi(k)
		}
		if o2 == token.NEQ {
			if n.ine[o] == nil {
				n.ine[o] = map[int64]bool{}
			}
			n.ine[o][k] = true
		}
		if n.hasLo[o] && n.hasHi[o] && n.ilo[o] > n.ihi[o] {
			return nil
		}
		if n.hasLo[o] && n.hasHi[o] && n.ilo[o] == n.ihi[o] && n.ine[o][n.ilo[o]] {
			return nil
		}
		return n
	}
	neg := map[token.Token]token.Token{token.LSS: token.GEQ, token.GEQ: token.LSS, token.GTR: token.LEQ, token.LEQ: token.GTR, token.EQL: token.NEQ, token.NEQ: token.EQL}
	var out []condBranch
	if t := mk(op); t != nil {
		out = append(out, condBranch{t, true})
	}
	if f := mk(neg[op]); f != nil {
		out = append(out, condBranch{f, false})
	}
	return out
}

// noteReads records ExitNum reads (exit-after-wait) inside an expression.
func (ex *schedExplorer) noteReads(e ast.Node, st *schedState) {
	ast.Inspect(e, func(n ast.Node) bool {
		se, ok := n.(*ast.SelectorExpr)
		if !ok {
			return true
		}
		if idx, field, ok := ex.procField(se, st); ok && field == "ExitNum" && ex.tryMode {
			okW := idx.kind != 0 && (st.waited[idx.String()] || st.skipped[idx.String()])
			st.trail = append(st.trail, ex.line(se)+":read ExitNum("+idx.String()+")")
			ex.note("exit", "ExitNum-read", okW, se.Pos(), st, fmt.Sprintf("exit number of process %s is read without a synchronous waitProcess on it earlier on the path: the scheduler would judge success/failure before the command finished", idx))
		}
		return true
	})
}

func (ex *schedExplorer) walk(b *cfg.Block, from int, st *schedState) {
	ex.steps++
	if ex.steps > 50000 {
		if len(ex.undec) == 0 {
			ex.undec = append(ex.undec, "path exploration exceeded its step bound")
		}
		return
	}
	if from == 0 {
		key := fmt.Sprintf("%d|%s", b.Index, st.sig())
		if ex.visited[key] {
			return
		}
		ex.visited[key] = true
		if os.Getenv("SCHED_DEBUG") != "" && len(ex.visited) < 80 {
			fmt.Fprintln(os.Stderr, "STATE", ex.fd.Name.Name, key)
		}
	}
	for i := from; i < len(b.Nodes); i++ {
		n := b.Nodes[i]
		last := i == len(b.Nodes)-1
		if last && len(b.Succs) == 2 {
			if e, ok := n.(ast.Expr); ok {
				for _, br := range ex.evalCond(e, st) {
					br.st.trail = append(br.st.trail, fmt.Sprintf("%s:%v", ex.line(n), br.truth))
					if len(br.st.trail) > 40 {
						br.st.trail = br.st.trail[len(br.st.trail)-40:]
					}
					if br.truth {
						ex.walk(b.Succs[0], 0, br.st)
					} else {
						ex.walk(b.Succs[1], 0, br.st)
					}
				}
				return
			}
		}
		if !ex.exec(n, st) {
			return // path ended (return)
		}
	}
	switch len(b.Succs) {
	case 0:
		return
	case 1:
		ex.walk(b.Succs[0], 0, st)
	case 2:
		// range loop header (no condition node)
		if b.Kind == cfg.KindRangeLoop {
			if rs, ok := b.Stmt.(*ast.RangeStmt); ok && ex.isProcs(rs.X) {
				if id, ok := rs.Key.(*ast.Ident); ok {
					o := ex.info.ObjectOf(id)
					body := st.clone()
					ex.forget(o, body)
					v := body.env[o]
					if v.kind != 0 {
						v.off++
						if v.off > 6 || v.off < -6 {
							v = sval{}
						}
					}
					body.env[o] = v
					for _, br := range ex.cmpSym(v, sval{2, "LEN", 0}, token.LSS, body) {
						br.st.env[o] = v
						if br.truth {
							ex.walk(b.Succs[0], 0, br.st)
						} else {
							ex.walk(b.Succs[1], 0, br.st)
						}
					}
					return
				}
			}
			ex.undec = append(ex.undec, "range loop over something other than the process list")
			return
		}
		ex.walk(b.Succs[0], 0, st.clone())
		ex.walk(b.Succs[1], 0, st.clone())
	default:
		ex.undec = append(ex.undec, fmt.Sprintf("multi-way branch (%s) in a scheduler is outside the recognised idioms", b.Kind))
	}
}

func (ex *schedExplorer) assign(lhs ast.Expr, rhs ast.Expr, st *schedState) {
	id, ok := unparen(lhs).(*ast.Ident)
	if !ok {
		if rhs != nil {
			ex.noteReads(rhs, st)
		}
		// a store to an exit number outdates the boolean locals computed from exit numbers
		if se, isSel := unparen(lhs).(*ast.SelectorExpr); isSel && se.Sel.Name == "ExitNum" {
			for b, e := range st.bexpr {
				stale := false
				ast.Inspect(e, func(n ast.Node) bool {
					if s2, isS := n.(*ast.SelectorExpr); isS && s2.Sel.Name == "ExitNum" {
						stale = true
					}
					return true
				})
				if stale {
					delete(st.bexpr, b)
				}
			}
		}
		return
	}
	o := ex.info.ObjectOf(id)
	if o == nil {
		return
	}
	ex.forget(o, st)
	if isPointerVar(o) {
		// p := &(*procs)[k]
		delete(st.env, o)
		if u, ok := unparen(rhs).(*ast.UnaryExpr); ok && rhs != nil && u.Op == token.AND {
			if ix, ok := unparen(u.X).(*ast.IndexExpr); ok && ex.isProcs(ix.X) {
				if v := ex.evalIdx(ix.Index, st); v.kind != 0 {
					st.env[o] = v
				}
			}
		}
		return
	}
	if b, ok := o.Type().Underlying().(*types.Basic); !ok || b.Info()&types.IsInteger == 0 {
		if rhs != nil {
			ex.noteReads(rhs, st)
			if ok && b.Info()&types.IsBoolean != 0 && o.Parent() != types.Universe && !mentions(ex.info, rhs, o) {
				st.bexpr[o] = rhs
				// the &&/|| flags read here count as examined here
				ast.Inspect(rhs, func(n ast.Node) bool {
					if se, isSel := n.(*ast.SelectorExpr); isSel {
						if idx, field, isPF := ex.procField(se, st); isPF && idx.kind != 0 && (field == "OperatorLogicOr" || field == "OperatorLogicAnd") {
							st.examined[idx.String()] = true
						}
					}
					return true
				})
			}
		}
		return
	}
	v := sval{}
	if rhs != nil {
		v = ex.evalIdx(rhs, st)
		ex.noteReads(rhs, st)
	}
	if v.kind == 0 {
		// opaque integer (e.g. exit number): forget its interval
		delete(st.env, o)
		delete(st.hasLo, o)
		delete(st.hasHi, o)
		delete(st.ine, o)
		return
	}
	if v.off > 6 || v.off < -6 {
		v = sval{}
	}
	st.env[o] = v
}

// exec applies one CFG node; returns false when the path ends.
func (ex *schedExplorer) exec(n ast.Node, st *schedState) bool {
	switch s := n.(type) {
	case *ast.ReturnStmt:
		return false
	case *ast.AssignStmt:
		if len(s.Lhs) == len(s.Rhs) {
			for i := range s.Lhs {
				if s.Tok == token.ASSIGN || s.Tok == token.DEFINE {
					// SKIP event, js form: procs[k].hasTerminatedV = true
					if idx, field, ok := ex.procField(s.Lhs[i], st); ok && field == "hasTerminatedV" {
						if bv, okb := constBool(ex.info, s.Rhs[i]); okb && bv {
							ex.event("SKIP", idx, s, st)
						}
						continue
					}
					ex.assign(s.Lhs[i], s.Rhs[i], st)
				} else {
					ex.assign(s.Lhs[i], nil, st)
				}
			}
		}
	case *ast.IncDecStmt:
		if id, ok := unparen(s.X).(*ast.Ident); ok {
			o := ex.info.ObjectOf(id)
			if o != nil {
				ex.forget(o, st)
			}
			if v, ok := st.env[o]; ok && v.kind != 0 {
				if s.Tok == token.INC {
					v.off++
				} else {
					v.off--
				}
				if v.off > 6 || v.off < -6 {
					v = sval{}
				}
				st.env[o] = v
			}
		}
	case *ast.DeclStmt:
		ast.Inspect(s, func(x ast.Node) bool {
			if vs, ok := x.(*ast.ValueSpec); ok {
				for i, nm := range vs.Names {
					if i < len(vs.Values) {
						ex.assign(nm, vs.Values[i], st)
					} else if o := ex.info.ObjectOf(nm); o != nil {
						if b, ok := o.Type().Underlying().(*types.Basic); ok && b.Info()&types.IsInteger != 0 {
							st.env[o] = sval{1, "", 0}
						}
					}
				}
			}
			return true
		})
	case *ast.GoStmt:
		if callIs(ex.info, s.Call, mx("lang"), "", "executeProcess") && len(s.Call.Args) == 1 {
			if idx, ok := ex.procIndex(s.Call.Args[0], st); ok {
				ex.event("START", idx, s, st)
			}
		}
	case *ast.ExprStmt:
		call, ok := s.X.(*ast.CallExpr)
		if !ok {
			return true
		}
		if callIs(ex.info, call, mx("lang"), "", "waitProcess") && len(call.Args) == 1 {
			if idx, ok := ex.procIndex(call.Args[0], st); ok && idx.kind != 0 {
				st.waited[idx.String()] = true
				st.trail = append(st.trail, ex.line(s)+":WAIT("+idx.String()+")")
			}
			return true
		}
		if callIs(ex.info, call, mx("lang"), "", "executeProcess") && len(call.Args) == 1 {
			// synchronous start: also a start event that has been waited for
			if idx, ok := ex.procIndex(call.Args[0], st); ok {
				ex.event("START", idx, s, st)
				if idx.kind != 0 {
					st.waited["b"] = true
				}
			}
			return true
		}
		if se, ok := call.Fun.(*ast.SelectorExpr); ok && se.Sel.Name == "SetTerminatedState" && len(call.Args) == 1 {
			if idx, ok := ex.procIndex(se.X, st); ok {
				if bv, okb := constBool(ex.info, call.Args[0]); okb && bv {
					ex.event("SKIP", idx, s, st)
				}
			}
			return true
		}
		for _, a := range call.Args {
			ex.noteReads(a, st)
		}
	case ast.Expr:
		// bare expression nodes (range key, X...): range key initialisation
		if id, ok := s.(*ast.Ident); ok {
			// `i` as the key of `for i := range *procs` appears as a bare node in the pre-header
			if o := ex.info.ObjectOf(id); o != nil {
				if b, ok := o.Type().Underlying().(*types.Basic); ok && b.Info()&types.IsInteger != 0 {
					if _, tracked := st.env[o]; !tracked {
						st.env[o] = sval{1, "", -1}
					}
				}
			}
		}
	}
	return true
}

func (ex *schedExplorer) event(kind string, idx sval, n ast.Node, st *schedState) {
	st.trail = append(st.trail, fmt.Sprintf("%s:%s(%s)", ex.line(n), kind, idx))
	if idx.kind == 0 {
		ex.undec = append(ex.undec, fmt.Sprintf("%s at %s with an index the symbolic environment cannot express", kind, ex.c.pos(n.Pos())))
		return
	}
	key := idx.String()
	prevKey := sval{idx.kind, idx.sym, idx.off - 1}.String()
	first := idx.kind == 1 && idx.off == 0
	// wait-before-next
	if st.lastKind == "START" && st.lastIdx.kind != 0 && st.lastIdx.String() == prevKey {
		ok := st.waited[prevKey] || (st.method[key] > 0 && !schedStrictWait)
		what := "started"
		if kind == "SKIP" {
			what = "skipped"
			// (a method never carries &&/||: the block parser's token table,
			// rule R04a, never combines P_METHOD with a logic flag)
		}
		ex.note("wait", "START→"+kind, ok, n.Pos(), st, fmt.Sprintf("process %s is %s although the previous process %s has not been waited for synchronously and %s is not known to be a method (pipelined stage): sequential commands would overlap / the decision uses an exit number that is not final", idx, what, st.lastIdx, idx))
	}
	if kind == "START" {
		if !first {
			ok := st.examined[key] || st.method[key] > 0 || st.skipped[key]
			sub := st.lastKind + "→START"
			ex.note("exam", sub, ok, n.Pos(), st, fmt.Sprintf("process %s is started without its own &&/|| flag having been read since the previous %s(%s): a command joined by || (or &&) would run unconditionally", idx, st.lastKind, st.lastIdx))
		}
		st.examined = map[string]bool{}
		st.flag = map[string]int{}
	}
	if kind == "SKIP" {
		ok := st.examined[key]
		ex.note("exam", st.lastKind+"→SKIP", ok, n.Pos(), st, fmt.Sprintf("process %s is skipped without its own &&/|| flag having been read", idx))
		st.skipped[key] = true
	}
	for o := range st.hasLo {
		if strings.HasPrefix(o.Name(), "ExitNum:") {
			delete(st.hasLo, o)
			delete(st.ilo, o)
		}
	}
	for o := range st.hasHi {
		if strings.HasPrefix(o.Name(), "ExitNum:") {
			delete(st.hasHi, o)
			delete(st.ihi, o)
		}
	}
	for o := range st.ine {
		if strings.HasPrefix(o.Name(), "ExitNum:") {
			delete(st.ine, o)
		}
	}
	st.lastKind, st.lastIdx = kind, idx
	st.rebase(idx)
	st.lastIdx = sval{2, "b", 0}
	// a local that is not reassigned between events drifts away from the event index with
	// every rebase; beyond the window it is forgotten (as assign does) so that the abstract
	// state space stays finite
	for o, v := range st.env {
		if v.kind == 2 && v.sym != "LEN" && (v.off > 6 || v.off < -6) {
			st.env[o] = sval{}
		}
	}
	// drop knowledge that no later obligation can use (keeps the abstract
	// state space small): facts about processes behind the event, flags already
	// consumed by the decision that led here.
	st.flag = map[string]int{}
	for k := range st.method {
		if !strings.HasPrefix(k, "b+") {
			delete(st.method, k)
		}
	}
	if kind == "START" {
		st.skipped = map[string]bool{}
		for k := range st.waited {
			if k != "b" {
				delete(st.waited, k)
			}
		}
	} else {
		st.waited = map[string]bool{}
		for k := range st.skipped {
			if k != "b" {
				delete(st.skipped, k)
			}
		}
		for k := range st.examined {
			if !strings.HasPrefix(k, "b+") {
				delete(st.examined, k)
			}
		}
	}
	if len(st.trail) > 12 {
		st.trail = st.trail[len(st.trail)-12:]
	}
}
