package main

import (
	"go/ast"
	"go/token"
	"go/types"
	"sort"
)

// R25e — who may write a scope's override tables.
//
// A child (function-call) config answers a read from its own values table
// whenever an entry exists there, so an entry in Config.values/fileRefSet IS an
// override. The property needs every override to come from an explicit
// mutation (Set, Default which re-sets, Define which declares): a read that
// stores what it looked up freezes the session value in the scope.
//
// Decided over resolved facts only: stores are recognised by the field object
// they are rooted at (Config.values / Config.fileRefSet through any number of
// index steps, assignment / inc-dec / delete / clear), the owner config being a
// value that existed before the function ran (tables of an object allocated in
// the same function — a constructor — are not overrides of any scope);
// "reaches" is the reflexive-transitive closure over every reference (call or
// method value) to a function of package config, resolved through go/types.
func init() {
	extend("C25", func(c *Ctx) {
		c.Rule("R25e", "who-may-write: the override tables Config.values / Config.fileRefSet of an existing config are stored into only by the mutation API (Config.Set, Config.Default, Config.Define) — every other function of package config (all readers: Get, GetFileRef, ExistsAndGlobal, DataType, Copy, Dump*, and any helper) neither stores into them nor references a function that (transitively) does: a read never creates an override in the scope that reads; a sub-table that escapes into a local/argument is undecided")
		pk := c.Pkg("config")
		if pk == nil {
			c.Lost("R25e", "pkg:config", "package config not loaded")
			return
		}
		info := pk.TypesInfo
		mutators := map[string]bool{"(Config).Set": true, "(Config).Default": true, "(Config).Define": true}
		for q := range mutators {
			name := q[len("(Config)."):]
			c.MustFunc("R25e", "config", "Config", name)
		}

		// rooted: e is Config.values / Config.fileRefSet followed by zero or more index steps; returns the selector
		rooted := func(e ast.Expr) *ast.SelectorExpr {
			for {
				e = unparen(e)
				if ix, ok := e.(*ast.IndexExpr); ok {
					e = ix.X
					continue
				}
				break
			}
			se, ok := e.(*ast.SelectorExpr)
			if !ok {
				return nil
			}
			if v, owner := fieldOf(info, se); v != nil && owner == configT && (v.Name() == "values" || v.Name() == "fileRefSet") {
				return se
			}
			return nil
		}
		isMap := func(e ast.Expr) bool {
			t := info.TypeOf(e)
			if t == nil {
				return false
			}
			_, ok := t.Underlying().(*types.Map)
			return ok
		}

		type fnFacts struct {
			fd      *ast.FuncDecl
			obj     types.Object
			store   ast.Node // first store into an existing config's override table
			alias   ast.Node // first escape of a (sub-)table
			refs    map[types.Object]token.Pos
			qname   string
			nAccess int
		}
		facts := map[types.Object]*fnFacts{}
		var order []*fnFacts
		eachFunc(pk, func(fd *ast.FuncDecl) {
			obj := info.Defs[fd.Name]
			if obj == nil {
				return
			}
			ff := &fnFacts{fd: fd, obj: obj, refs: map[types.Object]token.Pos{}, qname: fd.Name.Name}
			if r := recvName(fd); r != "" {
				ff.qname = "(" + r + ")." + fd.Name.Name
			}
			facts[obj] = ff
			order = append(order, ff)
			defs := localDefs(info, fd.Body)
			// fresh: the config whose table is touched was allocated in this very function
			fresh := func(se *ast.SelectorExpr) bool {
				d := defs.resolve1(info, se.X)
				if call, ok := isBuiltinCall(info, d, "new"); ok && len(call.Args) == 1 {
					return namedPath(info.TypeOf(call.Args[0])) == configT
				}
				if u, ok := d.(*ast.UnaryExpr); ok && u.Op == token.AND {
					d = unparen(u.X)
				}
				if cl, ok := d.(*ast.CompositeLit); ok {
					return namedPath(info.TypeOf(cl)) == configT
				}
				return false
			}
			markStore := func(n ast.Node, se *ast.SelectorExpr) {
				if !fresh(se) && ff.store == nil {
					ff.store = n
				}
			}
			walkStack(fd.Body, func(n ast.Node, stack []ast.Node) bool {
				if id, ok := n.(*ast.Ident); ok {
					if f, isF := info.Uses[id].(*types.Func); isF && f.Pkg() != nil && f.Pkg().Path() == mx("config") {
						if _, seen := ff.refs[f]; !seen {
							ff.refs[f] = id.Pos()
						}
					}
					return true
				}
				e, ok := n.(ast.Expr)
				if !ok {
					return true
				}
				if _, isP := n.(*ast.ParenExpr); isP {
					return true
				}
				se := rooted(e)
				if se == nil {
					return true
				}
				// only the maximal rooted expression decides (conf.values[a][k], not its prefixes)
				par := ast.Node(nil)
				pi := len(stack) - 2
				for ; pi >= 0; pi-- {
					if _, isP := stack[pi].(*ast.ParenExpr); !isP {
						par = stack[pi]
						break
					}
				}
				child := ast.Node(e)
				if pi+1 < len(stack)-1 {
					child = stack[pi+1]
				}
				if ix, isIx := par.(*ast.IndexExpr); isIx && ix.X == child {
					return true
				}
				ff.nAccess++
				switch p := par.(type) {
				case *ast.AssignStmt:
					for _, l := range p.Lhs {
						if l == child {
							markStore(p, se)
							return true
						}
					}
					if isMap(e) && !fresh(se) && ff.alias == nil {
						ff.alias = p
					}
				case *ast.IncDecStmt:
					markStore(p, se)
				case *ast.BinaryExpr:
					// comparison (with nil) reads
				case *ast.CallExpr:
					if _, ok := isBuiltinCall(info, p, "len"); ok {
						return true
					}
					_, del := isBuiltinCall(info, p, "delete")
					_, clr := isBuiltinCall(info, p, "clear")
					if (del || clr) && len(p.Args) > 0 && p.Args[0] == child {
						markStore(p, se)
						return true
					}
					if isMap(e) && !fresh(se) && ff.alias == nil {
						ff.alias = p
					}
				case *ast.RangeStmt:
					if p.X == child && p.Value != nil && isMap(p.Value) && !fresh(se) && ff.alias == nil {
						ff.alias = p
					}
				case *ast.UnaryExpr:
					if p.Op == token.AND && !fresh(se) && ff.alias == nil {
						ff.alias = p
					}
				default:
					if isMap(e) && !fresh(se) && ff.alias == nil {
						ff.alias = par
					}
				}
				return true
			})
		})

		// writers: least set containing the direct storers and closed under "references a writer"
		via := map[types.Object]types.Object{}
		writer := map[types.Object]bool{}
		for o, ff := range facts {
			if ff.store != nil {
				writer[o] = true
			}
		}
		for changed := true; changed; {
			changed = false
			for _, ff := range order {
				if writer[ff.obj] {
					continue
				}
				var rs []types.Object
				for r := range ff.refs {
					rs = append(rs, r)
				}
				sort.Slice(rs, func(i, j int) bool { return rs[i].Name() < rs[j].Name() })
				for _, r := range rs {
					if writer[r] {
						writer[ff.obj] = true
						via[ff.obj] = r
						changed = true
						break
					}
				}
			}
		}

		nFuncs, nDirect, nAccess := 0, 0, 0
		for _, ff := range order {
			nFuncs++
			nAccess += ff.nAccess
			if ff.alias != nil {
				c.Undecided("R25e", ff.qname+":override-table-escapes", ff.alias.Pos(), "%s lets a (sub-)table of Config.values/fileRefSet escape (%s): stores through the alias cannot be attributed", ff.qname, c.src(ff.alias))
			}
			if ff.store != nil {
				nDirect++
			}
			if mutators[ff.qname] {
				c.OK("R25e", ff.qname+":mutator", ff.fd.Pos(), "%s belongs to the mutation API (direct store: %v)", ff.qname, ff.store != nil)
				continue
			}
			switch {
			case ff.store != nil:
				c.Viol("R25e", ff.qname+":stores-override-table", ff.store.Pos(), "%s is not part of the mutation API (Set/Default/Define) but stores into an existing config's override table (%s): the entry is indistinguishable from a `config set` made in that scope, so the scope stops seeing later session-level changes of the option", ff.qname, c.src(ff.store))
			case writer[ff.obj]:
				v := via[ff.obj]
				c.Viol("R25e", ff.qname+":reaches-override-writer", ff.refs[v], "%s is not part of the mutation API but references %s, which (transitively) stores into Config.values/fileRefSet: a read or helper must never create an override in the scope it runs in", ff.qname, v.Name())
			default:
				c.OK("R25e", ff.qname+":read-only", ff.fd.Pos(), "%s neither stores into the override tables of an existing config nor reaches a function that does", ff.qname)
			}
		}
		c.MinCount("R25e", "functions of package config examined", nFuncs, 12)
		c.MinCount("R25e", "functions storing directly into an existing config's override tables (Set, Define)", nDirect, 2)
		c.MinCount("R25e", "accesses to Config.values/fileRefSet classified", nAccess, 20)
	})
}
