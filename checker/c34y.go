package main

import (
	"go/ast"
	"go/types"
)

// R34l — isCmdUnsafe judges the name it was given. R34g decides that membership in
// the safe list is tested exactly; that only helps if what is tested is the command
// name as the tokenizer read it. Normalising the name first (dropping a leading `!`,
// lower-casing, trimming) makes `!config`, `Rm`, … inherit the verdict of another
// command.
func init() {
	extend("C34", func(c *Ctx) {
		c.Rule("R34l", "utils/parser.isCmdUnsafe: its string parameter is never re-assigned and no other string-typed local is defined from it (slice, Trim*, To*, Replace …): the value compared with the safe list is the parameter itself")
		fd, pk := c.MustFunc("R34l", "utils/parser", "", "isCmdUnsafe")
		if fd == nil {
			return
		}
		info := pk.TypesInfo
		var param types.Object
		if fd.Type.Params != nil {
			for _, f := range fd.Type.Params.List {
				for _, nm := range f.Names {
					if o := info.Defs[nm]; o != nil {
						if b, ok := o.Type().Underlying().(*types.Basic); ok && b.Info()&types.IsString != 0 {
							param = o
						}
					}
				}
			}
		}
		if param == nil {
			c.Undecided("R34l", "isCmdUnsafe:param", fd.Pos(), "isCmdUnsafe has no string parameter")
			return
		}
		// the name: the parameter and every local that is a plain copy of it (`name := f`, defined once)
		defs := localDefs(info, fd.Body)
		name := map[types.Object]bool{param: true}
		isCopy := func(o types.Object, rhs ast.Expr) bool {
			id, ok := unparen(rhs).(*ast.Ident)
			return ok && name[info.ObjectOf(id)] && len(defs[o]) == 1 && defs[o][0] == rhs
		}
		for grew := true; grew; {
			grew = false
			for o, ds := range defs {
				if !name[o] && len(ds) == 1 && ds[0] != nil && isCopy(o, ds[0]) {
					name[o], grew = true, true
				}
			}
		}
		mentionsName := func(e ast.Expr) bool {
			for o := range name {
				if mentions(info, e, o) {
					return true
				}
			}
			return false
		}
		bad := ""
		ast.Inspect(fd.Body, func(nd ast.Node) bool {
			as, ok := nd.(*ast.AssignStmt)
			if !ok {
				return true
			}
			for i, l := range as.Lhs {
				id, ok := unparen(l).(*ast.Ident)
				if !ok {
					continue
				}
				o := info.ObjectOf(id)
				if len(as.Rhs) == len(as.Lhs) && o != param && isCopy(o, as.Rhs[i]) {
					continue // the one definition of a plain copy
				}
				if name[o] {
					bad = c.src(as)
					continue
				}
				// a string local derived from the name
				if v, ok := o.(*types.Var); ok && len(as.Rhs) == len(as.Lhs) {
					if b, isB := v.Type().Underlying().(*types.Basic); isB && b.Info()&types.IsString != 0 && mentionsName(as.Rhs[i]) {
						bad = c.src(as)
					}
				}
			}
			return true
		})
		c.Check(bad == "", "R34l", "isCmdUnsafe:judges-its-argument", fd.Pos(), "the command name is looked up as given (offending statement: %q) — a normalised name lets an unlisted command (`!config`, …) take the verdict of a listed one, and autocomplete would execute it", bad)
	})
}
