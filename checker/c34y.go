package main

import (
	"go/ast"
	"go/types"
)

// R34l — isCmdUnsafe judges the name it was given. R34g decides that membership in
// the safe list is tested exactly; that only helps if what is tested is the command
// name as the tokenizer read it. Normalising the name first (dropping a leading `!`,
// lower-casing, trimming) makes `!config`, `Rm`, … inherit the verdict of another
// command.
func init() {
	extend("C34", func(c *Ctx) {
		c.Rule("R34l", "utils/parser.isCmdUnsafe: its string parameter is never re-assigned and no other string-typed local is defined from it (slice, Trim*, To*, Replace …): the value compared with the safe list is the parameter itself")
		fd, pk := c.MustFunc("R34l", "utils/parser", "", "isCmdUnsafe")
		if fd == nil {
			return
		}
		info := pk.TypesInfo
		var param types.Object
		if fd.Type.Params != nil {
			for _, f := range fd.Type.Params.List {
				for _, nm := range f.Names {
					if o := info.Defs[nm]; o != nil {
						if b, ok := o.Type().Underlying().(*types.Basic); ok && b.Info()&types.IsString != 0 {
							param = o
						}
					}
				}
			}
		}
		if param == nil {
			c.Undecided("R34l", "isCmdUnsafe:param", fd.Pos(), "isCmdUnsafe has no string parameter")
			return
		}
		bad := ""
		ast.Inspect(fd.Body, func(nd ast.Node) bool {
			as, ok := nd.(*ast.AssignStmt)
			if !ok {
				return true
			}
			for i, l := range as.Lhs {
				id, ok := unparen(l).(*ast.Ident)
				if !ok {
					continue
				}
				o := info.ObjectOf(id)
				if o == param {
					bad = c.src(as)
					continue
				}
				// a string local derived from the parameter
				if v, ok := o.(*types.Var); ok && len(as.Rhs) == len(as.Lhs) {
					if b, isB := v.Type().Underlying().(*types.Basic); isB && b.Info()&types.IsString != 0 && mentions(info, as.Rhs[i], param) {
						bad = c.src(as)
					}
				}
			}
			return true
		})
		c.Check(bad == "", "R34l", "isCmdUnsafe:judges-its-argument", fd.Pos(), "the command name is looked up as given (offending statement: %q) — a normalised name lets an unlisted command (`!config`, …) take the verdict of a listed one, and autocomplete would execute it", bad)
	})
}
