package main

import (
	"go/ast"
	"go/constant"
	"go/types"
)

// R04g / R05h — a function body runs in ITS OWN run mode. A function call forks
// with F_FUNCTION and a new scope; its run mode comes from a `runmode` statement
// in the function (or the module default), never from the block that happens to
// call it. If Process.Fork lets a function fork inherit the caller's mode, a
// function called inside `try {}` executes its body with the try scheduler: `;`
// no longer always runs the next command (C04) and a normal-mode function aborts
// on its first failing command (C05).
func functionForkModeRule(c *Ctx, rule string) {
	c.Rule(rule, "Process.Fork: every store to the fork's RunMode is control-dependent on the F_FUNCTION bit of the flags being clear (the else arm of the function/non-function split): a function fork starts in the Default mode, whatever block called it")
	fd, pk := c.MustFunc(rule, "lang", "Process", "Fork")
	if fd == nil {
		return
	}
	info := pk.TypesInfo
	defs := localDefs(info, fd.Body)
	var bit int64 = -1
	if o := pk.Types.Scope().Lookup("F_FUNCTION"); o != nil {
		if k, ok := o.(*types.Const); ok {
			if v, ok := constant.Int64Val(constant.ToInt(k.Val())); ok {
				bit = v
			}
		}
	}
	if bit < 0 {
		c.Lost(rule, "const:F_FUNCTION", "lang.F_FUNCTION is not an integer constant any more")
		return
	}
	forkObj := forkResultObj(info, fd)
	n := 0
	walkStack(fd.Body, func(nd ast.Node, stack []ast.Node) bool {
		as, ok := nd.(*ast.AssignStmt)
		if !ok || len(as.Lhs) != 1 {
			return true
		}
		se, ok := unparen(as.Lhs[0]).(*ast.SelectorExpr)
		if !ok || se.Sel.Name != "RunMode" {
			return true
		}
		id, ok := unparen(se.X).(*ast.Ident)
		if !ok || forkObj == nil || info.ObjectOf(id) != forkObj {
			return true
		}
		n++
		clear := false
		for _, g := range guardsAt(info, stack) {
			if g.Cond == nil {
				continue
			}
			if pol, ok := flagBitTest(info, defs, g.Cond, bit); ok {
				// guard true & pol=set  → bit set ; guard negated flips
				set := pol != g.Neg
				if !set {
					clear = true
				}
			}
		}
		c.Check(clear, rule, "Fork:RunMode-store#"+itoa(n), as.Pos(), "%s is executed only for non-function forks (F_FUNCTION clear) — otherwise a function called from a try/trypipe block runs its body in the caller's mode", c.src(as))
		return true
	})
	c.MinCount(rule, "stores to the fork's RunMode in Process.Fork", n, 1)
}

func init() {
	extend("C04", func(c *Ctx) { functionForkModeRule(c, "R04g") })
}
