package main

import (
	"go/ast"
	"go/token"
	"go/types"

	"golang.org/x/tools/go/cfg"
)

// R19h — max-sized buffer idiom. In ittIndex the rows asked for out of order are
// buffered in `lines = make([][]string, max+1)` and then read back as lines[j]
// for every j of the requested list; the csv/jsonl indexers call this inside a
// goroutine with no recover, so an index past the buffer kills the shell. The
// upper bound holds exactly when `max` is the maximum over ALL requested rows.
func init() {
	extend("C19", func(c *Ctx) {
		c.Rule("R19h", "max-sized buffer: where lang's table indexers read buf[j] with j ranging over a local int list S and buf = make(T, M+k) (k ≥ 1), every store to M is `if v > M { M = v }` executed unconditionally in every iteration of a range over the same S (no break/return/goto anywhere in that loop body and no continue before the test), and S is not re-assigned on any path from that loop to the read")
		n := 0
		for _, fname := range []string{"ittIndex", "ittNot"} {
			fd, pk := c.FuncDecl("lang", "", fname)
			if fd == nil {
				continue
			}
			n += c.rowBufCheck(pk.TypesInfo, fd)
		}
		c.MinCount("R19h", "buffer reads indexed by a requested-row list", n, 1)
	})
}

func (c *Ctx) rowBufCheck(info *types.Info, fd *ast.FuncDecl) int {
	n := 0
	// range statements: value var → (range stmt, slice object)
	type rng struct {
		st *ast.RangeStmt
		s  types.Object
	}
	valOf := map[types.Object]rng{}
	ast.Inspect(fd.Body, func(nd ast.Node) bool {
		rs, ok := nd.(*ast.RangeStmt)
		if !ok || rs.Value == nil {
			return true
		}
		v, ok1 := rs.Value.(*ast.Ident)
		s, ok2 := unparen(rs.X).(*ast.Ident)
		if ok1 && ok2 && info.ObjectOf(v) != nil {
			valOf[info.ObjectOf(v)] = rng{rs, info.ObjectOf(s)}
		}
		return true
	})
	var g *cfg.CFG
	blockOf := func(target ast.Node) *cfg.Block {
		for _, b := range g.Blocks {
			for _, x := range b.Nodes {
				if x.Pos() <= target.Pos() && target.End() <= x.End() {
					return b
				}
			}
		}
		return nil
	}
	reaches := func(from, to *cfg.Block) bool {
		seen := map[*cfg.Block]bool{}
		work := []*cfg.Block{from}
		for len(work) > 0 {
			b := work[len(work)-1]
			work = work[:len(work)-1]
			for _, s := range b.Succs {
				if s == to {
					return true
				}
				if !seen[s] {
					seen[s] = true
					work = append(work, s)
				}
			}
		}
		return false
	}
	walkStack(fd.Body, func(nd ast.Node, stack []ast.Node) bool {
		ix, ok := nd.(*ast.IndexExpr)
		if !ok {
			return true
		}
		j, ok1 := unparen(ix.Index).(*ast.Ident)
		buf, ok2 := unparen(ix.X).(*ast.Ident)
		if !ok1 || !ok2 {
			return true
		}
		r, isRangeVal := valOf[info.ObjectOf(j)]
		if !isRangeVal {
			// `for k := 0; k < len(S); k++ { j := S[k]; … buf[j]`: j is still an element of the list S
			if ds := localDefs(info, fd.Body)[info.ObjectOf(j)]; len(ds) == 1 && ds[0] != nil {
				if ex, ok := unparen(ds[0]).(*ast.IndexExpr); ok {
					if sid, ok := unparen(ex.X).(*ast.Ident); ok && info.ObjectOf(sid) != nil {
						r, isRangeVal = rng{nil, info.ObjectOf(sid)}, true
					}
				}
			}
		}
		if !isRangeVal || r.s == nil {
			return true
		}
		if sl, ok := r.s.Type().Underlying().(*types.Slice); !ok || !types.Identical(sl.Elem(), types.Typ[types.Int]) {
			return true
		}
		// buf's definition: make(T, M+k)
		var size ast.Expr
		nDefs := 0
		bobj := info.ObjectOf(buf)
		ast.Inspect(fd.Body, func(x ast.Node) bool {
			switch s := x.(type) {
			case *ast.ValueSpec:
				for i, nm := range s.Names {
					if info.Defs[nm] == bobj && i < len(s.Values) {
						nDefs++
						if call, ok := isBuiltinCall(info, s.Values[i], "make"); ok && len(call.Args) >= 2 {
							size = call.Args[1]
						}
					}
				}
			case *ast.AssignStmt:
				for i, l := range s.Lhs {
					if id, ok := l.(*ast.Ident); ok && info.ObjectOf(id) == bobj && len(s.Rhs) == len(s.Lhs) {
						nDefs++
						if call, ok := isBuiltinCall(info, s.Rhs[i], "make"); ok && len(call.Args) >= 2 {
							size = call.Args[1]
						}
					}
				}
			}
			return true
		})
		if size == nil {
			return true // not a make-sized local buffer: E5 (R19a) owns it
		}
		n++
		key := fd.Name.Name + ":" + buf.Name + "[" + j.Name + "]"
		if nDefs != 1 {
			c.Undecided("R19h", key, ix.Pos(), "%s is defined %d times", buf.Name, nDefs)
			return true
		}
		be, ok := unparen(size).(*ast.BinaryExpr)
		var mobj types.Object
		if ok && be.Op == token.ADD {
			// M+k or k+M
			for _, pr := range [][2]ast.Expr{{be.X, be.Y}, {be.Y, be.X}} {
				if m, ok := unparen(pr[0]).(*ast.Ident); ok {
					if tv := info.Types[pr[1]]; tv.Value != nil && tv.Value.ExactString() >= "1" && len(tv.Value.ExactString()) == 1 {
						mobj = info.ObjectOf(m)
					}
				}
			}
		}
		if mobj == nil {
			c.Undecided("R19h", key, ix.Pos(), "%s is make(…, %s): not of the form M+k", buf.Name, c.src(size))
			return true
		}
		// every store to M
		bad := ""
		var maxLoop *ast.RangeStmt
		nStores := 0
		walkStack(fd.Body, func(x ast.Node, st []ast.Node) bool {
			as, ok := x.(*ast.AssignStmt)
			if !ok {
				return true
			}
			for i, l := range as.Lhs {
				id, ok := l.(*ast.Ident)
				if !ok || info.ObjectOf(id) != mobj {
					continue
				}
				nStores++
				// shape: parent IfStmt `v > M`, grandparent range body over S
				if as.Tok != token.ASSIGN || len(as.Rhs) != len(as.Lhs) || len(st) < 5 {
					bad = "store " + c.src(as) + " is not of the form `if v > M { M = v }`"
					continue
				}
				v, ok := unparen(as.Rhs[i]).(*ast.Ident)
				ifs, ok2 := st[len(st)-3].(*ast.IfStmt)
				if !ok || !ok2 || ifs.Else != nil || ifs.Init != nil || len(ifs.Body.List) != 1 {
					bad = "store " + c.src(as) + " is not of the form `if v > M { M = v }`"
					continue
				}
				cond, ok := unparen(ifs.Cond).(*ast.BinaryExpr)
				okCond := false
				if ok {
					x1, _ := unparen(cond.X).(*ast.Ident)
					y1, _ := unparen(cond.Y).(*ast.Ident)
					if x1 != nil && y1 != nil {
						okCond = (cond.Op == token.GTR || cond.Op == token.GEQ) && info.ObjectOf(x1) == info.ObjectOf(v) && info.ObjectOf(y1) == mobj ||
							(cond.Op == token.LSS || cond.Op == token.LEQ) && info.ObjectOf(y1) == info.ObjectOf(v) && info.ObjectOf(x1) == mobj
					}
				}
				vr, isVal := valOf[info.ObjectOf(v)]
				if !okCond || !isVal || vr.s != r.s {
					bad = "store under `" + c.src(ifs.Cond) + "` is not the running maximum of " + r.s.Name()
					continue
				}
				body, ok := st[len(st)-4].(*ast.BlockStmt)
				if !ok || body != vr.st.Body {
					bad = "the running-maximum test is nested inside another statement of the loop: it does not see every element"
					continue
				}
				maxLoop = vr.st
				before := true
				for _, s := range body.List {
					if s == ast.Stmt(ifs) {
						before = false
						continue
					}
					esc := ""
					ast.Inspect(s, func(y ast.Node) bool {
						switch b := y.(type) {
						case *ast.FuncLit:
							return false
						case *ast.BranchStmt:
							// a `continue` after the test only skips the rest of this iteration
							if before || b.Tok != token.CONTINUE {
								esc = b.Tok.String()
							}
						case *ast.ReturnStmt:
							esc = "return"
						}
						return esc == ""
					})
					if esc != "" {
						bad = "a `" + esc + "` in the loop body (" + c.pos(s.Pos()) + ") lets the loop leave or skip the running-maximum test before every element was counted, so " + buf.Name + " can be shorter than the largest requested index"
					}
				}
				// the loop must range over the whole list
				if _, ok := unparen(vr.st.X).(*ast.Ident); !ok {
					bad = "the maximum is taken over " + c.src(vr.st.X) + ", not the whole list"
				}
			}
			return true
		})
		if nStores == 0 {
			bad = "no store to " + mobj.Name() + " found"
		}
		// S not re-assigned between the max loop and the read
		if bad == "" && maxLoop != nil {
			g = cfg.New(fd.Body, func(*ast.CallExpr) bool { return true })
			useB := blockOf(ix)
			walkStack(fd.Body, func(x ast.Node, st []ast.Node) bool {
				as, ok := x.(*ast.AssignStmt)
				if !ok || as.Pos() < maxLoop.End() {
					return true
				}
				for _, l := range as.Lhs {
					if id, ok := unparen(l).(*ast.Ident); ok && info.ObjectOf(id) == r.s {
						ab := blockOf(as)
						if ab == nil || useB == nil || ab == useB || reaches(ab, useB) {
							bad = "the list is re-assigned (" + c.src(as) + ") on a path between the maximum and the read"
						}
					}
					if ie, ok := unparen(l).(*ast.IndexExpr); ok {
						if id, ok := unparen(ie.X).(*ast.Ident); ok && info.ObjectOf(id) == r.s {
							ab := blockOf(as)
							if ab == nil || useB == nil || ab == useB || reaches(ab, useB) {
								bad = "an element of the list is overwritten (" + c.src(as) + ") on a path between the maximum and the read"
							}
						}
					}
				}
				return true
			})
		}
		if bad != "" {
			c.Viol("R19h", key, ix.Pos(), "%s[%s] with %s = make(…, %s): %s — an index past the buffer panics (inside the indexers' unrecovered goroutine that ends the shell)", buf.Name, j.Name, buf.Name, c.src(size), bad)
		} else {
			c.OK("R19h", key, ix.Pos(), "%s = make(…, %s) and %s is the maximum over every element of %s; %s ranges over the same list", buf.Name, c.src(size), mobj.Name(), r.s.Name(), j.Name)
		}
		return true
	})
	return n
}
