package main

import (
	"go/ast"
	"go/types"
)

// R10f — every argv element reaches the escaper. R10c checks that the slice handed
// to escape.CommandLine is the one that is joined; this rule checks that the slice
// IS the argument vector: the parameter itself or a full copy of it. A filtering
// copy (skipping empty or "uninteresting" arguments) makes an argument disappear
// and shifts every later one.
func init() {
	extend("C10", func(c *Ctx) {
		c.Rule("R10f", "argvToCmdLineStr: the slice given to escape.CommandLine is the []string parameter itself, or a local defined once as make([]string, len(<parameter>)) and filled by one copy(<local>, <parameter>), or as append(<empty slice>, <parameter>...) — no loop, element-wise append or re-slice builds it")
		pk := c.Pkg("")
		if pk == nil {
			c.Lost("R10f", "pkg:main", "package main not loaded")
			return
		}
		info := pk.TypesInfo
		fd, _ := c.MustFunc("R10f", "", "", "argvToCmdLineStr")
		if fd == nil {
			return
		}
		var param types.Object
		if fd.Type.Params != nil {
			for _, f := range fd.Type.Params.List {
				for _, nm := range f.Names {
					if o := info.Defs[nm]; o != nil {
						if sl, ok := o.Type().Underlying().(*types.Slice); ok && types.Identical(sl.Elem(), types.Typ[types.String]) {
							param = o
						}
					}
				}
			}
		}
		if param == nil {
			c.Undecided("R10f", "argvToCmdLineStr:param", fd.Pos(), "argvToCmdLineStr has no []string parameter")
			return
		}
		defs := localDefs(info, fd.Body)
		n := 0
		ast.Inspect(fd.Body, func(nd ast.Node) bool {
			call, ok := nd.(*ast.CallExpr)
			if !ok || len(call.Args) != 1 {
				return true
			}
			fn, ok := callee(info, call).(*types.Func)
			if !ok || fn.Name() != "CommandLine" || fn.Pkg() == nil || fn.Pkg().Path() != mx("utils/escape") {
				return true
			}
			n++
			id, ok := unparen(call.Args[0]).(*ast.Ident)
			if !ok {
				c.Undecided("R10f", "argvToCmdLineStr:escaped-slice", call.Pos(), "escape.CommandLine is given %s, not a plain identifier", c.src(call.Args[0]))
				return true
			}
			o := info.ObjectOf(id)
			if o == param {
				c.OK("R10f", "argvToCmdLineStr:escaped-slice", call.Pos(), "the parameter itself is escaped")
				return true
			}
			ds := defs[o]
			good := len(ds) == 1 && ds[0] != nil
			why := ""
			// len(<parameter>), directly or through a single-definition local (`n := len(argv)`)
			isLenOfParam := func(e ast.Expr) bool {
				ln, isLen := isBuiltinCall(info, defs.resolve1(info, e), "len")
				if !isLen || len(ln.Args) != 1 {
					return false
				}
				pid, isID := unparen(ln.Args[0]).(*ast.Ident)
				return isID && info.ObjectOf(pid) == param
			}
			cloned := false // append(<empty slice>, <parameter>...): the other spelling of a full copy
			if good {
				if ap, isAp := isBuiltinCall(info, ds[0], "append"); isAp && len(ap.Args) == 2 && ap.Ellipsis.IsValid() && isEmptySliceExpr(info, stripConv(info, ap.Args[0])) {
					pid, isID := unparen(ap.Args[1]).(*ast.Ident)
					cloned = isID && info.ObjectOf(pid) == param
				}
			}
			if good && !cloned {
				mk, isMake := isBuiltinCall(info, ds[0], "make")
				good = isMake && (len(mk.Args) == 2 || len(mk.Args) == 3) && isLenOfParam(mk.Args[1])
				if good && len(mk.Args) == 3 {
					good = isLenOfParam(mk.Args[2]) // an explicit capacity of the same length changes nothing
				}
				if !good {
					why = "defined as " + c.src(ds[0])
				}
			} else if !good {
				why = "defined more than once (or by append/loop)"
			}
			copies := 0
			ast.Inspect(fd.Body, func(x ast.Node) bool {
				if cp, ok := isBuiltinCall(info, exprOf(x), "copy"); ok && len(cp.Args) == 2 {
					d, ok1 := unparen(cp.Args[0]).(*ast.Ident)
					s, ok2 := unparen(cp.Args[1]).(*ast.Ident)
					if ok1 && ok2 && info.ObjectOf(d) == o && info.ObjectOf(s) == param {
						copies++
					}
				}
				return true
			})
			if cloned {
				if copies != 0 {
					good, why = false, "cloned by append and then overwritten by copy(…)"
				}
			} else if good && copies != 1 {
				good, why = false, "filled by "+itoa(copies)+" copy(…) calls of the whole parameter"
			}
			c.Check(good, "R10f", "argvToCmdLineStr:escaped-slice", call.Pos(), "the escaped slice %s is a full copy of the argument vector (%s) — a filtered copy drops arguments (an empty \"\" must survive as '')", id.Name, why)
			return true
		})
		c.MinCount("R10f", "escape.CommandLine calls in argvToCmdLineStr", n, 1)
	})
}
