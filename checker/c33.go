package main

// C33 Redirections route output exactly as written.
//
// R33a  file writers (`|>`/`>`/fwrite, `>>`/fappend): open flags, whole-reader copy, error
//       propagation, registration table, which reader writeFile hands over.
// R33b  stream wiring table: compile()'s three arms and createProcess()'s redirect arms.
// R33c  name -> NamedPipeOut/NamedPipeErr mapping in parseRedirection; `null` is the discard device.
// R33d  the writer registration (Open) happens after the last rewiring.

import (
	"go/ast"
	"go/constant"
	"go/token"
	"go/types"
	"sort"
	"strings"
)

func init() {
	register("C33", "Decides structurally: (R33a) truncateFile/appendFile open with the flag sets the property needs (truncate: O_TRUNC|O_CREATE, writable, no O_APPEND; append: O_APPEND|O_CREATE, writable, no O_TRUNC), copy the whole reader with io.Copy into that file only, and return its error; the `>`/fwrite and `>>`/fappend registrations reach the right writer; writeFile hands the writer the whole of p.Stdin on every method path. (R33b) the stream wiring table of lang.compile (plain / `|` / `?` arms) and of createProcess's redirect arms: `<!out>` must give the process's own stdout, `<err>` its own (or the parent's) stderr, named pipes the pipe looked up under the same name, tees wrap the stream they replace. (R33c) parseRedirection maps `!name` to NamedPipeErr and `name` to NamedPipeOut; `null` is registered as the discarding null.Null. (R33d) Open() of both streams follows every rewiring. Does NOT decide byte-level behaviour of the stream implementations (C01), external commands' fd handling, or named-pipe lifetime.", runC33)
}

var c33ProcT = mx("lang") + ".Process"

func runC33(c *Ctx) {
	c.Load("lang", "builtins/core/io", "lang/pipes", "builtins/pipes/null")
	c.c33Files()
	c.c33Wiring()
	c.c33Parse()
	c.c33OpenOrder()
	c.c33Exec()
}

// ===================================================================== R33a

func c33OsConst(pk *types.Package, name string) (int64, bool) {
	for _, imp := range pk.Imports() {
		if imp.Path() == "os" {
			if k, ok := imp.Scope().Lookup(name).(*types.Const); ok {
				return constant.Int64Val(constant.ToInt(k.Val()))
			}
		}
	}
	return 0, false
}

func (c *Ctx) c33Files() {
	const R = "R33a"
	c.Rule(R, "truncateFile opens its filename parameter with O_TRUNC|O_CREATE and write access and without O_APPEND (os.Create counts); appendFile with O_APPEND|O_CREATE and write access and without O_TRUNC; each io.Copy's the whole reader parameter into exactly that file, writes to it in no other way, and returns io.Copy's error; `>`/fwrite register the truncating writer and `>>`/fappend the appending one; every call of writeFile's writer argument receives p.Stdin, or all bytes of p.Stdin.ReadAll(), or (only when the command is not a method) an empty reader, and its error is returned")
	pk := c.Pkg("builtins/core/io")
	if pk == nil {
		c.Lost(R, "pkg:builtins/core/io", "package not loaded")
		return
	}
	info := pk.TypesInfo
	n := 0
	for _, w := range []struct {
		name   string
		append bool
	}{{"truncateFile", false}, {"appendFile", true}} {
		fd, _ := c.MustFunc(R, "builtins/core/io", "", w.name)
		if fd == nil {
			continue
		}
		n += c.c33CheckWriter(pk.Types, info, fd, w.append)
	}
	c.MinCount(R, "file-writer obligations", n, 8)

	// registration table
	want := map[string]string{">": "truncateFile", "fwrite": "truncateFile", ">>": "appendFile", "fappend": "appendFile"}
	seen := map[string]bool{}
	eachFunc(pk, func(fd *ast.FuncDecl) {
		if fd.Name.Name != "init" {
			return
		}
		for _, call := range calls(fd.Body, false) {
			if !callIs(info, call, mx("lang"), "", "DefineMethod") || len(call.Args) < 2 {
				continue
			}
			name, ok := constString(info, call.Args[0])
			if !ok {
				continue
			}
			w, ok := want[name]
			if !ok {
				continue
			}
			seen[name] = true
			got := c.c33WriterOf(call.Args[1])
			key := "register:" + name
			switch {
			case got == "":
				c.Undecided(R, key, call.Pos(), "cannot resolve which file writer the handler of `%s` passes to writeFile: %s", name, c.src(call.Args[1]))
			case got != w:
				c.Viol(R, key, call.Pos(), "`%s` is registered with a handler that writes through %s, expected %s — %s", name, got, w, map[bool]string{true: "appending instead of replacing the file", false: "replacing the file instead of appending"}[got == "appendFile"])
			default:
				c.OK(R, key, call.Pos(), "`%s` -> %s", name, got)
			}
		}
	})
	names := []string{}
	for k := range want {
		names = append(names, k)
	}
	sort.Strings(names)
	for _, k := range names {
		if !seen[k] {
			c.Lost(R, "register:"+k, "no lang.DefineMethod(%q, …) with a constant name in builtins/core/io init", k)
		}
	}

	// writeFile: what reader reaches the writer
	if fd, _ := c.MustFunc(R, "builtins/core/io", "", "writeFile"); fd != nil {
		c.c33CheckWriteFile(info, fd)
	}
}

// c33WriterOf: handler expression -> name of the file writer function object it passes to writeFile.
func (c *Ctx) c33WriterOf(h ast.Expr) string {
	p := c.Pkg("builtins/core/io")
	info := p.TypesInfo
	id, ok := unparen(h).(*ast.Ident)
	if !ok {
		return ""
	}
	obj := info.ObjectOf(id)
	var res string
	eachFunc(p, func(fd *ast.FuncDecl) {
		if info.Defs[fd.Name] != obj {
			return
		}
		for _, call := range calls(fd.Body, false) {
			if o := callee(info, call); o != nil && o.Pkg() == p.Types && o.Name() == "writeFile" && len(call.Args) == 2 {
				if a, ok := unparen(call.Args[1]).(*ast.Ident); ok {
					if f, ok := info.ObjectOf(a).(*types.Func); ok && f.Pkg() == p.Types {
						res = f.Name()
					}
				}
			}
		}
	})
	return res
}

// c33CheckWriter checks truncateFile / appendFile. Returns the number of obligations.
func (c *Ctx) c33CheckWriter(tpk *types.Package, info *types.Info, fd *ast.FuncDecl, wantAppend bool) int {
	const R = "R33a"
	name := fd.Name.Name
	n := 0
	// parameters: the io.Reader and the string filename
	var readerObj, fileNameObj types.Object
	for _, f := range fd.Type.Params.List {
		for _, id := range f.Names {
			o := info.ObjectOf(id)
			if namedPath(o.Type()) == "io.Reader" {
				readerObj = o
			} else if b, ok := o.Type().Underlying().(*types.Basic); ok && b.Kind() == types.String {
				fileNameObj = o
			}
		}
	}
	if readerObj == nil || fileNameObj == nil {
		c.Undecided(R, name+":signature", fd.Pos(), "%s no longer takes (io.Reader, string): cannot identify the source and the target", name)
		return 1
	}
	oAPPEND, _ := c33OsConst(tpk, "O_APPEND")
	oTRUNC, _ := c33OsConst(tpk, "O_TRUNC")
	oCREATE, _ := c33OsConst(tpk, "O_CREATE")
	oWRONLY, _ := c33OsConst(tpk, "O_WRONLY")
	oRDWR, ok5 := c33OsConst(tpk, "O_RDWR")
	if !ok5 {
		c.Lost(R, name+":os-consts", "package os constants not visible from builtins/core/io")
		return 1
	}

	// the open
	var fileObj, openErr types.Object
	var openPos token.Pos
	opens := 0
	ast.Inspect(fd.Body, func(x ast.Node) bool {
		as, ok := x.(*ast.AssignStmt)
		if !ok || len(as.Rhs) != 1 || len(as.Lhs) != 2 {
			return true
		}
		call, ok := unparen(as.Rhs[0]).(*ast.CallExpr)
		if !ok {
			return true
		}
		var flags int64
		var haveFlags bool
		perm := int64(0666)
		switch {
		case callIs(info, call, "os", "", "Create") && len(call.Args) == 1:
			flags, haveFlags = oRDWR|oCREATE|oTRUNC, true
		case callIs(info, call, "os", "", "OpenFile") && len(call.Args) == 3:
			// constant expression, or a local with one definition that is one
			flags, haveFlags = constInt(info, localDefs(info, fd.Body).resolve1(info, call.Args[1]))
			if p, ok := constInt(info, call.Args[2]); ok {
				perm = p
			} else {
				perm = -1
			}
		default:
			return true
		}
		opens++
		openPos = call.Pos()
		if id, ok := as.Lhs[0].(*ast.Ident); ok {
			fileObj = info.ObjectOf(id)
		}
		if id, ok := as.Lhs[1].(*ast.Ident); ok && id.Name != "_" {
			openErr = info.ObjectOf(id)
		}
		// target name
		n++
		if id, ok := unparen(call.Args[0]).(*ast.Ident); ok && info.ObjectOf(id) == fileNameObj {
			c.OK(R, name+":target", call.Pos(), "%s opens its filename parameter", name)
		} else {
			c.Viol(R, name+":target", call.Pos(), "%s opens %s, not its filename parameter: the bytes land in another file", name, c.src(call.Args[0]))
		}
		n++
		key := name + ":flags"
		if !haveFlags {
			c.Undecided(R, key, call.Pos(), "%s: open flags are not a compile-time constant: %s", name, c.src(call))
			return true
		}
		writable := flags&oWRONLY != 0 || flags&oRDWR != 0
		var bad []string
		if !writable {
			bad = append(bad, "no O_WRONLY/O_RDWR (file opened read-only: nothing is written)")
		}
		if flags&oCREATE == 0 {
			bad = append(bad, "no O_CREATE (writing to a new file fails)")
		}
		if wantAppend {
			if flags&oAPPEND == 0 {
				bad = append(bad, "no O_APPEND (`>>` overwrites the start of the previous contents instead of appending)")
			}
			if flags&oTRUNC != 0 {
				bad = append(bad, "O_TRUNC set (`>>` discards the previous contents)")
			}
		} else {
			if flags&oTRUNC == 0 {
				bad = append(bad, "no O_TRUNC (`|>` leaves the tail of a longer previous file in place)")
			}
			if flags&oAPPEND != 0 {
				bad = append(bad, "O_APPEND set (`|>` keeps the previous contents)")
			}
		}
		if perm >= 0 && perm&0200 == 0 {
			bad = append(bad, "created without owner write permission (a later `>>` to the same file fails)")
		}
		if perm < 0 {
			bad = append(bad, "permission bits are not constant")
		}
		if len(bad) > 0 {
			c.Viol(R, key, call.Pos(), "%s opens with %s: %s", name, c.src(call), strings.Join(bad, "; "))
		} else {
			c.OK(R, key, call.Pos(), "%s open flags %#o ok", name, flags)
		}
		return true
	})
	if opens != 1 || fileObj == nil {
		c.Undecided(R, name+":open", fd.Pos(), "%s: expected exactly one `f, err := os.Create/os.OpenFile(...)`, found %d", name, opens)
		return n + 1
	}

	// the open error must end the function before anything is written
	n++
	okErr := false
	if openErr != nil {
		walkStack(fd.Body, func(x ast.Node, st []ast.Node) bool {
			is, ok := x.(*ast.IfStmt)
			if !ok || is.Pos() < openPos {
				return true
			}
			if c33IsNilTest(info, is.Cond, openErr, token.NEQ) && terminates(info, is.Body.List) {
				if rs, ok := is.Body.List[len(is.Body.List)-1].(*ast.ReturnStmt); ok && len(rs.Results) == 1 {
					if id, ok := unparen(rs.Results[0]).(*ast.Ident); ok && info.ObjectOf(id) == openErr {
						okErr = true
					}
				}
			}
			return true
		})
	}
	c.Check(okErr, R, name+":open-error", openPos, "%s returns the open error before copying (otherwise a failed open is reported as success / nil file is written)", name)

	// uses of the file: io.Copy(file, reader) exactly once, Close allowed, nothing else
	copies := 0
	var copyErr types.Object
	var copyStmt *ast.AssignStmt
	walkStack(fd.Body, func(x ast.Node, st []ast.Node) bool {
		id, ok := x.(*ast.Ident)
		if !ok || info.Uses[id] != fileObj {
			return true
		}
		// parent contexts
		par := st[len(st)-2]
		if se, ok := par.(*ast.SelectorExpr); ok && se.X == ast.Expr(id) {
			if se.Sel.Name == "Close" {
				return true
			}
			n++
			c.Viol(R, name+":extra-use:"+se.Sel.Name, se.Pos(), "%s also uses the file through %s: the file no longer holds exactly the piped bytes", name, c.src(se))
			return true
		}
		if call, ok := par.(*ast.CallExpr); ok {
			if callIs(info, call, "io", "", "Copy") && len(call.Args) == 2 && call.Args[0] == ast.Expr(id) {
				copies++
				n++
				if sid, ok := unparen(call.Args[1]).(*ast.Ident); ok && info.ObjectOf(sid) == readerObj {
					c.OK(R, name+":copy", call.Pos(), "io.Copy(file, reader) copies the whole reader parameter")
				} else {
					c.Viol(R, name+":copy", call.Pos(), "%s copies from %s, not from its reader parameter as passed: bytes are lost or altered", name, c.src(call.Args[1]))
				}
				if len(st) >= 3 {
					if as, ok := st[len(st)-3].(*ast.AssignStmt); ok && len(as.Lhs) == 2 && len(as.Rhs) == 1 {
						if eid, ok := as.Lhs[1].(*ast.Ident); ok && eid.Name != "_" {
							copyErr = info.ObjectOf(eid)
							copyStmt = as
						}
					}
					if rs, ok := st[len(st)-3].(*ast.ReturnStmt); ok {
						_ = rs // `return io.Copy(...)` is not possible with a single error result
					}
				}
				return true
			}
		}
		n++
		c.Viol(R, name+":extra-use", id.Pos(), "%s passes the file to %s: only io.Copy(file, reader) may write to it", name, c.src(par))
		return true
	})
	n++
	if copies != 1 {
		c.Viol(R, name+":copy-count", fd.Pos(), "%s has %d io.Copy(file, …) calls, expected exactly 1 whole-reader copy (io.CopyN / partial writes do not deliver every byte)", name, copies)
		return n
	}
	c.OK(R, name+":copy-count", fd.Pos(), "one io.Copy")
	// error of the copy is what the function returns afterwards
	n++
	okRet := false
	if copyErr != nil && copyStmt != nil && topLevelIndex(fd.Body.List, copyStmt) >= 0 {
		// every return that follows the copy gives back the copy's error: `return err`, a bare return
		// with err the named result, or `return nil` where err == nil is established (after
		// `if …; err != nil { return err }`); err is not reassigned in between
		namedRes := false
		if fd.Type.Results != nil {
			for _, f := range fd.Type.Results.List {
				for _, rn := range f.Names {
					if info.ObjectOf(rn) == copyErr {
						namedRes = true
					}
				}
			}
		}
		nRet, nBad := 0, 0
		walkStack(fd.Body, func(x ast.Node, st []ast.Node) bool {
			if _, ok := x.(*ast.FuncLit); ok {
				return false
			}
			if as, ok := x.(*ast.AssignStmt); ok && as.Pos() > copyStmt.Pos() {
				for _, l := range as.Lhs {
					if id, ok := l.(*ast.Ident); ok && info.ObjectOf(id) == copyErr {
						nBad++
					}
				}
			}
			rs, ok := x.(*ast.ReturnStmt)
			if !ok || rs.Pos() < copyStmt.End() {
				return true
			}
			nRet++
			switch {
			case len(rs.Results) == 0 && namedRes:
			case len(rs.Results) == 1:
				r := unparen(rs.Results[0])
				if id, ok := r.(*ast.Ident); ok && info.ObjectOf(id) == copyErr {
					break
				}
				isNilRes := false
				if tv, ok := info.Types[r]; ok && tv.IsNil() {
					for _, f := range factsOf(guardsAt(info, st)) {
						if (c33IsNilTest(info, f.E, copyErr, token.EQL) && f.True) || (c33IsNilTest(info, f.E, copyErr, token.NEQ) && !f.True) {
							isNilRes = true
						}
					}
				}
				if !isNilRes {
					nBad++
				}
			default:
				nBad++
			}
			return true
		})
		okRet = nRet > 0 && nBad == 0
	}
	c.Check(okRet, R, name+":copy-error", fd.Pos(), "%s returns io.Copy's error as its result (a short/failed write must not be reported as success)", name)
	return n
}

// c33IsNilTest: cond is `obj OP nil`
func c33IsNilTest(info *types.Info, cond ast.Expr, obj types.Object, op token.Token) bool {
	b, ok := unparen(cond).(*ast.BinaryExpr)
	if !ok || b.Op != op {
		return false
	}
	isNil := func(e ast.Expr) bool {
		id, ok := unparen(e).(*ast.Ident)
		if !ok {
			return false
		}
		_, ok = info.ObjectOf(id).(*types.Nil)
		return ok
	}
	isObj := func(e ast.Expr) bool {
		id, ok := unparen(e).(*ast.Ident)
		return ok && info.ObjectOf(id) == obj
	}
	return (isObj(b.X) && isNil(b.Y)) || (isObj(b.Y) && isNil(b.X))
}

// c33FactField: truth of a fact on Process field `field` (e.g. IsMethod) at a node; 0 unknown, +1 true, -1 false.
func c33FactField(info *types.Info, facts []Fact, field string) int {
	for _, f := range facts {
		if isField(info, f.E, c33ProcT, field) {
			if f.True {
				return 1
			}
			return -1
		}
	}
	return 0
}

func (c *Ctx) c33CheckWriteFile(info *types.Info, fd *ast.FuncDecl) {
	const R = "R33a"
	// the writer parameter: the parameter of func type
	var fnObj types.Object
	for _, f := range fd.Type.Params.List {
		for _, id := range f.Names {
			if _, ok := info.ObjectOf(id).Type().Underlying().(*types.Signature); ok {
				fnObj = info.ObjectOf(id)
			}
		}
	}
	if fnObj == nil {
		c.Undecided(R, "writeFile:signature", fd.Pos(), "writeFile has no function-typed parameter: cannot find the writer calls")
		return
	}
	// b, err := p.Stdin.ReadAll()
	readAll := map[types.Object]bool{}
	ast.Inspect(fd.Body, func(x ast.Node) bool {
		as, ok := x.(*ast.AssignStmt)
		if !ok || len(as.Rhs) != 1 || len(as.Lhs) != 2 {
			return true
		}
		call, ok := unparen(as.Rhs[0]).(*ast.CallExpr)
		if !ok {
			return true
		}
		se, ok := call.Fun.(*ast.SelectorExpr)
		if ok && se.Sel.Name == "ReadAll" && isField(info, se.X, c33ProcT, "Stdin") {
			if id, ok := as.Lhs[0].(*ast.Ident); ok {
				readAll[info.ObjectOf(id)] = true
			}
		}
		return true
	})
	defs := localDefs(info, fd.Body)
	cnt := map[string]int{}
	nCalls := 0
	walkStack(fd.Body, func(x ast.Node, st []ast.Node) bool {
		call, ok := x.(*ast.CallExpr)
		if !ok {
			return true
		}
		id, ok := call.Fun.(*ast.Ident)
		if !ok || info.Uses[id] != fnObj || len(call.Args) != 2 {
			return true
		}
		nCalls++
		facts := factsOf(guardsAt(info, st))
		isMethod := c33FactField(info, facts, "IsMethod")
		arg := unparen(call.Args[0])
		kind := "other"
		switch {
		case isField(info, arg, c33ProcT, "Stdin"):
			kind = "stdin"
		default:
			if bc, ok := arg.(*ast.CallExpr); ok && len(bc.Args) == 1 &&
				(callIs(info, bc, "bytes", "", "NewReader") || callIs(info, bc, "bytes", "", "NewBuffer")) {
				inner := unparen(bc.Args[0])
				if iid, ok := inner.(*ast.Ident); ok && readAll[info.ObjectOf(iid)] && len(defs[info.ObjectOf(iid)]) == 1 {
					kind = "readall"
				} else if isEmptySliceExpr(info, inner) {
					kind = "empty"
				}
			}
		}
		cnt[kind]++
		key := "writeFile:reader:" + kind
		if cnt[kind] > 1 {
			key += "#" + string(rune('0'+cnt[kind]))
		}
		switch kind {
		case "stdin":
			c.OK(R, key, call.Pos(), "writer receives p.Stdin")
		case "readall":
			c.OK(R, key, call.Pos(), "writer receives all bytes of p.Stdin.ReadAll()")
		case "empty":
			if isMethod == -1 {
				c.OK(R, key, call.Pos(), "empty reader only when the command is not a method (nothing piped in)")
			} else {
				c.Viol(R, key, call.Pos(), "writeFile hands the writer an empty reader on a path where the command may be a method: the piped bytes never reach the file")
			}
		default:
			c.Undecided(R, key, call.Pos(), "writeFile hands the writer %s — not p.Stdin, not bytes.NewReader(<p.Stdin.ReadAll() result>), not an empty reader under !p.IsMethod: cannot tell that exactly the piped bytes reach the file", c.src(arg))
		}
		// its error is the function's result
		par := st[len(st)-2]
		rk := strings.Replace(key, ":reader:", ":result:", 1)
		if _, ok := par.(*ast.ReturnStmt); ok {
			c.OK(R, rk, call.Pos(), "writer's error returned")
		} else if c33ReturnedNext(info, st, call) || c33CheckedAndReturned(info, st, call) { // c33x.go: `if err := fn(…); err != nil { return err }`
			c.OK(R, rk, call.Pos(), "writer's error stored in a local that the next statement returns")
		} else {
			c.Viol(R, rk, call.Pos(), "the writer's error is not returned by writeFile (%s): a failed write is reported as success", c.src(par))
		}
		return true
	})
	c.MinCount(R, "writer calls in writeFile", nCalls, 4)
}

// ===================================================================== R33b

// c33Chain decomposes a chain of lang.Process field selections: procs[i].Next.Stdin ->
// (base `procs[i]`, ["Next","Stdin"]).
func c33Chain(info *types.Info, e ast.Expr) (ast.Expr, []string) {
	var chain []string
	for {
		e = unparen(e)
		se, ok := e.(*ast.SelectorExpr)
		if !ok {
			break
		}
		v, owner := fieldOf(info, se)
		if v == nil || owner != c33ProcT {
			break
		}
		chain = append([]string{v.Name()}, chain...)
		e = se.X
	}
	return e, chain
}

type c33Store struct {
	as    *ast.AssignStmt
	idx   int // index in Lhs
	base  ast.Expr
	field string // Stdout | Stderr | Stdin
	rhs   ast.Expr
	tuple bool // multi-value call on the rhs
	stack []ast.Node
}

// c33Stores lists every store to a lang.Process stream field in body.
func c33Stores(info *types.Info, body ast.Node) []c33Store {
	var out []c33Store
	walkStack(body, func(x ast.Node, st []ast.Node) bool {
		as, ok := x.(*ast.AssignStmt)
		if !ok {
			return true
		}
		for i, l := range as.Lhs {
			base, chain := c33Chain(info, l)
			if len(chain) != 1 {
				continue
			}
			f := chain[0]
			if f != "Stdout" && f != "Stderr" && f != "Stdin" {
				continue
			}
			s := c33Store{as: as, idx: i, base: base, field: f, stack: append([]ast.Node(nil), st...)}
			if len(as.Rhs) == len(as.Lhs) {
				s.rhs = unparen(as.Rhs[i])
			} else if len(as.Rhs) == 1 {
				s.rhs = unparen(as.Rhs[0])
				s.tuple = true
			}
			out = append(out, s)
		}
		return true
	})
	return out
}

func (c *Ctx) c33Wiring() {
	const R = "R33b"
	c.Rule(R, "wiring table. compile(): a process that pipes stdout (`|`/`->`) gets Stdout=its successor's Stdin and Stderr=Parent.Stderr; one that pipes stderr (`?`) gets Stdout=Parent.Stderr and Stderr=successor's Stdin; any other gets Stdout=Parent.Stdout, Stderr=Parent.Stderr; the successor's Stdin is read only where the pipe relation holds and a fresh stream was installed there. createProcess(): `<!out>` stores the process's own stdout (as wired by compile, before any rewiring) into Stderr; `<err>` stores its own original stderr or Parent.Stderr into Stdout; a named pipe stores GlobalPipes.Get(<the same name field>) under err==nil into the matching stream; no other redirect arm rewires; NewTee wraps the very stream it replaces")
	pk := c.Pkg("lang")
	if pk == nil {
		c.Lost(R, "pkg:lang", "package not loaded")
		return
	}
	info := pk.TypesInfo
	propPkg := mx("lang/expressions/functions")

	// ---- compile()
	if fd, _ := c.MustFunc(R, "lang", "", "compile"); fd != nil {
		got := map[string]bool{}
		for _, s := range c33Stores(info, fd.Body) {
			if s.field == "Stdin" {
				continue
			}
			// arm from the guards
			po, pe := 0, 0
			for _, f := range factsOf(guardsAt(info, s.stack)) {
				if call, ok := unparen(f.E).(*ast.CallExpr); ok {
					v := -1
					if f.True {
						v = 1
					}
					if callIs(info, call, propPkg, "Property", "PipeOut") {
						po = v
					}
					if callIs(info, call, propPkg, "Property", "PipeErr") {
						pe = v
					}
				}
			}
			arm := ""
			switch {
			case po == 1:
				arm = "pipe-out"
			case po == -1 && pe == 1:
				arm = "pipe-err"
			case po == -1 && pe == -1:
				arm = "plain"
			}
			if arm == "" {
				c.Undecided(R, "compile:?:"+s.field, s.as.Pos(), "store %s in compile is not inside an arm decided by Properties.PipeOut()/PipeErr(): cannot place it in the wiring table", c.src(s.as))
				continue
			}
			key := "compile:" + arm + ":" + s.field
			if got[key] {
				c.Viol(R, key+":dup", s.as.Pos(), "second store to %s in the %s arm (%s): the earlier wiring is overwritten", s.field, arm, c.src(s.as))
				continue
			}
			got[key] = true
			want := map[string]string{
				"pipe-out:Stdout": "Next.Stdin", "pipe-out:Stderr": "Parent.Stderr",
				"pipe-err:Stdout": "Parent.Stderr", "pipe-err:Stderr": "Next.Stdin",
				"plain:Stdout": "Parent.Stdout", "plain:Stderr": "Parent.Stderr",
			}[arm+":"+s.field]
			rb, rc := c33Chain(info, s.rhs)
			gotCls := strings.Join(rc, ".")
			if want == "Next.Stdin" && !s.tuple && gotCls == "Stdin" && c33IsSuccessorIndex(c, info, rb, s.base) {
				// <procs>[i+1].Stdin: the successor addressed by index instead of through .Next
				rb, gotCls = s.base, "Next.Stdin"
				rc = []string{"Next", "Stdin"}
			}
			if s.tuple || len(rc) == 0 || !c.sameExpr(rb, s.base) {
				c.Viol(R, key, s.as.Pos(), "compile wires %s of a %s process to %s, expected its own %s: output is routed to another stream", s.field, arm, c.src(s.as.Rhs[0]), want)
				continue
			}
			if gotCls != want {
				c.Viol(R, key, s.as.Pos(), "compile wires %s of a %s process to its %s, expected %s: bytes move to a stream the command line did not name", s.field, arm, gotCls, want)
				continue
			}
			if want == "Next.Stdin" && !c.c33FreshSuccessor(info, s) {
				c.Viol(R, key, s.as.Pos(), "the %s arm reads the successor's Stdin without first installing a fresh streams.NewStdin() on the next process (index+1): the pipe is shared with / missing from the successor", arm)
				continue
			}
			c.OK(R, key, s.as.Pos(), "%s -> %s", s.field, want)
		}
		for _, k := range []string{"pipe-out:Stdout", "pipe-out:Stderr", "pipe-err:Stdout", "pipe-err:Stderr", "plain:Stdout", "plain:Stderr"} {
			if !got["compile:"+k] {
				c.Viol(R, "compile:"+k, fd.Pos(), "compile leaves %s unwired: the stream is nil or keeps a stale value", k)
			}
		}
	}

	// ---- createProcess() and ttys()
	nRedir := 0
	for _, fn := range []string{"createProcess", "ttys"} {
		fd, _ := c.MustFunc(R, "lang", "", fn)
		if fd == nil {
			continue
		}
		nRedir += c.c33CheckRedirects(info, fd)
	}
	c.MinCount(R, "stream stores in createProcess/ttys", nRedir, 9)
}

// c33FreshSuccessor: in the same case body, before s, `<slice>[idx+1].Stdin = streams.NewStdin()`
// where s.base is `<slice>[idx]`.
func (c *Ctx) c33FreshSuccessor(info *types.Info, s c33Store) bool {
	if _, ok := unparen(s.base).(*ast.IndexExpr); !ok {
		return false
	}
	// enclosing case clause
	var body []ast.Stmt
	for i := len(s.stack) - 1; i >= 0; i-- {
		if cc, ok := s.stack[i].(*ast.CaseClause); ok {
			body = cc.Body
			break
		}
		if bl, ok := s.stack[i].(*ast.BlockStmt); ok && body == nil {
			body = bl.List
		}
	}
	for _, st := range body {
		if st.Pos() >= s.as.Pos() {
			break
		}
		for _, o := range c33Stores(info, st) {
			if o.field != "Stdin" || o.tuple {
				continue
			}
			rhs := o.rhs
			if id, ok := rhs.(*ast.Ident); ok {
				// a local defined once, in this very arm, before the store: `pipe := streams.NewStdin()`
				if d := localDefs(info, &ast.BlockStmt{List: body}).resolve1(info, id); d != ast.Expr(id) && d.Pos() < o.as.Pos() {
					rhs = d
				}
			}
			call, ok := rhs.(*ast.CallExpr)
			if !ok || !callIs(info, call, mx("builtins/pipes/streams"), "", "NewStdin") {
				continue
			}
			if c33IsSuccessorIndex(c, info, o.base, s.base) {
				return true
			}
		}
	}
	return false
}

// c33IsSuccessorIndex: e is `X[k+1]` (or `X[1+k]`) where base is `X[k]`.
func c33IsSuccessorIndex(c *Ctx, info *types.Info, e, base ast.Expr) bool {
	bi, ok := unparen(base).(*ast.IndexExpr)
	if !ok {
		return false
	}
	oi, ok := unparen(e).(*ast.IndexExpr)
	if !ok || !c.sameExpr(oi.X, bi.X) {
		return false
	}
	if b, ok := unparen(oi.Index).(*ast.BinaryExpr); ok && b.Op == token.ADD {
		if v, ok := constInt(info, b.Y); ok && v == 1 && c.sameExpr(b.X, bi.Index) {
			return true
		}
		if v, ok := constInt(info, b.X); ok && v == 1 && c.sameExpr(b.Y, bi.Index) {
			return true
		}
	}
	return false
}

// c33ReturnedNext: call is the whole right-hand side of `v := call` / `v = call` (one variable) and the
// statement that follows in the same block is `return v`.
func c33ReturnedNext(info *types.Info, st []ast.Node, call *ast.CallExpr) bool {
	if len(st) < 3 {
		return false
	}
	as, ok := st[len(st)-2].(*ast.AssignStmt)
	if !ok || len(as.Lhs) != 1 || len(as.Rhs) != 1 || unparen(as.Rhs[0]) != ast.Expr(call) {
		return false
	}
	id, ok := as.Lhs[0].(*ast.Ident)
	if !ok {
		return false
	}
	var list []ast.Stmt
	switch b := st[len(st)-3].(type) {
	case *ast.BlockStmt:
		list = b.List
	case *ast.CaseClause:
		list = b.Body
	}
	for i, s := range list {
		if s == ast.Stmt(as) && i+1 < len(list) {
			if rs, ok := list[i+1].(*ast.ReturnStmt); ok && len(rs.Results) == 1 {
				if rid, ok := unparen(rs.Results[0]).(*ast.Ident); ok && info.ObjectOf(rid) == info.ObjectOf(id) {
					return true
				}
			}
		}
	}
	return false
}

// c33Arm: which redirect arm a node is in: tag field (NamedPipeErr/NamedPipeOut), constant value
// or default. ok=false when the node is under no such guard.
func c33Arm(info *types.Info, st []ast.Node) (tag, val string, dflt, ok bool) {
	gs := guardsAt(info, st)
	for _, g := range gs {
		if g.Tag != nil {
			for _, f := range []string{"NamedPipeErr", "NamedPipeOut"} {
				if isField(info, g.Tag, c33ProcT, f) {
					if g.Dflt {
						return f, "", true, true
					}
					if len(g.Cases) == 1 {
						if v, ok := constString(info, g.Cases[0]); ok {
							return f, v, false, true
						}
					}
					return f, "?", false, true
				}
			}
		}
	}
	// if-form: p.NamedPipeX == "const" known true; the final else of an if / else-if chain (every
	// `p.NamedPipeX == "const"` known false, among them the name that has a meaning of its own:
	// "out" for NamedPipeErr, "err" for NamedPipeOut) is the default arm
	excluded := map[string]map[string]bool{}
	for _, f := range factsOf(gs) {
		b, ok := unparen(f.E).(*ast.BinaryExpr)
		if !ok || (b.Op != token.EQL && b.Op != token.NEQ) {
			continue
		}
		eq := (b.Op == token.EQL) == f.True
		for _, fld := range []string{"NamedPipeErr", "NamedPipeOut"} {
			for _, pr := range [][2]ast.Expr{{b.X, b.Y}, {b.Y, b.X}} {
				if !isField(info, pr[0], c33ProcT, fld) {
					continue
				}
				v, ok := constString(info, pr[1])
				if !ok {
					continue
				}
				if eq {
					return fld, v, false, true
				}
				if excluded[fld] == nil {
					excluded[fld] = map[string]bool{}
				}
				excluded[fld][v] = true
			}
		}
	}
	for fld, special := range map[string]string{"NamedPipeErr": "out", "NamedPipeOut": "err"} {
		if excluded[fld][special] && excluded[fld][""] {
			return fld, "", true, true
		}
	}
	return "", "", false, false
}

func (c *Ctx) c33CheckRedirects(info *types.Info, fd *ast.FuncDecl) int {
	const R = "R33b"
	fn := fd.Name.Name
	stores := c33Stores(info, fd.Body)
	defs := localDefs(info, fd.Body)
	// first store position per field (to decide "own stream as wired by compile")
	first := map[string]token.Pos{}
	for _, s := range stores {
		if p, ok := first[s.field]; !ok || s.as.Pos() < p {
			first[s.field] = s.as.Pos()
		}
	}
	// ownOriginal: e denotes base.<field> before any store to it in this function
	ownOriginal := func(e ast.Expr, base ast.Expr, field string, at token.Pos) bool {
		e = unparen(e)
		b, ch := c33Chain(info, e)
		if len(ch) == 1 && ch[0] == field && c.sameExpr(b, base) {
			p, stored := first[field]
			return !stored || at <= p
		}
		// a local (or a short chain of locals) defined once from base.<field> before the first store
		for hop := 0; hop < 4; hop++ {
			id, ok := e.(*ast.Ident)
			if !ok {
				return false
			}
			ds := defs[info.ObjectOf(id)]
			if len(ds) != 1 || ds[0] == nil {
				return false
			}
			b, ch := c33Chain(info, ds[0])
			if len(ch) == 1 && ch[0] == field && c.sameExpr(b, base) {
				p, stored := first[field]
				return !stored || ds[0].Pos() < p
			}
			e = unparen(ds[0])
		}
		return false
	}
	n := 0
	ord := map[string]int{}
	seenArm := map[string]bool{}
	for _, s := range stores {
		if s.field == "Stdin" {
			continue
		}
		n++
		tag, val, dflt, inArm := c33Arm(info, s.stack)
		// ---- tee / pty wrappers (anywhere)
		if call, ok := s.rhs.(*ast.CallExpr); ok && s.tuple {
			o := callee(info, call)
			if o != nil && o.Pkg() != nil && o.Pkg().Path() == mx("builtins/pipes/streams") && o.Name() == "NewTee" && s.idx == 0 && len(call.Args) == 1 {
				ord["tee:"+s.field]++
				key := fn + ":tee:" + s.field
				if ord["tee:"+s.field] > 1 {
					key += "#" + string(rune('0'+ord["tee:"+s.field]))
				}
				ab, ach := c33Chain(info, call.Args[0])
				if len(ach) == 1 && ach[0] == s.field && c.sameExpr(ab, s.base) {
					c.OK(R, key, s.as.Pos(), "tee wraps the stream it replaces")
				} else {
					c.Viol(R, key, s.as.Pos(), "%s is replaced by a tee of %s: the process's %s is routed to another stream", s.field, c.src(call.Args[0]), strings.ToLower(s.field))
				}
				continue
			}
			if o != nil && o.Name() == "NewTeePTY" && s.field == "Stdout" && s.idx == 0 {
				key := fn + ":pty:Stdout"
				ok := false
				for _, f := range factsOf(guardsAt(info, s.stack)) {
					if ic, ok2 := unparen(f.E).(*ast.CallExpr); ok2 && f.True {
						if se, ok3 := ic.Fun.(*ast.SelectorExpr); ok3 && se.Sel.Name == "IsTTY" {
							ab, ach := c33Chain(info, se.X)
							if len(ach) == 1 && ach[0] == "Stdout" && c.sameExpr(ab, s.base) {
								ok = true
							}
						}
					}
				}
				c.Check(ok, R, key, s.as.Pos(), "Stdout is replaced by a pseudo-TTY tee only where the process's Stdout is the terminal (its copy goroutine to os.Stdout is not examined)")
				continue
			}
		}
		if !inArm {
			c.Undecided(R, fn+":store:"+s.field, s.as.Pos(), "store %s is neither in a NamedPipeErr/NamedPipeOut arm nor a tee of the same stream: cannot tell where the process's %s goes", c.src(s.as), strings.ToLower(s.field))
			continue
		}
		wantField := map[string]string{"NamedPipeErr": "Stderr", "NamedPipeOut": "Stdout"}[tag]
		bang := map[string]string{"NamedPipeErr": "!", "NamedPipeOut": ""}[tag]
		switch {
		case dflt:
			key := fn + ":named:<" + bang + "name>"
			seenArm[key] = true
			if s.field != wantField {
				c.Viol(R, key, s.as.Pos(), "the named-pipe arm of %s rewires %s (%s): `<%sname>` must only move %s", tag, s.field, c.src(s.as), bang, strings.ToLower(wantField))
				continue
			}
			okGet := false
			var getArg ast.Expr
			if id, ok := s.rhs.(*ast.Ident); ok {
				// defined as Lhs[0] of `x, err := GlobalPipes.Get(arg)`
				o := info.ObjectOf(id)
				ast.Inspect(fd.Body, func(x ast.Node) bool {
					as, ok := x.(*ast.AssignStmt)
					if !ok || len(as.Lhs) != 2 || len(as.Rhs) != 1 {
						return true
					}
					if lid, ok := as.Lhs[0].(*ast.Ident); !ok || info.ObjectOf(lid) != o {
						return true
					}
					if call, ok := unparen(as.Rhs[0]).(*ast.CallExpr); ok && callIs(info, call, mx("lang/pipes"), "Named", "Get") && len(call.Args) == 1 {
						if se, ok := call.Fun.(*ast.SelectorExpr); ok && isPkgObj(info, se.X, mx("lang"), "GlobalPipes") {
							okGet = true
							getArg = call.Args[0]
						}
					}
					return true
				})
			}
			if !okGet {
				c.Undecided(R, key, s.as.Pos(), "named-pipe arm stores %s, which is not the result of GlobalPipes.Get(…)", c.src(s.rhs))
				continue
			}
			ab, ach := c33Chain(info, getArg)
			if !(len(ach) == 1 && ach[0] == tag && c.sameExpr(ab, s.base)) {
				c.Viol(R, key, s.as.Pos(), "`<%sname>` looks up GlobalPipes.Get(%s) instead of the name given for this stream (%s): output goes to a different pipe", bang, c.src(getArg), tag)
				continue
			}
			// guarded by the lookup having succeeded
			okErr := false
			for _, f := range factsOf(guardsAt(info, s.stack)) {
				if b, ok := unparen(f.E).(*ast.BinaryExpr); ok {
					if (b.Op == token.EQL && f.True) || (b.Op == token.NEQ && !f.True) {
						for _, side := range []ast.Expr{b.X, b.Y} {
							if id, ok := unparen(side).(*ast.Ident); ok {
								if _, isNil := info.ObjectOf(id).(*types.Nil); isNil {
									okErr = true
								}
							}
						}
					}
				}
			}
			if !okErr {
				c.Viol(R, key, s.as.Pos(), "`<%sname>`: the looked-up pipe is installed without the lookup error being nil: a nil stream replaces %s", bang, strings.ToLower(wantField))
				continue
			}
			c.OK(R, key, s.as.Pos(), "%s = GlobalPipes.Get(p.%s) when found", s.field, tag)
		case tag == "NamedPipeErr" && val == "out":
			key := fn + ":<!out>"
			seenArm[key] = true
			if s.field != "Stderr" {
				c.Viol(R, key, s.as.Pos(), "the `<!out>` arm rewires %s (%s); it must only send stderr to stdout", s.field, c.src(s.as))
				continue
			}
			if ownOriginal(s.rhs, s.base, "Stdout", s.as.Pos()) {
				c.OK(R, key, s.as.Pos(), "`<!out>`: Stderr = the process's own Stdout")
			} else {
				c.Viol(R, key, s.as.Pos(), "`<!out>` stores %s into Stderr instead of the process's own Stdout as wired by compile(): when the command does not pipe into its successor (last command of a block, or followed by `;`) its stderr is written to the successor's/parent's STDIN and never reaches stdout (`err <!out> foo` prints nothing)", c.src(s.rhs))
			}
		case tag == "NamedPipeOut" && val == "err":
			key := fn + ":<err>"
			seenArm[key] = true
			if s.field != "Stdout" {
				c.Viol(R, key, s.as.Pos(), "the `<err>` arm rewires %s (%s); it must only send stdout to stderr", s.field, c.src(s.as))
				continue
			}
			rb, rc := c33Chain(info, s.rhs)
			if ownOriginal(s.rhs, s.base, "Stderr", s.as.Pos()) || (strings.Join(rc, ".") == "Parent.Stderr" && c.sameExpr(rb, s.base)) {
				c.OK(R, key, s.as.Pos(), "`<err>`: Stdout = the process's stderr")
			} else {
				c.Viol(R, key, s.as.Pos(), "`<err>` stores %s into Stdout instead of the process's own original Stderr (or Parent.Stderr): the successor's Stderr is the successor's routing, so when the next command pipes its stderr (`out <err> foo; err bar ? cmd`) foo is delivered to cmd's stdin, not to stderr", c.src(s.rhs))
			}
		default:
			key := fn + ":arm:" + tag + "=" + val + ":" + s.field
			c.Viol(R, key, s.as.Pos(), "the %s==%q arm rewires %s (%s): this redirection names the stream's default target and must leave the wiring alone", tag, val, s.field, c.src(s.as))
		}
	}
	if fn == "createProcess" {
		for _, k := range []string{"createProcess:<!out>", "createProcess:<err>", "createProcess:named:<!name>", "createProcess:named:<name>"} {
			if !seenArm[k] {
				n++
				c.Viol(R, k, fd.Pos(), "createProcess has no store implementing %s: the redirection is accepted but has no effect", strings.TrimPrefix(k, "createProcess:"))
			}
		}
	}
	return n
}

// ===================================================================== R33c

func (c *Ctx) c33Parse() {
	const R = "R33c"
	c.Rule(R, "parseRedirection stores name[1:] into NamedPipeErr only where name[0]=='!' holds and the whole name into NamedPipeOut only where it does not; pipes.NewNamed registers \"null\" as *null.Null, whose Write/Writeln discard (no calls, return len(b), nil); Named.Close/Delete refuse \"null\"")
	pk := c.Pkg("lang")
	if pk == nil {
		return
	}
	info := pk.TypesInfo
	n := 0
	if fd, _ := c.MustFunc(R, "lang", "", "parseRedirection"); fd != nil {
		walkStack(fd.Body, func(x ast.Node, st []ast.Node) bool {
			as, ok := x.(*ast.AssignStmt)
			if !ok || len(as.Lhs) != 1 || len(as.Rhs) != 1 {
				return true
			}
			var fld string
			for _, f := range []string{"NamedPipeErr", "NamedPipeOut"} {
				if isField(info, as.Lhs[0], c33ProcT, f) {
					fld = f
				}
			}
			if fld == "" {
				return true
			}
			n++
			// the range value variable
			var nameObj types.Object
			for _, a := range st {
				if rs, ok := a.(*ast.RangeStmt); ok {
					if id, ok := rs.Value.(*ast.Ident); ok && id.Name != "_" {
						nameObj = info.ObjectOf(id)
					} else if kid, ok := rs.Key.(*ast.Ident); ok && kid.Name != "_" {
						// `for i := range xs { name := xs[i]`: the element held in a local defined once
						for o, ds := range localDefs(info, rs.Body) {
							if len(ds) != 1 || ds[0] == nil {
								continue
							}
							if ix, ok := unparen(ds[0]).(*ast.IndexExpr); ok && c.sameExpr(ix.X, rs.X) {
								if iid, ok := unparen(ix.Index).(*ast.Ident); ok && info.ObjectOf(iid) == info.ObjectOf(kid) {
									nameObj = o
								}
							}
						}
					}
				}
			}
			bang := 0 // +1: name[0]=='!' true, -1 false
			for _, f := range factsOf(guardsAt(info, st)) {
				b, ok := unparen(f.E).(*ast.BinaryExpr)
				if !ok || (b.Op != token.EQL && b.Op != token.NEQ) {
					continue
				}
				x, y := unparen(b.X), unparen(b.Y)
				if _, isC := constInt(info, x); isC {
					x, y = y, x
				}
				v, isC := constInt(info, y)
				ix, isIx := x.(*ast.IndexExpr)
				if !isC || v != '!' || !isIx {
					continue
				}
				if id, ok := unparen(ix.X).(*ast.Ident); !ok || info.ObjectOf(id) != nameObj {
					continue
				}
				if k, ok := constInt(info, ix.Index); !ok || k != 0 {
					continue
				}
				t := f.True
				if b.Op == token.NEQ {
					t = !t
				}
				if t {
					bang = 1
				} else {
					bang = -1
				}
			}
			// `if p.NamedPipeX == "" { p.NamedPipeX = … } else { error }`: the store must sit on the
			// "not yet set" side
			alreadySet := false
			for _, f := range factsOf(guardsAt(info, st)) {
				b, ok := unparen(f.E).(*ast.BinaryExpr)
				if !ok || (b.Op != token.EQL && b.Op != token.NEQ) {
					continue
				}
				x, y := unparen(b.X), unparen(b.Y)
				if _, isC := constString(info, x); isC {
					x, y = y, x
				}
				if v, isC := constString(info, y); !isC || v != "" || !isField(info, x, c33ProcT, fld) {
					continue
				}
				if (b.Op == token.EQL) != f.True {
					alreadySet = true
				}
			}
			if alreadySet {
				c.Viol(R, "parseRedirection:"+fld, as.Pos(), "%s is stored only where it is already non-empty: the first `<…>` of a command is rejected (\"specified multiple times\") and the redirection never takes effect", fld)
				return true
			}
			rhs := unparen(as.Rhs[0])
			whole := false
			tail := false
			if id, ok := rhs.(*ast.Ident); ok && info.ObjectOf(id) == nameObj {
				whole = true
			}
			isNameId := func(e ast.Expr) bool {
				id, ok := unparen(e).(*ast.Ident)
				return ok && nameObj != nil && info.ObjectOf(id) == nameObj
			}
			if se, ok := rhs.(*ast.SliceExpr); ok && se.Max == nil && se.Low != nil && isNameId(se.X) {
				highOK := se.High == nil
				if lc, ok := isBuiltinCall(info, se.High, "len"); se.High != nil && ok && len(lc.Args) == 1 && isNameId(lc.Args[0]) {
					highOK = true // name[1:len(name)]
				}
				if k, ok := constInt(info, se.Low); ok && k == 1 && highOK {
					tail = true
				}
			}
			if call, ok := rhs.(*ast.CallExpr); ok && callIs(info, call, "strings", "", "TrimPrefix") && len(call.Args) == 2 && isNameId(call.Args[0]) {
				// under name[0]=='!' (checked by bang below) TrimPrefix(name, "!") is name[1:]
				if p, ok := constString(info, call.Args[1]); ok && p == "!" {
					tail = true
				}
			}
			key := "parseRedirection:" + fld
			switch fld {
			case "NamedPipeErr":
				switch {
				case bang != 1:
					c.Viol(R, key, as.Pos(), "NamedPipeErr is set on a path where name[0]=='!' is not established: a plain `<name>` redirects stderr")
				case !tail:
					c.Viol(R, key, as.Pos(), "NamedPipeErr = %s, expected the name without its leading '!' (name[1:]): `<!out>` would look up a pipe called %q", c.src(rhs), "!out")
				default:
					c.OK(R, key, as.Pos(), "`<!name>` -> NamedPipeErr = name[1:]")
				}
			case "NamedPipeOut":
				switch {
				case bang != -1:
					c.Viol(R, key, as.Pos(), "NamedPipeOut is set on a path where name[0]=='!' is not excluded: `<!name>` redirects stdout")
				case !whole:
					c.Viol(R, key, as.Pos(), "NamedPipeOut = %s, expected the whole name: `<err>`/`<null>` would look up the wrong pipe", c.src(rhs))
				default:
					c.OK(R, key, as.Pos(), "`<name>` -> NamedPipeOut = name")
				}
			}
			return true
		})
	}
	c.MinCount(R, "NamedPipeOut/NamedPipeErr stores in parseRedirection", n, 2)

	// null device
	ppk := c.Pkg("lang/pipes")
	if fd, _ := c.MustFunc(R, "lang/pipes", "", "NewNamed"); fd != nil && ppk != nil {
		pinfo := ppk.TypesInfo
		found := false
		ast.Inspect(fd.Body, func(x ast.Node) bool {
			as, ok := x.(*ast.AssignStmt)
			if !ok || len(as.Lhs) != 1 || len(as.Rhs) != 1 {
				return true
			}
			ix, ok := unparen(as.Lhs[0]).(*ast.IndexExpr)
			if !ok {
				return true
			}
			if k, ok := constString(pinfo, ix.Index); !ok || k != "null" {
				return true
			}
			found = true
			okT := false
			if cl, ok := unparen(as.Rhs[0]).(*ast.CompositeLit); ok {
				for _, el := range cl.Elts {
					if kv, ok := el.(*ast.KeyValueExpr); ok {
						if id, ok := kv.Key.(*ast.Ident); ok && id.Name == "Pipe" {
							okT = namedPath(pinfo.TypeOf(kv.Value)) == mx("builtins/pipes/null")+".Null"
						}
					}
				}
			}
			c.Check(okT, R, "null:registered", as.Pos(), "the named pipe \"null\" is the discarding null.Null device (otherwise `<null>`/`<!null>` deliver or buffer the bytes somewhere)")
			return true
		})
		if !found {
			c.Viol(R, "null:registered", fd.Pos(), "pipes.NewNamed no longer registers a pipe under the constant name \"null\": `<null>` fails with 'no pipe with the name'")
		}
	}
	npk := c.Pkg("builtins/pipes/null")
	for _, m := range []string{"Write", "Writeln"} {
		fd, _ := c.MustFunc(R, "builtins/pipes/null", "Null", m)
		if fd == nil || npk == nil {
			continue
		}
		ninfo := npk.TypesInfo
		ok := len(fd.Body.List) == 1
		if ok {
			rs, isRet := fd.Body.List[0].(*ast.ReturnStmt)
			ok = isRet && len(rs.Results) == 2
			if ok {
				lc, isLen := isBuiltinCall(ninfo, rs.Results[0], "len")
				ok = isLen && len(lc.Args) == 1
				if ok {
					id, isId := unparen(lc.Args[0]).(*ast.Ident)
					ok = isId && len(fd.Type.Params.List) == 1 && len(fd.Type.Params.List[0].Names) == 1 &&
						ninfo.ObjectOf(id) == ninfo.ObjectOf(fd.Type.Params.List[0].Names[0])
				}
				if id, isId := unparen(rs.Results[1]).(*ast.Ident); !isId || id.Name != "nil" {
					ok = false
				}
			}
		}
		c.Check(ok, R, "null:"+m, fd.Pos(), "(*Null).%s discards: its whole body is `return len(b), nil` (anything else forwards, fails or short-writes the redirected bytes)", m)
	}
	for _, m := range []string{"Close", "Delete"} {
		fd, _ := c.MustFunc(R, "lang/pipes", "Named", m)
		if fd == nil || ppk == nil {
			continue
		}
		pinfo := ppk.TypesInfo
		ok := false
		ast.Inspect(fd.Body, func(x ast.Node) bool {
			is, isIf := x.(*ast.IfStmt)
			if !isIf {
				return true
			}
			b, isB := unparen(is.Cond).(*ast.BinaryExpr)
			if !isB || b.Op != token.EQL {
				return true
			}
			v, isC := constString(pinfo, b.Y)
			if !isC {
				v, isC = constString(pinfo, b.X)
			}
			if isC && v == "null" && terminates(pinfo, is.Body.List) {
				ok = true
			}
			return true
		})
		c.Check(ok, R, "null:"+m+"-refused", fd.Pos(), "(*Named).%s returns early for \"null\" (removing the null device breaks every later `<null>`)", m)
	}
}

// ===================================================================== R33d

func (c *Ctx) c33OpenOrder() {
	const R = "R33d"
	c.Rule(R, "createProcess registers the process as a writer (Open) on p.Stdout and on p.Stderr exactly once each, after the last statement that may rewire those streams (redirect switches, test tee, ttys): otherwise the writer count of the stream finally written to is short and its reader sees EOF before the redirected bytes")
	pk := c.Pkg("lang")
	fd, _ := c.MustFunc(R, "lang", "", "createProcess")
	if fd == nil || pk == nil {
		return
	}
	info := pk.TypesInfo
	last := -1
	for _, s := range c33Stores(info, fd.Body) {
		if s.field == "Stdin" {
			continue
		}
		if i := topLevelIndex(fd.Body.List, s.as); i > last {
			last = i
		}
	}
	for _, call := range calls(fd.Body, false) {
		if o := callee(info, call); o != nil && o.Pkg() == pk.Types && o.Name() == "ttys" {
			if i := topLevelIndex(fd.Body.List, call); i > last {
				last = i
			}
		}
	}
	for _, f := range []string{"Stdout", "Stderr"} {
		cnt, at := 0, -1
		var pos token.Pos
		for _, call := range calls(fd.Body, false) {
			se, ok := call.Fun.(*ast.SelectorExpr)
			if !ok || se.Sel.Name != "Open" {
				continue
			}
			if _, ch := c33Chain(info, se.X); len(ch) == 1 && ch[0] == f {
				cnt++
				at = topLevelIndex(fd.Body.List, call)
				pos = call.Pos()
			}
		}
		key := "createProcess:Open:" + f
		switch {
		case cnt != 1:
			c.Viol(R, key, fd.Pos(), "createProcess calls p.%s.Open() %d times, expected once: the stream's writer count no longer matches the single Close in destroyProcess", f, cnt)
		case at <= last:
			c.Viol(R, key, pos, "p.%s.Open() runs before a later statement rewires the stream: the stream actually written to is never opened by this process, so its reader can see EOF before the redirected bytes arrive", f)
		case !c33TopLevelUnconditional(fd.Body.List, at, pos):
			c.Viol(R, key, pos, "p.%s.Open() is conditional", f)
		default:
			c.OK(R, key, pos, "Open after the last rewiring")
		}
	}
}

func c33TopLevelUnconditional(list []ast.Stmt, idx int, pos token.Pos) bool {
	if idx < 0 || idx >= len(list) {
		return false
	}
	es, ok := list[idx].(*ast.ExprStmt)
	return ok && es.Pos() <= pos && pos <= es.End()
}

// ===================================================================== R33e

func (c *Ctx) c33Exec() {
	const R = "R33e"
	c.Rule(R, "execFork hands an external command the process's streams unswapped: every store to exec.Cmd.Stdout is p.Stdout or p.Stdout.File(), every store to exec.Cmd.Stderr is p.Stderr or p.Stderr.File() (the redirect wiring decided by R33b is what the child's fd 1 / fd 2 receive)")
	pk := c.Pkg("lang")
	fd, _ := c.MustFunc(R, "lang", "", "execFork")
	if fd == nil || pk == nil {
		return
	}
	info := pk.TypesInfo
	n := 0
	ord := map[string]int{}
	execDefs := localDefs(info, fd.Body)
	ast.Inspect(fd.Body, func(x ast.Node) bool {
		as, ok := x.(*ast.AssignStmt)
		if !ok || len(as.Lhs) != len(as.Rhs) {
			return true
		}
		for i, l := range as.Lhs {
			v, owner := fieldOf(info, l)
			if v == nil || owner != "os/exec.Cmd" || (v.Name() != "Stdout" && v.Name() != "Stderr") {
				continue
			}
			n++
			f := v.Name()
			ord[f]++
			key := "execFork:cmd." + f
			if ord[f] > 1 {
				key += "#" + string(rune('0'+ord[f]))
			}
			rhs := execDefs.resolve1(info, as.Rhs[i])
			if call, ok := rhs.(*ast.CallExpr); ok && len(call.Args) == 0 {
				if se, ok := call.Fun.(*ast.SelectorExpr); ok && se.Sel.Name == "File" {
					rhs = unparen(se.X)
				}
			}
			_, ch := c33Chain(info, rhs)
			if len(ch) == 1 && ch[0] == f {
				c.OK(R, key, as.Pos(), "cmd.%s <- p.%s", f, f)
			} else if len(ch) == 1 && (ch[0] == "Stdout" || ch[0] == "Stderr") {
				c.Viol(R, key, as.Pos(), "execFork gives the child's %s the process's %s (%s): an external command's %s is delivered to the other stream regardless of the redirections written", strings.ToLower(f), strings.ToLower(ch[0]), c.src(as), strings.ToLower(f))
			} else {
				c.Undecided(R, key, as.Pos(), "execFork sets cmd.%s to %s, which is neither p.%s nor p.%s.File()", f, c.src(as.Rhs[i]), f, f)
			}
		}
		return true
	})
	c.MinCount(R, "stores to exec.Cmd.Stdout/Stderr in execFork", n, 4)
}
