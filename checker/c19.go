package main

import (
	"go/ast"
	"go/constant"
	"go/token"
	"go/types"
	"sort"
	"strings"

	"golang.org/x/tools/go/ssa"
)

func init() {
	register("C19", "Decides a conjunction of crash-shape rules over the whole module (default build): (a) the run-mode dispatch is exhaustive; (b) for every function that returns a nil pointer with every error (summaries derived by fix-point), each call site dereferences the pointer only under err==nil / ptr!=nil; (c) every call through a map element that may be absent (func values, interface methods, func/interface fields of struct elements) is guarded by a nil/comma-ok check of the same key, ranges over the same map, or uses a constant key that is registered somewhere in the module; (d) every slice index derived from a number the user typed is proven in range (C16's domain); (e) whether an offending function runs on a goroutine without recover (then the panic kills the shell rather than being reported). Does NOT decide hangs in general, panics from value-dependent type assertions, or arithmetic on runtime values.", runC19)
}

// reviewed exceptions for R19c: one symbol each, with the reason
var c19MapMissExempt = map[string]string{
	"lang.createProcess:GoFunctions[name[:4]]": "dominating guard restricts name to \"pipe\" or \"test\" (both 4 letters, both builtins registered by DefineFunction)",
}

// reviewed exceptions for R19f (functions that intentionally return holding a lock), one symbol each
var c19LockBalanceExempt = map[string]string{}

func runC19(c *Ctx) {
	c.Load("./...")
	pkgs := c.MurexPkgs()
	c.SSA()
	for _, pk := range pkgs {
		if sp := c.ssaPkgs[pk.PkgPath]; sp != nil {
			sp.Build()
		}
	}

	c.Rule("R19a", "the `switch fork.RunMode` in Fork.Execute has a case for every runmode.RunMode constant (panic(\"unknown run mode\") is dead)")
	c.checkRunModeSwitch(c.Pkg("lang"), "R19a")

	// goroutine entry points without recover (for severity)
	noRecoverGo := c.c19GoTargetsWithoutRecover(pkgs)

	c.Rule("R19b", "NilOnErr (whole module): for every function whose pointer result is nil on every error return (summaries derived, wrappers by fix-point), each call site dereferences that result only where an `err == nil` or `ptr != nil` edge dominates the dereference")
	sums := c.c24Summarise(pkgs)
	nSites, nFns := 0, 0
	keys := c21KeySet{}
	type row struct {
		key, detail, status string
		pos                 token.Pos
		caller              *ssa.Function
	}
	var rows []row
	for fn, s := range sums {
		for _, i := range s.ptrIdx {
			if s.nilOnErr[i] {
				nFns++
				_ = fn
				break
			}
		}
	}
	for _, pk := range pkgs {
		for _, caller := range c.c21Funcs(pk) {
			for _, b := range caller.Blocks {
				for _, in := range b.Instrs {
					call, ok := in.(*ssa.Call)
					if !ok {
						continue
					}
					g := call.Common().StaticCallee()
					if g == nil || sums[g] == nil {
						continue
					}
					for _, i := range sums[g].ptrIdx {
						if !sums[g].nilOnErr[i] {
							continue
						}
						nSites++
						st, det, pos := c24CheckSite(c24Site{caller, call, g, i})
						rows = append(rows, row{"nilonerr:" + c21FuncName(caller) + "→" + c24ShortName(g), det, st, pos, caller})
					}
				}
			}
		}
	}
	sort.Slice(rows, func(i, j int) bool { return rows[i].key+c.pos(rows[i].pos) < rows[j].key+c.pos(rows[j].pos) })
	nEsc := 0
	for _, r := range rows {
		key := keys.uniq(r.key)
		switch r.status {
		case "ok":
			c.OK("R19b", key, r.pos, "%s", r.detail)
		case "viol":
			sev := ""
			if noRecoverGo[r.caller] {
				sev = " — the caller runs on a goroutine without recover: the panic kills the shell process"
			}
			c.Viol("R19b", key, r.pos, "nil-on-error result dereferenced where the error may be non-nil: %s%s", r.detail, sev)
		default:
			nEsc++
			c.OK("R19b", key, r.pos, "pointer escapes into a φ / field / interface before use (not followed; no dereference seen on an error path): %s", r.detail)
		}
	}
	c.Info("R19b: %d nil-on-error functions, %d call sites, %d with escaping pointers (not followed)", nFns, nSites, nEsc)
	c.MinCount("R19b", "call sites of nil-on-error functions", nSites, 80)

	c.Rule("R19c", "map-miss dereference (whole module): a call m[k](…), m[k].M(…) on an interface element, or m[k].F(…)/m[k].F.M(…) on a func/interface field of a struct element is made only when (i) a `!= nil` / comma-ok test of the same element dominates it, or (ii) k ranges over the same map, or (iii) k is a constant that some statement of the module registers in that map; otherwise an absent key is a nil call → panic")
	c.c19MapMiss(pkgs, noRecoverGo)

	c.Rule("R19d", "every slice index / bound derived from a user-typed number is proven within range on every path (E5; same scope as C16)")
	n := c.checkIndexBounds("R19d", c16Pkgs, []string{"isValidElementIndex"})
	c.MinCount("R19d", "user-derived index sites", n, 8)

	c.Rule("R19f", "no hang by a leaked lock (whole module): every function releases each sync mutex it locked on every path to an exit, or defers the unlock")
	var allRel []string
	for _, pk := range pkgs {
		allRel = append(allRel, relPkg(pk.PkgPath))
	}
	nbal := c.runLockBalance("R19f", allRel, c19LockBalanceExempt)
	c.MinCount("R19f", "functions that take a lock", nbal, 150)

	c.Rule("R19e", "panics are reported, not fatal, on the interpreter's own goroutines: executeProcess and Fork.Execute start with `defer crash.Handler()`; crash.Handler recovers")
	for _, f := range [][3]string{{"lang", "", "executeProcess"}, {"lang", "Fork", "Execute"}} {
		fd, pk := c.MustFunc("R19e", f[0], f[1], f[2])
		if fd == nil {
			continue
		}
		ok := false
		if len(fd.Body.List) > 0 {
			if d, isD := fd.Body.List[0].(*ast.DeferStmt); isD && callIs(pk.TypesInfo, d.Call, mx("utils/crash"), "", "Handler") {
				ok = true
			}
		}
		c.Check(ok, "R19e", f[2]+":defer-crash-handler", fd.Pos(), "%s's first statement is `defer crash.Handler()` (a panicking builtin is reported as a crash message instead of killing the shell)", f[2])
	}
	if fd, pk := c.MustFunc("R19e", "utils/crash", "", "Handler"); fd != nil {
		rec := false
		for _, call := range calls(fd.Body, false) {
			if _, ok := isBuiltinCall(pk.TypesInfo, call, "recover"); ok {
				rec = true
			}
		}
		c.Check(rec, "R19e", "crash.Handler:recovers", fd.Pos(), "crash.Handler calls recover() itself (it is the deferred function)")
	}
}

// c19GoTargetsWithoutRecover: SSA functions started by a `go` statement whose
// body has no deferred function that calls recover (directly or crash.Handler).
func (c *Ctx) c19GoTargetsWithoutRecover(pkgs interface{}) map[*ssa.Function]bool {
	out := map[*ssa.Function]bool{}
	recovers := func(fn *ssa.Function) bool {
		for _, b := range fn.Blocks {
			for _, in := range b.Instrs {
				d, ok := in.(*ssa.Defer)
				if !ok {
					continue
				}
				if sc := d.Call.StaticCallee(); sc != nil {
					if sc.Name() == "Handler" && sc.Pkg != nil && strings.HasSuffix(sc.Pkg.Pkg.Path(), "utils/crash") {
						return true
					}
					for _, bb := range sc.Blocks {
						for _, ii := range bb.Instrs {
							if call, ok := ii.(*ssa.Call); ok {
								if bi, ok := call.Call.Value.(*ssa.Builtin); ok && bi.Name() == "recover" {
									return true
								}
							}
						}
					}
				}
			}
		}
		return false
	}
	for _, pk := range c.MurexPkgs() {
		for _, fn := range c.c21Funcs(pk) {
			for _, b := range fn.Blocks {
				for _, in := range b.Instrs {
					g, ok := in.(*ssa.Go)
					if !ok {
						continue
					}
					var target *ssa.Function
					if sc := g.Call.StaticCallee(); sc != nil {
						target = sc
					} else if mc, ok := g.Call.Value.(*ssa.MakeClosure); ok {
						target, _ = mc.Fn.(*ssa.Function)
					}
					if target != nil && target.Blocks != nil && !recovers(target) {
						out[target] = true
					}
				}
			}
		}
	}
	return out
}

func (c *Ctx) c19MapMiss(pkgs interface{}, noRecoverGo map[*ssa.Function]bool) {
	// registrations: map object -> set of constant keys stored anywhere
	type mapKey struct {
		m types.Object
		k string
	}
	registered := map[mapKey]bool{}
	registrars := map[types.Object]map[int]types.Object{} // func -> param index -> map object it stores into with that param as key
	mapObjOf := func(info *types.Info, e ast.Expr) types.Object {
		switch x := unparen(e).(type) {
		case *ast.Ident:
			return info.ObjectOf(x)
		case *ast.SelectorExpr:
			return info.ObjectOf(x.Sel)
		}
		return nil
	}
	for _, pk := range c.MurexPkgs() {
		info := pk.TypesInfo
		for _, file := range pk.Syntax {
			ast.Inspect(file, func(nd ast.Node) bool {
				switch x := nd.(type) {
				case *ast.AssignStmt:
					for _, l := range x.Lhs {
						if ix, ok := unparen(l).(*ast.IndexExpr); ok {
							if _, isMap := info.TypeOf(ix.X).Underlying().(*types.Map); isMap {
								if mo := mapObjOf(info, ix.X); mo != nil {
									if v := constOf(info, ix.Index); v != nil {
										registered[mapKey{mo, v.ExactString()}] = true
									}
								}
							}
						}
					}
				case *ast.CompositeLit:
					// package-level map literals: var m = map[K]V{ "k": … }
				}
				return true
			})
			// map literals assigned to package vars
			for _, d := range file.Decls {
				gd, ok := d.(*ast.GenDecl)
				if !ok {
					continue
				}
				for _, sp := range gd.Specs {
					vs, ok := sp.(*ast.ValueSpec)
					if !ok {
						continue
					}
					for i, nm := range vs.Names {
						if i >= len(vs.Values) {
							continue
						}
						if cl, ok := unparen(vs.Values[i]).(*ast.CompositeLit); ok {
							if _, isMap := info.TypeOf(cl).Underlying().(*types.Map); isMap {
								for _, el := range cl.Elts {
									if kv, ok := el.(*ast.KeyValueExpr); ok {
										if v := constOf(info, kv.Key); v != nil {
											registered[mapKey{info.Defs[nm], v.ExactString()}] = true
										}
									}
								}
							}
						}
					}
				}
			}
		}
		eachFunc(pk, func(fd *ast.FuncDecl) {
			fobj := info.Defs[fd.Name]
			if fobj == nil || fd.Type.Params == nil {
				return
			}
			pidx := map[types.Object]int{}
			k := 0
			for _, f := range fd.Type.Params.List {
				for _, nm := range f.Names {
					pidx[info.Defs[nm]] = k
					k++
				}
				if len(f.Names) == 0 {
					k++
				}
			}
			ast.Inspect(fd.Body, func(nd ast.Node) bool {
				as, ok := nd.(*ast.AssignStmt)
				if !ok {
					return true
				}
				for _, l := range as.Lhs {
					ix, ok := unparen(l).(*ast.IndexExpr)
					if !ok {
						continue
					}
					if _, isMap := info.TypeOf(ix.X).Underlying().(*types.Map); !isMap {
						continue
					}
					if id, ok := unparen(ix.Index).(*ast.Ident); ok {
						if pi, ok := pidx[info.ObjectOf(id)]; ok {
							if mo := mapObjOf(info, ix.X); mo != nil {
								if registrars[fobj] == nil {
									registrars[fobj] = map[int]types.Object{}
								}
								registrars[fobj][pi] = mo
							}
						}
					}
				}
				return true
			})
		})
	}
	// calls of registrars with constant keys
	for _, pk := range c.MurexPkgs() {
		info := pk.TypesInfo
		for _, file := range pk.Syntax {
			ast.Inspect(file, func(nd ast.Node) bool {
				call, ok := nd.(*ast.CallExpr)
				if !ok {
					return true
				}
				o := callee(info, call)
				if o == nil || registrars[o] == nil {
					return true
				}
				for pi, mo := range registrars[o] {
					if pi < len(call.Args) {
						if v := constOf(info, call.Args[pi]); v != nil {
							registered[mapKey{mo, v.ExactString()}] = true
						}
					}
				}
				return true
			})
		}
	}

	n := 0
	counts := map[string]int{}
	for _, pk := range c.MurexPkgs() {
		info := pk.TypesInfo
		rel := relPkg(pk.PkgPath)
		eachFunc(pk, func(fd *ast.FuncDecl) {
			walkStack(fd.Body, func(nd ast.Node, stack []ast.Node) bool {
				call, ok := nd.(*ast.CallExpr)
				if !ok {
					return true
				}
				kind, ix := mapMissCall(info, call)
				if kind == "" {
					return true
				}
				n++
				fk := funcKey(rel, fd)
				base := fk + ":" + c.src(ix)
				counts[base]++
				key := base
				if counts[base] > 1 {
					key += "#" + itoa(counts[base])
				}
				mo := mapObjOf(info, ix.X)
				switch {
				case guardedMapEntry(c, info, ix, stack):
					c.OK("R19c", key, call.Pos(), "%s call guarded by a non-nil test of the same element", kind)
				case c19CommaOk(c, info, fd, ix, stack):
					c.OK("R19c", key, call.Pos(), "%s call guarded by a comma-ok lookup of the same key", kind)
				case c19RangeKey(info, ix, stack):
					c.OK("R19c", key, call.Pos(), "%s call with a key that ranges over the same map (present by construction)", kind)
				case constOf(info, ix.Index) != nil && mo != nil && registered[mapKey{mo, constOf(info, ix.Index).ExactString()}]:
					c.OK("R19c", key, call.Pos(), "%s call with constant key %s which the module registers in this map", kind, constOf(info, ix.Index).ExactString())
				case c19MapMissExempt[key] != "":
					c.OK("R19c", key, call.Pos(), "reviewed exception: %s", c19MapMissExempt[key])
				default:
					why := "no dominating nil / comma-ok test of this element"
					if v := constOf(info, ix.Index); v != nil {
						why = "constant key " + v.ExactString() + " is not registered in this map anywhere in the module"
					}
					c.Viol("R19c", key, call.Pos(), "%s call through a map element that may be absent (%s): a missing key is a nil call → runtime panic", kind, why)
				}
				return true
			})
		})
	}
	c.MinCount("R19c", "calls through map elements", n, 12)
	_ = constant.MakeBool
}

// c19CommaOk: an enclosing/earlier `v, ok := m[k]` … `if ok` / `if !ok {return}`
// for the same map and key expression.
func c19CommaOk(c *Ctx, info *types.Info, fd *ast.FuncDecl, ix *ast.IndexExpr, stack []ast.Node) bool {
	want := c.src(ix)
	okVars := map[types.Object]bool{}
	ast.Inspect(fd.Body, func(nd ast.Node) bool {
		as, ok := nd.(*ast.AssignStmt)
		if !ok || len(as.Lhs) != 2 || len(as.Rhs) != 1 {
			return true
		}
		if rx, ok := unparen(as.Rhs[0]).(*ast.IndexExpr); ok && c.src(rx) == want {
			if id, ok := as.Lhs[1].(*ast.Ident); ok {
				okVars[info.ObjectOf(id)] = true
			}
		}
		return true
	})
	if len(okVars) == 0 {
		return false
	}
	for _, f := range factsOf(guardsAt(info, stack)) {
		if id, ok := unparen(f.E).(*ast.Ident); ok && f.True && okVars[info.ObjectOf(id)] {
			return true
		}
	}
	return false
}

// c19RangeKey: the index is the key variable of an enclosing `for k := range m`
// over the same map.
func c19RangeKey(info *types.Info, ix *ast.IndexExpr, stack []ast.Node) bool {
	id, ok := unparen(ix.Index).(*ast.Ident)
	if !ok {
		return false
	}
	for _, n := range stack {
		rs, ok := n.(*ast.RangeStmt)
		if !ok || rs.Key == nil {
			continue
		}
		k, ok := rs.Key.(*ast.Ident)
		if !ok || info.ObjectOf(k) != info.ObjectOf(id) {
			continue
		}
		if types.ExprString(unparen(rs.X)) == types.ExprString(unparen(ix.X)) {
			return true
		}
	}
	return false
}
