package main

// c17 fragment evaluator (shared by C17 and C18).
//
// Purpose: tabulate LOOP-FREE fragments of the type-checked source on a small finite model, in the
// spirit of match.go's truthTable / samePredOnRange and of c38eval.go, so that integer predicates,
// bound adjustments and per-iteration element expressions are compared semantically with the
// documented model instead of textually (`rf.i > rf.start` vs `rf.i >= rf.start+1`, an `end++`
// compensation moved from one helper to another, if <-> switch, renamed locals ...).
//
// What it is NOT: it does not run murex. Nothing is compiled or executed, no I/O happens. The
// fragment is a go/ast tree walked over go/types facts. `for`, `range` (with one exception, see
// below), `goto`, labelled branches, `go`, `defer`, `select`, channel operations, maps and
// goroutines are outside the subset: a fragment that contains them on the evaluated path is "not
// evaluable" and the rule using it reports UNDECIDED. Every iteration that the rules need (over the
// elements of a list, over the positions of a generated slice) is performed by the *rule's own
// driver* under a stated contract of the surrounding API (e.g. "ReadArray invokes its callback once
// per element, in input order"), and the contract itself is a separate shape obligation.
//
// The one loop form understood is the closed-form fill
//
//	a := make([]T, L) ; for i := range a { a[i] = E }        (E does not read a)
//
// whose meaning needs no interpretation of mutable state: a = [E(0) ... E(L-1)].
//
// Understood: integer/boolean/string expressions, comparisons with nil, struct objects reached
// through pointers (field loads and stores, `new(T)`, `&T{...}`), interface values holding such
// pointers (method calls are dispatched through go/types' method sets to the FuncDecl and inlined),
// package-local functions (inlined), closures, if/switch/return, multi-value assignment, and the
// contract summaries supplied by the rule's hook (strconv.Atoi, fmt.Sprintf, ArrayWriter.Write ...).

import (
	"fmt"
	"go/ast"
	"go/constant"
	"go/token"
	"go/types"

	"golang.org/x/tools/go/packages"
)

type c17Kind int

const (
	c17Bad c17Kind = iota
	c17Int
	c17Bool
	c17Str
	c17Nil
	c17Err    // a non-nil error value
	c17Obj    // pointer to a struct object
	c17Opaque // something the fragment only passes around
	c17Tuple
	c17Closure
	c17Item  // one element of the modelled input list ([]byte)
	c17Slice // slice of values
)

type c17Object struct {
	typ    *types.Named
	fields map[string]*c17V
}

type c17V struct {
	k    c17Kind
	i    int64
	b    bool
	s    string
	obj  *c17Object
	tup  []c17V
	tag  string
	fn   *ast.FuncLit
	env  *c17Env
	list *[]c17V
}

func c17IntV(i int64) c17V    { return c17V{k: c17Int, i: i} }
func c17BoolV(b bool) c17V    { return c17V{k: c17Bool, b: b} }
func c17StrV(s string) c17V   { return c17V{k: c17Str, s: s} }
func c17NilV() c17V           { return c17V{k: c17Nil} }
func c17ErrV(tag string) c17V { return c17V{k: c17Err, tag: tag} }
func c17OpaqueV(t string) c17V {
	return c17V{k: c17Opaque, tag: t}
}
func c17TupleV(v ...c17V) c17V { return c17V{k: c17Tuple, tup: v} }
func c17ItemV(idx int, content string) c17V {
	return c17V{k: c17Item, i: int64(idx), s: content}
}
func c17SliceV(vs []c17V) c17V {
	l := append([]c17V(nil), vs...)
	return c17V{k: c17Slice, list: &l}
}

func (v c17V) String() string {
	switch v.k {
	case c17Int:
		return fmt.Sprint(v.i)
	case c17Bool:
		return fmt.Sprint(v.b)
	case c17Str:
		return fmt.Sprintf("%q", v.s)
	case c17Nil:
		return "nil"
	case c17Err:
		return "error(" + v.tag + ")"
	case c17Obj:
		return "&" + v.obj.typ.Obj().Name()
	case c17Item:
		return fmt.Sprintf("item#%d", v.i)
	case c17Slice:
		return fmt.Sprint(*v.list)
	case c17Opaque:
		return "<" + v.tag + ">"
	}
	return "?"
}

type c17Env struct {
	vars map[types.Object]*c17V
	up   *c17Env
}

func c17NewEnv(up *c17Env) *c17Env { return &c17Env{vars: map[types.Object]*c17V{}, up: up} }
func (e *c17Env) lookup(o types.Object) *c17V {
	for x := e; x != nil; x = x.up {
		if v, ok := x.vars[o]; ok {
			return v
		}
	}
	return nil
}
func (e *c17Env) define(o types.Object, v c17V) { vv := v; e.vars[o] = &vv }

type c17Fail struct{ msg string }
type c17Panic struct{ msg string }

type c17Hook func(ev *c17Eval, call *ast.CallExpr, env *c17Env) (c17V, bool)

type c17Eval struct {
	c     *Ctx
	pk    *packages.Package
	info  *types.Info
	hook  c17Hook
	sel   func(ev *c17Eval, se *ast.SelectorExpr, base c17V) (c17V, bool)
	steps int
	depth int
	funcs map[types.Object]*ast.FuncDecl
	ret   c17V
}

func (c *Ctx) c17NewEval(pk *packages.Package, hook c17Hook) *c17Eval {
	ev := &c17Eval{c: c, pk: pk, info: pk.TypesInfo, hook: hook, funcs: map[types.Object]*ast.FuncDecl{}}
	eachFunc(pk, func(fd *ast.FuncDecl) {
		if o := pk.TypesInfo.Defs[fd.Name]; o != nil {
			ev.funcs[o] = fd
		}
	})
	return ev
}

func (ev *c17Eval) fail(n ast.Node, f string, a ...any) {
	panic(c17Fail{fmt.Sprintf("%s: %s [%s]", ev.c.pos(n.Pos()), fmt.Sprintf(f, a...), ev.c.src(n))})
}
func (ev *c17Eval) rtpanic(n ast.Node, f string, a ...any) {
	panic(c17Panic{fmt.Sprintf("%s: %s [%s]", ev.c.pos(n.Pos()), fmt.Sprintf(f, a...), ev.c.src(n))})
}
func (ev *c17Eval) tick(n ast.Node) {
	ev.steps++
	if ev.steps > 200000 {
		panic(c17Fail{fmt.Sprintf("%s: more than 200000 evaluation steps", ev.c.pos(n.Pos()))})
	}
}

// run evaluates f and converts the internal panics into (failMsg, panicMsg).
func (ev *c17Eval) run(f func()) (failMsg, panicMsg string) {
	defer func() {
		if r := recover(); r != nil {
			switch x := r.(type) {
			case c17Fail:
				failMsg = x.msg
			case c17Panic:
				panicMsg = x.msg
			default:
				panic(r)
			}
		}
	}()
	ev.steps = 0
	ev.depth = 0
	f()
	return
}

// ---------------------------------------------------------------- objects

func (ev *c17Eval) zero(t types.Type) c17V {
	switch u := t.Underlying().(type) {
	case *types.Basic:
		switch {
		case u.Info()&types.IsInteger != 0:
			return c17IntV(0)
		case u.Info()&types.IsBoolean != 0:
			return c17BoolV(false)
		case u.Info()&types.IsString != 0:
			return c17StrV("")
		}
	case *types.Slice:
		return c17V{k: c17Slice, list: &[]c17V{}}
	case *types.Interface, *types.Pointer, *types.Signature, *types.Map, *types.Chan:
		return c17NilV()
	}
	return c17OpaqueV("zero " + t.String())
}

func c17Named(t types.Type) *types.Named {
	for {
		switch x := t.(type) {
		case *types.Pointer:
			t = x.Elem()
			continue
		case *types.Alias:
			t = types.Unalias(x)
			continue
		case *types.Named:
			return x
		}
		return nil
	}
}

func (ev *c17Eval) newObject(n ast.Node, t types.Type) c17V {
	nm := c17Named(t)
	if nm == nil {
		ev.fail(n, "object of unnamed type %s is outside the evaluated subset", t)
	}
	st, ok := nm.Underlying().(*types.Struct)
	if !ok {
		ev.fail(n, "object of non-struct type %s is outside the evaluated subset", t)
	}
	o := &c17Object{typ: nm, fields: map[string]*c17V{}}
	for i := 0; i < st.NumFields(); i++ {
		z := ev.zero(st.Field(i).Type())
		o.fields[st.Field(i).Name()] = &z
	}
	return c17V{k: c17Obj, obj: o}
}

func (v c17V) field(name string) c17V {
	if v.k == c17Obj {
		if p := v.obj.fields[name]; p != nil {
			return *p
		}
	}
	return c17V{}
}

// ---------------------------------------------------------------- expressions

func (ev *c17Eval) constVal(e ast.Expr) (c17V, bool) {
	tv, ok := ev.info.Types[e]
	if !ok || tv.Value == nil {
		return c17V{}, false
	}
	switch tv.Value.Kind() {
	case constant.Int:
		if i, ok := constant.Int64Val(tv.Value); ok {
			return c17IntV(i), true
		}
	case constant.Bool:
		return c17BoolV(constant.BoolVal(tv.Value)), true
	case constant.String:
		return c17StrV(constant.StringVal(tv.Value)), true
	}
	return c17V{}, false
}

func (ev *c17Eval) eval(e ast.Expr, env *c17Env) c17V {
	ev.tick(e)
	if v, ok := ev.constVal(e); ok {
		return v
	}
	switch x := e.(type) {
	case *ast.ParenExpr:
		return ev.eval(x.X, env)
	case *ast.Ident:
		o := ev.info.ObjectOf(x)
		if _, ok := o.(*types.Nil); ok {
			return c17NilV()
		}
		if v := env.lookup(o); v != nil {
			return *v
		}
		if _, ok := o.(*types.Func); ok {
			return c17OpaqueV("func " + x.Name)
		}
		ev.fail(x, "free variable %s has no value in the evaluated fragment", x.Name)
	case *ast.UnaryExpr:
		if x.Op == token.AND {
			if cl, ok := unparen(x.X).(*ast.CompositeLit); ok {
				return ev.composite(cl, env)
			}
			ev.fail(x, "address-of is outside the evaluated subset")
		}
		v := ev.eval(x.X, env)
		switch {
		case x.Op == token.SUB && v.k == c17Int:
			return c17IntV(-v.i)
		case x.Op == token.ADD && v.k == c17Int:
			return v
		case x.Op == token.NOT && v.k == c17Bool:
			return c17BoolV(!v.b)
		}
		ev.fail(x, "unary %s on this operand is outside the evaluated subset", x.Op)
	case *ast.StarExpr:
		v := ev.eval(x.X, env)
		if v.k == c17Obj {
			return v
		}
		ev.fail(x, "dereference outside the evaluated subset")
	case *ast.BinaryExpr:
		if x.Op == token.LAND || x.Op == token.LOR {
			l := ev.eval(x.X, env)
			if l.k != c17Bool {
				ev.fail(x.X, "non-boolean operand")
			}
			if (x.Op == token.LAND && !l.b) || (x.Op == token.LOR && l.b) {
				return l
			}
			r := ev.eval(x.Y, env)
			if r.k != c17Bool {
				ev.fail(x.Y, "non-boolean operand")
			}
			return r
		}
		l, r := ev.eval(x.X, env), ev.eval(x.Y, env)
		return ev.binop(x, x.Op, l, r)
	case *ast.CallExpr:
		return ev.call(x, env)
	case *ast.CompositeLit:
		return ev.composite(x, env)
	case *ast.IndexExpr:
		s, i := ev.eval(x.X, env), ev.eval(x.Index, env)
		if i.k != c17Int {
			ev.fail(x, "non-integer index")
		}
		switch s.k {
		case c17Str:
			if i.i < 0 || int(i.i) >= len(s.s) {
				ev.rtpanic(x, "index %d out of range for string of length %d", i.i, len(s.s))
			}
			return c17IntV(int64(s.s[i.i]))
		case c17Slice:
			if i.i < 0 || int(i.i) >= len(*s.list) {
				ev.rtpanic(x, "index %d out of range for slice of length %d", i.i, len(*s.list))
			}
			return (*s.list)[i.i]
		}
		ev.fail(x, "index expression outside the evaluated subset")
	case *ast.SelectorExpr:
		// package-qualified object (non-constant): opaque
		if id, ok := x.X.(*ast.Ident); ok {
			if _, isPkg := ev.info.ObjectOf(id).(*types.PkgName); isPkg {
				return c17OpaqueV(ev.c.src(x))
			}
		}
		base := ev.eval(x.X, env)
		if sel := ev.info.Selections[x]; sel != nil && sel.Kind() == types.FieldVal {
			if base.k == c17Obj {
				if len(sel.Index()) != 1 {
					ev.fail(x, "promoted field access is outside the evaluated subset")
				}
				p := base.obj.fields[x.Sel.Name]
				if p == nil {
					ev.fail(x, "object has no field %s", x.Sel.Name)
				}
				return *p
			}
			if ev.sel != nil {
				if v, ok := ev.sel(ev, x, base); ok {
					return v
				}
			}
			if base.k == c17Opaque {
				return c17OpaqueV(base.tag + "." + x.Sel.Name)
			}
			if base.k == c17Nil {
				ev.rtpanic(x, "nil pointer dereference")
			}
		}
		if base.k == c17Opaque {
			return c17OpaqueV(base.tag + "." + x.Sel.Name)
		}
		ev.fail(x, "selector outside the evaluated subset")
	case *ast.FuncLit:
		return c17V{k: c17Closure, fn: x, env: env}
	}
	ev.fail(e, "expression form outside the evaluated subset")
	return c17V{}
}

func (ev *c17Eval) composite(cl *ast.CompositeLit, env *c17Env) c17V {
	t := ev.info.TypeOf(cl)
	if t == nil {
		ev.fail(cl, "untyped composite literal")
	}
	if _, ok := t.Underlying().(*types.Struct); ok {
		o := ev.newObject(cl, t)
		for _, el := range cl.Elts {
			kv, ok := el.(*ast.KeyValueExpr)
			if !ok {
				ev.fail(cl, "positional struct literal is outside the evaluated subset")
			}
			id, ok := kv.Key.(*ast.Ident)
			if !ok {
				ev.fail(cl, "struct literal key")
			}
			v := ev.eval(kv.Value, env)
			o.obj.fields[id.Name] = &v
		}
		return o
	}
	if _, ok := t.Underlying().(*types.Slice); ok {
		var vs []c17V
		for _, el := range cl.Elts {
			if _, ok := el.(*ast.KeyValueExpr); ok {
				ev.fail(cl, "keyed slice literal is outside the evaluated subset")
			}
			vs = append(vs, ev.eval(el, env))
		}
		return c17SliceV(vs)
	}
	ev.fail(cl, "composite literal of type %s is outside the evaluated subset", t)
	return c17V{}
}

func (ev *c17Eval) binop(x ast.Node, op token.Token, l, r c17V) c17V {
	if l.k == c17Int && r.k == c17Int {
		switch op {
		case token.ADD:
			return c17IntV(l.i + r.i)
		case token.SUB:
			return c17IntV(l.i - r.i)
		case token.MUL:
			return c17IntV(l.i * r.i)
		case token.QUO:
			if r.i == 0 {
				ev.rtpanic(x, "division by zero")
			}
			return c17IntV(l.i / r.i)
		case token.REM:
			if r.i == 0 {
				ev.rtpanic(x, "division by zero")
			}
			return c17IntV(l.i % r.i)
		case token.LSS:
			return c17BoolV(l.i < r.i)
		case token.LEQ:
			return c17BoolV(l.i <= r.i)
		case token.GTR:
			return c17BoolV(l.i > r.i)
		case token.GEQ:
			return c17BoolV(l.i >= r.i)
		case token.EQL:
			return c17BoolV(l.i == r.i)
		case token.NEQ:
			return c17BoolV(l.i != r.i)
		}
	}
	if l.k == c17Str && r.k == c17Str {
		switch op {
		case token.ADD:
			return c17StrV(l.s + r.s)
		case token.EQL:
			return c17BoolV(l.s == r.s)
		case token.NEQ:
			return c17BoolV(l.s != r.s)
		case token.LSS:
			return c17BoolV(l.s < r.s)
		case token.GTR:
			return c17BoolV(l.s > r.s)
		case token.LEQ:
			return c17BoolV(l.s <= r.s)
		case token.GEQ:
			return c17BoolV(l.s >= r.s)
		}
	}
	if l.k == c17Bool && r.k == c17Bool && (op == token.EQL || op == token.NEQ) {
		return c17BoolV((l.b == r.b) == (op == token.EQL))
	}
	if op == token.EQL || op == token.NEQ {
		isNil := func(v c17V) (bool, bool) { // (isNil, known)
			switch v.k {
			case c17Nil:
				return true, true
			case c17Err, c17Obj, c17Closure, c17Opaque:
				return false, true
			case c17Slice:
				return v.list == nil, true
			}
			return false, false
		}
		if l.k == c17Nil || r.k == c17Nil {
			a, ok1 := isNil(l)
			b, ok2 := isNil(r)
			if ok1 && ok2 {
				return c17BoolV((a == b) == (op == token.EQL))
			}
		}
	}
	ev.fail(x, "binary %s on operands %s, %s is outside the evaluated subset", op, l, r)
	return c17V{}
}

func (ev *c17Eval) call(x *ast.CallExpr, env *c17Env) c17V {
	// conversions
	if tv, ok := ev.info.Types[x.Fun]; ok && tv.IsType() && len(x.Args) == 1 {
		v := ev.eval(x.Args[0], env)
		to := tv.Type.Underlying()
		switch v.k {
		case c17Int, c17Bool:
			if b, ok := to.(*types.Basic); ok && b.Info()&types.IsString != 0 && v.k == c17Int {
				return c17StrV(string(rune(v.i)))
			}
			return v
		case c17Str:
			return v // string <-> []byte: the content is what matters here
		case c17Item:
			if b, ok := to.(*types.Basic); ok && b.Info()&types.IsString != 0 {
				return c17StrV(v.s)
			}
			return v
		case c17Slice:
			// string([]byte{...}) with integer cells
			if b, ok := to.(*types.Basic); ok && b.Info()&types.IsString != 0 {
				bs := []byte{}
				for _, c := range *v.list {
					if c.k != c17Int {
						ev.fail(x, "conversion of a non-byte slice")
					}
					bs = append(bs, byte(c.i))
				}
				return c17StrV(string(bs))
			}
			return v
		}
		ev.fail(x, "conversion of this operand is outside the evaluated subset")
	}
	// builtins
	if id, ok := unparen(x.Fun).(*ast.Ident); ok {
		if _, isB := ev.info.Uses[id].(*types.Builtin); isB {
			switch id.Name {
			case "len":
				v := ev.eval(x.Args[0], env)
				switch v.k {
				case c17Str:
					return c17IntV(int64(len(v.s)))
				case c17Item:
					return c17IntV(int64(len(v.s)))
				case c17Slice:
					if v.list == nil {
						return c17IntV(0)
					}
					return c17IntV(int64(len(*v.list)))
				}
				ev.fail(x, "len of this operand is outside the evaluated subset")
			case "new":
				return ev.newObject(x, ev.info.TypeOf(x.Args[0]))
			case "make":
				t := ev.info.TypeOf(x.Args[0])
				sl, ok := t.Underlying().(*types.Slice)
				if !ok || len(x.Args) < 2 {
					ev.fail(x, "make of a non-slice (or without a length) is outside the evaluated subset")
				}
				n := ev.eval(x.Args[1], env)
				if n.k != c17Int {
					ev.fail(x, "make with a non-integer length")
				}
				if n.i < 0 {
					ev.rtpanic(x, "make with negative length %d", n.i)
				}
				if n.i > 4096 {
					ev.fail(x, "make with length %d exceeds the small-scope bound", n.i)
				}
				vs := make([]c17V, n.i)
				for i := range vs {
					vs[i] = ev.zero(sl.Elem())
				}
				return c17V{k: c17Slice, list: &vs}
			case "append":
				s := ev.eval(x.Args[0], env)
				if s.k != c17Slice && s.k != c17Nil {
					ev.fail(x, "append to a non-slice")
				}
				var vs []c17V
				if s.k == c17Slice && s.list != nil {
					vs = append(vs, *s.list...)
				}
				if x.Ellipsis.IsValid() {
					if len(x.Args) != 2 {
						ev.fail(x, "append shape")
					}
					t := ev.eval(x.Args[1], env)
					if t.k != c17Slice {
						ev.fail(x, "append of a non-slice with ...")
					}
					if t.list != nil {
						vs = append(vs, *t.list...)
					}
				} else {
					for _, a := range x.Args[1:] {
						vs = append(vs, ev.eval(a, env))
					}
				}
				return c17V{k: c17Slice, list: &vs}
			case "min", "max":
				var best int64
				for i, a := range x.Args {
					v := ev.eval(a, env)
					if v.k != c17Int {
						ev.fail(x, "%s of a non-integer", id.Name)
					}
					if i == 0 || (id.Name == "min" && v.i < best) || (id.Name == "max" && v.i > best) {
						best = v.i
					}
				}
				return c17IntV(best)
			case "panic":
				ev.rtpanic(x, "explicit panic")
			}
			ev.fail(x, "builtin %s is outside the evaluated subset", id.Name)
		}
	}
	// contract summaries
	if ev.hook != nil {
		if v, ok := ev.hook(ev, x, env); ok {
			return v
		}
	}
	// method call on a model object (static or through an interface): dispatch through the method set
	if se, ok := unparen(x.Fun).(*ast.SelectorExpr); ok {
		if sel := ev.info.Selections[se]; sel != nil && sel.Kind() == types.MethodVal {
			recv := ev.eval(se.X, env)
			if recv.k == c17Nil {
				ev.rtpanic(x, "method call on a nil value")
			}
			if recv.k == c17Obj {
				ms := types.NewMethodSet(types.NewPointer(recv.obj.typ))
				m := ms.Lookup(sel.Obj().Pkg(), se.Sel.Name)
				if m == nil {
					ev.fail(x, "type %s has no method %s", recv.obj.typ, se.Sel.Name)
				}
				fd := ev.funcs[m.Obj()]
				if fd == nil || fd.Body == nil {
					ev.fail(x, "method %s.%s is declared outside the analysed package", recv.obj.typ, se.Sel.Name)
				}
				return ev.inline(x, fd, &recv, env)
			}
			ev.fail(x, "method call %s on a value without a model (%s) and without a contract summary", se.Sel.Name, recv)
		}
	}
	// package-local function
	if o := callee(ev.info, x); o != nil {
		if fd, ok := ev.funcs[o]; ok && fd.Body != nil && fd.Recv == nil {
			return ev.inline(x, fd, nil, env)
		}
	}
	// closure value
	if id, ok := unparen(x.Fun).(*ast.Ident); ok {
		if v := env.lookup(ev.info.ObjectOf(id)); v != nil && v.k == c17Closure {
			var args []c17V
			for _, a := range x.Args {
				args = append(args, ev.eval(a, env))
			}
			return ev.callClosure(*v, args)
		}
	}
	ev.fail(x, "call of %s has no contract summary and is not a function of the analysed package", calleeName(ev.info, x))
	return c17V{}
}

func (ev *c17Eval) inline(x *ast.CallExpr, fd *ast.FuncDecl, recv *c17V, env *c17Env) c17V {
	var args []c17V
	for _, a := range x.Args {
		args = append(args, ev.eval(a, env))
	}
	return ev.callDecl(x, fd, recv, args)
}

// callDecl evaluates the body of fd with the given receiver and arguments.
func (ev *c17Eval) callDecl(at ast.Node, fd *ast.FuncDecl, recv *c17V, args []c17V) c17V {
	ev.depth++
	defer func() { ev.depth-- }()
	if ev.depth > 8 {
		ev.fail(at, "inlining deeper than 8")
	}
	fenv := c17NewEnv(nil)
	if fd.Recv != nil && len(fd.Recv.List) == 1 && len(fd.Recv.List[0].Names) == 1 && recv != nil {
		fenv.define(ev.info.ObjectOf(fd.Recv.List[0].Names[0]), *recv)
	}
	i := 0
	for _, f := range fd.Type.Params.List {
		if len(f.Names) == 0 {
			i++
			continue
		}
		for _, n := range f.Names {
			if i >= len(args) {
				ev.fail(at, "argument count mismatch")
			}
			if n.Name != "_" {
				fenv.define(ev.info.ObjectOf(n), args[i])
			}
			i++
		}
	}
	var named []types.Object
	if fd.Type.Results != nil {
		for _, f := range fd.Type.Results.List {
			for _, n := range f.Names {
				o := ev.info.ObjectOf(n)
				fenv.define(o, ev.zero(o.Type()))
				named = append(named, o)
			}
		}
	}
	saved := ev.ret
	ev.ret = c17V{}
	ctl := ev.block(fd.Body.List, fenv)
	r := ev.ret
	ev.ret = saved
	if (ctl != c17CtlReturn || (r.k == c17Tuple && len(r.tup) == 0)) && len(named) > 0 {
		var t []c17V
		for _, o := range named {
			t = append(t, *fenv.lookup(o))
		}
		if len(t) == 1 {
			return t[0]
		}
		return c17TupleV(t...)
	}
	return r
}

func (ev *c17Eval) callClosure(cl c17V, args []c17V) c17V {
	ev.depth++
	defer func() { ev.depth-- }()
	if ev.depth > 8 {
		ev.fail(cl.fn, "closure nesting deeper than 8")
	}
	fenv := c17NewEnv(cl.env)
	i := 0
	for _, f := range cl.fn.Type.Params.List {
		if len(f.Names) == 0 {
			i++
			continue
		}
		for _, n := range f.Names {
			if i < len(args) && n.Name != "_" {
				fenv.define(ev.info.ObjectOf(n), args[i])
			}
			i++
		}
	}
	saved := ev.ret
	ev.ret = c17V{}
	ev.block(cl.fn.Body.List, fenv)
	r := ev.ret
	ev.ret = saved
	return r
}

// ---------------------------------------------------------------- statements

type c17Ctl int

const (
	c17CtlNext c17Ctl = iota
	c17CtlBreak
	c17CtlReturn
)

func (ev *c17Eval) block(list []ast.Stmt, env *c17Env) c17Ctl {
	for _, s := range list {
		if ctl := ev.exec(s, env); ctl != c17CtlNext {
			return ctl
		}
	}
	return c17CtlNext
}

func (ev *c17Eval) assign(lhs ast.Expr, v c17V, env *c17Env, define bool) {
	switch l := unparen(lhs).(type) {
	case *ast.Ident:
		if l.Name == "_" {
			return
		}
		o := ev.info.ObjectOf(l)
		if define && ev.info.Defs[l] != nil {
			env.define(o, v)
			return
		}
		if p := env.lookup(o); p != nil {
			*p = v
			return
		}
		ev.fail(lhs, "assignment to a variable that has no value in the evaluated fragment")
	case *ast.SelectorExpr:
		base := ev.eval(l.X, env)
		if base.k == c17Nil {
			ev.rtpanic(lhs, "nil pointer dereference in field store")
		}
		if base.k != c17Obj {
			ev.fail(lhs, "field store on a value without a model")
		}
		p := base.obj.fields[l.Sel.Name]
		if p == nil {
			ev.fail(lhs, "object has no field %s", l.Sel.Name)
		}
		*p = v
	case *ast.IndexExpr:
		s, i := ev.eval(l.X, env), ev.eval(l.Index, env)
		if s.k != c17Slice || i.k != c17Int {
			ev.fail(lhs, "element store outside the evaluated subset")
		}
		if i.i < 0 || int(i.i) >= len(*s.list) {
			ev.rtpanic(lhs, "index %d out of range [0,%d) in element store", i.i, len(*s.list))
		}
		(*s.list)[i.i] = v
	default:
		ev.fail(lhs, "assignment target outside the evaluated subset")
	}
}

func (ev *c17Eval) exec(s ast.Stmt, env *c17Env) c17Ctl {
	ev.tick(s)
	switch x := s.(type) {
	case *ast.EmptyStmt:
		return c17CtlNext
	case *ast.ExprStmt:
		ev.eval(x.X, env)
		return c17CtlNext
	case *ast.BlockStmt:
		return ev.block(x.List, c17NewEnv(env))
	case *ast.DeclStmt:
		gd, ok := x.Decl.(*ast.GenDecl)
		if ok && (gd.Tok == token.CONST || gd.Tok == token.TYPE) {
			// local constants are values of the type checker (constVal); a local type declares nothing to execute
			return c17CtlNext
		}
		if !ok || gd.Tok != token.VAR {
			ev.fail(s, "declaration outside the evaluated subset")
		}
		for _, sp := range gd.Specs {
			vs := sp.(*ast.ValueSpec)
			for i, n := range vs.Names {
				switch {
				case len(vs.Values) == len(vs.Names):
					env.define(ev.info.ObjectOf(n), ev.eval(vs.Values[i], env))
				case len(vs.Values) == 0:
					env.define(ev.info.ObjectOf(n), ev.zero(ev.info.ObjectOf(n).Type()))
				default:
					ev.fail(s, "multi-value var declaration")
				}
			}
		}
		return c17CtlNext
	case *ast.AssignStmt:
		define := x.Tok == token.DEFINE
		switch {
		case x.Tok == token.ASSIGN || x.Tok == token.DEFINE:
			if len(x.Lhs) == len(x.Rhs) {
				vals := make([]c17V, len(x.Rhs))
				for i, r := range x.Rhs {
					vals[i] = ev.eval(r, env)
					if vals[i].k == c17Tuple {
						ev.fail(r, "multi-value expression in single-value context")
					}
				}
				for i, l := range x.Lhs {
					ev.assign(l, vals[i], env, define)
				}
			} else if len(x.Rhs) == 1 {
				v := ev.eval(x.Rhs[0], env)
				if v.k != c17Tuple || len(v.tup) != len(x.Lhs) {
					ev.fail(s, "multi-value assignment from a call without a %d-value summary", len(x.Lhs))
				}
				for i, l := range x.Lhs {
					ev.assign(l, v.tup[i], env, define)
				}
			} else {
				ev.fail(s, "assignment shape")
			}
		default:
			ops := map[token.Token]token.Token{token.ADD_ASSIGN: token.ADD, token.SUB_ASSIGN: token.SUB, token.MUL_ASSIGN: token.MUL, token.QUO_ASSIGN: token.QUO, token.REM_ASSIGN: token.REM}
			op, ok := ops[x.Tok]
			if !ok || len(x.Lhs) != 1 || len(x.Rhs) != 1 {
				ev.fail(s, "compound assignment outside the evaluated subset")
			}
			l, r := ev.eval(x.Lhs[0], env), ev.eval(x.Rhs[0], env)
			ev.assign(x.Lhs[0], ev.binop(x, op, l, r), env, false)
		}
		return c17CtlNext
	case *ast.IncDecStmt:
		v := ev.eval(x.X, env)
		if v.k != c17Int {
			ev.fail(s, "++/-- on a non-integer")
		}
		d := int64(1)
		if x.Tok == token.DEC {
			d = -1
		}
		ev.assign(x.X, c17IntV(v.i+d), env, false)
		return c17CtlNext
	case *ast.IfStmt:
		ienv := c17NewEnv(env)
		if x.Init != nil {
			ev.exec(x.Init, ienv)
		}
		cv := ev.eval(x.Cond, ienv)
		if cv.k != c17Bool {
			ev.fail(x.Cond, "condition is not evaluable to a boolean")
		}
		if cv.b {
			return ev.block(x.Body.List, c17NewEnv(ienv))
		}
		if x.Else != nil {
			return ev.exec(x.Else, ienv)
		}
		return c17CtlNext
	case *ast.SwitchStmt:
		senv := c17NewEnv(env)
		if x.Init != nil {
			ev.exec(x.Init, senv)
		}
		var tag *c17V
		if x.Tag != nil {
			t := ev.eval(x.Tag, senv)
			tag = &t
		}
		var chosen, dflt *ast.CaseClause
	clauses:
		for _, cs := range x.Body.List {
			cc := cs.(*ast.CaseClause)
			if cc.List == nil {
				dflt = cc
				continue
			}
			for _, e := range cc.List {
				v := ev.eval(e, senv)
				hit := false
				if tag == nil {
					if v.k != c17Bool {
						ev.fail(e, "case condition is not evaluable to a boolean")
					}
					hit = v.b
				} else {
					r := ev.binop(e, token.EQL, *tag, v)
					hit = r.b
				}
				if hit {
					chosen = cc
					break clauses
				}
			}
		}
		if chosen == nil {
			chosen = dflt
		}
		if chosen == nil {
			return c17CtlNext
		}
		for _, st := range chosen.Body {
			if b, ok := st.(*ast.BranchStmt); ok && b.Tok == token.FALLTHROUGH {
				ev.fail(st, "fallthrough is outside the evaluated subset")
			}
		}
		ctl := ev.block(chosen.Body, c17NewEnv(senv))
		if ctl == c17CtlBreak {
			return c17CtlNext
		}
		return ctl
	case *ast.RangeStmt:
		return ev.fill(x, env)
	case *ast.BranchStmt:
		if x.Label == nil && x.Tok == token.BREAK {
			return c17CtlBreak
		}
		ev.fail(s, "branch statement outside the evaluated (loop-free) subset")
	case *ast.ReturnStmt:
		switch len(x.Results) {
		case 0:
			ev.ret = c17V{k: c17Tuple}
		case 1:
			ev.ret = ev.eval(x.Results[0], env)
		default:
			t := c17V{k: c17Tuple}
			for _, r := range x.Results {
				t.tup = append(t.tup, ev.eval(r, env))
			}
			ev.ret = t
		}
		return c17CtlReturn
	}
	ev.fail(s, "statement form outside the evaluated (loop-free) subset: %T", s)
	return c17CtlNext
}

// c17FillShape recognises the closed-form fill loop
//
//	for i := range a { a[i] = E }
//
// where a is a local slice variable, i the range key (no value variable), the body is exactly one
// plain assignment to a[i], and E does not mention a. Returns (a, i, E, "") or a reason.
func c17FillShape(info *types.Info, rs *ast.RangeStmt) (types.Object, types.Object, ast.Expr, string) {
	aid, ok := unparen(rs.X).(*ast.Ident)
	if !ok {
		return nil, nil, nil, "ranges over something that is not a local slice variable"
	}
	a := info.ObjectOf(aid)
	if _, ok := a.Type().Underlying().(*types.Slice); !ok {
		return nil, nil, nil, "ranges over a non-slice"
	}
	kid, ok := rs.Key.(*ast.Ident)
	if !ok || rs.Value != nil || rs.Tok != token.DEFINE {
		return nil, nil, nil, "range does not define exactly a key variable"
	}
	k := info.ObjectOf(kid)
	if len(rs.Body.List) != 1 {
		return nil, nil, nil, "loop body is not a single statement"
	}
	as, ok := rs.Body.List[0].(*ast.AssignStmt)
	if !ok || as.Tok != token.ASSIGN || len(as.Lhs) != 1 || len(as.Rhs) != 1 {
		return nil, nil, nil, "loop body is not a single plain assignment"
	}
	ix, ok := unparen(as.Lhs[0]).(*ast.IndexExpr)
	if !ok {
		return nil, nil, nil, "loop body does not store into an element"
	}
	xid, ok1 := unparen(ix.X).(*ast.Ident)
	iid, ok2 := unparen(ix.Index).(*ast.Ident)
	if !ok1 || !ok2 || info.ObjectOf(xid) != a || info.ObjectOf(iid) != k {
		return nil, nil, nil, "loop body does not store into <ranged slice>[<range key>]"
	}
	if mentions(info, as.Rhs[0], a) {
		return nil, nil, nil, "stored expression reads the slice being filled"
	}
	return a, k, as.Rhs[0], ""
}

// fill gives the closed-form meaning of a recognised fill loop; any other range statement is outside
// the subset.
func (ev *c17Eval) fill(rs *ast.RangeStmt, env *c17Env) c17Ctl {
	a, k, e, why := c17FillShape(ev.info, rs)
	if why != "" {
		ev.fail(rs, "loop is outside the evaluated subset (only the closed-form fill `for i := range a { a[i] = E }` is understood): %s", why)
	}
	av := env.lookup(a)
	if av == nil || av.k != c17Slice {
		ev.fail(rs, "filled slice has no value")
	}
	n := len(*av.list)
	for i := 0; i < n; i++ {
		renv := c17NewEnv(env)
		renv.define(k, c17IntV(int64(i)))
		(*av.list)[i] = ev.eval(e, renv)
	}
	return c17CtlNext
}
