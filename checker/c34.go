package main

// C34 — autocomplete never runs a line containing unsafe commands.
//
// parser.Parse folds every command name of the typed line through
// isCmdUnsafe into the sticky flag pt.Unsafe; shell/autocomplete executes
// Source[:LastFlowToken] only when !Unsafe. The rules below decide, on the
// per-path summaries of the tokenizer loop (c34parse.go), that no path lets a
// command name escape that fold.

import (
	"fmt"
	"go/ast"
	"go/token"
	"go/types"
	"sort"
	"strings"
)

const c34AutoPkg = "shell/autocomplete"

func init() {
	register("C34", "Decides (R34a) that every execution of ParsedTokens.Source in shell/autocomplete is control-dependent on ExecCmdline && !Unsafe of the same ParsedTokens and that nothing outside parser.Parse writes Unsafe; and, over every path through one iteration of parser.Parse's loop: (R34b) an arm that starts a new command (stores ExpectFunc=true or re-points pop at FuncName) sets Unsafe or folds the pending name through isCmdUnsafe and clears the name-pending flag first; (R34c) the name-pending flag is only cleared together with that fold (or Unsafe=true); (R34d) the pending name is never overwritten (FuncName = …, *pop = …) while a name may be pending unless folded; (R34e) arms that start a variable / sub-shell ($ @), a file or named-pipe redirection (|> >> <…> and the ? pipe) set Unsafe; (R34f) some unquoted '=' path accounts for assignments; (R34g) isCmdUnsafe answers false only for an exact member of safeCmds; (R34h) escaped/quoted runes appended to a command name keep the name pending; (R34i) arms that start a name set the pending flag; (R34j) LastFlowToken only moves where the pending name is settled, and R34a includes that the executed text is Source[:LastFlowToken]. Does NOT decide: that the commands on the safe list are themselves side-effect free (e.g. the `(` and `=` builtins evaluate expressions, which may contain name(args) sub-shell calls), config-time changes of the list, agreement of tokenizer and block parser on quoting inside names.", runC34)
}

func runC34(c *Ctx) {
	c.c38Load(c34ParserPkg, c34AutoPkg)
	c.Rule("R34a", "every call that passes ParsedTokens.Source (or a slice of it) in shell/autocomplete is control-dependent on <flags>.ExecCmdline && !<same ParsedTokens>.Unsafe; the Unsafe field is written only inside parser.Parse")
	c.Rule("R34b", "parser.Parse: every loop path that starts a new command (ExpectFunc = true or pop = &FuncName) stores Unsafe = true, or folds the pending name (Unsafe = isCmdUnsafe(FuncName) || Unsafe) before touching FuncName and leaves the name-pending flag false")
	c.Rule("R34c", "parser.Parse: every loop path that clears the name-pending flag folds the name through isCmdUnsafe or stores Unsafe = true")
	c.Rule("R34d", "parser.Parse: every loop path that overwrites the command name (FuncName = x, or *pop = x while pop may point at FuncName) is dominated by name-pending == false, or folds first, or stores Unsafe = true")
	c.Rule("R34e", "parser.Parse: loop paths that start a variable/sub-shell token (store a non-empty VarSigil), consume a file redirection (`|>`, ` >>`), select the ?-pipe or append pipe token, or open a <named pipe> store Unsafe = true")
	c.Rule("R34f", "parser.Parse: among the unquoted, unescaped '=' paths outside a command name at least one stores Unsafe = true (assignments are not previewed)")
	c.Rule("R34g", "isCmdUnsafe returns false only under f == <element of safeCmds> and true otherwise")
	c.Rule("R34j", "parser.Parse: every loop path that stores LastFlowToken (the end of the text shell/autocomplete executes) stores Unsafe = true, folds the pending name first, or is dominated by name-pending == false")
	c.Rule("R34i", "parser.Parse: every loop path that starts a command name afresh (*pop = x while pop may point at FuncName) sets the name-pending flag (or Unsafe = true)")
	c.Rule("R34h", "parser.Parse: a loop path under Escaped or inside quotes that appends its (literal) rune to the command name — FuncName or *pop while pop may point at it — leaves the name-pending flag set, unless ExpectFunc is known false, a variable token is open, or Unsafe = true is stored (decided by enumerating the path's decisions as a constraint system over the state at the start of the iteration)")
	c.c34Gate()
	p := c.c34ParseModel("R34b")
	if p == nil {
		return
	}
	p.reportProblems("R34b")
	c.c34Names(p)
	c.c34IsCmdUnsafe(p)
}

// ---------------------------------------------------------------- R34a

func (c *Ctx) c34Gate() {
	const rule = "R34a"
	pk := c.Pkg(c34AutoPkg)
	if pk == nil {
		c.Lost(rule, "pkg:"+c34AutoPkg, "package not loaded")
		return
	}
	info := pk.TypesInfo
	ptPath := mx(c34ParserPkg) + ".ParsedTokens"
	nUse, nWrite := 0, 0
	perFunc := map[string]int{}
	eachFunc(pk, func(fd *ast.FuncDecl) {
		defs := localDefs(info, fd.Body)
		walkStack(fd.Body, func(n ast.Node, stack []ast.Node) bool {
			// writes of Unsafe outside the parser
			if as, ok := n.(*ast.AssignStmt); ok {
				for _, l := range as.Lhs {
					if isField(info, l, ptPath, "Unsafe") {
						nWrite++
						c.Viol(rule, fmt.Sprintf("write:Unsafe@%s", funcKey(c34AutoPkg, fd)), l.Pos(), "%s assigns ParsedTokens.Unsafe outside the tokenizer: the verdict that gates ExecCmdline no longer reflects the typed line", funcKey(c34AutoPkg, fd))
					}
				}
			}
			se, ok := n.(*ast.SelectorExpr)
			if !ok || !isField(info, se, ptPath, "Source") {
				return true
			}
			// the enclosing call that receives it
			enclosingCall := func(stack []ast.Node) *ast.CallExpr {
				for k := len(stack) - 1; k >= 0; k-- {
					if ce, ok := stack[k].(*ast.CallExpr); ok {
						return ce
					}
					if _, ok := stack[k].(ast.Stmt); ok {
						break
					}
				}
				return nil
			}
			call := enclosingCall(stack)
			fk := funcKey(c34AutoPkg, fd)
			perFunc[fk]++
			key := fmt.Sprintf("exec:%s#%d", fk, perFunc[fk])
			nUse++
			// `typed := pt.Source[:pt.LastFlowToken]; cmdline.Execute(typed)`: the text is handed to the
			// call through a local that has this one definition — judge the guards at every use of it
			useStacks := [][]ast.Node{stack}
			if call == nil {
				var local types.Object
				for k := len(stack) - 1; k >= 0; k-- {
					if as, ok := stack[k].(*ast.AssignStmt); ok && as.Tok == token.DEFINE && len(as.Lhs) == 1 && len(as.Rhs) == 1 {
						rhs := unparen(as.Rhs[0])
						if sl, isSl := rhs.(*ast.SliceExpr); isSl {
							rhs = unparen(sl.X)
						}
						if id, isId := as.Lhs[0].(*ast.Ident); isId && rhs == ast.Expr(se) && id.Name != "_" {
							local = info.Defs[id]
						}
					}
					if _, ok := stack[k].(ast.Stmt); ok {
						break
					}
				}
				if ds := defs[local]; local != nil && len(ds) == 1 && ds[0] != nil {
					useStacks = nil
					okUses := true
					walkStack(fd.Body, func(m ast.Node, st2 []ast.Node) bool {
						id, isId := m.(*ast.Ident)
						if !isId || info.Uses[id] != local {
							return true
						}
						if ce := enclosingCall(st2); ce != nil {
							direct := false
							for _, a := range ce.Args {
								if unparen(a) == ast.Expr(id) {
									direct = true
								}
							}
							if direct {
								if call == nil {
									call = ce
								}
								useStacks = append(useStacks, append([]ast.Node(nil), st2...))
								return true
							}
						}
						okUses = false
						return true
					})
					if !okUses || len(useStacks) == 0 {
						call = nil
					}
				}
			}
			if call == nil {
				c.Undecided(rule, key, se.Pos(), "ParsedTokens.Source is read outside a call argument (%s): cannot tell whether the typed line is executed", c.src(stack[len(stack)-1]))
				return true
			}
			what := calleeName(info, call)
			haveExec, haveSafe := true, true
			var why []string
			for _, ust := range useStacks {
				facts := factsOf(guardsAt(info, ust))
				// a guard held in a single-definition bool local (`preview := f.ExecCmdline && !pt.Unsafe;
				// if preview {`) stands for its defining expression (Unsafe is never written in this package)
				for k := 0; k < len(facts) && k < 64; k++ {
					if id, isId := unparen(facts[k].E).(*ast.Ident); isId {
						if r := defs.resolve1(info, id); r != nil {
							if _, still := r.(*ast.Ident); !still {
								facts = append(facts, factsOf([]Guard{{Cond: r, Neg: !facts[k].True}})...)
							}
						}
					}
				}
				uExec, uSafe := false, false
				for _, f := range facts {
					if fv, owner := fieldOf(info, f.E); fv != nil && fv.Name() == "ExecCmdline" && strings.HasSuffix(owner, "autocomplete.Flags") && f.True {
						uExec = true
					}
					if isField(info, f.E, ptPath, "Unsafe") && !f.True {
						// same ParsedTokens value
						a := unparen(f.E).(*ast.SelectorExpr).X
						if c.sameExpr(a, se.X) {
							uSafe = true
						} else {
							why = append(why, fmt.Sprintf("the guard tests %s but %s is executed", c.src(f.E), c.src(se)))
						}
					}
				}
				haveExec = haveExec && uExec
				haveSafe = haveSafe && uSafe
			}
			if !haveExec {
				why = append(why, "no dominating test of Flags.ExecCmdline")
			}
			if !haveSafe {
				why = append(why, "no dominating test that ParsedTokens.Unsafe is false")
			}
			c.Check(haveExec && haveSafe, rule, key, se.Pos(), "%s(%s) in %s runs the typed command line%s", what, c.src(call.Args[0]), fk,
				c37Why(haveExec && haveSafe, strings.Join(why, "; ")+" — a line with unsafe commands is executed by tab-completion"))
			// extent: only the text before the last flow token has been judged — the
			// command name after it may still be pending (no space typed yet)
			extentOK := false
			if len(stack) > 1 {
				if sl, ok := stack[len(stack)-2].(*ast.SliceExpr); ok && sl.X == ast.Expr(se) && sl.Low == nil && sl.High != nil && !sl.Slice3 {
					if isField(info, sl.High, ptPath, "LastFlowToken") {
						if hs, ok := unparen(sl.High).(*ast.SelectorExpr); ok && c.sameExpr(hs.X, se.X) {
							extentOK = true
						}
					}
				}
			}
			c.Check(extentOK, rule, key+":extent", se.Pos(), "the text executed in %s is Source[:LastFlowToken] of the same ParsedTokens%s", fk,
				c37Why(extentOK, "the executed text is not cut at LastFlowToken: the command being typed after the last pipe has not been compared with the safe list yet (`out x | rm` + TAB would run rm)"))
			return true
		})
	})
	c.MinCount(rule, "uses of ParsedTokens.Source in shell/autocomplete", nUse, 1)
	c.Check(nWrite == 0, rule, "write:Unsafe", token.NoPos, "%d assignment(s) to ParsedTokens.Unsafe in shell/autocomplete (only parser.Parse may set it)", nWrite)
}

// ---------------------------------------------------------------- R34b–f

// c34Pending finds the name-pending flag: the local bool of Parse (not a
// closure parameter) that the loop stores to.
func (c *Ctx) c34Pending(p *c34Parser) types.Object {
	if p.pendingVar != nil {
		return p.pendingVar
	}
	cand := map[types.Object]int{}
	for _, pa := range p.paths {
		for _, ev := range pa.Events {
			if ev.Kind != c34EvStore || ev.Store.Obj == nil {
				continue
			}
			v, ok := ev.Store.Obj.(*types.Var)
			if !ok || v.IsField() || v.Parent() == p.pk.Types.Scope() {
				continue
			}
			if b, ok := v.Type().Underlying().(*types.Basic); ok && b.Kind() == types.Bool {
				cand[v]++
			}
		}
	}
	if len(cand) != 1 {
		return nil
	}
	for o := range cand {
		return o
	}
	return nil
}

type c34Sum struct {
	boundary      bool
	boundaryPos   token.Pos
	unsafeTrue    int // event index of Unsafe = true (-1)
	fold          int // event index of the fold (-1)
	foldDec       bool
	clearPending  int // event index of pending = false (-1)
	setPending    int
	firstNameMod  int // first store that modifies FuncName / *pop (-1)
	overwrites    []int
	pendFalseSeqs []int // event counts at which a decision established pending == false
	pendSets      []int // event indexes of pending = <not false>
}

// pendingFalseAt: a decision showed the name-pending flag false at or before
// event k and no store set it in between.
func (s *c34Sum) pendingFalseAt(k int) bool {
	for _, q := range s.pendFalseSeqs {
		if q > k {
			continue
		}
		ok := true
		for _, w := range s.pendSets {
			if w >= q && w < k {
				ok = false
			}
		}
		if ok {
			return true
		}
	}
	return false
}

func (c *Ctx) c34Summarise(p *c34Parser, pa *c34Path, pending types.Object) c34Sum {
	s := c34Sum{unsafeTrue: -1, fold: -1, clearPending: -1, setPending: -1, firstNameMod: -1}
	popAtName := true // conservatively: pop may point at FuncName until re-pointed at Parameters on this path
	// unsafeKnown: a decision of the path showed Unsafe == want at or before event k and no store
	// to Unsafe lies between that decision and k
	unsafeKnown := func(k int, want bool) bool {
		for _, d := range pa.Decs {
			if d.Seq > k {
				continue
			}
			for _, f := range factsOf([]Guard{{Cond: d.E, Neg: !d.Truth}}) {
				if n, _ := p.ptField(f.E); n != "Unsafe" || f.True != want {
					continue
				}
				clean := true
				for j := d.Seq; j < k && j < len(pa.Events); j++ {
					if ev := pa.Events[j]; ev.Kind == c34EvStore && ev.Store.Target == "Unsafe" {
						clean = false
					}
				}
				if clean {
					return true
				}
			}
		}
		return false
	}
	for k, ev := range pa.Events {
		if ev.Kind != c34EvStore {
			continue
		}
		st := ev.Store
		switch {
		case st.Target == "Unsafe":
			if st.Class == "true" && s.unsafeTrue < 0 {
				s.unsafeTrue = k
			}
			if st.Class == "fold" && s.fold < 0 {
				s.fold = k
			}
			// `if !Unsafe { Unsafe = isCmdUnsafe(FuncName) }`: under Unsafe == false the plain store is the fold
			if st.Class == "foldcall" && s.fold < 0 && unsafeKnown(k, false) {
				s.fold = k
			}
		case st.Target == "ExpectFunc" && st.Class == "true":
			s.boundary = true
			if s.boundaryPos == token.NoPos {
				s.boundaryPos = ev.Pos
			}
		case st.Target == "pop":
			if st.Class == "&FuncName" {
				s.boundary = true
				popAtName = true
				if s.boundaryPos == token.NoPos {
					s.boundaryPos = ev.Pos
				}
			} else if st.Class == "&Parameters" {
				popAtName = false
			}
		case st.Target == "FuncName":
			if s.firstNameMod < 0 {
				s.firstNameMod = k
			}
			if st.Op == token.ASSIGN {
				s.overwrites = append(s.overwrites, k)
			}
		case st.ViaPop:
			if popAtName {
				if s.firstNameMod < 0 {
					s.firstNameMod = k
				}
				if st.Op == token.ASSIGN {
					s.overwrites = append(s.overwrites, k)
				}
			}
		case st.Obj != nil && st.Obj == pending:
			if st.Class == "false" && s.clearPending < 0 {
				s.clearPending = k
			}
			if st.Class != "false" {
				s.setPending = k
				s.pendSets = append(s.pendSets, k)
			}
		}
	}
	if s.unsafeTrue < 0 && unsafeKnown(len(pa.Events), true) {
		// the path runs only where Unsafe is already true and leaves it alone (the other arm of
		// `if !Unsafe { Unsafe = isCmdUnsafe(FuncName) }`): the verdict stays unsafe
		lowered := false
		for _, ev := range pa.Events {
			if ev.Kind == c34EvStore && ev.Store.Target == "Unsafe" && ev.Store.Class != "true" && ev.Store.Class != "fold" {
				lowered = true
			}
		}
		if !lowered {
			s.unsafeTrue = 0
		}
	}
	for _, d := range pa.Decs {
		for _, f := range factsOf([]Guard{{Cond: d.E, Neg: !d.Truth}}) {
			if p.isFoldCall(f.E) {
				// `if isCmdUnsafe(FuncName) { Unsafe = true }`: the false branch is a fold too
				if !f.True || s.unsafeTrue >= 0 {
					s.foldDec = true
					if s.fold < 0 {
						s.fold = d.Seq
					}
				}
			}
			if id, ok := unparen(f.E).(*ast.Ident); ok && pending != nil && p.info.ObjectOf(id) == pending && !f.True {
				s.pendFalseSeqs = append(s.pendFalseSeqs, d.Seq)
			}
		}
	}
	return s
}

func (c *Ctx) c34Names(p *c34Parser) {
	pending := c.c34Pending(p)
	if pending == nil {
		c.Undecided("R34b", "name-pending-flag", p.fd.Pos(), "parser.Parse no longer has exactly one local bool that the loop stores to (the `readFunc` name-pending flag): cannot tell when a command name is being read")
		return
	}
	type res struct {
		ok  bool
		msg string
		pos token.Pos
		n   int
	}
	acc := map[string]map[string]*res{"R34b": {}, "R34c": {}, "R34d": {}, "R34e": {}, "R34i": {}, "R34j": {}}
	set := func(rule, key string, pos token.Pos, ok bool, f string, a ...any) {
		r := acc[rule][key]
		if r == nil {
			r = &res{ok: true, pos: pos}
			acc[rule][key] = r
		}
		r.n++
		if !ok && r.ok {
			r.ok, r.msg, r.pos = false, fmt.Sprintf(f, a...), pos
		} else if ok && r.msg == "" {
			r.msg = fmt.Sprintf(f, a...)
		}
	}
	pn := pending.Name()
	var eqPaths []*c34Path
	for _, pa := range p.paths {
		if pa.Exit == "return" {
			continue
		}
		key := pa.Key()
		s := c.c34Summarise(p, pa, pending)
		pos := pa.Pos
		if pos == token.NoPos {
			pos = p.loop.Pos()
		}
		foldBeforeMod := s.fold >= 0 && (s.firstNameMod < 0 || s.fold < s.firstNameMod)
		bIdx := len(pa.Events)
		for k, ev := range pa.Events {
			if ev.Pos == s.boundaryPos && ev.Kind == c34EvStore {
				bIdx = k
				break
			}
		}
		pendingCleared := (s.clearPending >= 0 && s.setPending < s.clearPending) || s.pendingFalseAt(len(pa.Events))
		// R34b
		if s.boundary {
			switch {
			case s.unsafeTrue >= 0:
				set("R34b", "boundary:"+key, s.boundaryPos, true, "starts a new command and stores Unsafe = true")
			case s.pendingFalseAt(bIdx):
				set("R34b", "boundary:"+key, s.boundaryPos, true, "starts a new command under %s == false: no name is pending (R34c: the flag is only cleared with a fold)", pn)
			case foldBeforeMod && pendingCleared:
				set("R34b", "boundary:"+key, s.boundaryPos, true, "folds the pending name through isCmdUnsafe and clears %s before starting the next command", pn)
			case foldBeforeMod:
				set("R34b", "boundary:"+key, s.boundaryPos, false, "arm %s folds the pending command name but leaves %s set: the next command's runes are appended to the old name (`a|ppend x` is judged as `append`) and its own name is never checked", key, pn)
			default:
				set("R34b", "boundary:"+key, s.boundaryPos, false, "arm %s starts a new command (ExpectFunc = true / pop = &FuncName) without checking the name being read: it neither stores Unsafe = true nor folds FuncName through isCmdUnsafe, and %s stays set so the next command's runes are appended to it — `su|ffix x | ` is judged as the safe `suffix` while the block parser runs `su`; tab-completion with ExecCmdline would execute it", key, pn)
			}
		}
		// R34c
		if s.clearPending >= 0 {
			ok := s.unsafeTrue >= 0 || (s.fold >= 0 && (s.firstNameMod < 0 || s.fold < s.firstNameMod))
			set("R34c", "clear:"+key, pa.Events[s.clearPending].Pos, ok, "arm %s clears %s%s", key, pn,
				c37Why(ok, "without folding FuncName through isCmdUnsafe or storing Unsafe = true: the command name just read is never compared with the safe list"))
		}
		// R34d
		for _, k := range s.overwrites {
			ev := pa.Events[k]
			ok := false
			why := ""
			switch {
			case s.unsafeTrue >= 0:
				ok, why = true, "with Unsafe = true"
			case s.fold >= 0 && s.fold < k:
				ok, why = true, "after folding the old name"
			case s.pendingFalseAt(k):
				ok, why = true, "under "+pn+" == false (no name pending)"
			}
			set("R34d", "overwrite:"+key, ev.Pos, ok, "arm %s overwrites the command name (%s %s …) %s%s", key, ev.Store.Target, ev.Store.Op, why,
				c37Why(ok, "while a name may be pending ("+pn+" not known false) and without folding it: the runes read so far are dropped unchecked — e.g. `lu\\a x | ` is judged as `a`, `sh(-c …) | ` as `(`, both on the safe list, while the real parser runs lua / sh"))
		}
		// R34i: an arm that starts a name afresh must mark it pending
		for _, k := range s.overwrites {
			ev := pa.Events[k]
			if !ev.Store.ViaPop || !s.pendingFalseAt(k) {
				continue // FuncName = <constant token> ("(", ">>") are complete names; overwrites of a possibly pending name are R34d's
			}
			lastPend := ""
			for _, e2 := range pa.Events {
				if e2.Kind == c34EvStore && e2.Store.Obj == pending {
					lastPend = e2.Store.Class
				}
			}
			ok := s.unsafeTrue >= 0 || lastPend == "true"
			if !ok && lastPend == "" {
				ok = !c.c34PathFormula(p, pa).sat(map[string]bool{c34PendingAtom(p, pending): false})
			}
			set("R34i", "start:"+key, ev.Pos, ok, "arm %s starts a command name afresh (*pop = …)%s", key,
				c37Why(ok, "without setting "+pn+": the space / colon arms only fold a name through isCmdUnsafe when "+pn+" is set, so this name is never compared with the safe list — `rm x | ` would be previewed"))
		}
		// R34j: LastFlowToken (the end of the text tab-completion executes) only moves where names are settled
		for k, ev := range pa.Events {
			if ev.Kind != c34EvStore || ev.Store.Target != "LastFlowToken" {
				continue
			}
			if s.boundary {
				break // command-start arms are R34b's
			}
			ok := s.unsafeTrue >= 0 || (s.fold >= 0 && s.fold <= k) || s.pendingFalseAt(k)
			set("R34j", "flowtoken:"+key, ev.Pos, ok, "arm %s moves LastFlowToken%s", key,
				c37Why(ok, "although a command name may still be pending and is not folded through isCmdUnsafe first: Source[:LastFlowToken], the text tab-completion executes, would then contain a name that was never compared with the safe list"))
			break
		}
		// R34e
		c.c34Tokens(p, pa, s, key, pos, func(k string, ok bool, f string, a ...any) { set("R34e", k, pos, ok, f, a...) })
		// R34f candidates
		if ks := pa.Known[0]; len(ks) == 1 && ks[0] == '=' && pa.CaseKey != "" {
			eqPaths = append(eqPaths, pa)
		}
	}
	emit := func(rule string) int {
		var keys []string
		for k := range acc[rule] {
			keys = append(keys, k)
		}
		sort.Strings(keys)
		for _, k := range keys {
			r := acc[rule][k]
			if r.ok {
				c.OK(rule, k, r.pos, "%s [%d path(s)]", r.msg, r.n)
			} else {
				c.Viol(rule, k, r.pos, "%s", r.msg)
			}
		}
		return len(keys)
	}
	c.MinCount("R34b", "command-start arms", emit("R34b"), 10)
	c.MinCount("R34c", "arms clearing the name-pending flag", emit("R34c"), 4)
	c.MinCount("R34d", "arms overwriting the command name", emit("R34d"), 5)
	c.MinCount("R34e", "variable / redirection arms", emit("R34e"), 8)
	c.MinCount("R34i", "arms starting a command name", emit("R34i"), 4)
	c.MinCount("R34j", "arms moving LastFlowToken outside a command start", emit("R34j"), 1)
	c.c34Literal(p, pending)

	// R34f
	nEq, nUnsafe := 0, 0
	var pos token.Pos
	for _, pa := range eqPaths {
		quoted := false
		for _, fld := range []string{"Escaped", "QuoteSingle", "QuoteDouble"} {
			if c37HasFact(p, pa, fld, true) {
				quoted = true
			}
		}
		for _, d := range pa.Decs {
			for _, f := range factsOf([]Guard{{Cond: d.E, Neg: !d.Truth}}) {
				if x, op, k, ok := cmpNorm(p.info, f.E); ok {
					if n, _ := p.ptField(x); n == "QuoteBrace" {
						pr := intPred(op, k)
						if pr(1) == f.True && pr(0) != f.True {
							quoted = true
						}
					}
				}
				if id, ok := unparen(f.E).(*ast.Ident); ok && p.info.ObjectOf(id) == pending && f.True {
					quoted = true // part of the command name: judged with the name
				}
			}
		}
		if quoted {
			continue
		}
		nEq++
		if pos == token.NoPos {
			pos = pa.Pos
		}
		if len(pa.stores("Unsafe")) > 0 {
			nUnsafe++
		}
	}
	if nEq == 0 {
		c.Lost("R34f", "assign:'='", "no unquoted '=' arm found in parser.Parse")
	} else {
		c.Check(nUnsafe > 0, "R34f", "assign:'='", pos, "%d unquoted '=' path(s) outside a command name, %d store Unsafe%s", nEq, nUnsafe,
			c37Why(nUnsafe > 0, "no '=' arm ever marks the line unsafe: `a = 5 | ` (a is a safe command name) has Unsafe=false although the block parser reads it as the assignment expression `a = 5`, which tab-completion would execute"))
	}
}

// c34Tokens: R34e.
func (c *Ctx) c34Tokens(p *c34Parser, pa *c34Path, s c34Sum, key string, pos token.Pos, set func(k string, ok bool, f string, a ...any)) {
	unsafe := s.unsafeTrue >= 0
	for _, ev := range pa.Events {
		if ev.Kind != c34EvStore {
			continue
		}
		st := ev.Store
		switch st.Target {
		case "VarSigil":
			if st.Class != "str:" {
				set("var:"+key, unsafe, "arm %s starts a variable / sub-shell token (VarSigil = %s)%s", key, p.render(st.Rhs),
					c37Why(unsafe, "without Unsafe = true: `$(…)`, `${cmd}` and `@{cmd}` run code the safe list never sees"))
			}
		case "AngledBracket":
			if st.Class == "true" {
				set("namedpipe:"+key, unsafe, "arm %s opens a <named pipe> redirection%s", key, c37Why(unsafe, "without Unsafe = true"))
			}
		case "PipeToken":
			if id, ok := unparen(st.Rhs).(*ast.Ident); ok {
				if cn, ok := p.info.ObjectOf(id).(*types.Const); ok && (cn.Name() == "PipeTokenAppend" || cn.Name() == "PipeTokenRedirect") {
					set("pipetoken:"+cn.Name()+":"+key, unsafe, "arm %s selects %s%s", key, cn.Name(), c37Why(unsafe, "without Unsafe = true: the line writes to a file / swaps stderr"))
				}
			}
		}
	}
	// file redirection tokens consumed in one iteration: `|>` and `>>`
	k0, k1 := pa.Known[0], pa.Known[1]
	if pa.Inc >= 1 && len(k0) == 1 && len(k1) == 1 && k1[0] == '>' && (k0[0] == '|' || k0[0] == '>') {
		set("redirect:"+key, unsafe, "arm %s consumes the file redirection %c>%s", key, k0[0], c37Why(unsafe, "without Unsafe = true: tab-completion would run a line that writes a file"))
	}
}

// ---------------------------------------------------------------- R34g

func (c *Ctx) c34IsCmdUnsafe(p *c34Parser) {
	const rule = "R34g"
	fd, pk := c.MustFunc(rule, c34ParserPkg, "", "isCmdUnsafe")
	if fd == nil {
		return
	}
	info := pk.TypesInfo
	var param types.Object
	if len(fd.Type.Params.List) == 1 && len(fd.Type.Params.List[0].Names) == 1 {
		param = info.Defs[fd.Type.Params.List[0].Names[0]]
	}
	safe := pk.Types.Scope().Lookup("safeCmds")
	if param == nil || safe == nil {
		c.Lost(rule, "isCmdUnsafe:shape", "isCmdUnsafe(f string) / safeCmds not found")
		return
	}
	nFalse, nTrue := 0, 0
	ok := true
	why := ""
	isNotContains := func(e ast.Expr) bool {
		u, isU := unparen(e).(*ast.UnaryExpr)
		if !isU || u.Op != token.NOT {
			return false
		}
		call, isC := unparen(u.X).(*ast.CallExpr)
		if !isC || len(call.Args) != 2 {
			return false
		}
		fn, isF := callee(info, call).(*types.Func)
		if !isF || fn.Pkg() == nil || fn.Pkg().Path() != "slices" || fn.Name() != "Contains" {
			return false
		}
		a, ok1 := unparen(call.Args[0]).(*ast.Ident)
		b, ok2 := unparen(call.Args[1]).(*ast.Ident)
		return ok1 && ok2 && info.ObjectOf(a) == safe && info.ObjectOf(b) == param
	}
	// the verdict may be kept in a bool local: `unsafe := true; for … { if f == sb { unsafe = false; break } };
	// return unsafe` — the local is declared true, only ever assigned constants, and every `= false` is
	// judged like a `return false`
	var flag types.Object
	if k := len(fd.Body.List); k > 0 {
		if rs, isRet := fd.Body.List[k-1].(*ast.ReturnStmt); isRet && len(rs.Results) == 1 {
			if id, isID := unparen(rs.Results[0]).(*ast.Ident); isID {
				if v, isVar := info.ObjectOf(id).(*types.Var); isVar && v.Parent() != pk.Types.Scope() {
					ds := localDefs(info, fd.Body)[v]
					good := len(ds) >= 1
					for _, d := range ds {
						if _, isC := constBool(info, d); d == nil || !isC {
							good = false
						}
					}
					declTrue := false
					ast.Inspect(fd.Body, func(x ast.Node) bool {
						switch d := x.(type) {
						case *ast.AssignStmt:
							for i, l := range d.Lhs {
								if li, ok := l.(*ast.Ident); ok && info.Defs[li] == types.Object(v) && len(d.Rhs) == len(d.Lhs) {
									if b, isC := constBool(info, d.Rhs[i]); isC && b {
										declTrue = true
									}
								}
							}
						case *ast.ValueSpec:
							for i, nm := range d.Names {
								if info.Defs[nm] == types.Object(v) && len(d.Values) == len(d.Names) {
									if b, isC := constBool(info, d.Values[i]); isC && b {
										declTrue = true
									}
								}
							}
						}
						return true
					})
					if good && declTrue {
						flag = v
					}
				}
			}
		}
	}
	isFlag := func(e ast.Expr) bool {
		id, isID := unparen(e).(*ast.Ident)
		return isID && flag != nil && info.ObjectOf(id) == flag
	}
	walkStack(fd.Body, func(n ast.Node, stack []ast.Node) bool {
		flagCleared := false
		if as, isAs := n.(*ast.AssignStmt); isAs && as.Tok == token.ASSIGN && len(as.Lhs) == 1 && len(as.Rhs) == 1 && isFlag(as.Lhs[0]) {
			if b, isC := constBool(info, as.Rhs[0]); isC && !b {
				flagCleared = true
			}
		}
		if !flagCleared {
			rs, isRet := n.(*ast.ReturnStmt)
			if !isRet || len(rs.Results) != 1 {
				return true
			}
			if isNotContains(rs.Results[0]) {
				// `return !slices.Contains(safeCmds, f)`: false exactly for members, true otherwise
				nFalse++
				nTrue++
				return true
			}
			if isFlag(rs.Results[0]) {
				nTrue++ // true unless cleared; the clearing stores are judged below
				return true
			}
			b, isConst := constBool(info, rs.Results[0])
			if !isConst {
				ok, why = false, "returns the non-constant "+c.src(rs.Results[0])
				return true
			}
			if b {
				nTrue++
				// `return true` must not be conditional on membership
				return true
			}
		}
		nFalse++
		// return false: needs fact f == <range value of safeCmds>
		good := false
		var rangeVal types.Object
		for _, st := range stack {
			if r, ok := st.(*ast.RangeStmt); ok {
				if id, ok := unparen(r.X).(*ast.Ident); ok && info.ObjectOf(id) == safe && r.Value != nil {
					if vid, ok := r.Value.(*ast.Ident); ok {
						rangeVal = info.ObjectOf(vid)
					}
				}
			}
		}
		for _, f := range factsOf(guardsAt(info, stack)) {
			be, isB := unparen(f.E).(*ast.BinaryExpr)
			if !isB {
				continue
			}
			op := be.Op
			if !f.True {
				op = c34Negate(op)
			}
			if op != token.EQL {
				continue
			}
			isP := func(e ast.Expr) bool {
				// the parameter, directly or through a single-definition copy (`name := f`)
				id, ok := localDefs(info, fd.Body).resolve1(info, e).(*ast.Ident)
				return ok && info.ObjectOf(id) == param
			}
			isV := func(e ast.Expr) bool {
				id, ok := unparen(e).(*ast.Ident)
				if ok && rangeVal != nil && info.ObjectOf(id) == rangeVal {
					return true
				}
				if ix, ok := unparen(e).(*ast.IndexExpr); ok {
					if id, ok := unparen(ix.X).(*ast.Ident); ok && info.ObjectOf(id) == safe {
						return true
					}
				}
				return false
			}
			if (isP(be.X) && isV(be.Y)) || (isP(be.Y) && isV(be.X)) {
				good = true
			}
		}
		if !good {
			ok, why = false, "a `return false` (= safe) is not dominated by f == <element of safeCmds>"
		}
		return true
	})
	// last statement must be return true
	if len(fd.Body.List) > 0 {
		if rs, isRet := fd.Body.List[len(fd.Body.List)-1].(*ast.ReturnStmt); isRet && len(rs.Results) == 1 {
			if b, isC := constBool(info, rs.Results[0]); (!isC || !b) && !isNotContains(rs.Results[0]) && !isFlag(rs.Results[0]) {
				ok, why = false, "the fall-through result is not `true`: a name that is on no list is reported safe"
			}
		} else {
			ok, why = false, "does not end in `return true`"
		}
	}
	if nFalse == 0 {
		ok, why = false, "never returns false"
	}
	c.Check(ok, rule, "isCmdUnsafe:membership", fd.Pos(), "isCmdUnsafe answers safe (false) exactly for members of safeCmds (%d `return false`, %d `return true`)%s", nFalse, nTrue, c37Why(ok, why))
	// the safe list is a literal of string constants
	n := 0
	if cl, isCL := unparen(p.pkgVarInit(safe)).(*ast.CompositeLit); isCL {
		n = len(cl.Elts)
	}
	c.MinCount(rule, "entries of safeCmds", n, 60)
}

// ---------------------------------------------------------------- R34h

// c34Formula: the decisions of a path that speak about the tokenizer state as
// it was at the start of the iteration, as a small constraint system: boolean
// atoms (state flags, closure calls, comparisons that are not integer/constant)
// and integer variables (state counters compared with constants, domain -1…3).
type c34Formula struct {
	p     *c34Parser
	decs  []c34Dec
	bools []string
	ints  []string
}

func (c *Ctx) c34PathFormula(p *c34Parser, pa *c34Path) *c34Formula {
	f := &c34Formula{p: p}
	seenB, seenI := map[string]bool{}, map[string]bool{}
	for _, d := range pa.Decs {
		if t := p.info.TypeOf(d.E); t == nil {
			continue
		} else if b, ok := t.Underlying().(*types.Basic); !ok || b.Info()&types.IsBoolean == 0 {
			continue
		}
		// every state field / local the decision reads must be unmodified so far
		stale := false
		ast.Inspect(d.E, func(n ast.Node) bool {
			var obj types.Object
			switch v := n.(type) {
			case *ast.SelectorExpr:
				if _, fv := p.ptField(v); fv != nil {
					obj = fv
				}
			case *ast.Ident:
				if o, ok := p.info.ObjectOf(v).(*types.Var); ok && !o.IsField() && o != p.pt {
					obj = o
				}
			}
			if obj != nil {
				for _, ev := range pa.Events[:min(d.Seq, len(pa.Events))] {
					if ev.Kind == c34EvStore && ev.Store.Obj == obj {
						stale = true
					}
				}
			}
			return !stale
		})
		if stale || d.Off != 0 {
			continue
		}
		f.decs = append(f.decs, d)
		f.collect(d.E, seenB, seenI)
	}
	return f
}

func (f *c34Formula) leaf(e ast.Expr) (kind int, name string, op token.Token, k int64, neg bool) {
	// kind 0: structural (&&, ||, !), 1: bool atom, 2: int comparison
	e = unparen(e)
	switch v := e.(type) {
	case *ast.UnaryExpr:
		if v.Op == token.NOT {
			return 0, "", 0, 0, false
		}
	case *ast.BinaryExpr:
		if v.Op == token.LAND || v.Op == token.LOR {
			return 0, "", 0, 0, false
		}
		if x, op, k, ok := cmpNorm(f.p.info, e); ok {
			if cv := constOf(f.p.info, x); cv == nil {
				return 2, f.p.render(x), op, k, false
			}
		}
		if v.Op == token.NEQ {
			return 1, f.p.label(v.X) + "==" + f.p.label(v.Y), 0, 0, true
		}
	}
	if v, ok := e.(*ast.BinaryExpr); ok && v.Op == token.EQL {
		return 1, f.p.label(v.X) + "==" + f.p.label(v.Y), 0, 0, false
	}
	return 1, f.p.label(e), 0, 0, false
}

func (f *c34Formula) collect(e ast.Expr, seenB, seenI map[string]bool) {
	e = unparen(e)
	kind, name, _, _, _ := f.leaf(e)
	switch kind {
	case 0:
		switch v := e.(type) {
		case *ast.UnaryExpr:
			f.collect(v.X, seenB, seenI)
		case *ast.BinaryExpr:
			f.collect(v.X, seenB, seenI)
			f.collect(v.Y, seenB, seenI)
		}
	case 1:
		if !seenB[name] {
			seenB[name] = true
			f.bools = append(f.bools, name)
		}
	case 2:
		if !seenI[name] {
			seenI[name] = true
			f.ints = append(f.ints, name)
		}
	}
}

func (f *c34Formula) eval(e ast.Expr, bv map[string]bool, iv map[string]int64) bool {
	e = unparen(e)
	kind, name, op, k, neg := f.leaf(e)
	switch kind {
	case 1:
		return bv[name] != neg
	case 2:
		return intPred(op, k)(iv[name])
	}
	switch v := e.(type) {
	case *ast.UnaryExpr:
		return !f.eval(v.X, bv, iv)
	case *ast.BinaryExpr:
		if v.Op == token.LAND {
			return f.eval(v.X, bv, iv) && f.eval(v.Y, bv, iv)
		}
		return f.eval(v.X, bv, iv) || f.eval(v.Y, bv, iv)
	}
	return false
}

// sat: some state satisfies every decision of the path and the wanted values
// of the named boolean atoms. Too many atoms ⇒ true (cannot exclude).
func (f *c34Formula) sat(want map[string]bool) bool {
	bools := append([]string(nil), f.bools...)
	for w := range want {
		found := false
		for _, b := range bools {
			if b == w {
				found = true
			}
		}
		if !found {
			bools = append(bools, w)
		}
	}
	sort.Strings(bools)
	if len(bools) > 14 || len(f.ints) > 3 {
		return true
	}
	dom := []int64{-1, 0, 1, 2, 3}
	nInt := 1
	for range f.ints {
		nInt *= len(dom)
	}
	for m := 0; m < 1<<len(bools); m++ {
		bv := map[string]bool{}
		for i, b := range bools {
			bv[b] = m&(1<<i) != 0
		}
		okWant := true
		for w, v := range want {
			if bv[w] != v {
				okWant = false
			}
		}
		if !okWant {
			continue
		}
		for q := 0; q < nInt; q++ {
			iv := map[string]int64{}
			r := q
			for _, n := range f.ints {
				iv[n] = dom[r%len(dom)]
				r /= len(dom)
			}
			all := true
			for _, d := range f.decs {
				if f.eval(d.E, bv, iv) != d.Truth {
					all = false
					break
				}
			}
			if all {
				return true
			}
		}
	}
	return false
}

// c34Literal (R34h): runes consumed under an escape or inside quotes are
// literal text for the block parser; at command position they are part of the
// command name. A path that appends such a rune to the name must leave the
// name-pending flag set (else the next plain rune overwrites the name:
// `\wget x | ` is judged as `get`), unless no command name is expected.
func (c *Ctx) c34Literal(p *c34Parser, pending types.Object) {
	const rule = "R34h"
	type res struct {
		ok   bool
		arms []string
		pos  token.Pos
		n    int
	}
	acc := map[string]*res{}
	for _, pa := range p.paths {
		if pa.Exit == "return" {
			continue
		}
		kind := ""
		if c37HasFact(p, pa, "Escaped", true) {
			kind = "escaped"
		} else if c37HasFact(p, pa, "QuoteSingle", true) || c37HasFact(p, pa, "QuoteDouble", true) {
			kind = "quoted"
		} else {
			for _, d := range pa.Decs {
				for _, f := range factsOf([]Guard{{Cond: d.E, Neg: !d.Truth}}) {
					if x, op, k, ok := cmpNorm(p.info, f.E); ok {
						if n, _ := p.ptField(x); n == "QuoteBrace" {
							pr := intPred(op, k)
							if pr(1) == f.True && pr(0) != f.True && pr(2) == f.True && pr(-1) != f.True {
								kind = "quoted"
							}
						}
					}
				}
			}
		}
		if kind == "" {
			continue // operator-like runes outside quotes: how the block parser treats them at command position is not modelled
		}
		s := c.c34Summarise(p, pa, pending)
		// name-text writes
		var writes []int
		popAtName := true
		expectStored := map[int]string{} // event index -> class
		for k, ev := range pa.Events {
			if ev.Kind != c34EvStore {
				continue
			}
			st := ev.Store
			switch {
			case st.Target == "pop":
				popAtName = st.Class == "&FuncName"
			case st.Target == "ExpectFunc":
				expectStored[k] = st.Class
			case st.Target == "FuncName", st.ViaPop && popAtName:
				if st.Op == token.ASSIGN || st.Op == token.ADD_ASSIGN {
					writes = append(writes, k)
				}
			}
		}
		if len(writes) == 0 {
			continue
		}
		caseKey := pa.CaseKey
		if caseKey == "" {
			caseKey = "prelude"
		}
		key := fmt.Sprintf("name-text:%s@%s", kind, caseKey)
		r := acc[key]
		if r == nil {
			r = &res{ok: true, pos: pa.Events[writes[0]].Pos}
			acc[key] = r
		}
		r.n++
		risky := false
		switch {
		case s.unsafeTrue >= 0:
		case c.c34VarActive(p, pa):
			// inside a $variable / @array token: Unsafe was set when it started (R34e)
		default:
			want := map[string]bool{}
			// ExpectFunc at the time of the first write
			exp := "unknown"
			for k, cl := range expectStored {
				if k < writes[0] {
					exp = cl
				}
			}
			if exp == "false" {
				break
			}
			if exp == "unknown" {
				want["ExpectFunc"] = true
			}
			// name-pending at the end of the path
			lastPend := ""
			for _, ev := range pa.Events {
				if ev.Kind == c34EvStore && ev.Store.Obj == pending {
					lastPend = ev.Store.Class
				}
			}
			if lastPend == "true" {
				break
			}
			if lastPend == "" {
				want[c34PendingAtom(p, pending)] = false
			}
			risky = c.c34PathFormula(p, pa).sat(want)
		}
		if risky {
			r.ok = false
			arm := pa.ArmKey
			if arm == "" {
				arm = pa.Key()
			}
			dup := false
			for _, a := range r.arms {
				if a == arm {
					dup = true
				}
			}
			if !dup {
				r.arms = append(r.arms, arm)
			}
		}
	}
	var keys []string
	for k := range acc {
		keys = append(keys, k)
	}
	sort.Strings(keys)
	bad := map[string][]string{}
	badPos := map[string]token.Pos{}
	for _, k := range keys {
		r := acc[k]
		kind := "escaped"
		if strings.HasPrefix(k, "name-text:quoted") {
			kind = "quoted"
		}
		if strings.HasPrefix(k, "name-text:plain") {
			kind = "plain"
		}
		if r.ok {
			c.OK(rule, k, r.pos, "literal runes appended to the command name leave %s set (or no command name is expected) [%d path(s)]", pending.Name(), r.n)
		} else {
			sort.Strings(r.arms)
			bad[kind] = append(bad[kind], strings.TrimPrefix(k, "name-text:"+kind+"@")+" ("+strings.Join(r.arms, ", ")+")")
			if badPos[kind] == token.NoPos {
				badPos[kind] = r.pos
			}
		}
	}
	for _, kind := range []string{"escaped", "quoted", "plain"} {
		if len(bad[kind]) == 0 {
			continue
		}
		wit := "`\\wget x | ` is judged as the safe `get` while the block parser (and the shell: `\\echo hi` prints hi) runs wget"
		if kind == "quoted" {
			wit = "`'|'out x | ` is judged as `out` while the block parser's command is `|out`"
		}
		c.Viol(rule, "name-text:"+kind, badPos[kind], "%d rune case(s) append a literal (%s) rune to the command name while a command may be expected (ExpectFunc) but leave %s false, so the next plain rune starts the name afresh (`*pop = …`) and the literal rune is missing from the name that is compared with the safe list: %s — cases: %s", len(bad[kind]), kind, pending.Name(), wit, strings.Join(bad[kind], "; "))
	}
	c.MinCount(rule, "cases with literal-rune name writes", len(keys), 30)
}

// c34VarActive: the path decided VarSigil != "" (a variable token is open).
func (c *Ctx) c34VarActive(p *c34Parser, pa *c34Path) bool {
	for _, d := range pa.Decs {
		for _, f := range factsOf([]Guard{{Cond: d.E, Neg: !d.Truth}}) {
			be, ok := unparen(f.E).(*ast.BinaryExpr)
			if !ok {
				continue
			}
			if n, _ := p.ptField(be.X); n != "VarSigil" {
				continue
			}
			if s, ok := constString(p.info, be.Y); ok && s == "" {
				if (be.Op == token.NEQ) == f.True {
					// fields untouched before the decision by construction (prelude)
					return true
				}
			}
		}
	}
	return false
}

// c34PendingAtom: the name under which the name-pending flag appears as an atom of a path formula.
func c34PendingAtom(p *c34Parser, pending types.Object) string {
	if p.pendingVar != nil && p.pendingVar == pending {
		return "namePending"
	}
	return pending.Name()
}
