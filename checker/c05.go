package main

import (
	"fmt"
	"go/ast"
	"go/token"
	"go/types"
	"sort"
	"strings"
)

func init() {
	register("C05", "Decides structural necessary conditions of try/trypipe semantics in both schedulers: truth tables of the ||-skip and abort predicates over (exit number, next.OperatorLogicOr); on every path a command is started or skipped only after its own || flag was read since the previous start (so a skipped command's following || alternatives are examined too); placement of synchronous waits (try: before the next non-method command; trypipe: after every command) and exit numbers read only after the wait; the reported exit number is the checked command's; skipped/aborted commands are closed and deregistered; run-mode dispatch tables (Fork.Execute, compile's `runmode` strings, the try builtins) are consistent. Does NOT decide tryerr's stderr-size heuristic nor the commands' own exit numbers.", runC05)
}

func runC05(c *Ctx) {
	c.Load("lang", "builtins/core/structs")
	pk := c.Pkg("lang")
	info := pk.TypesInfo

	c.Rule("R05a", "truth tables: in runModeTry and runModeTryPipe the skip branch is taken ⇔ exitNum<1 ∧ procs[next].OperatorLogicOr and the abort branch ⇔ exitNum>0 ∧ ¬procs[next].OperatorLogicOr (evaluated on exit numbers -1..3 × both flag values)")
	c.Rule("R05b", "E2c path rule (examined-before-start/skip): a process is started or skipped only after its own OperatorLogicOr flag (or IsMethod=true) was read since the previous start")
	c.Rule("R05c", "E2c path rule (waits): START/SKIP of the next command directly after START(k) needs a synchronous waitProcess(k) unless the next command is known to be a method; in runModeTryPipe the wait is needed even for methods; an exit number is read only after the synchronous wait; the scheduler's result is assigned only from the checked command's ExitNum (and checkTryErr on the same command)")
	c.Rule("R05e", "every process that is skipped or aborted gets Stdout.Close, Stderr.Close and GlobalFIDs.Deregister on the same index as the skip/abort (otherwise downstream readers hang and the FID leaks)")
	for _, name := range []string{"runModeTry", "runModeTryPipe"} {
		fd, _ := c.MustFunc("R05a", "lang", "", name)
		if fd == nil {
			continue
		}
		c.checkTryPredicates(info, fd, "")
		c.exploreSchedulerOpts(fd, info, "R05b", "R05c", "R05c", true, name == "runModeTryPipe")
		c.checkTryResult(info, fd, "")
		c.checkTryCleanup(info, fd, "")
	}

	c.Rule("R05d", "dispatch tables: Fork.Execute maps {Block,Function,Module}×{Try,TryPipe,TryErr,TryPipeErr} to (runModeTry|runModeTryPipe, _TRY_EXIT_NUM|_TRY_STDERR) consistently and Unsafe/Default/Normal to runModeNormal; compile's `runmode` strings map to the same-named constants; the try builtins pass the matching Block* constant")
	c.checkTryDispatch()

	if c.Tier == "thorough" {
		c.schedJSVariant(func(c2 *Ctx, info2 *types.Info) {
			for _, name := range []string{"runModeTry", "runModeTryPipe"} {
				if fd, _ := c2.FuncDecl("lang", "", name); fd != nil {
					before := len(c2.Obls)
					c2.checkTryPredicates(info2, fd, "js:")
					c2.exploreSchedulerOpts(fd, info2, "R05b", "R05c", "R05c", true, name == "runModeTryPipe")
					c2.checkTryResult(info2, fd, "js:")
					c2.checkTryCleanup(info2, fd, "js:")
					for _, o := range c2.Obls[before:] {
						if !strings.Contains(o.Key, "/js:") {
							o.Key = o.Rule + "/js:" + strings.TrimPrefix(o.Key, o.Rule+"/")
						}
						c.Obls = append(c.Obls, o)
					}
					c2.Obls = c2.Obls[:before]
				}
			}
		})
	}
}

// exploreSchedulerOpts is exploreScheduler with the trypipe strictness option.
func (c *Ctx) exploreSchedulerOpts(fd *ast.FuncDecl, info *types.Info, ruleExam, ruleWait, ruleExit string, tryMode, strictWait bool) {
	schedStrictWait = strictWait
	defer func() { schedStrictWait = false }()
	c.exploreScheduler("lang", fd, info, ruleExam, ruleWait, ruleExit, tryMode)
}

var schedStrictWait bool

// tryIfs finds the skip-if and abort-if of a try scheduler: if statements
// whose condition reads procs[_].OperatorLogicOr and compares the result
// variable.
// expandBoolLocals substitutes single-definition boolean locals of a condition by their
// defining expressions (nextIsOr := procs[next].OperatorLogicOr; failed := exitNum > 0), through
// !, && and ||, so that a predicate is judged over the same leaves however it is spelled.
func expandBoolLocals(info *types.Info, defs defMap, e ast.Expr, depth int) ast.Expr {
	e = unparen(e)
	if depth > 6 {
		return e
	}
	switch x := e.(type) {
	case *ast.Ident:
		if o := info.ObjectOf(x); o != nil && o.Parent() != types.Universe {
			if b, isB := o.Type().Underlying().(*types.Basic); isB && b.Info()&types.IsBoolean != 0 {
				if ds := defs[o]; len(ds) == 1 && ds[0] != nil {
					if _, isConst := constBool(info, ds[0]); !isConst {
						return &ast.ParenExpr{X: expandBoolLocals(info, defs, ds[0], depth+1)}
					}
				}
			}
		}
	case *ast.UnaryExpr:
		if x.Op == token.NOT {
			return &ast.UnaryExpr{OpPos: x.OpPos, Op: x.Op, X: expandBoolLocals(info, defs, x.X, depth+1)}
		}
	case *ast.BinaryExpr:
		if x.Op == token.LAND || x.Op == token.LOR {
			return &ast.BinaryExpr{X: expandBoolLocals(info, defs, x.X, depth+1), OpPos: x.OpPos, Op: x.Op, Y: expandBoolLocals(info, defs, x.Y, depth+1)}
		}
	}
	return e
}

func tryIfs(info *types.Info, fd *ast.FuncDecl) (skipIf, abortIf *ast.IfStmt) {
	tdefs := localDefs(info, fd.Body)
	ast.Inspect(fd.Body, func(n ast.Node) bool {
		is, ok := n.(*ast.IfStmt)
		if !ok {
			return true
		}
		readsOr := false
		ast.Inspect(expandBoolLocals(info, tdefs, is.Cond, 0), func(m ast.Node) bool {
			if se, ok := m.(*ast.SelectorExpr); ok && se.Sel.Name == "OperatorLogicOr" {
				readsOr = true
			}
			return true
		})
		if !readsOr {
			return true
		}
		hasReturn := false
		ast.Inspect(is.Body, func(m ast.Node) bool {
			if _, ok := m.(*ast.ReturnStmt); ok {
				hasReturn = true
			}
			return true
		})
		if hasReturn {
			if abortIf == nil {
				abortIf = is
			}
		} else if skipIf == nil {
			skipIf = is
		}
		return true
	})
	return
}

// tryPredRule: rule id under which checkTryPredicates records (C21 reuses it as R21e).
var tryPredRule = "R05a"

func (c *Ctx) checkTryPredicates(info *types.Info, fd *ast.FuncDecl, prefix string) {
	fn := prefix + fd.Name.Name
	skipIf, abortIf := tryIfs(info, fd)
	res := resultNames(fd)
	var resObj types.Object
	if len(res) == 1 && res[0] != "" {
		resObj = info.Defs[fd.Type.Results.List[0].Names[0]]
	}
	eval := func(cond ast.Expr, e int64, or bool) (bool, string) {
		unk := ""
		var ev func(x ast.Expr) bool
		ev = func(x ast.Expr) bool {
			x = unparen(x)
			switch y := x.(type) {
			case *ast.UnaryExpr:
				if y.Op == token.NOT {
					return !ev(y.X)
				}
			case *ast.BinaryExpr:
				switch y.Op {
				case token.LAND:
					return ev(y.X) && ev(y.Y)
				case token.LOR:
					return ev(y.X) || ev(y.Y)
				}
				if v, op, k, ok := cmpNorm(info, y); ok {
					if id, ok := v.(*ast.Ident); ok && resObj != nil && info.ObjectOf(id) == resObj {
						return intPred(op, k)(e)
					}
				}
			case *ast.SelectorExpr:
				if y.Sel.Name == "OperatorLogicOr" {
					return or
				}
			}
			unk = c.src(x)
			return false
		}
		r := ev(cond)
		return r, unk
	}
	pdefs := localDefs(info, fd.Body)
	// the branch is taken ⇔ its own condition holds AND every enclosing / earlier-exit condition
	// that speaks about the exit number or the || flag holds with the truth it has on the way
	// there (`if exitNum < 1 { if procs[next].OperatorLogicOr {` is one predicate split in two)
	relevant := func(e ast.Expr) bool {
		r := false
		ast.Inspect(e, func(m ast.Node) bool {
			switch y := m.(type) {
			case *ast.SelectorExpr:
				if y.Sel.Name == "OperatorLogicOr" {
					r = true
				}
			case *ast.Ident:
				if resObj != nil && info.ObjectOf(y) == resObj {
					r = true
				}
			}
			return true
		})
		return r
	}
	effective := func(is *ast.IfStmt) func(e int64, or bool) (bool, string) {
		own := expandBoolLocals(info, pdefs, is.Cond, 0)
		type gf struct {
			e     ast.Expr
			truth bool
		}
		var outer []gf
		for _, f := range factsOf(guardsAt(info, pathTo(fd.Body, is))) {
			if x := expandBoolLocals(info, pdefs, f.E, 0); relevant(x) {
				outer = append(outer, gf{x, f.True})
			}
		}
		return func(e int64, or bool) (bool, string) {
			got, unk := eval(own, e, or)
			for _, g := range outer {
				v, u := eval(g.e, e, or)
				if u != "" {
					unk = u
				}
				if v != g.truth {
					got = false
				}
			}
			return got, unk
		}
	}
	check := func(is *ast.IfStmt, what string, want func(e int64, or bool) bool) {
		if is == nil {
			c.Viol(tryPredRule, fn+":"+what, fd.Pos(), "no %s branch found in %s (an if over the exit number and procs[next].OperatorLogicOr)", what, fd.Name.Name)
			return
		}
		bad := ""
		evalEff := effective(is)
		for e := int64(-1); e <= 3; e++ {
			for _, or := range []bool{false, true} {
				got, unk := evalEff(e, or)
				if unk != "" {
					c.Undecided(tryPredRule, fn+":"+what, is.Cond.Pos(), "leaf %q of the %s predicate is neither a comparison of the exit number with a constant nor procs[_].OperatorLogicOr", unk, what)
					return
				}
				if got != want(e, or) {
					bad = fmt.Sprintf("exit=%d next-is-||=%v: %s=%v, documented=%v", e, or, what, got, want(e, or))
				}
			}
		}
		c.Check(bad == "", tryPredRule, fn+":"+what, is.Cond.Pos(), "%s predicate `%s` agrees with the documented table on exit∈[-1,3]×||∈{F,T} %s", what, c.src(is.Cond), bad)
	}
	check(skipIf, "skip", func(e int64, or bool) bool { return e < 1 && or })
	check(abortIf, "abort", func(e int64, or bool) bool { return e > 0 && !or })
	// the Or flag read by both predicates belongs to the NEXT process (i+1)
	for what, is := range map[string]*ast.IfStmt{"skip": skipIf, "abort": abortIf} {
		if is == nil {
			continue
		}
		okIdx := true
		defs := localDefs(info, fd.Body)
		var scan ast.Expr = expandBoolLocals(info, defs, is.Cond, 0)
		for _, f := range factsOf(guardsAt(info, pathTo(fd.Body, is))) {
			if x := expandBoolLocals(info, defs, f.E, 0); relevant(x) {
				scan = &ast.BinaryExpr{X: scan, Op: token.LAND, Y: x}
			}
		}
		ast.Inspect(scan, func(m ast.Node) bool {
			se, ok := m.(*ast.SelectorExpr)
			if !ok || se.Sel.Name != "OperatorLogicOr" {
				return true
			}
			ix, ok := unparen(se.X).(*ast.IndexExpr)
			if !ok {
				okIdx = false
				return true
			}
			r := defs.resolve1(info, ix.Index)
			// the index variable's (first) definition must be <loop index> + 1
			if id, isId := r.(*ast.Ident); isId {
				ds := defs[info.ObjectOf(id)]
				if len(ds) > 0 && ds[0] != nil {
					r = unparen(ds[0])
				}
			}
			b, isB := r.(*ast.BinaryExpr)
			if !isB || b.Op != token.ADD {
				okIdx = false
				return true
			}
			vy, isCy := constInt(info, b.Y)
			vx, isCx := constInt(info, b.X)
			if !((isCy && vy == 1) || (isCx && vx == 1)) {
				okIdx = false
			}
			return true
		})
		c.Check(okIdx, tryPredRule, fn+":"+what+":index", is.Cond.Pos(), "the || flag tested by the %s predicate is that of the next process (index defined as <current>+1)", what)
	}
	// the skip/abort tests are only made when a next process exists: both ifs are guarded by next < len
	for what, is := range map[string]*ast.IfStmt{"skip": skipIf, "abort": abortIf} {
		if is == nil {
			continue
		}
		st := pathTo(fd.Body, is)
		guarded := false
		for _, f := range factsOf(guardsAt(info, st)) {
			if b, ok := unparen(f.E).(*ast.BinaryExpr); ok && f.True && (b.Op == token.LSS || b.Op == token.GTR || b.Op == token.NEQ) {
				// len(*procs), or a local holding it (n := len(*procs))
				if _, ok := isBuiltinCall(info, pdefs.resolve1(info, b.Y), "len"); ok {
					guarded = true
				}
				if _, ok := isBuiltinCall(info, pdefs.resolve1(info, b.X), "len"); ok {
					guarded = true
				}
			}
		}
		c.Check(guarded, tryPredRule, fn+":"+what+":bounds", is.Pos(), "the %s test is made only when a next process exists (guard next < len(*procs)); otherwise the flag read indexes past the list", what)
	}
}

// checkTryResult: the scheduler's named result is assigned only from
// procs[i].ExitNum of the loop's current process (plus checkTryErr(&procs[i], &result)).
func (c *Ctx) checkTryResult(info *types.Info, fd *ast.FuncDecl, prefix string) {
	fn := prefix + fd.Name.Name
	res := resultNames(fd)
	if len(res) != 1 || res[0] == "" {
		c.Undecided("R05c", fn+":result", fd.Pos(), "no single named result")
		return
	}
	resObj := info.Defs[fd.Type.Results.List[0].Names[0]]
	var loopVar types.Object
	for _, s := range fd.Body.List {
		if fs, ok := s.(*ast.ForStmt); ok {
			if as, ok := fs.Init.(*ast.AssignStmt); ok && len(as.Lhs) == 1 {
				if id, ok := as.Lhs[0].(*ast.Ident); ok {
					loopVar = info.ObjectOf(id)
				}
			}
		}
	}
	n, bad := 0, ""
	var pos token.Pos = fd.Pos()
	ast.Inspect(fd.Body, func(m ast.Node) bool {
		as, ok := m.(*ast.AssignStmt)
		if !ok {
			return true
		}
		for i, l := range as.Lhs {
			id, ok := l.(*ast.Ident)
			if !ok || info.ObjectOf(id) != resObj {
				continue
			}
			n++
			pos = as.Pos()
			okSrc := false
			if i < len(as.Rhs) && len(as.Lhs) == len(as.Rhs) {
				if se, ok := unparen(as.Rhs[i]).(*ast.SelectorExpr); ok && se.Sel.Name == "ExitNum" {
					if ix, ok := unparen(se.X).(*ast.IndexExpr); ok {
						if v, ok := unparen(ix.Index).(*ast.Ident); ok && info.ObjectOf(v) == loopVar {
							okSrc = true
						}
					}
				}
			}
			if !okSrc {
				bad = c.src(as)
			}
		}
		return true
	})
	c.Check(n >= 1 && bad == "", "R05c", fn+":result-source", pos, "the scheduler's exit number is assigned only from procs[i].ExitNum of the command just waited for (%d assignments) %s", n, bad)
	// return statements with explicit values: only the constant 1 for the empty list
	ast.Inspect(fd.Body, func(m ast.Node) bool {
		rs, ok := m.(*ast.ReturnStmt)
		if !ok || len(rs.Results) == 0 {
			return true
		}
		// `return exitNum` is the naked return spelled out
		if len(rs.Results) == 1 {
			if id, isId := unparen(rs.Results[0]).(*ast.Ident); isId && info.ObjectOf(id) == resObj {
				return true
			}
		}
		st := pathTo(fd.Body, rs)
		emptyGuard := false
		rdefs := localDefs(info, fd.Body)
		for _, f := range factsOf(guardsAt(info, st)) {
			if x, op, k, ok := cmpNorm(info, f.E); ok && f.True {
				if _, isLen := isBuiltinCall(info, rdefs.resolve1(info, x), "len"); isLen && samePredOnRange(intPred(op, k), func(v int64) bool { return v == 0 }, 0, 3) {
					emptyGuard = true
				}
			}
		}
		c.Check(emptyGuard, "R05c", fn+":explicit-return", rs.Pos(), "an explicit `return <value>` occurs only for the empty process list")
		return true
	})
}

// checkTryCleanup: in the skip arm and in the abort loop, Close/Close/Deregister
// are applied to the same index as the skip event / abort loop variable.
// tryCleanupRule: rule id under which checkTryCleanup records (C28 reuses it as R28d).
var tryCleanupRule = "R05e"

func (c *Ctx) checkTryCleanup(info *types.Info, fd *ast.FuncDecl, prefix string) {
	fn := prefix + fd.Name.Name
	skipIf, abortIf := tryIfs(info, fd)
	cdefs := localDefs(info, fd.Body)
	need := []string{"Stdout.Close", "Stderr.Close", "Deregister"}
	scan := func(body *ast.BlockStmt) (map[string]map[string]bool, string) {
		// index expr string -> set of cleanup ops ; plus index of skip event
		got := map[string]map[string]bool{}
		skipIdx := ""
		add := func(idx, op string) {
			if got[idx] == nil {
				got[idx] = map[string]bool{}
			}
			got[idx][op] = true
		}
		ast.Inspect(body, func(m ast.Node) bool {
			call, ok := m.(*ast.CallExpr)
			if !ok {
				if as, ok := m.(*ast.AssignStmt); ok && len(as.Lhs) == 1 {
					if se, ok := as.Lhs[0].(*ast.SelectorExpr); ok && se.Sel.Name == "hasTerminatedV" {
						if ix, ok := unparen(se.X).(*ast.IndexExpr); ok {
							skipIdx = c.src(ix.Index)
						}
					}
				}
				return true
			}
			se, ok := call.Fun.(*ast.SelectorExpr)
			if !ok {
				return true
			}
			idxOf := func(e ast.Expr) string {
				for k := 0; k < 8; k++ {
					e = unparen(e)
					switch x := e.(type) {
					case *ast.SelectorExpr:
						e = x.X
					case *ast.UnaryExpr:
						if x.Op != token.AND {
							return ""
						}
						e = x.X
					case *ast.Ident: // pointer local bound to one process: skipped := &(*procs)[i]
						r := cdefs.resolve1(info, x)
						if r == ast.Expr(x) {
							return ""
						}
						e = r
					case *ast.IndexExpr:
						return c.src(x.Index)
					default:
						return ""
					}
				}
				return ""
			}
			switch se.Sel.Name {
			case "Close":
				if inner, ok := unparen(se.X).(*ast.SelectorExpr); ok && (inner.Sel.Name == "Stdout" || inner.Sel.Name == "Stderr") {
					if idx := idxOf(inner.X); idx != "" {
						add(idx, inner.Sel.Name+".Close")
					}
				}
			case "Deregister":
				if len(call.Args) == 1 {
					if idx := idxOf(call.Args[0]); idx != "" {
						add(idx, "Deregister")
					}
				}
			case "SetTerminatedState":
				if idx := idxOf(se.X); idx != "" {
					skipIdx = idx
				}
			}
			return true
		})
		return got, skipIdx
	}
	if skipIf != nil {
		got, skipIdx := scan(skipIf.Body)
		var missing []string
		for _, op := range need {
			if skipIdx == "" || !got[skipIdx][op] {
				missing = append(missing, op)
			}
		}
		c.Check(len(missing) == 0, tryCleanupRule, fn+":skip-arm", skipIf.Body.Pos(), "the skipped process procs[%s] gets Stdout.Close, Stderr.Close and GlobalFIDs.Deregister (missing: %v)", skipIdx, missing)
	}
	if abortIf != nil {
		// abort loop variable: the for statement inside
		var loop *ast.ForStmt
		ast.Inspect(abortIf.Body, func(m ast.Node) bool {
			if f, ok := m.(*ast.ForStmt); ok && loop == nil {
				loop = f
			}
			return true
		})
		if loop == nil {
			c.Undecided(tryCleanupRule, fn+":abort-arm", abortIf.Body.Pos(), "abort arm has no loop over the remaining processes")
		} else {
			got, _ := scan(loop.Body)
			idx := ""
			if inc, ok := loop.Post.(*ast.IncDecStmt); ok {
				idx = c.src(inc.X)
			}
			var missing []string
			for _, op := range need {
				if idx == "" || !got[idx][op] {
					missing = append(missing, op)
				}
			}
			// loop covers every remaining process: init advances by one, condition is idx < len, post idx++
			okRange := false
			if loop.Cond != nil {
				if b, ok := unparen(loop.Cond).(*ast.BinaryExpr); ok && b.Op == token.LSS && c.src(b.X) == idx {
					if _, ok := isBuiltinCall(info, cdefs.resolve1(info, b.Y), "len"); ok {
						okRange = true
					}
				}
			}
			okInit := false
			if inc, ok := loop.Init.(*ast.IncDecStmt); ok && inc.Tok == token.INC && c.src(inc.X) == idx {
				okInit = true
			}
			if as, ok := loop.Init.(*ast.AssignStmt); ok && len(as.Rhs) == 1 {
				if b, ok := unparen(as.Rhs[0]).(*ast.BinaryExpr); ok && b.Op == token.ADD {
					if v, ok := constInt(info, b.Y); ok && v == 1 {
						okInit = true
					}
				}
			}
			c.Check(len(missing) == 0 && okRange && okInit, tryCleanupRule, fn+":abort-arm", loop.Pos(), "every remaining process (from the one after the failed command up to len) gets Stdout.Close, Stderr.Close and Deregister (missing: %v, covers-to-end=%v, starts-at-next=%v)", missing, okRange, okInit)
		}
	}
}

func (c *Ctx) checkTryDispatch() {
	pk := c.Pkg("lang")
	info := pk.TypesInfo
	rmPkg := c.Pkg("lang/runmode")
	if rmPkg == nil {
		c.Lost("R05d", "pkg:runmode", "lang/runmode not loaded")
		return
	}
	consts := enumConsts(rmPkg.Types, "RunMode")
	nameOf := func(e ast.Expr) string {
		v := constOf(info, e)
		if v == nil {
			return ""
		}
		for n, cv := range consts {
			if cv.ExactString() == v.ExactString() {
				return n
			}
		}
		return ""
	}
	// Fork.Execute
	if fd, _ := c.MustFunc("R05d", "lang", "Fork", "Execute"); fd != nil {
		var sw *ast.SwitchStmt
		ast.Inspect(fd.Body, func(n ast.Node) bool {
			if s, ok := n.(*ast.SwitchStmt); ok && s.Tag != nil && namedPath(info.TypeOf(s.Tag)) == mx("lang/runmode")+".RunMode" {
				sw = s
			}
			return true
		})
		if sw == nil {
			c.Lost("R05d", "Execute:switch", "no switch over RunMode")
		} else {
			n := 0
			for _, s := range sw.Body.List {
				cc := s.(*ast.CaseClause)
				// which scheduler + flag does this arm call, and is the result assigned to exitNum
				sched, flag, assigned := "", "", false
				ast.Inspect(cc, func(m ast.Node) bool {
					// `runModeNormal(procs)` as a statement: the scheduler runs, its result is dropped
					if es, isEs := m.(*ast.ExprStmt); isEs {
						if call, ok := es.X.(*ast.CallExpr); ok {
							if o := callee(info, call); o != nil && strings.HasPrefix(o.Name(), "runMode") {
								sched = o.Name()
								if len(call.Args) == 2 {
									if b, ok := constBool(info, call.Args[1]); ok {
										flag = fmt.Sprint(b)
									}
								}
							}
						}
					}
					as, isAs := m.(*ast.AssignStmt)
					if isAs && len(as.Rhs) == 1 {
						if call, ok := as.Rhs[0].(*ast.CallExpr); ok {
							if o := callee(info, call); o != nil && strings.HasPrefix(o.Name(), "runMode") {
								sched = o.Name()
								if len(call.Args) == 2 {
									if b, ok := constBool(info, call.Args[1]); ok {
										flag = fmt.Sprint(b)
									}
								}
								if id, ok := as.Lhs[0].(*ast.Ident); ok && id.Name != "_" {
									assigned = true
								}
							}
						}
					}
					return true
				})
				for _, e := range cc.List {
					name := nameOf(e)
					if name == "" {
						continue
					}
					n++
					wantSched, wantFlag, wantAssigned := "runModeNormal", "", true
					switch {
					case strings.HasSuffix(name, "TryPipeErr"):
						wantSched, wantFlag = "runModeTryPipe", "true"
					case strings.HasSuffix(name, "TryErr"):
						wantSched, wantFlag = "runModeTry", "true"
					case strings.HasSuffix(name, "TryPipe"):
						wantSched, wantFlag = "runModeTryPipe", "false"
					case strings.HasSuffix(name, "Try"):
						wantSched, wantFlag = "runModeTry", "false"
					case strings.HasSuffix(name, "Unsafe"):
						wantAssigned = false
					}
					c.Check(sched == wantSched && flag == wantFlag && assigned == wantAssigned, "R05d", "Execute:case:"+name, cc.Pos(),
						"run mode %s → %s(tryErr=%s) result-used=%v; expected %s(tryErr=%s) result-used=%v", name, sched, flag, assigned, wantSched, wantFlag, wantAssigned)
				}
			}
			c.MinCount("R05d", "run modes dispatched in Fork.Execute", n, 17)
		}
		// _TRY_EXIT_NUM=false, _TRY_STDERR=true are covered through constBool above
	}
	// compile's runmode strings
	if fd, _ := c.MustFunc("R05d", "lang", "", "compile"); fd != nil {
		n := 0
		// the run-mode variable: the local that compile stores into every procs[i].RunMode
		var rmObj types.Object
		ast.Inspect(fd.Body, func(m ast.Node) bool {
			if as, ok := m.(*ast.AssignStmt); ok && len(as.Lhs) == 1 && len(as.Rhs) == 1 {
				if se, ok := as.Lhs[0].(*ast.SelectorExpr); ok && se.Sel.Name == "RunMode" {
					if _, isIx := unparen(se.X).(*ast.IndexExpr); isIx {
						if id, ok := unparen(as.Rhs[0]).(*ast.Ident); ok {
							rmObj = info.ObjectOf(id)
						}
					}
				}
			}
			return true
		})
		if rmObj == nil {
			c.Undecided("R05d", "compile:runmode-variable", fd.Pos(), "compile does not store one local into procs[i].RunMode")
		}
		ast.Inspect(fd.Body, func(m ast.Node) bool {
			cc, ok := m.(*ast.CaseClause)
			if !ok || len(cc.List) != 1 {
				return true
			}
			s, ok := constString(info, cc.List[0])
			if !ok || !(strings.HasSuffix(s, " function") || strings.HasSuffix(s, " module")) {
				return true
			}
			parts := strings.Fields(s)
			if len(parts) != 2 {
				return true
			}
			want := map[string]string{"function": "Function", "module": "Module"}[parts[1]] +
				map[string]string{"unsafe": "Unsafe", "try": "Try", "trypipe": "TryPipe", "tryerr": "TryErr", "trypipeerr": "TryPipeErr"}[parts[0]]
			got := ""
			for _, st := range cc.Body {
				if as, ok := st.(*ast.AssignStmt); ok && len(as.Lhs) == 1 && len(as.Rhs) == 1 {
					if id, ok := as.Lhs[0].(*ast.Ident); ok && rmObj != nil && info.ObjectOf(id) == rmObj {
						got = nameOf(as.Rhs[0])
					}
				}
			}
			n++
			c.Check(got == want, "R05d", "compile:runmode:"+strings.ReplaceAll(s, " ", "-"), cc.Pos(), "`runmode %s` selects runmode.%s (got %s)", s, want, got)
			return true
		})
		c.MinCount("R05d", "runmode strings in compile", n, 10)
	}
	// builtins
	if sp := c.Pkg("builtins/core/structs"); sp != nil {
		sinfo := sp.TypesInfo
		want := map[string]string{"cmdTry": "BlockTry", "cmdTryPipe": "BlockTryPipe", "cmdTryErr": "BlockTryErr", "cmdTryPipeErr": "BlockTryPipeErr"}
		var names []string
		for k := range want {
			names = append(names, k)
		}
		sort.Strings(names)
		for _, fnName := range names {
			fd, _ := c.MustFunc("R05d", "builtins/core/structs", "", fnName)
			if fd == nil {
				continue
			}
			got := ""
			for _, call := range calls(fd.Body, false) {
				if callIs(sinfo, call, mx("builtins/core/structs"), "", "tryModes") && len(call.Args) == 2 {
					v := constOf(sinfo, call.Args[1])
					for n, cv := range consts {
						if v != nil && cv.ExactString() == v.ExactString() {
							got = n
						}
					}
				}
			}
			c.Check(got == want[fnName], "R05d", "builtin:"+fnName, fd.Pos(), "%s runs its block in runmode.%s (got %s)", fnName, want[fnName], got)
		}
		// registration names
		reg := map[string]string{"try": "cmdTry", "trypipe": "cmdTryPipe", "tryerr": "cmdTryErr", "trypipeerr": "cmdTryPipeErr"}
		found := map[string]string{}
		eachFunc(sp, func(fd *ast.FuncDecl) {
			if fd.Name.Name != "init" {
				return
			}
			for _, call := range calls(fd.Body, false) {
				if callIs(sinfo, call, mx("lang"), "", "DefineFunction") && len(call.Args) >= 2 {
					if s, ok := constString(sinfo, call.Args[0]); ok {
						if id, ok := call.Args[1].(*ast.Ident); ok {
							found[s] = id.Name
						}
					}
				}
			}
		})
		for name, f := range reg {
			c.Check(found[name] == f, "R05d", "register:"+name, token.NoPos, "builtin `%s` is registered to %s (got %q)", name, f, found[name])
		}
		// tryModes stores the mode into p.RunMode before forking and returns the fork's exit number
		if fd, _ := c.MustFunc("R05d", "builtins/core/structs", "", "tryModes"); fd != nil {
			setsMode, exec := false, false
			var param types.Object
			if fd.Type.Params != nil && len(fd.Type.Params.List) == 2 {
				param = sinfo.Defs[fd.Type.Params.List[1].Names[0]]
			}
			ast.Inspect(fd.Body, func(m ast.Node) bool {
				if as, ok := m.(*ast.AssignStmt); ok {
					for i, l := range as.Lhs {
						if se, ok := l.(*ast.SelectorExpr); ok && se.Sel.Name == "RunMode" && i < len(as.Rhs) {
							if id, ok := unparen(as.Rhs[i]).(*ast.Ident); ok && sinfo.ObjectOf(id) == param {
								setsMode = true
							}
						}
						if se, ok := l.(*ast.SelectorExpr); ok && se.Sel.Name == "ExitNum" && len(as.Rhs) == 1 {
							if call, ok := as.Rhs[0].(*ast.CallExpr); ok {
								if o := callee(sinfo, call); o != nil && o.Name() == "Execute" {
									exec = true
								}
							}
						}
					}
				}
				return true
			})
			c.Check(setsMode && exec, "R05d", "tryModes:wiring", fd.Pos(), "tryModes stores its run-mode argument in p.RunMode (%v) and sets p.ExitNum from the fork's Execute (%v)", setsMode, exec)
		}
	}
	// Process.Fork propagates p.RunMode / Scope.RunMode into the fork
	if fd, _ := c.MustFunc("R05d", "lang", "Process", "Fork"); fd != nil {
		n := 0
		fdefs := localDefs(info, fd.Body)
		ast.Inspect(fd.Body, func(m ast.Node) bool {
			if as, ok := m.(*ast.AssignStmt); ok && len(as.Lhs) == 1 && len(as.Rhs) == 1 {
				if l, ok := as.Lhs[0].(*ast.SelectorExpr); ok && l.Sel.Name == "RunMode" {
					if r, ok := fdefs.resolve1(info, as.Rhs[0]).(*ast.SelectorExpr); ok && r.Sel.Name == "RunMode" {
						n++
					} else if id, isID := unparen(as.Rhs[0]).(*ast.Ident); isID && len(fdefs[info.ObjectOf(id)]) > 1 {
						// one store of a local that was given the scope's mode and then, conditionally, the block's (R05g decides the precedence)
						for _, d := range fdefs[info.ObjectOf(id)] {
							if r, ok := unparen(d).(*ast.SelectorExpr); ok && d != nil && r.Sel.Name == "RunMode" {
								n++
							}
						}
					}
				}
			}
			return true
		})
		c.Check(n >= 2, "R05d", "Fork:propagates-runmode", fd.Pos(), "Process.Fork copies the parent's and the scope's RunMode into the fork (%d copies)", n)
	}
}
