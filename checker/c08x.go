package main

import (
	"go/ast"
)

func init() {
	extend("C08", func(c *Ctx) {
		c.Rule("R08g", "store side is verbatim: in lang.convertDataType the string form kept for a string / []byte / []rune value is the value itself or a plain type conversion of it — no trimming or other call (the single CR/LF trim happens on the read side only; trimming on both sides loses two line endings)")
		if c.Pkg("lang") == nil {
			c.Load("lang")
		}
		fd, pk := c.MustFunc("R08g", "lang", "", "convertDataType")
		if fd == nil {
			return
		}
		info := pk.TypesInfo
		n := 0
		ast.Inspect(fd.Body, func(nd ast.Node) bool {
			ts, ok := nd.(*ast.TypeSwitchStmt)
			if !ok {
				return true
			}
			var bound string
			if as, ok := ts.Assign.(*ast.AssignStmt); ok && len(as.Lhs) == 1 {
				if id, ok := as.Lhs[0].(*ast.Ident); ok {
					bound = id.Name
				}
			}
			for _, s := range ts.Body.List {
				cc := s.(*ast.CaseClause)
				textual := false
				for _, te := range cc.List {
					switch c.src(te) {
					case "string", "[]byte", "[]rune":
						textual = true
					}
				}
				if !textual {
					continue
				}
				k := 0
				ast.Inspect(cc, func(x ast.Node) bool {
					as, ok := x.(*ast.AssignStmt)
					if !ok || len(as.Lhs) != 1 || len(as.Rhs) != 1 {
						return true
					}
					id, ok := as.Lhs[0].(*ast.Ident)
					if !ok || id.Name != "convStr" {
						return true
					}
					n++
					k++
					v := stripConv(info, stripConv(info, as.Rhs[0]))
					vid, isId := v.(*ast.Ident)
					key := "convertDataType:" + c.src(cc.List[0]) + ":verbatim"
					if k > 1 {
						key += "#" + itoa(k)
					}
					c.Check(isId && vid.Name == bound, "R08g", key, as.Pos(), "the stored string form is the value itself (got %s)", c.src(as.Rhs[0]))
					return true
				})
			}
			return true
		})
		c.MinCount("R08g", "textual arms of convertDataType", n, 3)
	})
}
