package main

import (
	"go/ast"
	"go/types"
)

func init() {
	extend("C08", func(c *Ctx) {
		c.Rule("R08g", "store side is verbatim: in lang.convertDataType the string form kept for a string / []byte / []rune value is the value itself or a plain type conversion of it — no trimming or other call (the single CR/LF trim happens on the read side only; trimming on both sides loses two line endings)")
		if c.Pkg("lang") == nil {
			c.Load("lang")
		}
		fd, pk := c.MustFunc("R08g", "lang", "", "convertDataType")
		if fd == nil {
			return
		}
		info := pk.TypesInfo
		n := 0
		// the string form = the variable returned as result 0 (identified by object, not by its name)
		var strObj types.Object
		ast.Inspect(fd.Body, func(nd ast.Node) bool {
			if _, ok := nd.(*ast.FuncLit); ok {
				return false
			}
			if rs, ok := nd.(*ast.ReturnStmt); ok && len(rs.Results) == 3 {
				if id, ok := unparen(rs.Results[0]).(*ast.Ident); ok {
					strObj = info.ObjectOf(id)
				}
			}
			return true
		})
		if strObj == nil {
			c.Undecided("R08g", "convertDataType:string-result", fd.Pos(), "convertDataType does not return a local variable as its string result")
			return
		}
		isTextual := func(t types.Type) bool {
			if t == nil {
				return false
			}
			switch u := t.Underlying().(type) {
			case *types.Basic:
				return u.Kind() == types.String
			case *types.Slice:
				if b, ok := u.Elem().Underlying().(*types.Basic); ok {
					return b.Kind() == types.Byte || b.Kind() == types.Rune || b.Kind() == types.Uint8 || b.Kind() == types.Int32
				}
			}
			return false
		}
		ast.Inspect(fd.Body, func(nd ast.Node) bool {
			ts, ok := nd.(*ast.TypeSwitchStmt)
			if !ok {
				return true
			}
			for _, s := range ts.Body.List {
				cc := s.(*ast.CaseClause)
				textual := false
				for _, te := range cc.List {
					if tv, ok := info.Types[te]; ok && tv.IsType() && isTextual(tv.Type) {
						textual = true
					}
				}
				if !textual {
					continue
				}
				bound := info.Implicits[cc] // the switch variable as bound in this arm
				k := 0
				ast.Inspect(cc, func(x ast.Node) bool {
					as, ok := x.(*ast.AssignStmt)
					if !ok || len(as.Lhs) != 1 || len(as.Rhs) != 1 {
						return true
					}
					id, ok := as.Lhs[0].(*ast.Ident)
					if !ok || info.ObjectOf(id) != strObj {
						return true
					}
					n++
					k++
					v := stripConv(info, stripConv(info, as.Rhs[0]))
					vid, isId := v.(*ast.Ident)
					key := "convertDataType:" + c.src(cc.List[0]) + ":verbatim"
					if k > 1 {
						key += "#" + itoa(k)
					}
					c.Check(isId && bound != nil && info.ObjectOf(vid) == bound, "R08g", key, as.Pos(), "the stored string form is the value itself (got %s)", c.src(as.Rhs[0]))
					return true
				})
			}
			return true
		})
		c.MinCount("R08g", "textual arms of convertDataType", n, 3)
	})
}
