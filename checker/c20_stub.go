package main

// c20bHook is wired (by the integrator) to (*Ctx).c20bHighlighter, the
// highlighter half of C20 (rule R20b, utils/parser) that lives in c20b.go.
// It is a variable so that c20.go builds and runs without c20b.go.
var c20bHook func(c *Ctx, rule string)
