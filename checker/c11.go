package main

import (
	"go/ast"
	"go/token"
	"go/types"
	"strings"
)

func init() {
	register("C11", "Decides structural necessary conditions of per-call variable scoping: Process.Fork gives a fresh variable table exactly in its F_FUNCTION arm and the caller's table in every other arm; both function arms of executeProcess fork with F_FUNCTION; every lookup (value, string, data type) consults the receiver's own table, then the global table, then the environment, each step reached only when the previous one missed, and a global table answers from itself only; Unset deletes from the receiver's table only; the `global`/`!global` builtins act on the global table and `set`/`!set` on the caller's; all accesses to the table hold its mutex. Does NOT decide reserved names, module variables or scope-stack behaviour over whole histories.", runC11)
}

var variablesT = mx("lang") + ".Variables"

func runC11(c *Ctx) {
	c.Load("lang", "builtins/core/typemgmt")
	pk := c.Pkg("lang")
	info := pk.TypesInfo

	c.Rule("R11e", "E1 lockset: Variables.vars is accessed only with Variables.mutex held (constructors exempt)")
	n := c.runLockset("R11e", LockSpec{Pkg: "lang", Type: "Variables", Mutex: "mutex", Fields: []string{"vars"}})
	c.MinCount("R11e", "guarded accesses to Variables.vars", n, 16)

	c.Rule("R11a", "Process.Fork: the F_FUNCTION arm stores NewVariables(fork.Process) into fork.Variables (and nothing else after it); in every other arm the last store to fork.Variables is p.Variables")
	if fd, _ := c.MustFunc("R11a", "lang", "Process", "Fork"); fd != nil {
		r11defs := localDefs(info, fd.Body)
		c.checkForkScoping(info, fd, "Variables", "R11a", func(rhs ast.Expr) string {
			rhs = r11defs.resolve1(info, rhs) // a table kept in a local defined once (locals := NewVariables(fork.Process); parentTable := p.Variables)
			if call, ok := unparen(rhs).(*ast.CallExpr); ok && callIs(info, call, mx("lang"), "", "NewVariables") {
				if len(call.Args) == 1 {
					if se, ok := r11defs.resolve1(info, call.Args[0]).(*ast.SelectorExpr); ok && se.Sel.Name == "Process" { // fork.Process or proc := fork.Process
						if id, ok := unparen(se.X).(*ast.Ident); ok && info.ObjectOf(id) != nil && info.ObjectOf(id) == forkResultObj(info, fd) {
							return "fresh"
						}
					}
				}
				return "fresh(other process)"
			}
			if se, ok := unparen(rhs).(*ast.SelectorExpr); ok && se.Sel.Name == "Variables" {
				if id, ok := se.X.(*ast.Ident); ok && id.Name == recvVar(fd) {
					return "parent"
				}
			}
			return "other:" + c.src(rhs)
		})
	}

	c.Rule("R11b", "executeProcess: the private-function arm and the murex-function arm fork with F_FUNCTION set (constant flags)")
	if fd, _ := c.MustFunc("R11b", "lang", "", "executeProcess"); fd != nil {
		F := c.forkFlagConsts()
		nf := 0
		defs := localDefs(info, fd.Body)
		ast.Inspect(fd.Body, func(nd ast.Node) bool {
			call, ok := nd.(*ast.CallExpr)
			if !ok || !callIs(info, call, mx("lang"), "Process", "Fork") || len(call.Args) != 1 {
				return true
			}
			nf++
			v, okc := constInt(info, defs.resolve1(info, call.Args[0])) // constant flags, possibly named by a single-definition local
			c.Check(okc && v&F["F_FUNCTION"] != 0, "R11b", "executeProcess:fork#"+itoa(nf), call.Pos(), "function call forks with F_FUNCTION (flags %s)", c.src(call.Args[0]))
			return true
		})
		c.MinCount("R11b", "forks in executeProcess", nf, 2)
	}

	c.Rule("R11c", "lookup order and sibling agreement: getValue, getString and getDataType each consult the receiver's table, then GlobalVariables, then os.LookupEnv; the global lookup is reached only after the own lookup missed, the environment only after the global lookup missed; `if v.global` answers from the own table only, before the global table is consulted")
	for _, fn := range []struct{ name, helper string }{{"getValue", "getValueValue"}, {"getString", "getStringValue"}, {"getDataType", "getDataTypeValue"}} {
		fd, _ := c.MustFunc("R11c", "lang", "Variables", fn.name)
		if fd == nil {
			continue
		}
		c.checkLookupOrder(info, fd, fn.helper)
	}

	c.Rule("R11d", "who-may-write: Unset deletes only from the receiver's own table under an existence check; deletes from Variables.vars happen nowhere else; `global`/`!global` pass lang.GlobalVariables and `set`/`!set` pass p.Variables to the shared implementation")
	nDel := 0
	eachFunc(pk, func(fd *ast.FuncDecl) {
		for _, call := range calls(fd.Body, true) {
			if dc, ok := isBuiltinCall(info, call, "delete"); ok && len(dc.Args) == 2 && isField(info, dc.Args[0], variablesT, "vars") {
				nDel++
				okRecv := recvName(fd) == "Variables" && fd.Name.Name == "Unset" && selPath(dc.Args[0]) == recvVar(fd)+".vars"
				c.Check(okRecv, "R11d", "delete@"+fd.Name.Name, call.Pos(), "delete from a variable table only in (*Variables).Unset on the receiver's own table (got %s in %s)", c.src(call), fd.Name.Name)
			}
		}
	})
	c.MinCount("R11d", "deletes from Variables.vars", nDel, 1)
	if tp := c.Pkg("builtins/core/typemgmt"); tp != nil {
		tinfo := tp.TypesInfo
		want := map[string][2]string{"cmdSet": {"set", "p.Variables"}, "cmdGlobal": {"set", "lang.GlobalVariables"}, "cmdUnset": {"unset", "p.Variables"}, "cmdUnglobal": {"unset", "lang.GlobalVariables"}}
		for name, w := range want {
			fd, _ := c.MustFunc("R11d", "builtins/core/typemgmt", "", name)
			if fd == nil {
				continue
			}
			got, gotSrc := "", ""
			for _, call := range calls(fd.Body, false) {
				if callIs(tinfo, call, mx("builtins/core/typemgmt"), "", w[0]) && len(call.Args) == 2 {
					gotSrc = c.src(call.Args[1])
					got = "other:" + gotSrc
					arg := unparen(call.Args[1])
					if isPkgObj(tinfo, arg, mx("lang"), "GlobalVariables") {
						got = "lang.GlobalVariables"
					} else if se, ok := arg.(*ast.SelectorExpr); ok && isField(tinfo, se, mx("lang")+".Process", "Variables") {
						// the calling process's own table: <first parameter>.Variables
						if id, ok := unparen(se.X).(*ast.Ident); ok && isParam(tinfo, fd, id) {
							got = "p.Variables"
						}
					}
				}
			}
			c.Check(got == w[1], "R11d", "builtin:"+name, fd.Pos(), "%s calls %s(p, %s) (got %q)", name, w[0], w[1], gotSrc)
		}
		// registration
		reg := map[string]string{"set": "cmdSet", "!set": "cmdUnset", "global": "cmdGlobal", "!global": "cmdUnglobal"}
		found := map[string]string{}
		eachFunc(tp, func(fd *ast.FuncDecl) {
			if fd.Name.Name != "init" {
				return
			}
			for _, call := range calls(fd.Body, false) {
				if o := callee(tinfo, call); o != nil && strings.HasPrefix(o.Name(), "DefineFunction") || o != nil && strings.HasPrefix(o.Name(), "DefineMethod") {
					if len(call.Args) >= 2 {
						if s, ok := constString(tinfo, call.Args[0]); ok {
							if id, ok := call.Args[1].(*ast.Ident); ok {
								found[s] = id.Name
							}
						}
					}
				}
			}
		})
		for name, f := range reg {
			c.Check(found[name] == f, "R11d", "register:"+name, token.NoPos, "builtin `%s` is registered to %s (got %q)", name, f, found[name])
		}
		// unset() calls v.Unset on the table it was given; set() calls v.Set on it
		for _, w := range [][2]string{{"unset", "Unset"}, {"set", "Set"}} {
			fd, _ := c.MustFunc("R11d", "builtins/core/typemgmt", "", w[0])
			if fd == nil {
				continue
			}
			var tbl types.Object
			if fd.Type.Params != nil {
				var ps []types.Object
				for _, f := range fd.Type.Params.List {
					for _, nm := range f.Names {
						ps = append(ps, tinfo.Defs[nm])
					}
				}
				if len(ps) == 2 {
					tbl = ps[1]
				}
			}
			ok, other := false, ""
			for _, call := range calls(fd.Body, true) {
				if o := callee(tinfo, call); o != nil && o.Name() == w[1] && o.Pkg() != nil && o.Pkg().Path() == mx("lang") {
					if se, isS := call.Fun.(*ast.SelectorExpr); isS {
						if id, isI := unparen(se.X).(*ast.Ident); isI && tinfo.ObjectOf(id) == tbl {
							ok = true
						} else {
							other = c.src(se.X)
						}
					}
				}
			}
			c.Check(ok && other == "", "R11d", "impl:"+w[0], fd.Pos(), "%s() applies %s to the table it was given and to no other table %s", w[0], w[1], other)
		}
	}
	// Unset: existence check + error for missing
	if fd, _ := c.MustFunc("R11d", "lang", "Variables", "Unset"); fd != nil {
		errOnMissing := false
		walkStack(fd.Body, func(nd ast.Node, stack []ast.Node) bool {
			rs, ok := nd.(*ast.ReturnStmt)
			if !ok || len(rs.Results) != 1 {
				return true
			}
			if id, ok := unparen(rs.Results[0]).(*ast.Ident); ok && id.Name == "nil" {
				return true
			}
			for _, f := range factsOf(guardsAt(info, stack)) {
				// `x == nil` known true or `x != nil` known false, nil on either side
				if _, isNil, ok := nilTestFact(info, f); ok && isNil {
					errOnMissing = true
				}
			}
			return true
		})
		c.Check(errOnMissing, "R11d", "Unset:missing-is-error", fd.Pos(), "Unset of a name that is not in this scope returns an error (it does not fall through to another scope)")
		// … and it reaches no other table: no method of *Variables is called from Unset and no
		// package-level *Variables (GlobalVariables) is mentioned in it.
		other := ""
		ast.Inspect(fd.Body, func(nd ast.Node) bool {
			switch x := nd.(type) {
			case *ast.CallExpr:
				if fn, ok := callee(info, x).(*types.Func); ok {
					if sig := fn.Type().(*types.Signature); sig.Recv() != nil && namedName(sig.Recv().Type()) == "Variables" && fn.Pkg() != nil && fn.Pkg().Path() == mx("lang") {
						other = c.src(x)
					}
				}
			case *ast.Ident:
				if v, ok := info.Uses[x].(*types.Var); ok && v.Parent() == v.Pkg().Scope() && namedName(v.Type()) == "Variables" {
					other = x.Name
				}
			}
			return true
		})
		c.Check(other == "", "R11d", "Unset:own-table-only", fd.Pos(), "Unset touches no variable table but its receiver's: it calls no method of *Variables and mentions no package-level table (found %q) — `!set x` in a function must never remove the global or the caller's x", other)
	}
}

// forkBranch is the `if flags&F_FUNCTION != 0 {…} else {…}` of Process.Fork, recognised semantically.
type forkBranch struct {
	fnIf            *ast.IfStmt
	fnArm, otherArm ast.Node
	isFork          func(ast.Expr) bool // e is the fork under construction (the variable Fork returns)
	defs            defMap
}

// forkFunctionBranch finds the branch on the F_FUNCTION bit: recognised by what the condition computes (a test of
// that bit of an integer expression against 0 or against the bit itself, in either operand order, possibly
// negated or named by a single-definition local), not by its text. Reports anchor-lost / undecided itself.
func (c *Ctx) forkFunctionBranch(info *types.Info, fd *ast.FuncDecl, rule string) *forkBranch {
	var fnIf *ast.IfStmt
	pol := true // cond true ⇒ F_FUNCTION set
	defs := localDefs(info, fd.Body)
	bit := c.forkFlagConsts()["F_FUNCTION"]
	for _, s := range fd.Body.List {
		if is, ok := s.(*ast.IfStmt); ok {
			if p, ok := flagBitTest(info, defs, is.Cond, bit); ok {
				fnIf, pol = is, p
			}
		}
	}
	if fnIf == nil {
		c.Lost(rule, "Fork:F_FUNCTION-branch", "no top-level `if flags&F_FUNCTION != 0` in Process.Fork")
		return nil
	}
	// the fork under construction: the variable the function returns (whatever it is called)
	forkObj := forkResultObj(info, fd)
	isFork := func(e ast.Expr) bool {
		id, ok := unparen(e).(*ast.Ident)
		if !ok {
			return false
		}
		if forkObj != nil {
			return info.ObjectOf(id) == forkObj
		}
		return id.Name == "fork"
	}
	fnArm, otherArm := ast.Node(fnIf.Body), fnIf.Else
	if !pol {
		fnArm, otherArm = fnIf.Else, fnIf.Body
	}
	if fnArm == nil || otherArm == nil {
		c.Undecided(rule, "Fork:arms", fnIf.Pos(), "F_FUNCTION branch has no else arm")
		return nil
	}
	return &forkBranch{fnIf: fnIf, fnArm: fnArm, otherArm: otherArm, isFork: isFork, defs: defs}
}

// storePath: the classified stores to fork.<field> along one syntactic path through a block, with the branch
// conditions taken on that path as atomic facts.
type storePath struct {
	stores []string
	facts  []Fact
}

func (p storePath) last() string {
	if len(p.stores) == 0 {
		return ""
	}
	return p.stores[len(p.stores)-1]
}

// storePaths enumerates the paths through n (if/else and switch arms; flattened per leaf block).
func (fb *forkBranch) storePaths(n ast.Node, field string, classify func(ast.Expr) string) []storePath {
	var out []storePath
	var walk func(list []ast.Stmt, acc []string, facts []Fact)
	with := func(facts []Fact, gs ...Guard) []Fact {
		return append(append([]Fact(nil), facts...), factsOf(gs)...)
	}
	walk = func(list []ast.Stmt, acc []string, facts []Fact) {
		for i, s := range list {
			switch x := s.(type) {
			case *ast.AssignStmt:
				for k, l := range x.Lhs {
					if se, ok := l.(*ast.SelectorExpr); ok && se.Sel.Name == field && k < len(x.Rhs) {
						if fb.isFork(se.X) {
							acc = append(append([]string(nil), acc...), classify(x.Rhs[k]))
						}
					}
				}
			case *ast.IfStmt:
				rest := list[i+1:]
				thenL := append(append([]ast.Stmt(nil), x.Body.List...), rest...)
				walk(thenL, acc, with(facts, Guard{Cond: x.Cond}))
				var elseL []ast.Stmt
				switch e := x.Else.(type) {
				case *ast.BlockStmt:
					elseL = append(append([]ast.Stmt(nil), e.List...), rest...)
				case *ast.IfStmt:
					elseL = append([]ast.Stmt{e}, rest...)
				default:
					elseL = rest
				}
				walk(elseL, acc, with(facts, Guard{Cond: x.Cond, Neg: true}))
				return
			case *ast.SwitchStmt:
				rest := list[i+1:]
				hasDefault := false
				var negs []Guard // a tagless switch: the earlier cases were false
				for _, cs := range x.Body.List {
					if cc := cs.(*ast.CaseClause); x.Tag == nil {
						for _, e := range cc.List {
							negs = append(negs, Guard{Cond: e, Neg: true})
						}
					}
				}
				var earlier []Guard
				for _, cs := range x.Body.List {
					cc := cs.(*ast.CaseClause)
					gs := append([]Guard(nil), earlier...)
					if cc.List == nil {
						hasDefault = true
						gs = negs
					} else if x.Tag == nil {
						if len(cc.List) == 1 {
							gs = append(gs, Guard{Cond: cc.List[0]})
						}
						for _, e := range cc.List {
							earlier = append(earlier, Guard{Cond: e, Neg: true})
						}
					}
					walk(append(append([]ast.Stmt(nil), cc.Body...), rest...), acc, with(facts, gs...))
				}
				if !hasDefault {
					walk(rest, acc, with(facts, negs...))
				}
				return
			}
		}
		out = append(out, storePath{acc, facts})
	}
	if b, ok := n.(*ast.BlockStmt); ok {
		walk(b.List, nil, nil)
	}
	return out
}

// laterStore: fork.<field> is assigned after the F_FUNCTION branch.
func (fb *forkBranch) laterStore(fd *ast.FuncDecl, field string) bool {
	after := false
	seen := false
	for _, s := range fd.Body.List {
		if s == ast.Stmt(fb.fnIf) {
			seen = true
			continue
		}
		if !seen {
			continue
		}
		ast.Inspect(s, func(n ast.Node) bool {
			if as, ok := n.(*ast.AssignStmt); ok {
				for _, l := range as.Lhs {
					if se, ok := l.(*ast.SelectorExpr); ok && se.Sel.Name == field {
						if fb.isFork(se.X) {
							after = true
						}
					}
				}
			}
			return true
		})
	}
	return after
}

// checkForkScoping: per arm of `if flags&F_FUNCTION != 0 {…} else {…}` classify
// the last store to fork.<field>.
func (c *Ctx) checkForkScoping(info *types.Info, fd *ast.FuncDecl, field, rule string, classify func(ast.Expr) string) {
	fb := c.forkFunctionBranch(info, fd, rule)
	if fb == nil {
		return
	}
	lasts := func(ps []storePath) (out [][]string) {
		for _, p := range ps {
			out = append(out, p.stores)
		}
		return
	}
	okFn := true
	pathsFn := fb.storePaths(fb.fnArm, field, classify)
	for _, p := range pathsFn {
		if p.last() != "fresh" {
			okFn = false
		}
	}
	c.Check(okFn && len(pathsFn) > 0, rule, "Fork:F_FUNCTION-arm:"+field, fb.fnArm.Pos(), "every path through the F_FUNCTION arm ends with fork.%s = <fresh for the fork> (paths: %v)", field, lasts(pathsFn))
	okOther := true
	pathsO := fb.storePaths(fb.otherArm, field, classify)
	for _, p := range pathsO {
		if p.last() != "parent" {
			okOther = false
		}
	}
	c.Check(okOther && len(pathsO) > 0, rule, "Fork:other-arms:"+field, fb.otherArm.Pos(), "every path through the non-function arms ends with fork.%s = p.%s (%d paths: %v)", field, field, len(pathsO), lasts(pathsO))
	c.Check(!fb.laterStore(fd, field), rule, "Fork:no-later-store:"+field, fb.fnIf.End(), "fork.%s is not reassigned after the F_FUNCTION branch", field)
}

func (c *Ctx) checkLookupOrder(info *types.Info, fd *ast.FuncDecl, helper string) {
	name := fd.Name.Name
	rv := recvVar(fd)
	var ownCalls, globCalls, envCalls []*ast.CallExpr
	stacks := map[*ast.CallExpr][]ast.Node{}
	walkStack(fd.Body, func(nd ast.Node, stack []ast.Node) bool {
		call, ok := nd.(*ast.CallExpr)
		if !ok {
			return true
		}
		if callIs(info, call, mx("lang"), "Variables", helper) {
			se := call.Fun.(*ast.SelectorExpr)
			switch {
			case selPath(se.X) == rv:
				ownCalls = append(ownCalls, call)
			case isPkgObj(info, se.X, mx("lang"), "GlobalVariables"):
				globCalls = append(globCalls, call)
			default:
				c.Viol("R11c", name+":lookup-in-other-table", call.Pos(), "%s looks the name up in %s — neither the receiver's table nor the global table", name, c.src(se.X))
			}
			stacks[call] = append([]ast.Node(nil), stack...)
		}
		if o := callee(info, call); o != nil && o.Pkg() != nil && o.Pkg().Path() == "os" && o.Name() == "LookupEnv" {
			envCalls = append(envCalls, call)
			stacks[call] = append([]ast.Node(nil), stack...)
		}
		return true
	})
	if len(ownCalls) == 0 || len(globCalls) != 1 || len(envCalls) != 1 {
		c.Viol("R11c", name+":three-sources", fd.Pos(), "%s must consult the own table (found %d), the global table exactly once (found %d) and the environment exactly once (found %d)", name, len(ownCalls), len(globCalls), len(envCalls))
		return
	}
	glob, env := globCalls[0], envCalls[0]
	defs := localDefs(info, fd.Body)
	// result variables of a lookup call: the assignment statement holding it
	resultVars := func(call *ast.CallExpr) []types.Object {
		var out []types.Object
		st := stacks[call]
		for i := len(st) - 1; i >= 0; i-- {
			if as, ok := st[i].(*ast.AssignStmt); ok {
				for _, l := range as.Lhs {
					if id, ok := l.(*ast.Ident); ok {
						out = append(out, info.ObjectOf(id))
					}
				}
				break
			}
		}
		return out
	}
	_ = defs
	// miss(call) established at node `at`: among the structural guards of `at` (enclosing if/else/switch arms and
	// earlier `if c { return }` exits of every enclosing block — guardsAt) there is a fact that says the lookup
	// missed — `<result> != nil` / `<exists>` known FALSE or `<result> == nil` known TRUE, nil on either side —
	// whose test is evaluated after the call, with no other assignment to that result variable between the test
	// and `at`. This covers the early-return chain, the if-with-init form and the nested `if v == nil { v = next }`.
	missBefore := func(call *ast.CallExpr, at *ast.CallExpr) bool {
		rvs := resultVars(call)
		isRes := func(e ast.Expr) types.Object {
			if id, ok := unparen(e).(*ast.Ident); ok {
				for _, o := range rvs {
					if o != nil && info.ObjectOf(id) == o {
						return o
					}
				}
			}
			return nil
		}
		for _, f := range factsOf(guardsAt(info, stacks[at])) {
			var o types.Object
			if x, isNil, ok := nilTestFact(info, f); ok {
				if isNil {
					o = isRes(x)
				}
			} else if !f.True {
				o = isRes(f.E)
			}
			if o == nil || f.E.Pos() < call.End() || f.E.End() > at.Pos() {
				continue
			}
			// no other assignment to the result variable between the test and the later lookup
			clobbered := false
			ast.Inspect(fd.Body, func(n ast.Node) bool {
				if as, ok := n.(*ast.AssignStmt); ok && as.Pos() > f.E.End() && as.End() <= at.Pos() {
					for _, l := range as.Lhs {
						if id, ok := l.(*ast.Ident); ok && info.ObjectOf(id) == o {
							clobbered = true
						}
					}
				}
				return true
			})
			if !clobbered {
				return true
			}
		}
		return false
	}
	// the own call that precedes the global call at top level and is not in the v.global arm
	var ownMain *ast.CallExpr
	var ownGlobalArm *ast.CallExpr
	for _, oc := range ownCalls {
		inGlobalArm := false
		for _, f := range factsOf(guardsAt(info, stacks[oc])) {
			if se, ok := unparen(f.E).(*ast.SelectorExpr); ok && se.Sel.Name == "global" && f.True && selPath(se.X) == rv {
				inGlobalArm = true
			}
		}
		if inGlobalArm {
			ownGlobalArm = oc
		} else if ownMain == nil {
			ownMain = oc
		}
	}
	if ownMain == nil {
		c.Viol("R11c", name+":own-first", fd.Pos(), "%s has no lookup in the receiver's own table outside the `global` arm", name)
		return
	}
	c.Check(missBefore(ownMain, glob), "R11c", name+":own-before-global", glob.Pos(), "%s consults GlobalVariables only after the receiver's own table missed (a local shadows the global)", name)
	c.Check(missBefore(glob, env), "R11c", name+":global-before-env", env.Pos(), "%s consults the environment only after the global table missed", name)
	// the v.global arm returns from the own table before the global lookup
	okArm := false
	if ownGlobalArm != nil {
		st := stacks[ownGlobalArm]
		for i := len(st) - 1; i >= 0; i-- {
			if is, ok := st[i].(*ast.IfStmt); ok && terminates(info, is.Body.List) && topLevelIndex(fd.Body.List, is) >= 0 && topLevelIndex(fd.Body.List, is) < topLevelIndex(fd.Body.List, glob) {
				okArm = true
			}
		}
	}
	c.Check(okArm, "R11c", name+":global-table-answers-itself", fd.Pos(), "when the receiver is the global table, %s answers from its own table and returns before any other source", name)
}

// flagBitTest: cond (through parentheses, `!` and single-definition locals) tests one bit of an integer
// expression: `x&BIT != 0`, `x&BIT == 0`, `x&BIT == BIT`, `x&BIT != BIT`, operands in either order. pol is
// true when a true condition means the bit is set.
func flagBitTest(info *types.Info, defs defMap, cond ast.Expr, bit int64) (pol, ok bool) {
	e := defs.resolve1(info, cond)
	if u, isU := e.(*ast.UnaryExpr); isU && u.Op == token.NOT {
		p, ok := flagBitTest(info, defs, u.X, bit)
		return !p, ok
	}
	b, isB := e.(*ast.BinaryExpr)
	if !isB || (b.Op != token.EQL && b.Op != token.NEQ) {
		return false, false
	}
	for _, pr := range [][2]ast.Expr{{b.X, b.Y}, {b.Y, b.X}} {
		k, isC := constInt(info, pr[1])
		and, isA := unparen(pr[0]).(*ast.BinaryExpr)
		if !isC || !isA || and.Op != token.AND {
			continue
		}
		m1, c1 := constInt(info, and.X)
		m2, c2 := constInt(info, and.Y)
		if !(c1 && !c2 && m1 == bit) && !(c2 && !c1 && m2 == bit) {
			continue
		}
		switch k {
		case 0:
			return b.Op == token.NEQ, true
		case bit:
			return b.Op == token.EQL, true
		}
	}
	return false, false
}

// forkResultObj: the local variable a constructor-like function returns (`return fork` as its last statement).
func forkResultObj(info *types.Info, fd *ast.FuncDecl) types.Object {
	if fd.Body == nil || len(fd.Body.List) == 0 {
		return nil
	}
	if rs, ok := fd.Body.List[len(fd.Body.List)-1].(*ast.ReturnStmt); ok && len(rs.Results) == 1 {
		if id, ok := unparen(rs.Results[0]).(*ast.Ident); ok {
			return info.ObjectOf(id)
		}
	}
	return nil
}

// nilTestFact: the fact is a comparison of some operand with nil (nil on either side); isNil says whether the
// fact establishes operand == nil (`x == nil` known true, or `x != nil` known false).
func nilTestFact(info *types.Info, f Fact) (operand ast.Expr, isNil, ok bool) {
	b, isB := unparen(f.E).(*ast.BinaryExpr)
	if !isB || (b.Op != token.EQL && b.Op != token.NEQ) {
		return nil, false, false
	}
	isNilId := func(e ast.Expr) bool {
		id, ok := unparen(e).(*ast.Ident)
		if !ok {
			return false
		}
		_, isN := info.ObjectOf(id).(*types.Nil)
		return isN
	}
	x, y := unparen(b.X), unparen(b.Y)
	if isNilId(x) {
		x, y = y, x
	}
	if !isNilId(y) || isNilId(x) {
		return nil, false, false
	}
	return x, (b.Op == token.EQL) == f.True, true
}
