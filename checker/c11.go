package main

import (
	"go/ast"
	"go/token"
	"go/types"
	"strings"
)

func init() {
	register("C11", "Decides structural necessary conditions of per-call variable scoping: Process.Fork gives a fresh variable table exactly in its F_FUNCTION arm and the caller's table in every other arm; both function arms of executeProcess fork with F_FUNCTION; every lookup (value, string, data type) consults the receiver's own table, then the global table, then the environment, each step reached only when the previous one missed, and a global table answers from itself only; Unset deletes from the receiver's table only; the `global`/`!global` builtins act on the global table and `set`/`!set` on the caller's; all accesses to the table hold its mutex. Does NOT decide reserved names, module variables or scope-stack behaviour over whole histories.", runC11)
}

var variablesT = mx("lang") + ".Variables"

func runC11(c *Ctx) {
	c.Load("lang", "builtins/core/typemgmt")
	pk := c.Pkg("lang")
	info := pk.TypesInfo

	c.Rule("R11e", "E1 lockset: Variables.vars is accessed only with Variables.mutex held (constructors exempt)")
	n := c.runLockset("R11e", LockSpec{Pkg: "lang", Type: "Variables", Mutex: "mutex", Fields: []string{"vars"}})
	c.MinCount("R11e", "guarded accesses to Variables.vars", n, 16)

	c.Rule("R11a", "Process.Fork: the F_FUNCTION arm stores NewVariables(fork.Process) into fork.Variables (and nothing else after it); in every other arm the last store to fork.Variables is p.Variables")
	if fd, _ := c.MustFunc("R11a", "lang", "Process", "Fork"); fd != nil {
		c.checkForkScoping(info, fd, "Variables", "R11a", func(rhs ast.Expr) string {
			if call, ok := unparen(rhs).(*ast.CallExpr); ok && callIs(info, call, mx("lang"), "", "NewVariables") {
				if len(call.Args) == 1 && strings.HasSuffix(c.src(call.Args[0]), ".Process") {
					return "fresh"
				}
				return "fresh(other process)"
			}
			if se, ok := unparen(rhs).(*ast.SelectorExpr); ok && se.Sel.Name == "Variables" {
				if id, ok := se.X.(*ast.Ident); ok && id.Name == recvVar(fd) {
					return "parent"
				}
			}
			return "other:" + c.src(rhs)
		})
	}

	c.Rule("R11b", "executeProcess: the private-function arm and the murex-function arm fork with F_FUNCTION set (constant flags)")
	if fd, _ := c.MustFunc("R11b", "lang", "", "executeProcess"); fd != nil {
		F := c.forkFlagConsts()
		nf := 0
		ast.Inspect(fd.Body, func(nd ast.Node) bool {
			call, ok := nd.(*ast.CallExpr)
			if !ok || !callIs(info, call, mx("lang"), "Process", "Fork") || len(call.Args) != 1 {
				return true
			}
			nf++
			v, okc := constInt(info, call.Args[0])
			c.Check(okc && v&F["F_FUNCTION"] != 0, "R11b", "executeProcess:fork#"+itoa(nf), call.Pos(), "function call forks with F_FUNCTION (flags %s)", c.src(call.Args[0]))
			return true
		})
		c.MinCount("R11b", "forks in executeProcess", nf, 2)
	}

	c.Rule("R11c", "lookup order and sibling agreement: getValue, getString and getDataType each consult the receiver's table, then GlobalVariables, then os.LookupEnv; the global lookup is reached only after the own lookup missed, the environment only after the global lookup missed; `if v.global` answers from the own table only, before the global table is consulted")
	for _, fn := range []struct{ name, helper string }{{"getValue", "getValueValue"}, {"getString", "getStringValue"}, {"getDataType", "getDataTypeValue"}} {
		fd, _ := c.MustFunc("R11c", "lang", "Variables", fn.name)
		if fd == nil {
			continue
		}
		c.checkLookupOrder(info, fd, fn.helper)
	}

	c.Rule("R11d", "who-may-write: Unset deletes only from the receiver's own table under an existence check; deletes from Variables.vars happen nowhere else; `global`/`!global` pass lang.GlobalVariables and `set`/`!set` pass p.Variables to the shared implementation")
	nDel := 0
	eachFunc(pk, func(fd *ast.FuncDecl) {
		for _, call := range calls(fd.Body, true) {
			if dc, ok := isBuiltinCall(info, call, "delete"); ok && len(dc.Args) == 2 && isField(info, dc.Args[0], variablesT, "vars") {
				nDel++
				okRecv := recvName(fd) == "Variables" && fd.Name.Name == "Unset" && selPath(dc.Args[0]) == recvVar(fd)+".vars"
				c.Check(okRecv, "R11d", "delete@"+fd.Name.Name, call.Pos(), "delete from a variable table only in (*Variables).Unset on the receiver's own table (got %s in %s)", c.src(call), fd.Name.Name)
			}
		}
	})
	c.MinCount("R11d", "deletes from Variables.vars", nDel, 1)
	if tp := c.Pkg("builtins/core/typemgmt"); tp != nil {
		tinfo := tp.TypesInfo
		want := map[string][2]string{"cmdSet": {"set", "p.Variables"}, "cmdGlobal": {"set", "lang.GlobalVariables"}, "cmdUnset": {"unset", "p.Variables"}, "cmdUnglobal": {"unset", "lang.GlobalVariables"}}
		for name, w := range want {
			fd, _ := c.MustFunc("R11d", "builtins/core/typemgmt", "", name)
			if fd == nil {
				continue
			}
			got := ""
			for _, call := range calls(fd.Body, false) {
				if callIs(tinfo, call, mx("builtins/core/typemgmt"), "", w[0]) && len(call.Args) == 2 {
					got = c.src(call.Args[1])
				}
			}
			c.Check(got == w[1], "R11d", "builtin:"+name, fd.Pos(), "%s calls %s(p, %s) (got %q)", name, w[0], w[1], got)
		}
		// registration
		reg := map[string]string{"set": "cmdSet", "!set": "cmdUnset", "global": "cmdGlobal", "!global": "cmdUnglobal"}
		found := map[string]string{}
		eachFunc(tp, func(fd *ast.FuncDecl) {
			if fd.Name.Name != "init" {
				return
			}
			for _, call := range calls(fd.Body, false) {
				if o := callee(tinfo, call); o != nil && strings.HasPrefix(o.Name(), "DefineFunction") || o != nil && strings.HasPrefix(o.Name(), "DefineMethod") {
					if len(call.Args) >= 2 {
						if s, ok := constString(tinfo, call.Args[0]); ok {
							if id, ok := call.Args[1].(*ast.Ident); ok {
								found[s] = id.Name
							}
						}
					}
				}
			}
		})
		for name, f := range reg {
			c.Check(found[name] == f, "R11d", "register:"+name, token.NoPos, "builtin `%s` is registered to %s (got %q)", name, f, found[name])
		}
		// unset() calls v.Unset on the table it was given; set() calls v.Set on it
		for _, w := range [][2]string{{"unset", "Unset"}, {"set", "Set"}} {
			fd, _ := c.MustFunc("R11d", "builtins/core/typemgmt", "", w[0])
			if fd == nil {
				continue
			}
			var tbl types.Object
			if fd.Type.Params != nil {
				var ps []types.Object
				for _, f := range fd.Type.Params.List {
					for _, nm := range f.Names {
						ps = append(ps, tinfo.Defs[nm])
					}
				}
				if len(ps) == 2 {
					tbl = ps[1]
				}
			}
			ok, other := false, ""
			for _, call := range calls(fd.Body, true) {
				if o := callee(tinfo, call); o != nil && o.Name() == w[1] && o.Pkg() != nil && o.Pkg().Path() == mx("lang") {
					if se, isS := call.Fun.(*ast.SelectorExpr); isS {
						if id, isI := unparen(se.X).(*ast.Ident); isI && tinfo.ObjectOf(id) == tbl {
							ok = true
						} else {
							other = c.src(se.X)
						}
					}
				}
			}
			c.Check(ok && other == "", "R11d", "impl:"+w[0], fd.Pos(), "%s() applies %s to the table it was given and to no other table %s", w[0], w[1], other)
		}
	}
	// Unset: existence check + error for missing
	if fd, _ := c.MustFunc("R11d", "lang", "Variables", "Unset"); fd != nil {
		errOnMissing := false
		walkStack(fd.Body, func(nd ast.Node, stack []ast.Node) bool {
			rs, ok := nd.(*ast.ReturnStmt)
			if !ok || len(rs.Results) != 1 {
				return true
			}
			if id, ok := unparen(rs.Results[0]).(*ast.Ident); ok && id.Name == "nil" {
				return true
			}
			for _, f := range factsOf(guardsAt(info, stack)) {
				if b, ok := unparen(f.E).(*ast.BinaryExpr); ok && b.Op == token.EQL && f.True {
					if n, ok := unparen(b.Y).(*ast.Ident); ok && n.Name == "nil" {
						errOnMissing = true
					}
				}
			}
			return true
		})
		c.Check(errOnMissing, "R11d", "Unset:missing-is-error", fd.Pos(), "Unset of a name that is not in this scope returns an error (it does not fall through to another scope)")
		// … and it reaches no other table: no method of *Variables is called from Unset and no
		// package-level *Variables (GlobalVariables) is mentioned in it.
		other := ""
		ast.Inspect(fd.Body, func(nd ast.Node) bool {
			switch x := nd.(type) {
			case *ast.CallExpr:
				if fn, ok := callee(info, x).(*types.Func); ok {
					if sig := fn.Type().(*types.Signature); sig.Recv() != nil && namedName(sig.Recv().Type()) == "Variables" && fn.Pkg() != nil && fn.Pkg().Path() == mx("lang") {
						other = c.src(x)
					}
				}
			case *ast.Ident:
				if v, ok := info.Uses[x].(*types.Var); ok && v.Parent() == v.Pkg().Scope() && namedName(v.Type()) == "Variables" {
					other = x.Name
				}
			}
			return true
		})
		c.Check(other == "", "R11d", "Unset:own-table-only", fd.Pos(), "Unset touches no variable table but its receiver's: it calls no method of *Variables and mentions no package-level table (found %q) — `!set x` in a function must never remove the global or the caller's x", other)
	}
}

// checkForkScoping: per arm of `if flags&F_FUNCTION != 0 {…} else {…}` classify
// the last store to fork.<field>.
func (c *Ctx) checkForkScoping(info *types.Info, fd *ast.FuncDecl, field, rule string, classify func(ast.Expr) string) {
	var fnIf *ast.IfStmt
	for _, s := range fd.Body.List {
		if is, ok := s.(*ast.IfStmt); ok && strings.Contains(c.src(is.Cond), "F_FUNCTION") {
			fnIf = is
		}
	}
	if fnIf == nil {
		c.Lost(rule, "Fork:F_FUNCTION-branch", "no top-level `if flags&F_FUNCTION != 0` in Process.Fork")
		return
	}
	// polarity: cond true ⇒ F_FUNCTION set
	pol := true
	if b, ok := unparen(fnIf.Cond).(*ast.BinaryExpr); ok && b.Op == token.EQL {
		pol = false
	}
	fnArm, otherArm := ast.Node(fnIf.Body), fnIf.Else
	if !pol {
		fnArm, otherArm = fnIf.Else, fnIf.Body
	}
	stores := func(n ast.Node) [][]string {
		// returns the sequences of classified stores along each syntactic path (flattened per leaf block)
		var out [][]string
		var walk func(list []ast.Stmt, acc []string)
		walk = func(list []ast.Stmt, acc []string) {
			for i, s := range list {
				switch x := s.(type) {
				case *ast.AssignStmt:
					for k, l := range x.Lhs {
						if se, ok := l.(*ast.SelectorExpr); ok && se.Sel.Name == field && k < len(x.Rhs) {
							if id, ok := se.X.(*ast.Ident); ok && id.Name == "fork" {
								acc = append(append([]string(nil), acc...), classify(x.Rhs[k]))
							}
						}
					}
				case *ast.IfStmt:
					rest := list[i+1:]
					thenL := append(append([]ast.Stmt(nil), x.Body.List...), rest...)
					walk(thenL, acc)
					var elseL []ast.Stmt
					switch e := x.Else.(type) {
					case *ast.BlockStmt:
						elseL = append(append([]ast.Stmt(nil), e.List...), rest...)
					case *ast.IfStmt:
						elseL = append([]ast.Stmt{e}, rest...)
					default:
						elseL = rest
					}
					walk(elseL, acc)
					return
				case *ast.SwitchStmt:
					rest := list[i+1:]
					hasDefault := false
					for _, cs := range x.Body.List {
						cc := cs.(*ast.CaseClause)
						if cc.List == nil {
							hasDefault = true
						}
						walk(append(append([]ast.Stmt(nil), cc.Body...), rest...), acc)
					}
					if !hasDefault {
						walk(rest, acc)
					}
					return
				}
			}
			out = append(out, acc)
		}
		if b, ok := n.(*ast.BlockStmt); ok {
			walk(b.List, nil)
		}
		return out
	}
	if fnArm == nil || otherArm == nil {
		c.Undecided(rule, "Fork:arms", fnIf.Pos(), "F_FUNCTION branch has no else arm")
		return
	}
	okFn := true
	pathsFn := stores(fnArm)
	for _, p := range pathsFn {
		if len(p) == 0 || p[len(p)-1] != "fresh" {
			okFn = false
		}
	}
	c.Check(okFn && len(pathsFn) > 0, rule, "Fork:F_FUNCTION-arm:"+field, fnArm.Pos(), "every path through the F_FUNCTION arm ends with fork.%s = <fresh for the fork> (paths: %v)", field, pathsFn)
	okOther := true
	pathsO := stores(otherArm)
	for _, p := range pathsO {
		if len(p) == 0 || p[len(p)-1] != "parent" {
			okOther = false
		}
	}
	c.Check(okOther && len(pathsO) > 0, rule, "Fork:other-arms:"+field, otherArm.Pos(), "every path through the non-function arms ends with fork.%s = p.%s (%d paths: %v)", field, field, len(pathsO), pathsO)
	// no store to fork.<field> after the branch
	after := false
	seen := false
	for _, s := range fd.Body.List {
		if s == ast.Stmt(fnIf) {
			seen = true
			continue
		}
		if !seen {
			continue
		}
		ast.Inspect(s, func(n ast.Node) bool {
			if as, ok := n.(*ast.AssignStmt); ok {
				for _, l := range as.Lhs {
					if se, ok := l.(*ast.SelectorExpr); ok && se.Sel.Name == field {
						if id, ok := se.X.(*ast.Ident); ok && id.Name == "fork" {
							after = true
						}
					}
				}
			}
			return true
		})
	}
	c.Check(!after, rule, "Fork:no-later-store:"+field, fnIf.End(), "fork.%s is not reassigned after the F_FUNCTION branch", field)
}

func (c *Ctx) checkLookupOrder(info *types.Info, fd *ast.FuncDecl, helper string) {
	name := fd.Name.Name
	rv := recvVar(fd)
	var ownCalls, globCalls, envCalls []*ast.CallExpr
	stacks := map[*ast.CallExpr][]ast.Node{}
	walkStack(fd.Body, func(nd ast.Node, stack []ast.Node) bool {
		call, ok := nd.(*ast.CallExpr)
		if !ok {
			return true
		}
		if callIs(info, call, mx("lang"), "Variables", helper) {
			se := call.Fun.(*ast.SelectorExpr)
			switch {
			case selPath(se.X) == rv:
				ownCalls = append(ownCalls, call)
			case isPkgObj(info, se.X, mx("lang"), "GlobalVariables"):
				globCalls = append(globCalls, call)
			default:
				c.Viol("R11c", name+":lookup-in-other-table", call.Pos(), "%s looks the name up in %s — neither the receiver's table nor the global table", name, c.src(se.X))
			}
			stacks[call] = append([]ast.Node(nil), stack...)
		}
		if o := callee(info, call); o != nil && o.Pkg() != nil && o.Pkg().Path() == "os" && o.Name() == "LookupEnv" {
			envCalls = append(envCalls, call)
			stacks[call] = append([]ast.Node(nil), stack...)
		}
		return true
	})
	if len(ownCalls) == 0 || len(globCalls) != 1 || len(envCalls) != 1 {
		c.Viol("R11c", name+":three-sources", fd.Pos(), "%s must consult the own table (found %d), the global table exactly once (found %d) and the environment exactly once (found %d)", name, len(ownCalls), len(globCalls), len(envCalls))
		return
	}
	glob, env := globCalls[0], envCalls[0]
	defs := localDefs(info, fd.Body)
	// result variables of a lookup call: the assignment statement holding it
	resultVars := func(call *ast.CallExpr) []types.Object {
		var out []types.Object
		st := stacks[call]
		for i := len(st) - 1; i >= 0; i-- {
			if as, ok := st[i].(*ast.AssignStmt); ok {
				for _, l := range as.Lhs {
					if id, ok := l.(*ast.Ident); ok {
						out = append(out, info.ObjectOf(id))
					}
				}
				break
			}
		}
		return out
	}
	_ = defs
	// miss(call) established at node: there is a preceding top-level `if <hit test on call's result> { return }`
	// between the call and the node, with no reassignment of the result variables in between.
	missBefore := func(call *ast.CallExpr, at ast.Node) bool {
		list := fd.Body.List
		ci, ai := topLevelIndex(list, call), topLevelIndex(list, at)
		if ci < 0 || ai < 0 || ci >= ai {
			return false
		}
		rvs := resultVars(call)
		for k := ci + 1; k < ai; k++ {
			is, ok := list[k].(*ast.IfStmt)
			if ok && is.Else == nil && terminates(info, is.Body.List) {
				// cond mentions a result var of the call positively: value != nil / exists
				hit := false
				for _, f := range factsOf([]Guard{{Cond: is.Cond}}) {
					e := unparen(f.E)
					if id, ok := e.(*ast.Ident); ok && f.True {
						for _, o := range rvs {
							if info.ObjectOf(id) == o {
								hit = true
							}
						}
					}
					if b, ok := e.(*ast.BinaryExpr); ok && b.Op == token.NEQ && f.True {
						bx, by := unparen(b.X), unparen(b.Y)
						if n0, ok := bx.(*ast.Ident); ok && n0.Name == "nil" {
							bx, by = by, bx
						}
						if id, ok := bx.(*ast.Ident); ok {
							if n, ok := by.(*ast.Ident); ok && n.Name == "nil" {
								for _, o := range rvs {
									if info.ObjectOf(id) == o {
										hit = true
									}
								}
							}
						}
					}
				}
				if hit {
					return true
				}
			}
			// reassignment of the result variable by another statement voids the chain
			if as, ok := list[k].(*ast.AssignStmt); ok {
				for _, l := range as.Lhs {
					if id, ok := l.(*ast.Ident); ok {
						for _, o := range rvs {
							if info.ObjectOf(id) == o {
								return false
							}
						}
					}
				}
			}
		}
		return false
	}
	// the own call that precedes the global call at top level and is not in the v.global arm
	var ownMain *ast.CallExpr
	var ownGlobalArm *ast.CallExpr
	for _, oc := range ownCalls {
		inGlobalArm := false
		for _, f := range factsOf(guardsAt(info, stacks[oc])) {
			if se, ok := unparen(f.E).(*ast.SelectorExpr); ok && se.Sel.Name == "global" && f.True && selPath(se.X) == rv {
				inGlobalArm = true
			}
		}
		if inGlobalArm {
			ownGlobalArm = oc
		} else if ownMain == nil {
			ownMain = oc
		}
	}
	if ownMain == nil {
		c.Viol("R11c", name+":own-first", fd.Pos(), "%s has no lookup in the receiver's own table outside the `global` arm", name)
		return
	}
	c.Check(missBefore(ownMain, glob), "R11c", name+":own-before-global", glob.Pos(), "%s consults GlobalVariables only after the receiver's own table missed (a local shadows the global)", name)
	c.Check(missBefore(glob, env), "R11c", name+":global-before-env", env.Pos(), "%s consults the environment only after the global table missed", name)
	// the v.global arm returns from the own table before the global lookup
	okArm := false
	if ownGlobalArm != nil {
		st := stacks[ownGlobalArm]
		for i := len(st) - 1; i >= 0; i-- {
			if is, ok := st[i].(*ast.IfStmt); ok && terminates(info, is.Body.List) && topLevelIndex(fd.Body.List, is) >= 0 && topLevelIndex(fd.Body.List, is) < topLevelIndex(fd.Body.List, glob) {
				okArm = true
			}
		}
	}
	c.Check(okArm, "R11c", name+":global-table-answers-itself", fd.Pos(), "when the receiver is the global table, %s answers from its own table and returns before any other source", name)
}
