package main

import (
	"fmt"
	"go/ast"
	"go/token"
)

// R07g — `&&` binds tighter than `||`, and both bind tighter than `?:`. The truth value of
// `a || b && c` is decided by which operator is folded first; murex folds by passes over
// the AST, one pass per entry of orderOfOperations, a pass folding every operator whose
// constant is >= the entry. If && and || fall into the same pass they are folded left to
// right with equal precedence: `true || false && false` becomes (true||false)&&false =
// false. (C06 checks the arithmetic/comparison classes of the same table as R06b; C07
// anchors the logical operators, so a change to their tiers must fail C07 too.)
func init() {
	extend("C07", func(c *Ctx) {
		c.Rule("R07g", "logical precedence from the pass table: with pass(op) = first index k with op >= orderOfOperations[k] (table strictly descending, constant elements), pass(==)=pass(!=) < pass(&&) < pass(||) < pass(?:) and pass(||) < pass(??); every one of them is folded by some pass")
		pk := c.Pkg(c06ExprPkg)
		if pk == nil || c.Pkg(c06SymPkg) == nil {
			c.Lost("R07g", "pkg", "lang/expressions or its symbols package not loaded")
			return
		}
		info := pk.TypesInfo
		byName, _ := c06ExpConstNames(c)
		var lit *ast.CompositeLit
		for _, f := range pk.Syntax {
			for _, d := range f.Decls {
				gd, ok := d.(*ast.GenDecl)
				if !ok || gd.Tok != token.VAR {
					continue
				}
				for _, s := range gd.Specs {
					vs := s.(*ast.ValueSpec)
					for i, n := range vs.Names {
						if n.Name == "orderOfOperations" && i < len(vs.Values) {
							if cl, ok := vs.Values[i].(*ast.CompositeLit); ok {
								lit = cl
							}
						}
					}
				}
			}
		}
		if lit == nil {
			c.Lost("R07g", "var:orderOfOperations", "package variable orderOfOperations (composite literal) not found")
			return
		}
		var order []int64
		for _, e := range lit.Elts {
			v, ok := constInt(info, e)
			if _, kv := e.(*ast.KeyValueExpr); kv || !ok {
				c.Undecided("R07g", "orderOfOperations:element", e.Pos(), "element %s of orderOfOperations is keyed or not constant", c.src(e))
				return
			}
			order = append(order, v)
		}
		desc := true
		for i := 1; i < len(order); i++ {
			if order[i] >= order[i-1] {
				desc = false
			}
		}
		c.Check(desc, "R07g", "orderOfOperations:descending", lit.Pos(), "orderOfOperations %v is strictly descending", order)
		pass := func(name string) int {
			v := byName[name]
			for k, b := range order {
				if v >= b {
					return k
				}
			}
			return len(order)
		}
		for _, n := range []string{"EqualTo", "NotEqualTo", "LogicalAnd", "LogicalOr", "Elvis", "NullCoalescing"} {
			if _, ok := byName[n]; !ok {
				c.Lost("R07g", "const:symbols."+n, "constant symbols.%s not found", n)
				return
			}
			c.Check(pass(n) < len(order), "R07g", "handled:symbols."+n, lit.Pos(), "symbols.%s is folded by pass %d of %d", n, pass(n), len(order))
		}
		before := func(key, a, b string) {
			c.Check(pass(a) < pass(b), "R07g", "order:"+key, lit.Pos(), "%s", fmt.Sprintf("pass(%s)=%d is strictly before pass(%s)=%d: %s binds tighter (in one pass the two are folded left to right with equal precedence)", a, pass(a), b, pass(b), a))
		}
		c.Check(pass("EqualTo") == pass("NotEqualTo"), "R07g", "class:eq", lit.Pos(), "== and != are folded in the same pass (%d, %d)", pass("EqualTo"), pass("NotEqualTo"))
		before("eq<and", "NotEqualTo", "LogicalAnd")
		before("and<or", "LogicalAnd", "LogicalOr")
		before("or<elvis", "LogicalOr", "Elvis")
		before("or<nullcoalescing", "LogicalOr", "NullCoalescing")
	})
}
