package main

// C24 — flag parsing follows the declared flag table.
//
// Holds the NilOnErr engine (design E4 / R19b): functions whose every
// error-returning `return` hands back a nil pointer are summarised
// automatically (fix-point over forwarding wrappers); at every call site the
// pointer result may be dereferenced only where the `err == nil` (or
// `ptr != nil`) edge dominates. C24 arms it for the callers of
// parameters.ParseFlags / (*Parameters).ParseFlags across the whole module
// (the `args` clause "… or the error text, without failing itself"); what it
// finds for other callees is listed as INFO for C19.

import (
	"fmt"
	"go/token"
	"go/types"
	"os"
	"sort"
	"strings"

	"golang.org/x/tools/go/packages"
	"golang.org/x/tools/go/ssa"
)

func init() {
	register("C24", "Decides: (R24b) parameters.ParseFlags and its method wrapper return a nil *FlagsT on every error return (and nil additional), and a provably non-nil *FlagsT with a nil error otherwise — derived, not assumed; (R24a) at every call site of the two in the whole module (default build, ./...) the *FlagsT result is dereferenced (field access, method with a dereferencing receiver, passed to a dereferencing parameter) only where an `err == nil` / `flags != nil` edge dominates; (R24c) cmdArgs on a ParseFlags error records err.Error() in the Error field, sets a positive exit number, still writes the variable and does not return that error; (R24d) inside ParseFlags a failed value conversion (flags.set) always becomes an error return unless value and type are matching constants, the success return is reachable only with no flag waiting for its value, a parameter is appended to `additional` only under AllowAdditional (or after `--`/strict placement, themselves only under AllowAdditional), and once flags are switched off (`--`) the flag arms are not evaluated. Does NOT decide the parse result as a value (which flag gets which text), nor alias chains.", runC24)
}

const (
	c24ParamsPkg = modPath + "/lang/parameters"
	c24FlagsT    = c24ParamsPkg + ".FlagsT"
	c24ArgsT     = c24ParamsPkg + ".Arguments"
)

// ============================================================ NilOnErr engine

type c24Summary struct {
	fn        *ssa.Function
	ptrIdx    []int        // indices of pointer-typed results
	nilOnErr  map[int]bool // result index -> nil on every error return
	nErrRet   int          // number of error returns
	nOkRet    int          // number of success returns
	okNonNil  map[int]bool // result index -> provably non-nil on every success return
	errRets   []c24Ret     // for reporting
	okRets    []c24Ret
	undecided map[int]string // result index -> why no summary
}

type c24Ret struct {
	ret  *ssa.Return
	vals []ssa.Value // resolved result values
}

// c24RetTuples resolves the result values of every normal return (named
// results / deferred functions store into cells before returning).
func c24RetTuples(fn *ssa.Function) []c24Ret {
	var out []c24Ret
	for _, b := range fn.Blocks {
		if b == fn.Recover || len(b.Instrs) == 0 {
			continue
		}
		r, ok := b.Instrs[len(b.Instrs)-1].(*ssa.Return)
		if !ok {
			continue
		}
		vals := make([]ssa.Value, len(r.Results))
		for i, v := range r.Results {
			if u, ok := v.(*ssa.UnOp); ok && u.Op == token.MUL {
				if al, ok := u.X.(*ssa.Alloc); ok {
					for j := len(b.Instrs) - 1; j >= 0; j-- {
						if st, ok := b.Instrs[j].(*ssa.Store); ok && st.Addr == ssa.Value(al) {
							v = st.Val
							break
						}
					}
				}
			}
			vals[i] = v
		}
		out = append(out, c24Ret{r, vals})
	}
	return out
}

func c24IsPtr(t types.Type) bool {
	_, ok := t.Underlying().(*types.Pointer)
	return ok
}

// c24Summarise computes NilOnErr summaries for all functions of the given
// packages, to a fix-point (a wrapper `return f(x)` inherits f's summary).
func (c *Ctx) c24Summarise(pkgs []*packages.Package) map[*ssa.Function]*c24Summary {
	sums := map[*ssa.Function]*c24Summary{}
	var fns []*ssa.Function
	for _, pk := range pkgs {
		for _, fn := range c.c21Funcs(pk) {
			res := fn.Signature.Results()
			n := res.Len()
			if n < 2 || !c21IsErrorType(res.At(n-1).Type()) {
				continue
			}
			s := &c24Summary{fn: fn, nilOnErr: map[int]bool{}, okNonNil: map[int]bool{}, undecided: map[int]string{}}
			for i := 0; i < n-1; i++ {
				if c24IsPtr(res.At(i).Type()) {
					s.ptrIdx = append(s.ptrIdx, i)
				}
			}
			if len(s.ptrIdx) == 0 {
				continue
			}
			sums[fn] = s
			fns = append(fns, fn)
		}
	}
	// optimistic start: every candidate is NilOnErr; iterate downwards
	for _, s := range sums {
		for _, i := range s.ptrIdx {
			s.nilOnErr[i] = true
		}
	}
	for changed, round := true, 0; changed && round < 10; round++ {
		changed = false
		for _, fn := range fns {
			s := sums[fn]
			rets := c24RetTuples(fn)
			s.errRets, s.okRets = nil, nil
			s.nErrRet, s.nOkRet = 0, 0
			n := fn.Signature.Results().Len()
			for _, r := range rets {
				if len(r.vals) != n {
					continue
				}
				errV := r.vals[n-1]
				// φ of errors in the returning block: split per edge when the pointer is a φ of the same block
				type pair struct{ ptr, err ssa.Value }
				for _, i := range s.ptrIdx {
					var pairs []pair
					pv := r.vals[i]
					ep, eIsPhi := errV.(*ssa.Phi)
					pp, pIsPhi := pv.(*ssa.Phi)
					switch {
					case eIsPhi && pIsPhi && ep.Block() == pp.Block():
						for k := range ep.Edges {
							pairs = append(pairs, pair{pp.Edges[k], ep.Edges[k]})
						}
					case eIsPhi:
						for k := range ep.Edges {
							pairs = append(pairs, pair{pv, ep.Edges[k]})
						}
					default:
						pairs = append(pairs, pair{pv, errV})
					}
					for _, pr := range pairs {
						if c21IsNilConst(pr.err) {
							continue // success return
						}
						ok := c21IsNilConst(pr.ptr)
						if !ok {
							// forwarded: both come from one call of a NilOnErr function
							pe, ok1 := pr.ptr.(*ssa.Extract)
							ee, ok2 := pr.err.(*ssa.Extract)
							if ok1 && ok2 && pe.Tuple == ee.Tuple {
								if call, isCall := pe.Tuple.(*ssa.Call); isCall {
									if g := call.Common().StaticCallee(); g != nil {
										if gs := sums[g]; gs != nil && gs.nilOnErr[pe.Index] && ee.Index == g.Signature.Results().Len()-1 {
											ok = true
										}
									}
								}
							}
						}
						if !ok && s.nilOnErr[i] {
							s.nilOnErr[i] = false
							changed = true
						}
					}
				}
				if c21IsNilConst(errV) {
					s.nOkRet++
					s.okRets = append(s.okRets, r)
				} else {
					s.nErrRet++
					s.errRets = append(s.errRets, r)
				}
			}
			if s.nErrRet == 0 {
				for _, i := range s.ptrIdx {
					if s.nilOnErr[i] {
						s.nilOnErr[i] = false
						changed = true
					}
				}
			}
		}
	}
	return sums
}

// c24NonNil: v is provably a non-nil pointer (fresh allocation, or the result
// of a murex function all of whose returns are such; depth 2).
func c24NonNil(v ssa.Value, depth int) bool {
	if depth > 2 {
		return false
	}
	switch x := v.(type) {
	case *ssa.Alloc, *ssa.MakeMap, *ssa.MakeSlice, *ssa.MakeChan, *ssa.FieldAddr, *ssa.IndexAddr:
		return true
	case *ssa.Phi:
		for _, e := range x.Edges {
			if !c24NonNil(e, depth+1) {
				return false
			}
		}
		return len(x.Edges) > 0
	case *ssa.Call:
		g := x.Common().StaticCallee()
		if g == nil || len(g.Blocks) == 0 || g.Signature.Results().Len() != 1 {
			return false
		}
		rets := c24RetTuples(g)
		for _, r := range rets {
			if !c24NonNil(r.vals[0], depth+1) {
				return false
			}
		}
		return len(rets) > 0
	case *ssa.Extract:
		return false
	}
	return false
}

// c24DerefsParam: function g dereferences its parameter #i somewhere (field
// access, load, store, index, or hands it as receiver/argument to a function
// that does; depth 2). Unknown bodies count as dereferencing.
func c24DerefsParam(g *ssa.Function, i int, depth int) bool {
	if g == nil || len(g.Blocks) == 0 {
		return true
	}
	if i >= len(g.Params) {
		return false
	}
	p := g.Params[i]
	refs := p.Referrers()
	if refs == nil {
		return false
	}
	for _, r := range *refs {
		if c24IsDeref(r, p, depth) {
			return true
		}
	}
	return false
}

// c24IsDeref: instruction r dereferences pointer value v.
func c24IsDeref(r ssa.Instruction, v ssa.Value, depth int) bool {
	switch x := r.(type) {
	case *ssa.FieldAddr:
		return x.X == v
	case *ssa.IndexAddr:
		return x.X == v
	case *ssa.UnOp:
		return x.Op == token.MUL && x.X == v
	case *ssa.Store:
		return x.Addr == v
	case ssa.CallInstruction:
		cc := x.Common()
		if cc.IsInvoke() {
			return false
		}
		g := cc.StaticCallee()
		for ai, a := range cc.Args {
			if a != v {
				continue
			}
			if g == nil {
				return true // passed to an unknown function value
			}
			if depth >= 2 {
				return true
			}
			if c24DerefsParam(g, ai, depth+1) {
				return true
			}
		}
	}
	return false
}

// c24DependsOn: value v is computed from x (through calls, operators, conversions).
func c24DependsOn(v, x ssa.Value, depth int) bool {
	if v == nil || x == nil || depth > 5 {
		return false
	}
	if v == x {
		return true
	}
	in, ok := v.(ssa.Instruction)
	if !ok {
		return false
	}
	if _, isPhi := v.(*ssa.Phi); isPhi && depth > 2 {
		return false
	}
	for _, op := range in.Operands(nil) {
		if *op != nil && c24DependsOn(*op, x, depth+1) {
			return true
		}
	}
	return false
}

type c24Site struct {
	caller *ssa.Function
	call   *ssa.Call
	callee *ssa.Function
	idx    int
}

// c24CheckSite decides one call site for pointer result #idx.
// status: "ok", "viol", "undecided"; detail explains.
func c24CheckSite(site c24Site) (status, detail string, pos token.Pos) {
	call := site.call
	n := site.callee.Signature.Results().Len()
	ptr := c21Extract(call, site.idx)
	errV := c21Extract(call, n-1)
	pos = call.Pos()
	if ptr == nil {
		return "ok", "pointer result not used", pos
	}
	refs := ptr.Referrers()
	if refs == nil || len(*refs) == 0 {
		return "ok", "pointer result not used", pos
	}
	isGuard := func(cond ssa.Value, truth bool) bool {
		bo, ok := cond.(*ssa.BinOp)
		if !ok || (bo.Op != token.EQL && bo.Op != token.NEQ) {
			return false
		}
		var other ssa.Value
		switch {
		case c21IsNilConst(bo.Y):
			other = bo.X
		case c21IsNilConst(bo.X):
			other = bo.Y
		default:
			return false
		}
		isNil := (bo.Op == token.EQL) == truth
		if errV != nil && other == errV && isNil {
			return true
		}
		if other == ptr && !isNil {
			return true
		}
		return false
	}
	nDeref, nEsc := 0, 0
	var escapes []string
	// follow the pointer through φ-free copies only
	for _, r := range *refs {
		if c24IsDeref(r, ptr, 0) {
			nDeref++
			if !c21GuardedBy(r.Block(), isGuard) {
				what := strings.TrimPrefix(fmt.Sprintf("%T", r), "*ssa.")
				if ci, ok := r.(ssa.CallInstruction); ok {
					what = c21CallDesc(ci, 2)
				} else if fa, ok := r.(*ssa.FieldAddr); ok {
					_, _, f, _ := c21Field(fa)
					what = "field ." + f
				}
				p := r.Pos()
				if !p.IsValid() {
					p = pos
				}
				how := "no `err == nil` edge dominates it"
				if errV == nil {
					how = "the error result is discarded"
				}
				// guarded by a test this rule cannot interpret (helper(err), errors.Is…)?
				if c21GuardedBy(r.Block(), func(cond ssa.Value, truth bool) bool {
					if bo, ok := cond.(*ssa.BinOp); ok && (c21IsNilConst(bo.X) || c21IsNilConst(bo.Y)) {
						return false // a recognised nil test of the wrong polarity is no excuse
					}
					return c24DependsOn(cond, errV, 0) || c24DependsOn(cond, ptr, 0)
				}) {
					return "undecided", fmt.Sprintf("dereference (%s) of the pointer result is guarded by a condition on the error that is not one of the recognised forms (err != nil / err == nil / ptr != nil, if / switch / early return)", what), p
				}
				return "viol", fmt.Sprintf("dereference (%s) of the pointer result is reachable with err != nil: %s", what, how), p
			}
			continue
		}
		switch x := r.(type) {
		case *ssa.BinOp:
			// nil comparison of the pointer itself: not a deref
			continue
		case *ssa.DebugRef:
			continue
		case ssa.CallInstruction:
			_ = x
			continue // passed to a non-dereferencing parameter
		case *ssa.Return, *ssa.Store, *ssa.Phi, *ssa.MakeInterface, *ssa.MakeClosure, *ssa.ChangeType, *ssa.Convert:
			nEsc++
			escapes = append(escapes, strings.TrimPrefix(fmt.Sprintf("%T", r), "*ssa."))
		default:
			nEsc++
			escapes = append(escapes, strings.TrimPrefix(fmt.Sprintf("%T", r), "*ssa."))
		}
	}
	if nEsc > 0 {
		// the pointer leaves the function (returned / stored / merged): only a
		// forwarding return of (ptr, …, err) together is accepted silently
		allRet := true
		for _, r := range *refs {
			switch r.(type) {
			case *ssa.Return, *ssa.DebugRef:
			case *ssa.Store:
				// store into a result cell that is returned with the error: accepted
				st := r.(*ssa.Store)
				if al, ok := st.Addr.(*ssa.Alloc); !ok || al.Heap {
					allRet = false
				}
			default:
				if !c24IsDeref(r, ptr, 0) {
					if _, isBin := r.(*ssa.BinOp); !isBin {
						if _, isCall := r.(ssa.CallInstruction); !isCall {
							allRet = false
						}
					}
				}
			}
		}
		if !allRet {
			sort.Strings(escapes)
			return "undecided", fmt.Sprintf("the pointer result flows into %s — its later dereferences are not followed", strings.Join(escapes, ",")), pos
		}
		return "ok", fmt.Sprintf("%d dereferences, all behind err == nil; pointer forwarded to the caller together with the error", nDeref), pos
	}
	return "ok", fmt.Sprintf("%d dereferences, all behind an err == nil (or ptr != nil) edge", nDeref), pos
}

// ============================================================ C24

// c24Importers lists (module-relative) the packages of ./... that import the
// given murex package directly, plus the package itself. Uses a names+imports
// only load (one `go list`, no type checking).
func (c *Ctx) c24Importers(rel string) []string {
	cfg := &packages.Config{
		Mode:    packages.NeedName | packages.NeedImports,
		Dir:     c.Repo,
		Tests:   false,
		Overlay: c.Overlay,
		Env:     append(os.Environ(), c.Env...),
	}
	if c.Tags != "" {
		cfg.BuildFlags = []string{"-tags=" + c.Tags}
	}
	pkgs, err := packages.Load(cfg, "./...")
	if err != nil {
		fatal("load (imports only): %v", err)
	}
	target := mx(rel)
	out := []string{rel}
	for _, p := range pkgs {
		if _, ok := p.Imports[target]; ok && p.PkgPath != target {
			out = append(out, relPkg(p.PkgPath))
		}
	}
	sort.Strings(out[1:])
	return out
}

func runC24(c *Ctx) {
	c24Tick("start")
	// Scope: the whole module. Loading only the direct importers of lang/parameters
	// was measured and costs the same (their dependency closure is nearly the whole
	// module), so the complete scope is the default; MUREXLINT_C24_SCOPE=importers
	// selects the narrower one.
	if os.Getenv("MUREXLINT_C24_SCOPE") != "importers" {
		c.Load("./...")
		c.Info("NilOnErr scope: every package of the default build (./...)")
	} else {
		imps := c.c24Importers("lang/parameters")
		c24Tick("importers listed")
		if len(imps) == 0 {
			c.Lost("R24a", "scope:importers", "no package imports lang/parameters — anchor moved")
			return
		}
		c.Load(imps...)
		c.Info("NilOnErr scope: lang/parameters and the %d packages of ./... that import it directly: %s", len(imps)-1, strings.Join(imps, " "))
	}
	c24Tick("loaded")
	pkgs := c.MurexPkgs()
	c.SSA()
	c24Tick("ssa created")
	for _, pk := range pkgs {
		if sp := c.ssaPkgs[pk.PkgPath]; sp != nil {
			sp.Build()
		}
	}
	c24Tick("ssa built")
	c.Info("NilOnErr: %d murex packages analysed", len(pkgs))

	c.Rule("R24b", "summary of parameters.ParseFlags and (*Parameters).ParseFlags, derived from their return statements: every return with a possibly non-nil error returns nil for *FlagsT (and nil for `additional`); every return with a nil error returns a provably non-nil *FlagsT; at least one of each exists")
	c.Rule("R24a", "NilOnErr at call sites (whole module): the *FlagsT result of ParseFlags is dereferenced only where an `err == nil` or `flags != nil` edge dominates the dereference; a pointer that escapes into a φ / field / interface is reported as undecided")
	sums := c.c24Summarise(pkgs)
	c24Tick("summarised")

	ppk := c.Pkg("lang/parameters")
	if ppk == nil {
		c.Lost("R24b", "pkg:lang/parameters", "package lang/parameters not loaded")
		return
	}
	var targets []*ssa.Function
	if fd, _ := c.MustFunc("R24b", "lang/parameters", "", "ParseFlags"); fd != nil {
		targets = append(targets, c.SSAFunc(ppk, fd))
	}
	if fd, _ := c.MustFunc("R24b", "lang/parameters", "Parameters", "ParseFlags"); fd != nil {
		targets = append(targets, c.SSAFunc(ppk, fd))
	}
	isTarget := map[*ssa.Function]bool{}
	for _, fn := range targets {
		if fn == nil {
			continue
		}
		isTarget[fn] = true
		c.c24ReportSummary(fn, sums[fn], sums)
	}

	// ---- R24a: all call sites in the module
	type siteRes struct {
		site   c24Site
		status string
		detail string
		pos    token.Pos
	}
	var mine, others []siteRes
	nOtherFns := 0
	for fn, s := range sums {
		any := false
		for _, i := range s.ptrIdx {
			if s.nilOnErr[i] {
				any = true
			}
		}
		if any && !isTarget[fn] {
			nOtherFns++
		}
	}
	for _, pk := range pkgs {
		for _, caller := range c.c21Funcs(pk) {
			for _, b := range caller.Blocks {
				for _, in := range b.Instrs {
					call, ok := in.(*ssa.Call)
					if !ok {
						continue
					}
					g := call.Common().StaticCallee()
					if g == nil {
						continue
					}
					s := sums[g]
					if s == nil {
						continue
					}
					for _, i := range s.ptrIdx {
						if !s.nilOnErr[i] {
							continue
						}
						site := c24Site{caller, call, g, i}
						st, det, pos := c24CheckSite(site)
						r := siteRes{site, st, det, pos}
						if isTarget[g] {
							mine = append(mine, r)
						} else {
							others = append(others, r)
						}
					}
				}
			}
		}
	}
	sort.Slice(mine, func(i, j int) bool {
		return c21FuncName(mine[i].site.caller)+c.pos(mine[i].pos) < c21FuncName(mine[j].site.caller)+c.pos(mine[j].pos)
	})
	keys := c21KeySet{}
	for _, r := range mine {
		key := keys.uniq("nilonerr:" + c21FuncName(r.site.caller) + "→" + c24ShortName(r.site.callee))
		switch r.status {
		case "ok":
			c.OK("R24a", key, r.pos, "%s", r.detail)
		case "viol":
			c.Viol("R24a", key, r.pos, "%s calls %s, which returns a nil *FlagsT on every error (unknown flag, missing value, unconvertible value): %s — a script that passes an undeclared flag crashes the builtin (nil pointer dereference) instead of getting the error text", c21FuncName(r.site.caller), c24ShortName(r.site.callee), r.detail)
		default:
			c.Undecided("R24a", key, r.pos, "%s calls %s: %s", c21FuncName(r.site.caller), c24ShortName(r.site.callee), r.detail)
		}
	}
	c.MinCount("R24a", "call sites of ParseFlags in the module", len(mine), 12)
	// INFO for C19/R19b: other nil-on-error callees
	nV, nU := 0, 0
	sort.Slice(others, func(i, j int) bool { return c.pos(others[i].pos) < c.pos(others[j].pos) })
	for _, r := range others {
		switch r.status {
		case "viol":
			nV++
			c.Info("R19b-info: %s → %s at %s: %s", c21FuncName(r.site.caller), c21FuncName(r.site.callee), c.pos(r.pos), r.detail)
		case "undecided":
			nU++
		}
	}
	c.Info("NilOnErr summaries: %d further nil-on-error functions, %d call sites (%d with an unguarded dereference, %d escaping) — not part of C24's verdict", nOtherFns, len(others), nV, nU)

	c24Tick("sites checked")
	// ---- R24c / R24d
	c.c24CmdArgs(isTarget)
	if len(targets) > 0 && targets[0] != nil {
		c.c24ParseFlagsInternals(targets[0])
	}
}

func c24ShortName(fn *ssa.Function) string {
	if fn.Signature.Recv() != nil {
		return "(" + namedName(fn.Signature.Recv().Type()) + ")." + fn.Name()
	}
	if fn.Pkg != nil {
		return fn.Pkg.Pkg.Name() + "." + fn.Name()
	}
	return fn.Name()
}

// c24ReportSummary: R24b obligations for one of the two ParseFlags.
func (c *Ctx) c24ReportSummary(fn *ssa.Function, s *c24Summary, sums map[*ssa.Function]*c24Summary) {
	name := c24ShortName(fn)
	if s == nil {
		c.Lost("R24b", name+":signature", "%s no longer returns (*FlagsT, …, error) — the nil-on-error protocol cannot be read", name)
		return
	}
	keys := c21KeySet{}
	n := fn.Signature.Results().Len()
	for _, r := range s.errRets {
		errV := r.vals[n-1]
		key := keys.uniq(name + ":error-return[" + c24ErrLabel(errV) + "]")
		ptrNil := c21IsNilConst(r.vals[0])
		fwd := false
		if pe, ok := r.vals[0].(*ssa.Extract); ok {
			if call, ok := pe.Tuple.(*ssa.Call); ok {
				if g := call.Common().StaticCallee(); g != nil && sums[g] != nil && sums[g].nilOnErr[pe.Index] {
					fwd = true
				}
			}
		}
		restNil := true
		for i := 1; i < n-1; i++ {
			if !c21IsNilConst(r.vals[i]) && !fwd {
				restNil = false
			}
		}
		switch {
		case fwd:
			c.OK("R24b", key, r.ret.Pos(), "forwards the results of %s (nil on error)", c21Desc(r.vals[0]))
		case ptrNil && restNil:
			c.OK("R24b", key, r.ret.Pos(), "error return hands back (nil, nil, err)")
		case ptrNil:
			c.Viol("R24b", key, r.ret.Pos(), "%s: an error return hands back a nil *FlagsT but a non-nil `additional` — callers that test only err see half a result", name)
		default:
			c.Viol("R24b", key, r.ret.Pos(), "%s: the error return [%s] hands back a non-nil *FlagsT (%s) — a partially parsed flag table is reported together with an error, against `otherwise reports a clean error`; and the summary that callers rely on (nil on error) no longer holds", name, c24ErrLabel(errV), c21Desc(r.vals[0]))
		}
	}
	for _, r := range s.okRets {
		key := keys.uniq(name + ":success-return")
		c.Check(c24NonNil(r.vals[0], 0), "R24b", key, r.ret.Pos(), "%s: the success return (nil error) hands back a provably non-nil *FlagsT (%s) — a nil table with a nil error crashes every caller that follows the err == nil protocol", name, c21Desc(r.vals[0]))
	}
	c.Check(s.nErrRet > 0 && (s.nOkRet > 0 || s.nilOnErr[0]), "R24b", name+":summary", fn.Pos(), "%s: %d error returns, %d success returns; nil-on-error derived = %v", name, s.nErrRet, s.nOkRet, s.nilOnErr[0])
}

func c24ErrLabel(v ssa.Value) string {
	if call, ok := v.(*ssa.Call); ok {
		if g := call.Common().StaticCallee(); g != nil && g.Pkg != nil && g.Pkg.Pkg.Path() == "fmt" && g.Name() == "Errorf" && len(call.Common().Args) > 0 {
			if s, ok := c21ConstString(call.Common().Args[0]); ok {
				return "Errorf:" + s
			}
		}
	}
	return c21Desc(v)
}

// ---------------------------------------------------------------- R24c cmdArgs

func (c *Ctx) c24CmdArgs(isTarget map[*ssa.Function]bool) {
	c.Rule("R24c", "cmdArgs (`args`): on every path on which ParseFlags' error is non-nil the Error field of the reported object is assigned err.Error(), p.ExitNum gets a positive value, the JSON object is still written with p.Variables.Set, and the function does not return the ParseFlags error (the builtin itself does not fail)")
	fd, mpk := c.MustFunc("R24c", "builtins/core/management", "", "cmdArgs")
	if fd == nil {
		return
	}
	fn := c.SSAFunc(mpk, fd)
	if fn == nil {
		c.Lost("R24c", "ssa:cmdArgs", "no SSA for cmdArgs")
		return
	}
	c21Dump(fn)
	proc := c21ParamOfType(fn, c21ProcessT)
	var site *ssa.Call
	for _, b := range fn.Blocks {
		for _, in := range b.Instrs {
			if call, ok := in.(*ssa.Call); ok && isTarget[call.Common().StaticCallee()] {
				site = call
			}
		}
	}
	if site == nil {
		c.Lost("R24c", "cmdArgs:ParseFlags", "cmdArgs no longer calls ParseFlags — anchor moved")
		return
	}
	errV, _ := c21ErrResult(site)
	if errV == nil {
		c.Viol("R24c", "cmdArgs:error-ignored", site.Pos(), "cmdArgs discards ParseFlags' error — `args` cannot report the error text")
		return
	}
	paths, overflow := c21PathsFrom(site, c21PathOpts{Prune: c21PruneNil(errV), Limit: 128})
	if overflow || len(paths) == 0 {
		c.Undecided("R24c", "cmdArgs:paths", site.Pos(), "cannot enumerate cmdArgs' error paths")
		return
	}
	// only paths that actually know err != nil are error paths; the others are
	// the shared continuation and are judged as part of them
	keys := c21KeySet{}
	nErrPaths := 0
	for _, p := range paths {
		if known, isNil := p.NilFact(errV); !known || isNil {
			continue
		}
		nErrPaths++
		// drop facts of later, unrelated tests from the key: keep only facts up to the first store
		key := keys.uniq("cmdArgs:errpath[" + c24PathLabel(p, errV) + "]")
		if _, isPanic := p.End.(*ssa.Panic); isPanic {
			c.Viol("R24c", key, site.Pos(), "cmdArgs panics on the ParseFlags error path")
			continue
		}
		// Error field := err.Error()
		okErrText := false
		for _, in := range p.Instrs {
			st, ok := in.(*ssa.Store)
			if !ok {
				continue
			}
			if _, _, f, ok := c21Field(st.Addr); ok && f == "Error" {
				if call, ok := p.R(st.Val).(*ssa.Call); ok && call.Common().IsInvoke() && call.Common().Method.Name() == "Error" && p.R(call.Common().Value) == p.R(errV) {
					okErrText = true
				}
			}
		}
		okExit, how := c21PositiveExitStore(p, proc)
		wrote := false
		for _, ci := range p.Calls() {
			if c21IsCallTo(ci, mx("lang"), "Variables", "Set") {
				wrote = true
			}
		}
		retIsErr := false
		if r, ok := p.End.(*ssa.Return); ok && len(r.Results) == 1 && p.R(r.Results[0]) == p.R(errV) {
			retIsErr = true
		}
		// marshal / Set failures legitimately end the path early with their own error
		earlyOther := false
		if !wrote && !retIsErr {
			if nn, _ := p.ReturnsNonNil(0, nil); nn == "nonnil" {
				earlyOther = true
			}
		}
		switch {
		case !okErrText:
			c.Viol("R24c", key, site.Pos(), "cmdArgs: on the ParseFlags error path the reported object's Error field is not assigned err.Error() — `args` does not expose the error text")
		case !okExit:
			c.Viol("R24c", key, site.Pos(), "cmdArgs: on the ParseFlags error path p.ExitNum is not set to a positive value (%s) — `args … ; catch {…}` / `try` do not see the parse failure", map[bool]string{true: "no store", false: "stores " + how}[how == ""])
		case retIsErr:
			c.Viol("R24c", key, site.Pos(), "cmdArgs returns the ParseFlags error: the builtin itself fails and the variable with the error text is never written")
		case !wrote && !earlyOther:
			c.Viol("R24c", key, site.Pos(), "cmdArgs: on the ParseFlags error path the result variable is not written (no p.Variables.Set)")
		default:
			c.OK("R24c", key, site.Pos(), "Error = err.Error(), ExitNum = %s, variable written=%v", how, wrote)
		}
	}
	c.MinCount("R24c", "ParseFlags error paths in cmdArgs", nErrPaths, 1)
}

// c24PathLabel renders the facts of a path that are not nil-tests of skip, but
// names later errors by their producing call only.
func c24PathLabel(p *c21Path, skip ssa.Value) string {
	return p.FactsDesc(skip)
}

// ---------------------------------------------------------------- R24d ParseFlags internals

func (c *Ctx) c24ParseFlagsInternals(fn *ssa.Function) {
	c.Rule("R24d", "inside parameters.ParseFlags: (set) every call of (*FlagsT).set whose value/type are not matching constants has its error tested, and every path with that error non-nil returns (nil, nil, non-nil error); (pending) the success return is reachable only through the `previous == \"\"` edge; (additional) every append to `additional` is dominated by args.AllowAdditional == true or by ignoreFlags == true, and ignoreFlags becomes true only under args.AllowAdditional; (--) the flag tests (strings.HasPrefix(param, \"-\")) are evaluated only with ignoreFlags == false")
	c21Dump(fn)
	argsP := c21ParamOfType(fn, c24ArgsT)
	if argsP == nil {
		c.Lost("R24d", "ParseFlags:args", "ParseFlags has no *Arguments parameter")
		return
	}
	isArgsField := func(v ssa.Value, field string) bool {
		a, ok := c21Load(v)
		if !ok {
			return false
		}
		b, ow, f, ok := c21Field(a)
		return ok && ow == c24ArgsT && f == field && c21Origin(b) == ssa.Value(argsP)
	}
	// ---- (set)
	keys := c21KeySet{}
	nSet := 0
	for _, b := range fn.Blocks {
		for _, in := range b.Instrs {
			call, ok := in.(*ssa.Call)
			if !ok || !c21IsCallTo(call, c24ParamsPkg, "FlagsT", "set") {
				continue
			}
			nSet++
			args := c21CallArgs(call)
			valDesc := c21Desc(args[2])
			if mi, ok := args[2].(*ssa.MakeInterface); ok {
				valDesc = c21Desc(mi.X)
			}
			key := keys.uniq("ParseFlags:set(" + valDesc + "," + c21Desc(args[3]) + ")")
			errV, _ := c21ErrResult(call)
			if errV == nil {
				// accepted only when value and type are constants that match: bool constant as types.Boolean
				okConst := false
				if mi, ok := args[2].(*ssa.MakeInterface); ok {
					if _, isBool := c21ConstBool(mi.X); isBool {
						if s, ok := c21ConstString(args[3]); ok && s == "bool" {
							okConst = true
						}
					}
				}
				c.Check(okConst, "R24d", key, call.Pos(), "flags.set's error is discarded here; that is only sound for a constant value of the constant type it is converted to (bool as \"bool\") — otherwise a value that does not convert (`--num abc`) is silently dropped instead of `reports a clean error`")
				continue
			}
			paths, overflow := c21PathsFrom(call, c21PathOpts{Prune: c21PruneNil(errV), Limit: 64})
			if overflow || len(paths) == 0 {
				c.Undecided("R24d", key, call.Pos(), "cannot enumerate the error paths of flags.set")
				continue
			}
			good := true
			why := ""
			for _, p := range paths {
				r, isRet := p.End.(*ssa.Return)
				if !isRet || len(r.Results) != 3 {
					good, why = false, "a path with set's error non-nil does not return"
					continue
				}
				if nn, _ := p.ReturnsNonNil(2, errV); nn != "nonnil" {
					good, why = false, "a path with set's error non-nil returns a nil/unknown error"
				}
				if !c21IsNilConst(p.R(r.Results[0])) {
					good, why = false, "a path with set's error non-nil returns a non-nil *FlagsT"
				}
			}
			c.Check(good, "R24d", key, call.Pos(), "a failed conversion in flags.set ends ParseFlags with (nil, nil, err) on every path%s", map[bool]string{true: "", false: " — " + why + ": `--num abc` would be accepted silently"}[good])
		}
	}
	c.MinCount("R24d", "calls of (*FlagsT).set in ParseFlags", nSet, 3)

	// ---- (pending): success return only through previous == ""
	rets := c24RetTuples(fn)
	nOK := 0
	for _, r := range rets {
		if len(r.vals) != 3 || !c21IsNilConst(r.vals[2]) {
			continue
		}
		nOK++
		guarded := c21GuardedBy(r.ret.Block(), func(cond ssa.Value, truth bool) bool {
			bo, ok := cond.(*ssa.BinOp)
			if !ok {
				return false
			}
			// `len(previous) == 0`, `len(previous) < 1`, `!(len(previous) > 0)` …: the edge
			// must hold for the empty string only (compared on the range 0..4)
			if s, k, op, isLen := c24LenCompare(bo); isLen {
				ip := intPred(op, k)
				for n := int64(0); n <= 4; n++ {
					if (ip(n) == truth) != (n == 0) {
						return false
					}
				}
				return c24IsPendingFlag(s)
			}
			if bo.Op != token.EQL && bo.Op != token.NEQ {
				return false
			}
			var other ssa.Value
			if s, ok := c21ConstString(bo.Y); ok && s == "" {
				other = bo.X
			} else if s, ok := c21ConstString(bo.X); ok && s == "" {
				other = bo.Y
			} else {
				return false
			}
			if (bo.Op == token.EQL) != truth {
				return false
			}
			// `other` must be the pending-flag variable: a φ that is fed by a parameter element and reset to ""
			return c24IsPendingFlag(other)
		})
		key := "ParseFlags:success-needs-no-pending-flag"
		if nOK > 1 {
			key += fmt.Sprintf("#%d", nOK)
		}
		c.Check(guarded, "R24d", key, r.ret.Pos(), "the success return is reachable only when no flag is still waiting for its value (`previous == \"\"` edge) — otherwise `--str` as the last argument is accepted and silently dropped instead of `flag found without value`")
	}
	c.MinCount("R24d", "success returns of ParseFlags", nOK, 1)

	// ---- (additional) and (--)
	// additional: the slice variable is the one returned as result #1 on success
	// the loop-carried boolean that switches flag parsing off: the only family of
	// bool φ-nodes in ParseFlags all of whose inputs are constants or φs
	var ignorePhi *ssa.Phi
	nFamilies := 0
	for _, b := range fn.Blocks {
		for _, in := range b.Instrs {
			ph, ok := in.(*ssa.Phi)
			if !ok || ph.Type().Underlying().String() != "bool" {
				continue
			}
			closed := true
			for _, e := range ph.Edges {
				if _, isC := c21ConstBool(e); !isC {
					if _, isP := e.(*ssa.Phi); !isP {
						closed = false
					}
				}
			}
			if !closed {
				continue
			}
			if ignorePhi == nil {
				ignorePhi = ph
				nFamilies = 1
			} else if !c24SamePhiFamily(ph, ignorePhi) {
				nFamilies++
			}
		}
	}
	if nFamilies > 1 {
		c.Undecided("R24d", "ParseFlags:ignoreFlags", fn.Pos(), "ParseFlags carries %d boolean state variables through its loop; the one that switches flag parsing off cannot be singled out", nFamilies)
		return
	}
	isAllow := func(cond ssa.Value, truth bool) bool { return truth && isArgsField(cond, "AllowAdditional") }
	isIgnore := func(cond ssa.Value, truth bool) bool {
		if ignorePhi == nil || !truth {
			return false
		}
		if ph, ok := cond.(*ssa.Phi); ok && c24SamePhiFamily(ph, ignorePhi) {
			return true
		}
		for _, f := range c22Implied(cond, 0) {
			if ph, ok := f.Cond.(*ssa.Phi); ok && f.True && f.Cond != cond && c24SamePhiFamily(ph, ignorePhi) {
				return true
			}
		}
		return false
	}
	nApp := 0
	for _, b := range fn.Blocks {
		for _, in := range b.Instrs {
			call, ok := in.(*ssa.Call)
			if !ok {
				continue
			}
			bi, ok := call.Common().Value.(*ssa.Builtin)
			if !ok || bi.Name() != "append" {
				continue
			}
			if call.Type().String() != "[]string" {
				continue
			}
			nApp++
			key := "ParseFlags:additional-append"
			if nApp > 1 {
				key += fmt.Sprintf("#%d", nApp)
			}
			ok1 := c21GuardedBy(b, isAllow) || c21GuardedBy(b, isIgnore)
			// a guard of the form `!args.AllowAdditional → return` shows up as the false edge
			if !ok1 {
				ok1 = c21GuardedBy(b, func(cond ssa.Value, truth bool) bool {
					return c24ImpliesAllow(cond, truth, isArgsField)
				})
			}
			c.Check(ok1, "R24d", key, call.Pos(), "a parameter is appended to `additional` only where args.AllowAdditional is known true (or flags were switched off, which itself requires AllowAdditional) — otherwise a stray non-flag argument is accepted although the table does not allow additional parameters")
		}
	}
	c.MinCount("R24d", "appends to `additional` in ParseFlags", nApp, 3)
	// ignoreFlags becomes true only under AllowAdditional
	if ignorePhi == nil {
		c.Undecided("R24d", "ParseFlags:ignoreFlags", fn.Pos(), "no loop-carried boolean that switches flag parsing off was recognised (`--` handling)")
	} else {
		seen := map[*ssa.Phi]bool{}
		var walk func(ph *ssa.Phi)
		nTrue := 0
		walk = func(ph *ssa.Phi) {
			if seen[ph] {
				return
			}
			seen[ph] = true
			for i, e := range ph.Edges {
				if q, ok := e.(*ssa.Phi); ok {
					walk(q)
					continue
				}
				if cb, ok := c21ConstBool(e); ok && cb {
					nTrue++
					pred := ph.Block().Preds[i]
					ok2 := c21GuardedBy(pred, isAllow) || c21GuardedBy(pred, func(cond ssa.Value, truth bool) bool {
						return c24ImpliesAllow(cond, truth, isArgsField)
					})
					// the block itself may end in the If that tests AllowAdditional (edge carries the fact)
					if !ok2 {
						if iff, isIf := pred.Instrs[len(pred.Instrs)-1].(*ssa.If); isIf {
							truth := pred.Succs[0] == ph.Block()
							cond, flip := c21StripNot(iff.Cond)
							if c24ImpliesAllow(cond, truth != flip, isArgsField) {
								ok2 = true
							}
						}
					}
					key := "ParseFlags:flags-off-needs-AllowAdditional"
					if nTrue > 1 {
						key += fmt.Sprintf("#%d", nTrue)
					}
					c.Check(ok2, "R24d", key, c.c21Pos(pred.Instrs[len(pred.Instrs)-1]), "flag parsing is switched off (`--`, strict placement) only under args.AllowAdditional — otherwise everything after `--` lands in `additional` although additional parameters are not allowed")
				}
			}
		}
		walk(ignorePhi)
		c.MinCount("R24d", "places that switch flag parsing off", nTrue, 2)
		// (--) every HasPrefix(param, "-") test is evaluated with ignoreFlags == false
		nHP := 0
		for _, b := range fn.Blocks {
			for _, in := range b.Instrs {
				call, ok := in.(*ssa.Call)
				if !ok || !c21IsCallTo(call, "strings", "", "HasPrefix") {
					continue
				}
				if s, ok := c21ConstString(c21CallArgs(call)[1]); !ok || s != "-" {
					continue
				}
				// only the test on the raw parameter (not on the table entry) is the flag test
				if c24IsTableLookup(c21CallArgs(call)[0]) {
					continue
				}
				nHP++
				key := "ParseFlags:flag-test-only-while-flags-on"
				if nHP > 1 {
					key += fmt.Sprintf("#%d", nHP)
				}
				ok2 := c21GuardedBy(b, func(cond ssa.Value, truth bool) bool {
					ph, ok := cond.(*ssa.Phi)
					return ok && !truth && c24SamePhiFamily(ph, ignorePhi)
				})
				c.Check(ok2, "R24d", key, call.Pos(), "the `-` prefix test on a parameter is evaluated only while flag parsing is on (ignoreFlags == false edge) — otherwise arguments after `--` are parsed as flags again instead of being passed through as additional")
			}
		}
		c.MinCount("R24d", "flag prefix tests on parameters", nHP, 1)
	}
}

// c24ImpliesAllow: the branch fact (cond == truth) implies args.AllowAdditional == true,
// looking through value-context `a && b` φs.
func c24ImpliesAllow(cond ssa.Value, truth bool, isArgsField func(ssa.Value, string) bool) bool {
	if isArgsField(cond, "AllowAdditional") {
		return truth
	}
	if !truth {
		return false
	}
	for _, f := range c22Implied(cond, 0) {
		if f.True && isArgsField(f.Cond, "AllowAdditional") {
			return true
		}
	}
	return false
}

// c24IsPendingFlag: v is the loop-carried string that holds a flag waiting for
// its value: a φ (family) whose non-φ inputs are "" constants and elements of the
// params slice.
func c24IsPendingFlag(v ssa.Value) bool {
	ph, ok := v.(*ssa.Phi)
	if !ok {
		return false
	}
	seen := map[*ssa.Phi]bool{}
	sawEmpty, sawElem := false, false
	var walk func(p *ssa.Phi) bool
	walk = func(p *ssa.Phi) bool {
		if seen[p] {
			return true
		}
		seen[p] = true
		for _, e := range p.Edges {
			switch x := e.(type) {
			case *ssa.Phi:
				if !walk(x) {
					return false
				}
			case *ssa.Const:
				if s, ok := c21ConstString(x); ok && s == "" {
					sawEmpty = true
				} else {
					return false
				}
			case *ssa.UnOp:
				if _, ok := c21Load(x); ok {
					sawElem = true
				} else {
					return false
				}
			default:
				return false
			}
		}
		return true
	}
	return walk(ph) && sawEmpty && sawElem
}

func c24SamePhiFamily(a, b *ssa.Phi) bool {
	if a == b {
		return true
	}
	seen := map[*ssa.Phi]bool{}
	var reach func(p *ssa.Phi) bool
	reach = func(p *ssa.Phi) bool {
		if p == b {
			return true
		}
		if seen[p] {
			return false
		}
		seen[p] = true
		for _, e := range p.Edges {
			if q, ok := e.(*ssa.Phi); ok && reach(q) {
				return true
			}
		}
		return false
	}
	if reach(a) {
		return true
	}
	seen = map[*ssa.Phi]bool{}
	a, b = b, a
	return reach(a)
}

// c24IsTableLookup: v is args.Flags[...] (a map lookup), not a raw parameter.
func c24IsTableLookup(v ssa.Value) bool {
	_, ok := v.(*ssa.Lookup)
	return ok
}

// c24LenCompare: bo compares len(s) with an integer constant; returns s, the
// constant and the operator normalised to `len(s) op k`.
func c24LenCompare(bo *ssa.BinOp) (s ssa.Value, k int64, op token.Token, ok bool) {
	x, y := bo.X, bo.Y
	op = bo.Op
	k, isK := c21ConstInt(y)
	if !isK {
		if k, isK = c21ConstInt(x); !isK {
			return nil, 0, op, false
		}
		x = y
		flip := map[token.Token]token.Token{token.LSS: token.GTR, token.GTR: token.LSS, token.LEQ: token.GEQ, token.GEQ: token.LEQ, token.EQL: token.EQL, token.NEQ: token.NEQ}
		var known bool
		if op, known = flip[op]; !known {
			return nil, 0, op, false
		}
	}
	switch op {
	case token.LSS, token.GTR, token.LEQ, token.GEQ, token.EQL, token.NEQ:
	default:
		return nil, 0, op, false
	}
	call, isCall := x.(*ssa.Call)
	if !isCall {
		return nil, 0, op, false
	}
	bi, isB := call.Common().Value.(*ssa.Builtin)
	if !isB || bi.Name() != "len" || len(call.Common().Args) != 1 {
		return nil, 0, op, false
	}
	return call.Common().Args[0], k, op, true
}
