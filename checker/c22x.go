package main

import (
	"go/ast"
	"go/types"
)

// R22d — "a private function in the caller's module": which module's privates a
// running function body can see is decided by the FileRef of its fork. Fork()
// copies the CALLING process's FileRef, so each function-call arm of
// executeProcess must replace it by the function's own FileRef before the body
// runs; otherwise a function called from another module resolves (or fails to
// resolve) privates against the wrong module.
func init() {
	extend("C22", func(c *Ctx) {
		c.Rule("R22d", "module of a running function: in executeProcess every fork.Execute(fn.Block) (private arm and function arm alike) is preceded on its path, in an enclosing block, by `fork.FileRef = fn.FileRef` for the same fork and the same fn")
		fd, pk := c.MustFunc("R22d", "lang", "", "executeProcess")
		if fd == nil {
			return
		}
		info := pk.TypesInfo
		defs := localDefs(info, fd.Body)
		n := 0
		walkStack(fd.Body, func(nd ast.Node, stack []ast.Node) bool {
			call, ok := nd.(*ast.CallExpr)
			if !ok || len(call.Args) != 1 {
				return true
			}
			fn, ok := callee(info, call).(*types.Func)
			if !ok || fn.Name() != "Execute" {
				return true
			}
			sig := fn.Type().(*types.Signature)
			if sig.Recv() == nil || namedName(sig.Recv().Type()) != "Fork" {
				return true
			}
			se, ok := unparen(call.Fun).(*ast.SelectorExpr)
			if !ok {
				return true
			}
			forkID, ok1 := unparen(se.X).(*ast.Ident)
			blk, ok2 := defs.resolve1(info, call.Args[0]).(*ast.SelectorExpr) // fn.Block or `body := fn.Block`
			if !ok1 || !ok2 || blk.Sel.Name != "Block" {
				return true
			}
			fnID, ok := unparen(blk.X).(*ast.Ident)
			if !ok {
				return true
			}
			n++
			forkObj, fnObj := info.ObjectOf(forkID), info.ObjectOf(fnID)
			key := "Execute(" + fnID.Name + ".Block)#" + itoa(n)
			found := false
			for i := len(stack) - 1; i > 0 && !found; i-- {
				var list []ast.Stmt
				switch b := stack[i-1].(type) {
				case *ast.BlockStmt:
					list = b.List
				case *ast.CaseClause:
					list = b.Body
				default:
					continue
				}
				for _, s := range list {
					if ast.Node(s) == stack[i] {
						break
					}
					as, ok := s.(*ast.AssignStmt)
					if !ok || len(as.Lhs) != 1 || len(as.Rhs) != 1 {
						continue
					}
					l, okl := unparen(as.Lhs[0]).(*ast.SelectorExpr)
					r, okr := defs.resolve1(info, as.Rhs[0]).(*ast.SelectorExpr)
					if !okl || !okr || l.Sel.Name != "FileRef" || r.Sel.Name != "FileRef" {
						continue
					}
					// the fork: `fork`, its embedded process written out (`fork.Process`), or a local holding that
					// pointer (`proc := fork.Process`) — the FileRef they name is the same field of the same object
					lx := unparen(l.X)
					if emb, isSel := defs.resolve1(info, lx).(*ast.SelectorExpr); isSel {
						if sel := info.Selections[emb]; sel != nil && sel.Kind() == types.FieldVal {
							if f, isVar := sel.Obj().(*types.Var); isVar && f.Embedded() {
								lx = unparen(emb.X)
							}
						}
					}
					li, ok1 := lx.(*ast.Ident)
					ri, ok2 := unparen(r.X).(*ast.Ident)
					if ok1 && ok2 && info.ObjectOf(li) == forkObj && info.ObjectOf(ri) == fnObj {
						found = true
					}
				}
			}
			c.Check(found, "R22d", key, call.Pos(), "%s.Execute(%s.Block) runs with %s.FileRef = %s.FileRef set beforehand (else the body resolves privates in the caller's module)", forkID.Name, fnID.Name, forkID.Name, fnID.Name)
			return true
		})
		c.MinCount("R22d", "function bodies executed by executeProcess", n, 2)
	})
}
